package main

import (
	"fmt"
	"go/ast"
	"go/parser"
	"go/token"
	"io/ioutil"
	"os"
	"path/filepath"
	"sort"
	"strings"
)

// Family "queuesites" (C13): guarded package-level SLICES and what is done with them.
//
// FOUND BY SHAPE in every package of the tree that declares a package-level sync.Mutex / sync.RWMutex: a package-level
// variable of slice type that is mentioned at least once while such a mutex is syntactically held (today: the four
// declaration queues types.resolvableTypes / resolvableMappings / constructorsDecls and internal.resolvableFunctions).
// For every mention one row: the function, the variable, the kind of site, the package-level mutexes held there
// (M.Lock() … M.Unlock(), `defer M.Unlock()` = held to the end of the function; function literals are analysed as
// functions of their own with no lock held, they run later), and for a site where the slice VALUE leaves the critical
// section (`local = q`, `return q`) what the same critical section then leaves in the guarded variable:
//
//	fresh            q = make(…) | nil | []T{…}             (directly in the function body)
//	freshIfNonEmpty  the same under `if len(local|q) > 0 { … }` (no else)
//	reslice          q = q[a:b] | local[a:b]                 (the escaped slice and the variable share one array)
//	none             nothing                                  (the live slice itself was handed out)
//	unknown          anything else (another condition, a loop, two assignments …)
//
// The same spirit as the rule of family locksets "a guarded map copied into a variable is an alias": a lock-set analysis
// sees every site under the lock and is blind to what is done later through a value that left the critical section.
// Anything not understood becomes a row of kind `unknown` (or a row whose variable is "unknown: …"), which no side
// condition accepts.

func init() { register("queuesites", "QueueSites", genQueueSites) }

type qsRow struct {
	pkg, file, fn, v string
	kind, rebind     string
	held             []string
	initFn           bool
	line             int
	local            string // escape sites: the local the value was copied to ("" for `return q`)
}

type qsPkg struct {
	dir     string
	files   map[string]*ast.File
	mutexes map[string]*ast.ValueSpec
	slices  map[string]*ast.ValueSpec
	rows    []*qsRow
}

func qsIsMutexType(e ast.Expr) bool {
	sel, ok := e.(*ast.SelectorExpr)
	if !ok {
		return false
	}
	id, ok := sel.X.(*ast.Ident)
	return ok && id.Name == "sync" && (sel.Sel.Name == "Mutex" || sel.Sel.Name == "RWMutex")
}

func qsIsSliceType(e ast.Expr) bool {
	at, ok := e.(*ast.ArrayType)
	return ok && at.Len == nil
}

func qsIsSliceInit(e ast.Expr) bool {
	switch x := e.(type) {
	case *ast.CallExpr:
		if id, ok := x.Fun.(*ast.Ident); ok && id.Name == "make" && len(x.Args) > 0 {
			return qsIsSliceType(x.Args[0])
		}
	case *ast.CompositeLit:
		return x.Type != nil && qsIsSliceType(x.Type)
	}
	return false
}

type qsWalker struct {
	p       *qsPkg
	file    string
	fn      string
	initFn  bool
	nlit    int
	rows    []*qsRow
	pending map[string][]*qsRow // escape rows of the current critical section, by variable
}

func (w *qsWalker) tracked(e ast.Expr) (string, bool) {
	id, ok := e.(*ast.Ident)
	if !ok {
		return "", false
	}
	spec, ok := w.p.slices[id.Name]
	if !ok {
		return "", false
	}
	if id.Obj != nil && id.Obj.Decl != interface{}(spec) {
		return "", false // a local of the same name
	}
	return id.Name, true
}

func (w *qsWalker) row(v, kind, rebind string, held map[string]bool, pos token.Pos) *qsRow {
	r := &qsRow{pkg: w.p.dir, file: w.file, fn: w.fn, v: v, kind: kind, rebind: rebind, held: setList(held), initFn: w.initFn,
		line: fset.Position(pos).Line}
	w.rows = append(w.rows, r)
	return r
}

func (w *qsWalker) unknown(what string, pos token.Pos) {
	w.row("unknown: "+what+" in "+w.fn, "unknown", "na", nil, pos)
}

func (w *qsWalker) mutexOp(call *ast.CallExpr) (m, op string, ok bool) {
	sel, isSel := call.Fun.(*ast.SelectorExpr)
	if !isSel {
		return
	}
	switch sel.Sel.Name {
	case "Lock", "RLock", "Unlock", "RUnlock":
	default:
		return
	}
	if id, isId := sel.X.(*ast.Ident); isId {
		if spec, known := w.p.mutexes[id.Name]; known && (id.Obj == nil || id.Obj.Decl == interface{}(spec)) {
			return id.Name, sel.Sel.Name, true
		}
	}
	return
}

// funcLit: a function literal is a function of its own (it runs later, or on another goroutine): no lock held
func (w *qsWalker) funcLit(fl *ast.FuncLit) {
	w.nlit++
	sub := &qsWalker{p: w.p, file: w.file, fn: fmt.Sprintf("%s$lit%d", w.fn, w.nlit), pending: map[string][]*qsRow{}}
	sub.block(fl.Body.List, map[string]bool{}, "top")
	w.rows = append(w.rows, sub.rows...)
}

// scan an expression for mentions of tracked slices that are reads; anything else that mentions one is `unknown`
func (w *qsWalker) scan(e ast.Node, held map[string]bool) {
	if e == nil {
		return
	}
	ast.Inspect(e, func(n ast.Node) bool {
		switch n := n.(type) {
		case *ast.FuncLit:
			w.funcLit(n)
			return false
		case *ast.CallExpr:
			if id, ok := n.Fun.(*ast.Ident); ok {
				switch {
				case (id.Name == "len" || id.Name == "cap") && len(n.Args) == 1:
					if v, ok := w.tracked(n.Args[0]); ok {
						w.row(v, "read", "na", held, n.Pos())
						return false
					}
				case id.Name == "copy" && len(n.Args) == 2:
					if v, ok := w.tracked(n.Args[1]); ok {
						w.row(v, "read", "na", held, n.Pos())
						w.scan(n.Args[0], held)
						return false
					}
				case id.Name == "append" && n.Ellipsis.IsValid() && len(n.Args) == 2:
					if v, ok := w.tracked(n.Args[1]); ok {
						if _, self := w.tracked(n.Args[0]); !self {
							w.row(v, "read", "na", held, n.Pos())
							w.scan(n.Args[0], held)
							return false
						}
					}
				}
			}
		case *ast.IndexExpr:
			if v, ok := w.tracked(n.X); ok {
				w.row(v, "read", "na", held, n.Pos())
				w.scan(n.Index, held)
				return false
			}
		case *ast.Ident:
			if v, ok := w.tracked(n); ok {
				w.row(v, "unknown", "na", held, n.Pos())
			}
		}
		return true
	})
}

func (w *qsWalker) block(stmts []ast.Stmt, held map[string]bool, nest string) map[string]bool {
	for _, s := range stmts {
		held = w.stmt(s, held, nest)
	}
	return held
}

func (w *qsWalker) branches(held map[string]bool, nest string, bodies ...[]ast.Stmt) map[string]bool {
	for _, b := range bodies {
		after := w.block(b, copySet(held), nest)
		if !sameSet(after, held) && !endsInReturn(b) {
			w.unknown("a branch changes the lock set", b[0].Pos())
		}
	}
	return held
}

// nonEmptyCond: `len(x) > 0`, `len(x) != 0`, `0 < len(x)`, `len(x) >= 1` where x is the tracked variable itself or the
// local an escape site of the current critical section copied it to → the variable's name
func (w *qsWalker) nonEmptyCond(e ast.Expr) (string, bool) {
	be, ok := e.(*ast.BinaryExpr)
	if !ok {
		return "", false
	}
	lenOf := func(x ast.Expr) (ast.Expr, bool) {
		c, ok := x.(*ast.CallExpr)
		if !ok || len(c.Args) != 1 {
			return nil, false
		}
		id, ok := c.Fun.(*ast.Ident)
		return c.Args[0], ok && id.Name == "len"
	}
	lit := func(x ast.Expr, v string) bool {
		b, ok := x.(*ast.BasicLit)
		return ok && b.Value == v
	}
	var arg ast.Expr
	if a, ok := lenOf(be.X); ok && ((be.Op == token.GTR && lit(be.Y, "0")) || (be.Op == token.NEQ && lit(be.Y, "0")) || (be.Op == token.GEQ && lit(be.Y, "1"))) {
		arg = a
	} else if a, ok := lenOf(be.Y); ok && be.Op == token.LSS && lit(be.X, "0") {
		arg = a
	} else {
		return "", false
	}
	if v, ok := w.tracked(arg); ok {
		return v, true
	}
	if id, ok := arg.(*ast.Ident); ok {
		for v, rs := range w.pending {
			for _, r := range rs {
				if r.local != "" && r.local == id.Name {
					return v, true
				}
			}
		}
	}
	return "", false
}

// sliceBase: is e the tracked variable v or a local that an escape site of the current critical section copied it to?
func (w *qsWalker) sliceBase(e ast.Expr) (string, bool) {
	if v, ok := w.tracked(e); ok {
		return v, true
	}
	if id, ok := e.(*ast.Ident); ok {
		for v, rs := range w.pending {
			for _, r := range rs {
				if r.local != "" && r.local == id.Name {
					return v, true
				}
			}
		}
	}
	return "", false
}

func (w *qsWalker) rebind(v, what, nest string) {
	for _, r := range w.pending[v] {
		switch {
		case what == "reslice":
			r.rebind = "reslice"
		case r.rebind != "none":
			r.rebind = "unknown" // assigned twice
		case nest == "top":
			r.rebind = "fresh"
		case nest == "nonempty:"+v:
			r.rebind = "freshIfNonEmpty"
		default:
			r.rebind = "unknown"
		}
	}
}

func (w *qsWalker) assign(s *ast.AssignStmt, held map[string]bool, nest string) {
	if len(s.Lhs) != len(s.Rhs) {
		for _, l := range s.Lhs {
			if v, ok := w.tracked(l); ok {
				w.row(v, "unknown", "na", held, l.Pos())
			} else {
				w.scan(l, held)
			}
		}
		for _, r := range s.Rhs {
			w.scan(r, held)
		}
		return
	}
	for i, l := range s.Lhs {
		r := s.Rhs[i]
		if v, ok := w.tracked(l); ok {
			// q = …
			switch x := r.(type) {
			case *ast.CallExpr:
				if id, isId := x.Fun.(*ast.Ident); isId && id.Name == "append" && len(x.Args) >= 1 {
					if v2, self := w.tracked(x.Args[0]); self && v2 == v {
						w.row(v, "append", "na", held, s.Pos())
						for _, a := range x.Args[1:] {
							w.scan(a, held)
						}
						continue
					}
				}
				if qsIsSliceInit(x) {
					w.row(v, "fresh", "na", held, s.Pos())
					w.rebind(v, "fresh", nest)
					for _, a := range x.Args[1:] {
						w.scan(a, held)
					}
					continue
				}
			case *ast.CompositeLit:
				if qsIsSliceInit(x) {
					w.row(v, "fresh", "na", held, s.Pos())
					w.rebind(v, "fresh", nest)
					w.scan(x, held)
					continue
				}
			case *ast.Ident:
				if x.Name == "nil" && x.Obj == nil {
					w.row(v, "fresh", "na", held, s.Pos())
					w.rebind(v, "fresh", nest)
					continue
				}
			case *ast.SliceExpr:
				if v2, ok := w.sliceBase(x.X); ok && v2 == v {
					w.row(v, "reslice", "na", held, s.Pos())
					w.rebind(v, "reslice", nest)
					w.scan(x.Low, held)
					w.scan(x.High, held)
					w.scan(x.Max, held)
					continue
				}
			}
			w.row(v, "unknown", "na", held, s.Pos())
			w.scan(r, held)
			continue
		}
		if ix, ok := l.(*ast.IndexExpr); ok {
			if v, ok := w.tracked(ix.X); ok {
				w.row(v, "write", "na", held, s.Pos())
				w.scan(ix.Index, held)
				w.scan(r, held)
				continue
			}
		}
		if v, ok := w.tracked(r); ok {
			// local = q : the value leaves the critical section with the local
			local := ""
			if id, isId := l.(*ast.Ident); isId {
				local = id.Name
			}
			er := w.row(v, "escape", "none", held, s.Pos())
			er.local = local
			if local == "" {
				er.kind = "unknown" // stored into a field, an element, …
				er.rebind = "na"
			} else {
				w.pending[v] = append(w.pending[v], er)
			}
			continue
		}
		w.scan(l, held)
		w.scan(r, held)
	}
}

func (w *qsWalker) stmt(s ast.Stmt, held map[string]bool, nest string) map[string]bool {
	switch s := s.(type) {
	case *ast.ExprStmt:
		if call, ok := s.X.(*ast.CallExpr); ok {
			if m, op, ok := w.mutexOp(call); ok {
				held = copySet(held)
				switch op {
				case "Lock":
					held[m] = true
				case "RLock":
					held[m+":r"] = true
				case "Unlock":
					delete(held, m)
					w.pending = map[string][]*qsRow{} // the critical section ends here
				case "RUnlock":
					delete(held, m+":r")
					w.pending = map[string][]*qsRow{}
				}
				return held
			}
		}
		w.scan(s.X, held)
	case *ast.DeferStmt:
		if _, op, ok := w.mutexOp(s.Call); ok {
			if op == "Unlock" || op == "RUnlock" {
				return held // released at function end: held for the rest of the body
			}
			w.unknown("deferred "+op, s.Pos())
			return held
		}
		if fl, ok := s.Call.Fun.(*ast.FuncLit); ok {
			w.funcLit(fl)
			for _, a := range s.Call.Args {
				w.scan(a, held)
			}
			return held
		}
		w.scan(s.Call, map[string]bool{})
	case *ast.GoStmt:
		if fl, ok := s.Call.Fun.(*ast.FuncLit); ok {
			w.funcLit(fl)
			for _, a := range s.Call.Args {
				w.scan(a, held)
			}
			return held
		}
		w.scan(s.Call, map[string]bool{})
	case *ast.AssignStmt:
		w.assign(s, held, nest)
	case *ast.IfStmt:
		if s.Init != nil {
			held = w.stmt(s.Init, held, "other")
		}
		inner := "other"
		if v, ok := w.nonEmptyCond(s.Cond); ok && nest == "top" && s.Else == nil && s.Init == nil {
			inner = "nonempty:" + v
		}
		w.scan(s.Cond, held)
		bodies := [][]ast.Stmt{s.Body.List}
		switch e := s.Else.(type) {
		case *ast.BlockStmt:
			bodies = append(bodies, e.List)
		case *ast.IfStmt:
			bodies = append(bodies, []ast.Stmt{e})
		}
		return w.branches(held, inner, bodies...)
	case *ast.ForStmt:
		if s.Init != nil {
			held = w.stmt(s.Init, held, "other")
		}
		w.scan(s.Cond, held)
		if s.Post != nil {
			w.stmt(s.Post, held, "other")
		}
		return w.branches(held, "other", s.Body.List)
	case *ast.RangeStmt:
		if v, ok := w.tracked(s.X); ok {
			w.row(v, "read", "na", held, s.Pos())
		} else {
			w.scan(s.X, held)
		}
		return w.branches(held, "other", s.Body.List)
	case *ast.SwitchStmt:
		if s.Init != nil {
			held = w.stmt(s.Init, held, "other")
		}
		w.scan(s.Tag, held)
		for _, c := range s.Body.List {
			cc := c.(*ast.CaseClause)
			for _, e := range cc.List {
				w.scan(e, held)
			}
			if len(cc.Body) > 0 {
				w.branches(held, "other", cc.Body)
			}
		}
	case *ast.TypeSwitchStmt:
		if s.Init != nil {
			held = w.stmt(s.Init, held, "other")
		}
		w.stmt(s.Assign, held, "other")
		for _, c := range s.Body.List {
			if b := c.(*ast.CaseClause).Body; len(b) > 0 {
				w.branches(held, "other", b)
			}
		}
	case *ast.SelectStmt:
		for _, c := range s.Body.List {
			cc := c.(*ast.CommClause)
			if cc.Comm != nil {
				w.stmt(cc.Comm, held, "other")
			}
			if len(cc.Body) > 0 {
				w.branches(held, "other", cc.Body)
			}
		}
	case *ast.BlockStmt:
		return w.block(s.List, held, "other")
	case *ast.ReturnStmt:
		for _, r := range s.Results {
			if v, ok := w.tracked(r); ok {
				// `return q`: the live slice itself is handed out (whatever is deferred runs after the value is taken)
				w.row(v, "escape", "none", held, r.Pos())
				continue
			}
			w.scan(r, held)
		}
	case *ast.DeclStmt:
		w.scan(s.Decl, held)
	case *ast.IncDecStmt:
		w.scan(s.X, held)
	case *ast.SendStmt:
		w.scan(s.Chan, held)
		w.scan(s.Value, held)
	case *ast.BranchStmt, *ast.EmptyStmt:
	case *ast.LabeledStmt:
		return w.stmt(s.Stmt, held, nest)
	default:
		w.unknown(fmt.Sprintf("statement %T", s), s.Pos())
	}
	return held
}

func qsSkipFile(name string) bool {
	return !strings.HasSuffix(name, ".go") || strings.HasSuffix(name, "_test.go") || strings.HasPrefix(name, "verif_")
}

func genQueueSites() string {
	var dirs []string
	err := filepath.Walk(*repo, func(path string, info os.FileInfo, err error) error {
		if err != nil {
			return err
		}
		if info.IsDir() {
			n := info.Name()
			if path != *repo && (strings.HasPrefix(n, ".") || n == "vendor" || n == "testdata" || n == "docs" || n == "verifhook") {
				return filepath.SkipDir
			}
			dirs = append(dirs, path)
		}
		return nil
	})
	if err != nil {
		panic(err)
	}
	sort.Strings(dirs)
	var rows []*qsRow
	var scanned []string
	for _, dir := range dirs {
		infos, err := ioutil.ReadDir(dir)
		if err != nil {
			panic(err)
		}
		rel, _ := filepath.Rel(*repo, dir)
		p := &qsPkg{dir: rel, files: map[string]*ast.File{}, mutexes: map[string]*ast.ValueSpec{}, slices: map[string]*ast.ValueSpec{}}
		var names []string
		for _, fi := range infos {
			if fi.IsDir() || qsSkipFile(fi.Name()) {
				continue
			}
			names = append(names, fi.Name())
		}
		if len(names) == 0 {
			continue
		}
		// a cheap pre-filter: only packages that mention a package-level mutex are parsed with function bodies
		any := false
		for _, n := range names {
			b, err := ioutil.ReadFile(filepath.Join(dir, n))
			if err != nil {
				panic(err)
			}
			if strings.Contains(string(b), "sync.Mutex") || strings.Contains(string(b), "sync.RWMutex") {
				any = true
				break
			}
		}
		if !any {
			continue
		}
		for _, n := range names {
			f, err := parser.ParseFile(fset, filepath.Join(dir, n), nil, 0)
			if err != nil {
				panic(err)
			}
			p.files[n] = f
			for _, d := range f.Decls {
				gd, ok := d.(*ast.GenDecl)
				if !ok || gd.Tok != token.VAR {
					continue
				}
				for _, sp := range gd.Specs {
					vs := sp.(*ast.ValueSpec)
					for i, id := range vs.Names {
						switch {
						case vs.Type != nil && qsIsMutexType(vs.Type):
							p.mutexes[id.Name] = vs
						case vs.Type != nil && qsIsSliceType(vs.Type):
							p.slices[id.Name] = vs
						case vs.Type == nil && i < len(vs.Values) && qsIsSliceInit(vs.Values[i]):
							p.slices[id.Name] = vs
						}
					}
				}
			}
		}
		if len(p.mutexes) == 0 || len(p.slices) == 0 {
			continue
		}
		scanned = append(scanned, rel)
		sort.Strings(names)
		var prows []*qsRow
		for _, n := range names {
			for _, d := range p.files[n].Decls {
				switch d := d.(type) {
				case *ast.FuncDecl:
					if d.Body == nil {
						continue
					}
					name := d.Name.Name
					if d.Recv != nil && len(d.Recv.List) == 1 {
						t := d.Recv.List[0].Type
						if st, ok := t.(*ast.StarExpr); ok {
							t = st.X
						}
						if id, ok := t.(*ast.Ident); ok {
							name = id.Name + "." + name
						}
					}
					w := &qsWalker{p: p, file: filepath.Join(rel, n), fn: name, initFn: d.Recv == nil && d.Name.Name == "init", pending: map[string][]*qsRow{}}
					w.block(d.Body.List, map[string]bool{}, "top")
					prows = append(prows, w.rows...)
				case *ast.GenDecl:
					if d.Tok != token.VAR {
						continue
					}
					// function literals in package-level initialisers
					for _, sp := range d.Specs {
						vs := sp.(*ast.ValueSpec)
						for _, v := range vs.Values {
							w := &qsWalker{p: p, file: filepath.Join(rel, n), fn: "var " + vs.Names[0].Name, initFn: true, pending: map[string][]*qsRow{}}
							w.scan(v, map[string]bool{})
							prows = append(prows, w.rows...)
						}
					}
				}
			}
		}
		// guarded = mentioned at least once (outside initialisation) with a package-level mutex held
		guarded := map[string]bool{}
		fnHas := map[string]bool{}
		for _, r := range prows {
			if !r.initFn && len(r.held) > 0 && !strings.HasPrefix(r.v, "unknown") {
				guarded[r.v] = true
			}
		}
		for _, r := range prows {
			if guarded[r.v] {
				fnHas[r.file+"\x00"+strings.SplitN(r.fn, "$", 2)[0]] = true
			}
		}
		for _, r := range prows {
			switch {
			case guarded[r.v]:
				rows = append(rows, r)
			case strings.HasPrefix(r.v, "unknown") && fnHas[r.file+"\x00"+strings.SplitN(r.fn, "$", 2)[0]]:
				rows = append(rows, r)
			}
		}
	}
	sort.SliceStable(rows, func(i, j int) bool {
		if rows[i].file != rows[j].file {
			return rows[i].file < rows[j].file
		}
		return rows[i].line < rows[j].line
	})
	var b strings.Builder
	b.WriteString(header("queuesites", "every package with a package-level mutex and a package-level slice ("+strings.Join(scanned, ", ")+")"))
	b.WriteString("import Pcore.Model.ConcQueueSites\nnamespace Pcore.Generated\nopen Pcore.ConcQueue\n\ndef queueSites : List QueueSite := [\n")
	for i, r := range rows {
		var hs []string
		for _, h := range r.held {
			hs = append(hs, leanStr(h))
		}
		sep := ","
		if i == len(rows)-1 {
			sep = ""
		}
		v := r.v
		if !strings.HasPrefix(v, "unknown") {
			v = r.pkg + "." + v
		}
		fmt.Fprintf(&b, "  { fn := %s, var := %s, kind := .%s, rebind := .%s, held := [%s], init := %v }%s  -- %s:%d\n",
			leanStr(r.fn), leanStr(v), r.kind, r.rebind, strings.Join(hs, ", "), r.initFn, sep, r.file, r.line)
	}
	b.WriteString("]\n\nend Pcore.Generated\n")
	return b.String()
}
