package main

import (
	"go/ast"
	"go/parser"
	"go/token"
	"regexp"
	"strings"
	"unicode"
)

// inlineResultHelpers is the companion of inlineHelpers (inline.go) for helpers that RETURN something.  One level deep, a
// statement
//
//	x1, …, xn := helper(args…)
//
// where `helper` is an unexported plain function (no receiver) of the same file whose body is at most six simple statements
// (expression statements, assignments, declarations, ++/--) followed by ONE `return e1, …, en` of plain identifiers, is
// replaced by that body: the parameters are replaced by the argument texts and each returned identifier ei is renamed to the
// assigned xi.  (Extracting the common prologue of several functions into such a helper is a behaviour-preserving rewrite;
// harmless/H11 item 8 does it to threadlocal.Get/Delete/Set.)  Anything else is left alone, and so is a call whose inlining
// would capture a name (an xi that the helper body already uses for something else).  The callee's own calls are NOT inlined.
func inlineResultHelpers(f *ast.File, stmts []ast.Stmt) []ast.Stmt {
	helpers := map[string]*ast.FuncDecl{}
	for _, d := range f.Decls {
		fd, ok := d.(*ast.FuncDecl)
		if !ok || fd.Body == nil || fd.Recv != nil || fd.Type.Results == nil {
			continue
		}
		r := []rune(fd.Name.Name)
		if len(r) == 0 || !unicode.IsLower(r[0]) {
			continue
		}
		n := len(fd.Body.List)
		if n < 1 || n > 7 {
			continue
		}
		helpers[fd.Name.Name] = fd
	}
	ident := regexp.MustCompile(`^[A-Za-z_][A-Za-z_0-9]*$`)
	var out []ast.Stmt
	for _, s := range stmts {
		body, ok := inlineOneResultHelper(helpers, ident, s)
		if ok {
			out = append(out, body...)
		} else {
			out = append(out, s)
		}
	}
	return out
}

func inlineOneResultHelper(helpers map[string]*ast.FuncDecl, ident *regexp.Regexp, s ast.Stmt) ([]ast.Stmt, bool) {
	as, ok := s.(*ast.AssignStmt)
	if !ok || as.Tok != token.DEFINE || len(as.Rhs) != 1 {
		return nil, false
	}
	call, ok := as.Rhs[0].(*ast.CallExpr)
	if !ok || call.Ellipsis != token.NoPos {
		return nil, false
	}
	fn, ok := call.Fun.(*ast.Ident)
	if !ok {
		return nil, false
	}
	fd, ok := helpers[fn.Name]
	if !ok {
		return nil, false
	}
	var lhs []string
	for _, l := range as.Lhs {
		id, ok := l.(*ast.Ident)
		if !ok {
			return nil, false
		}
		lhs = append(lhs, id.Name)
	}
	var params []string
	if fd.Type.Params != nil {
		for _, p := range fd.Type.Params.List {
			if len(p.Names) == 0 {
				return nil, false
			}
			for _, n := range p.Names {
				params = append(params, n.Name)
			}
		}
	}
	if len(params) != len(call.Args) {
		return nil, false
	}
	n := len(fd.Body.List)
	ret, ok := fd.Body.List[n-1].(*ast.ReturnStmt)
	if !ok || len(ret.Results) != len(lhs) {
		return nil, false
	}
	var results []string
	for _, r := range ret.Results {
		id, ok := r.(*ast.Ident)
		if !ok {
			return nil, false
		}
		results = append(results, id.Name)
	}
	var texts []string
	for _, hs := range fd.Body.List[:n-1] {
		switch hs.(type) {
		case *ast.ExprStmt, *ast.AssignStmt, *ast.DeclStmt, *ast.IncDecStmt:
		default:
			return nil, false
		}
		texts = append(texts, src(hs))
	}
	word := func(w string) *regexp.Regexp { return regexp.MustCompile(`\b` + regexp.QuoteMeta(w) + `\b`) }
	// renaming ei -> xi must not capture: xi may occur in the body only as ei itself
	for i, x := range lhs {
		if x == "_" || !ident.MatchString(x) {
			return nil, false
		}
		if x == results[i] {
			continue
		}
		for _, t := range texts {
			if word(x).MatchString(t) {
				return nil, false
			}
		}
		for j, r := range results {
			if j != i && r == results[i] {
				return nil, false // the same local returned twice
			}
		}
	}
	var body []ast.Stmt
	for _, t := range texts {
		for i, r := range results {
			if r != lhs[i] {
				t = word(r).ReplaceAllString(t, lhs[i])
			}
		}
		for i, p := range params {
			t = word(p).ReplaceAllString(t, strings.ReplaceAll(src(call.Args[i]), "$", "$$"))
		}
		parsed, err := parser.ParseFile(fset, "", "package p\nfunc _() {\n"+t+"\n}", 0)
		if err != nil {
			return nil, false
		}
		body = append(body, parsed.Decls[0].(*ast.FuncDecl).Body.List...)
	}
	return body, true
}
