package main

import (
	"fmt"
	"go/ast"
	"os"
	"path/filepath"
	"sort"
	"strings"
	"unicode"
)

// Family "mutatorcalls" (property C08): the fields of every value struct are unexported, so code OUTSIDE package `types`
// can change a value only by calling an exported method that assigns them.  Emitted:
//
//   mutatorNames   the exported method names of value structs that assign a field of their receiver otherwise than as a
//                  guarded lazy fill (rows `.write` / `.elem` / `.reset` of family fieldwrites whose target is the
//                  receiver), closed under "calls such a method on its receiver" (Put calls PutAll)
//   mutatorCalls   every call `x.M(…)` with M ∈ mutatorNames in a non-test file of any OTHER package of the repository:
//                  (file, M) — per file, so that extracting or renaming a function inside a file adds no row; name based: the receiver's type is not resolved, so a
//                  method of the same name on a non-value (a loader's Resolve) is listed too
//
//   aliasAccessors every exported method of a value struct with `return recv.f` for a slice / map field f: the accessor
//                  hands out internal storage, a caller can write into the value through it
//
// The reviewed white list lives in hand-written Lean (`MutatorCallsSafe`: inclusion).

func init() { register("mutatorcalls", "MutatorCalls", genMutatorCalls) }

func exported(name string) bool {
	for _, r := range name {
		return unicode.IsUpper(r)
	}
	return false
}

func genMutatorCalls() string {
	rows, valueNames, _ := fwAnalyse("types", "")
	// methods (Type.method) that assign their receiver's fields
	mut := map[string]bool{}
	for _, r := range rows {
		if r.kind == ".write" || r.kind == ".elem" || r.kind == ".reset" {
			// the target is the receiver itself (a method of T assigning a field of T)
			if strings.HasPrefix(r.fn, r.ty+".") {
				mut[r.fn] = true
			}
		}
	}
	// closure: a method of T that calls recv.m(...) with T.m (or an embedded struct's method of that name) a mutator
	files, _ := filepath.Glob(filepath.Join(*repo, "types", "*.go"))
	sort.Strings(files)
	type call struct{ caller, callee string }
	var calls []call
	for _, abs := range files {
		if strings.HasSuffix(abs, "_test.go") {
			continue
		}
		rel, _ := filepath.Rel(*repo, abs)
		f := parseFile(rel)
		for _, d := range f.Decls {
			fd, ok := d.(*ast.FuncDecl)
			if !ok || fd.Body == nil || fd.Recv == nil {
				continue
			}
			recv := recvVarName(fd)
			ast.Inspect(fd.Body, func(n ast.Node) bool {
				if ce, ok := n.(*ast.CallExpr); ok {
					if se, ok := ce.Fun.(*ast.SelectorExpr); ok {
						if id, ok := se.X.(*ast.Ident); ok && id.Name == recv && recv != "" {
							calls = append(calls, call{funcKey(fd), se.Sel.Name})
						}
					}
				}
				return true
			})
		}
	}
	mutName := func(m string) bool {
		for k := range mut {
			if strings.HasSuffix(k, "."+m) {
				return true
			}
		}
		return false
	}
	for changed := true; changed; {
		changed = false
		for _, c := range calls {
			if !mut[c.caller] && mutName(c.callee) {
				// only when the callee is a mutator of the same struct or of one it embeds: approximated by name
				t := c.caller[:strings.Index(c.caller, ".")]
				if mut[t+"."+c.callee] || t == "MutableHashValue" {
					mut[c.caller] = true
					changed = true
				}
			}
		}
	}
	names := map[string]bool{}
	for k := range mut {
		m := k[strings.Index(k, ".")+1:]
		if exported(m) {
			names[m] = true
		}
	}
	var nl []string
	for n := range names {
		nl = append(nl, n)
	}
	sort.Strings(nl)

	type crow struct{ pkg, fn, m string }
	seen := map[crow]bool{}
	_ = filepath.Walk(*repo, func(path string, info os.FileInfo, err error) error {
		if err != nil {
			return nil
		}
		if info.IsDir() {
			b := filepath.Base(path)
			if path != *repo && (strings.HasPrefix(b, ".") || b == "vendor" || b == "testdata") {
				return filepath.SkipDir
			}
			return nil
		}
		if !strings.HasSuffix(path, ".go") || strings.HasSuffix(path, "_test.go") {
			return nil
		}
		rel, _ := filepath.Rel(*repo, path)
		dir := filepath.Dir(rel)
		if dir == "types" {
			return nil
		}
		f := parseFile(rel)
		pkgs := map[string]bool{}
		for _, im := range f.Imports {
			name := strings.Trim(im.Path.Value, "\"`")
			if i := strings.LastIndex(name, "/"); i >= 0 {
				name = name[i+1:]
			}
			if im.Name != nil {
				name = im.Name.Name
			}
			pkgs[name] = true
		}
		for _, d := range f.Decls {
			fd, ok := d.(*ast.FuncDecl)
			if !ok || fd.Body == nil {
				continue
			}
			ast.Inspect(fd.Body, func(n ast.Node) bool {
				if ce, ok := n.(*ast.CallExpr); ok {
					if se, ok := ce.Fun.(*ast.SelectorExpr); ok && names[se.Sel.Name] {
						if id, ok := se.X.(*ast.Ident); ok && pkgs[id.Name] {
							return true // a package-level function
						}
						seen[crow{rel, "", se.Sel.Name}] = true
					}
				}
				return true
			})
		}
		return nil
	})
	var cl []crow
	for c := range seen {
		cl = append(cl, c)
	}
	sort.Slice(cl, func(i, j int) bool {
		a, b := cl[i], cl[j]
		if a.pkg != b.pkg {
			return a.pkg < b.pkg
		}
		if a.fn != b.fn {
			return a.fn < b.fn
		}
		return a.m < b.m
	})
	// accessors that hand out internal storage: an exported method of a value struct returning a slice / map field of
	// its receiver as it is (`return dt.params`): whoever calls it can write into the value
	isValue := map[string]bool{}
	for _, v := range valueNames {
		isValue[v] = true
	}
	fieldKind := map[string]map[string]bool{} // struct -> field -> is slice or map
	var parsedTypes []*ast.File
	for _, abs := range files {
		if strings.HasSuffix(abs, "_test.go") {
			continue
		}
		rel, _ := filepath.Rel(*repo, abs)
		f := parseFile(rel)
		parsedTypes = append(parsedTypes, f)
		ast.Inspect(f, func(n ast.Node) bool {
			ts, ok := n.(*ast.TypeSpec)
			if !ok {
				return true
			}
			st, ok := ts.Type.(*ast.StructType)
			if !ok {
				return true
			}
			m := map[string]bool{}
			for _, fl := range st.Fields.List {
				_, isSlice := fl.Type.(*ast.ArrayType)
				_, isMap := fl.Type.(*ast.MapType)
				for _, nm := range fl.Names {
					m[nm.Name] = isSlice || isMap
				}
			}
			fieldKind[ts.Name.Name] = m
			return false
		})
	}
	type arow struct{ fn, field string }
	aseen := map[arow]bool{}
	for _, f := range parsedTypes {
		for _, d := range f.Decls {
			fd, ok := d.(*ast.FuncDecl)
			if !ok || fd.Body == nil || fd.Recv == nil || !exported(fd.Name.Name) {
				continue
			}
			t := recvTypeName(fd)
			recv := recvVarName(fd)
			if !isValue[t] || recv == "" {
				continue
			}
			ast.Inspect(fd.Body, func(n ast.Node) bool {
				if _, ok := n.(*ast.FuncLit); ok {
					return false
				}
				if rs, ok := n.(*ast.ReturnStmt); ok {
					for _, r := range rs.Results {
						if se, ok := r.(*ast.SelectorExpr); ok {
							if id, ok := se.X.(*ast.Ident); ok && id.Name == recv && fieldKind[t][se.Sel.Name] {
								aseen[arow{funcKey(fd), se.Sel.Name}] = true
							}
						}
					}
				}
				return true
			})
		}
	}
	var al []string
	for a := range aseen {
		al = append(al, fmt.Sprintf("(%s, %s)", leanStr(a.fn), leanStr(a.field)))
	}
	sort.Strings(al)

	var b strings.Builder
	b.WriteString(header("mutatorcalls", "types/*.go (the mutators), every other package (the calls)"))
	b.WriteString("namespace Pcore.Generated\n\n")
	var ql []string
	for _, n := range nl {
		ql = append(ql, leanStr(n))
	}
	fmt.Fprintf(&b, "/-- exported methods of value structs that assign a field of their receiver (not as a guarded lazy fill) -/\ndef mutatorNames : List String := [%s]\n\n", strings.Join(ql, ", "))
	var rl []string
	for _, c := range cl {
		rl = append(rl, fmt.Sprintf("  (%s, %s)", leanStr(c.pkg), leanStr(c.m)))
	}
	fmt.Fprintf(&b, "/-- calls of a method of one of those names outside package types: (file, method) -/\ndef mutatorCalls : List (String × String) := [\n%s]\n", strings.Join(rl, ",\n"))
	fmt.Fprintf(&b, "\n/-- exported methods of value structs that return a slice / map field of the receiver as it is: (method, field) -/\ndef aliasAccessors : List (String × String) := [\n  %s]\n", strings.Join(al, ",\n  "))
	b.WriteString("\nend Pcore.Generated\n")
	return b.String()
}
