package main

import (
	"fmt"
	"go/ast"
	"go/token"
	"strconv"
	"strings"
)

// Family "json": the statement lists of jsonStreamer.delimit (one per case arm) and of the
// AddArray/AddHash/Add/AddRef bodies, plus the initial state used by NewJsonStreamer.

func init() { register("json", "JsonTable", genJSON) }

var jsonStates = map[string]bool{"firstInArray": true, "firstInObject": true, "afterElement": true, "afterValue": true, "afterKey": true}

func jsonAct(s ast.Stmt) string {
	unknown := func() string { return ".unknown " + leanStr(src(s)) }
	switch s := s.(type) {
	case *ast.AssignStmt:
		// j.state = X
		if len(s.Lhs) == 1 && len(s.Rhs) == 1 && s.Tok == token.ASSIGN {
			if sel, ok := s.Lhs[0].(*ast.SelectorExpr); ok && sel.Sel.Name == "state" {
				if id, ok := s.Rhs[0].(*ast.Ident); ok && jsonStates[id.Name] {
					return ".set ." + id.Name
				}
			}
		}
		return unknown()
	case *ast.ExprStmt:
		call, ok := s.X.(*ast.CallExpr)
		if !ok {
			return unknown()
		}
		if id, ok := call.Fun.(*ast.Ident); ok {
			if id.Name == "doer" && len(call.Args) == 0 {
				return ".doer"
			}
			if id.Name == "assertOk" && len(call.Args) == 1 {
				inner, ok := call.Args[0].(*ast.CallExpr)
				if !ok {
					return unknown()
				}
				is := src(inner)
				// j.out.Write([]byte{'x'})
				if strings.HasPrefix(is, "j.out.Write([]byte{") && strings.HasSuffix(is, "})") {
					lit := strings.TrimSuffix(strings.TrimPrefix(is, "j.out.Write([]byte{"), "})")
					if c, err := strconv.Unquote(lit); err == nil && len(c) == 1 {
						return ".write " + leanChar(c[0])
					}
					if r, _, _, err := strconv.UnquoteChar(strings.Trim(lit, "'"), '\''); err == nil && r < 128 && strings.HasPrefix(lit, "'") {
						return ".write " + leanChar(byte(r))
					}
				}
				if is == "fmt.Fprintf(j.out, `{\"%s\":%d}`, PcoreRefKey, ref)" {
					return ".refObj"
				}
				return unknown()
			}
		}
		if sel, ok := call.Fun.(*ast.SelectorExpr); ok && sel.Sel.Name == "write" && len(call.Args) == 1 {
			if id, ok := call.Args[0].(*ast.Ident); ok && id.Name == "element" {
				return ".scalar"
			}
		}
		return unknown()
	}
	return unknown()
}

// the file being read (for the one-level inlining of small helpers)
var jsonFile *ast.File

func jsonActs(stmts []ast.Stmt) string {
	if jsonFile != nil {
		stmts = inlineHelpers(jsonFile, stmts)
	}
	xs := make([]string, len(stmts))
	for i, s := range stmts {
		xs[i] = jsonAct(s)
	}
	return "[" + strings.Join(xs, ", ") + "]"
}

// body of `func (j *jsonStreamer) AddX(...) { j.delimit(func() { … }) }`
func jsonDelimited(fd *ast.FuncDecl) string {
	if len(fd.Body.List) == 1 {
		if es, ok := fd.Body.List[0].(*ast.ExprStmt); ok {
			if call, ok := es.X.(*ast.CallExpr); ok && src(call.Fun) == "j.delimit" && len(call.Args) == 1 {
				if fl, ok := call.Args[0].(*ast.FuncLit); ok {
					return jsonActs(fl.Body.List)
				}
			}
		}
	}
	return "[.unknown " + leanStr(src(fd.Body)) + "]"
}

func genJSON() string {
	const file = "serialization/jsonstreamer.go"
	f := parseFile(file)
	jsonFile = f
	var b strings.Builder
	b.WriteString(header("json", file))
	b.WriteString("import Pcore.Model.Json\nnamespace Pcore.Generated\nopen Pcore.Json\n\n")

	// delimit
	fd := findFunc(f, "jsonStreamer", "delimit")
	var arms []string
	ok := false
	if len(fd.Body.List) == 1 {
		if sw, isSw := fd.Body.List[0].(*ast.SwitchStmt); isSw && sw.Tag != nil && src(sw.Tag) == "j.state" && sw.Init == nil {
			ok = true
			for _, c := range sw.Body.List {
				cc := c.(*ast.CaseClause)
				acts := jsonActs(cc.Body)
				if cc.List == nil {
					arms = append(arms, "(none, "+acts+")")
					continue
				}
				for _, e := range cc.List {
					if id, isId := e.(*ast.Ident); isId && jsonStates[id.Name] {
						arms = append(arms, "(some ."+id.Name+", "+acts+")")
					} else {
						arms = append(arms, "(none, [.unknown "+leanStr("case "+src(e))+"])")
					}
				}
			}
		}
	}
	if !ok {
		arms = []string{"(none, [.unknown " + leanStr(src(fd.Body)) + "])"}
	}

	// initial state: &jsonStreamer{out, X}
	init := ""
	nf := findFunc(f, "", "NewJsonStreamer")
	ast.Inspect(nf, func(n ast.Node) bool {
		if cl, ok := n.(*ast.CompositeLit); ok && src(cl.Type) == "jsonStreamer" {
			for _, e := range cl.Elts {
				if kv, ok := e.(*ast.KeyValueExpr); ok {
					if src(kv.Key) == "state" {
						e = kv.Value
					} else {
						continue
					}
				}
				if id, ok := e.(*ast.Ident); ok && jsonStates[id.Name] {
					init = id.Name
				}
			}
		}
		return true
	})
	if init == "" {
		panic("json: initial state of NewJsonStreamer not recognised")
	}

	fmt.Fprintf(&b, "def jsonTbl : Tbl where\n  arms := [\n    %s]\n", strings.Join(arms, ",\n    "))
	fmt.Fprintf(&b, "  addArray := %s\n", jsonDelimited(findFunc(f, "jsonStreamer", "AddArray")))
	fmt.Fprintf(&b, "  addHash := %s\n", jsonDelimited(findFunc(f, "jsonStreamer", "AddHash")))
	fmt.Fprintf(&b, "  add := %s\n", jsonDelimited(findFunc(f, "jsonStreamer", "Add")))
	fmt.Fprintf(&b, "  addRef := %s\n", jsonDelimited(findFunc(f, "jsonStreamer", "AddRef")))
	fmt.Fprintf(&b, "  init := .%s\n", init)
	b.WriteString("\nend Pcore.Generated\n")
	return b.String()
}
