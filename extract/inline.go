package main

import (
	"go/ast"
	"go/parser"
	"regexp"
	"strings"
)

// inlineHelpers replaces, one level deep, a statement that is nothing but a call of a small helper declared in the same
// file — `recv.helper(args…)` or `helper(args…)` whose body is at most three simple statements — by that body with the
// parameters replaced by the argument texts.  Extracting such a helper is the commonest behaviour-preserving rewrite; the
// fact families read the code through it instead of answering `unknown`.  Anything that is not a plain call of a plain
// helper is left alone (the families then judge the statement as it stands).
func inlineHelpers(f *ast.File, stmts []ast.Stmt) []ast.Stmt {
	helpers := map[string]*ast.FuncDecl{}
	for _, d := range f.Decls {
		if fd, ok := d.(*ast.FuncDecl); ok && fd.Body != nil && len(fd.Body.List) >= 1 && len(fd.Body.List) <= 3 && fd.Type.Results == nil {
			helpers[fd.Name.Name] = fd
		}
	}
	var out []ast.Stmt
	for _, s := range stmts {
		es, ok := s.(*ast.ExprStmt)
		if !ok {
			out = append(out, s)
			continue
		}
		call, ok := es.X.(*ast.CallExpr)
		if !ok {
			out = append(out, s)
			continue
		}
		name := ""
		switch fn := call.Fun.(type) {
		case *ast.Ident:
			name = fn.Name
		case *ast.SelectorExpr:
			if _, ok := fn.X.(*ast.Ident); ok {
				name = fn.Sel.Name
			}
		}
		fd, ok := helpers[name]
		if !ok || name == "delimit" || name == "write" {
			out = append(out, s)
			continue
		}
		var params []string
		for _, p := range fd.Type.Params.List {
			for _, n := range p.Names {
				params = append(params, n.Name)
			}
		}
		if len(params) != len(call.Args) {
			out = append(out, s)
			continue
		}
		okAll := true
		var body []ast.Stmt
		for _, hs := range fd.Body.List {
			if _, simple := hs.(*ast.ExprStmt); !simple {
				if _, simple = hs.(*ast.AssignStmt); !simple {
					okAll = false
					break
				}
			}
			text := src(hs)
			for i, p := range params {
				text = regexp.MustCompile(`\b`+regexp.QuoteMeta(p)+`\b`).ReplaceAllString(text, strings.ReplaceAll(src(call.Args[i]), "$", "$$"))
			}
			parsed, err := parser.ParseFile(fset, "", "package p\nfunc _() {\n"+text+"\n}", 0)
			if err != nil {
				okAll = false
				break
			}
			body = append(body, parsed.Decls[0].(*ast.FuncDecl).Body.List...)
		}
		if !okAll {
			out = append(out, s)
			continue
		}
		out = append(out, body...)
	}
	return out
}
