package main

import (
	"fmt"
	"go/ast"
	"go/token"
	"path/filepath"
	"sort"
	"strings"
)

// Family "fieldwrites" (property C08): FIELD WRITES OUTSIDE CONSTRUCTION.  A value is immutable iff, once it has been
// handed out, no statement assigns one of its fields (or an element of a slice / map held in one).  This family lists
// every such statement of package `types` and of package `internal` (all non-test files: whatever can be nested in a list
// or a map lives there — `internal` holds the function / lambda / parameter values; its rows are prefixed `internal.`)
// whose target is a struct BEHIND A px.Value IMPLEMENTATION — a struct type with a `PType` method, or one that embeds
// such a struct — one row per (struct, field, enclosing function, kind), duplicates removed:
//
//   .fresh      the object was created in the same function (`x := &T{…}` / `T{…}` / `new(T)`; `x.f = …` afterwards):
//               construction, not mutation of a value somebody already holds
//   .lazyFill   `x.f = …` inside `if x.f == nil { … }` (or `== ""` for a string)   (a cache filled once)
//   .reset      `x.f = nil`
//   .elem       a write INTO the slice / map a field holds: `x.f[i] = …`, `copy(x.f, …)`, `delete(x.f, …)`
//   .write      any other assignment (`=`, `+=`, `++` …)
//
// The struct a target belongs to is found syntactically: the receiver, a parameter / local with a declared or
// literal / asserted type, the variable of a single-type `case` of a type switch, a field of one of those whose declared
// type is a struct of the package.  When it cannot be found the row's struct is "?" and the row is kept if ANY value
// struct has a field of that name (conservative).  Rows carry no local names, no source text and no positions, so
// renaming locals, re-ordering or adding early returns leaves the table as it is; a NEW write (e.g. `e.arguments = …`
// in `(*deferred).Resolve`) is a new row, which the reviewed white list in hand-written Lean does not contain.
//
// Not seen (trusted base): writes through an alias of a field's address (`p := &x.f; *p = …`), through reflection or
// unsafe, and writes in other packages (fields of these structs are unexported, so other packages cannot assign them).

func init() { register("fieldwrites", "FieldWrites", genFieldWrites) }

type fwStruct struct {
	fields   map[string]ast.Expr // field name -> declared type
	embedded []string
}

type fwRow struct{ ty, field, fn, kind string }

type fwPkg struct {
	decls   map[string]bool            // every function / method key declared in the package
	calls   map[[2]string]map[string]bool // (helper, caller) -> receiver fields known empty at every such call
	funcs   map[string]string // plain function -> struct its single result points to
	structs map[string]*fwStruct
	value   map[string]bool
	rows    map[fwRow]bool
}

func fwBaseType(t ast.Expr) string {
	switch x := t.(type) {
	case *ast.StarExpr:
		return fwBaseType(x.X)
	case *ast.ParenExpr:
		return fwBaseType(x.X)
	case *ast.Ident:
		return x.Name
	}
	return ""
}

type fwEnv struct {
	p     *fwPkg
	vars  map[string]string // variable -> struct name
	fresh map[string]bool   // variable bound to an object created in this function
}

func (e *fwEnv) clone() *fwEnv {
	n := &fwEnv{p: e.p, vars: map[string]string{}, fresh: map[string]bool{}}
	for k, v := range e.vars {
		n.vars[k] = v
	}
	for k, v := range e.fresh {
		n.fresh[k] = v
	}
	return n
}

// litType: the struct a creating expression creates (`&T{…}`, `T{…}`, `new(T)`), or ""
func (e *fwEnv) litType(x ast.Expr) string {
	switch v := x.(type) {
	case *ast.ParenExpr:
		return e.litType(v.X)
	case *ast.UnaryExpr:
		if v.Op == token.AND {
			if cl, ok := v.X.(*ast.CompositeLit); ok {
				return e.known(fwBaseType(cl.Type))
			}
		}
	case *ast.CompositeLit:
		if v.Type != nil {
			return e.known(fwBaseType(v.Type))
		}
	case *ast.CallExpr:
		if id, ok := v.Fun.(*ast.Ident); ok && id.Name == "new" && len(v.Args) == 1 {
			return e.known(fwBaseType(v.Args[0]))
		}
	}
	return ""
}

func (e *fwEnv) known(name string) string {
	if _, ok := e.p.structs[name]; ok {
		return name
	}
	return ""
}

// typeOf: the struct an expression denotes (a pointer to), or ""
func (e *fwEnv) typeOf(x ast.Expr) string {
	switch v := x.(type) {
	case *ast.ParenExpr:
		return e.typeOf(v.X)
	case *ast.StarExpr:
		return e.typeOf(v.X)
	case *ast.UnaryExpr:
		if v.Op == token.AND {
			return e.typeOf(v.X)
		}
	case *ast.Ident:
		return e.vars[v.Name]
	case *ast.TypeAssertExpr:
		if v.Type != nil {
			return e.known(fwBaseType(v.Type))
		}
	case *ast.CompositeLit:
		return e.litType(x)
	case *ast.CallExpr:
		if t := e.litType(x); t != "" {
			return t
		}
		if id, ok := v.Fun.(*ast.Ident); ok {
			return e.known(e.p.funcs[id.Name])
		}
	case *ast.SelectorExpr:
		if t := e.typeOf(v.X); t != "" {
			return e.fieldType(t, v.Sel.Name, 0)
		}
	}
	return ""
}

// fieldType: struct type of field f of struct t (through embedded structs), or ""
func (e *fwEnv) fieldType(t, f string, depth int) string {
	st := e.p.structs[t]
	if st == nil || depth > 8 {
		return ""
	}
	if ft, ok := st.fields[f]; ok {
		return e.known(fwBaseType(ft))
	}
	for _, em := range st.embedded {
		if em == f {
			return e.known(em)
		}
		if r := e.fieldType(em, f, depth+1); r != "" {
			return r
		}
	}
	return ""
}

// ownerOf: the struct that DECLARES field f when looked up in t (t itself or an embedded struct)
func (e *fwEnv) ownerOf(t, f string, depth int) string {
	st := e.p.structs[t]
	if st == nil || depth > 8 {
		return ""
	}
	if _, ok := st.fields[f]; ok {
		return t
	}
	for _, em := range st.embedded {
		if em == f {
			return t
		}
		if r := e.ownerOf(em, f, depth+1); r != "" {
			return r
		}
	}
	return ""
}

func fwBaseIdent(x ast.Expr) string {
	for {
		switch v := x.(type) {
		case *ast.ParenExpr:
			x = v.X
		case *ast.StarExpr:
			x = v.X
		case *ast.SelectorExpr:
			x = v.X
		case *ast.IndexExpr:
			x = v.X
		case *ast.SliceExpr:
			x = v.X
		case *ast.Ident:
			return v.Name
		default:
			return ""
		}
	}
}

// target: analyse a written location; ok=false when it is not a field (or an element of a field)
func (e *fwEnv) target(lhs ast.Expr) (sel *ast.SelectorExpr, elem bool, ok bool) {
	x := lhs
	for {
		switch v := x.(type) {
		case *ast.ParenExpr:
			x = v.X
			continue
		case *ast.IndexExpr:
			x, elem = v.X, true
			continue
		case *ast.SliceExpr:
			x, elem = v.X, true
			continue
		case *ast.StarExpr:
			x = v.X
			continue
		case *ast.SelectorExpr:
			return v, elem, true
		}
		return nil, false, false
	}
}

func (e *fwEnv) record(fn string, lhs ast.Expr, kind string, guards []string) {
	sel, elem, ok := e.target(lhs)
	if !ok {
		return
	}
	// a package-qualified variable (`px.Foo = …`) is not a field
	if id, isID := sel.X.(*ast.Ident); isID && e.vars[id.Name] == "" && fwIsPackageName(id.Name) {
		return
	}
	f := sel.Sel.Name
	t := e.typeOf(sel.X)
	owner := ""
	if t != "" {
		owner = e.ownerOf(t, f, 0)
		if owner == "" {
			owner = t
		}
		if !e.p.value[t] && !e.p.value[owner] {
			return // a struct that is not a value (parser, lexer, collector, builders …)
		}
		if e.p.value[t] {
			owner = t // report the struct the VALUE is (MutableHashValue, not its embedded Hash)
		}
	} else {
		any := false
		for name, st := range e.p.structs {
			if _, has := st.fields[f]; has && e.p.value[name] {
				any = true
			}
		}
		if !any {
			return
		}
		owner = "?"
	}
	if elem {
		kind = ".elem"
	} else if kind == ".write" {
		for _, g := range guards {
			if g == src(lhs) {
				kind = ".lazyFill"
			}
		}
	}
	if base := fwBaseIdent(sel.X); base != "" && e.fresh[base] && sel.X != nil {
		if _, direct := sel.X.(*ast.Ident); direct {
			kind = ".fresh"
		}
	}
	e.p.rows[fwRow{owner, f, fn, kind}] = true
}

func fwEmptyLit(x ast.Expr) bool {
	t := src(x)
	return t == "nil" || t == "``" || t == `""`
}

// fwTerminates: the block always leaves the function (ends in return or panic)
func fwTerminates(b *ast.BlockStmt) bool {
	if b == nil || len(b.List) == 0 {
		return false
	}
	switch last := b.List[len(b.List)-1].(type) {
	case *ast.ReturnStmt:
		return true
	case *ast.ExprStmt:
		if ce, ok := last.X.(*ast.CallExpr); ok {
			if id, ok := ce.Fun.(*ast.Ident); ok && id.Name == "panic" {
				return true
			}
		}
	}
	return false
}

// noteCall records a call of an unexported function / method of the package (a helper): the enclosing function and the
// fields of the call's receiver that are known to be empty at the call (`if x.f == nil { x.fill() }`)
func (e *fwEnv) noteCall(fn string, ce *ast.CallExpr, guards []string) {
	helper, recvSrc := "", ""
	switch f := ce.Fun.(type) {
	case *ast.Ident:
		if e.p.decls[f.Name] && !exported(f.Name) {
			helper = f.Name
		}
	case *ast.SelectorExpr:
		if exported(f.Sel.Name) {
			return
		}
		if t := e.typeOf(f.X); t != "" {
			// the method may be declared on t or on a struct t embeds
			for _, cand := range append([]string{t}, e.p.embedClosure(t)...) {
				if e.p.decls[cand+"."+f.Sel.Name] {
					helper, recvSrc = cand+"."+f.Sel.Name, src(f.X)
					break
				}
			}
		}
	}
	if helper == "" || helper == fn {
		return
	}
	fields := map[string]bool{}
	if recvSrc != "" {
		for _, g := range guards {
			if strings.HasPrefix(g, recvSrc+".") && !strings.Contains(g[len(recvSrc)+1:], ".") {
				fields[g[len(recvSrc)+1:]] = true
			}
		}
	}
	k := [2]string{helper, fn}
	if old, seen := e.p.calls[k]; seen {
		for f := range old {
			if !fields[f] {
				delete(old, f) // guarded at every call site of this caller, or not counted
			}
		}
	} else {
		e.p.calls[k] = fields
	}
}

func (p *fwPkg) embedClosure(t string) []string {
	var out []string
	seen := map[string]bool{t: true}
	todo := []string{t}
	for len(todo) > 0 {
		x := todo[0]
		todo = todo[1:]
		if st := p.structs[x]; st != nil {
			for _, em := range st.embedded {
				if !seen[em] {
					seen[em] = true
					out = append(out, em)
					todo = append(todo, em)
				}
			}
		}
	}
	return out
}

var fwPackages = map[string]bool{}

func fwIsPackageName(n string) bool { return fwPackages[n] }

func (e *fwEnv) bind(name string, rhs ast.Expr) {
	if name == "_" {
		return
	}
	if t := e.litType(rhs); t != "" {
		e.vars[name] = t
		e.fresh[name] = true
		return
	}
	delete(e.fresh, name)
	if t := e.typeOf(rhs); t != "" {
		e.vars[name] = t
	} else {
		delete(e.vars, name)
	}
}

func (e *fwEnv) walk(fn string, n ast.Node, guards []string) {
	switch s := n.(type) {
	case nil:
		return
	case *ast.BlockStmt:
		// a GUARD CLAUSE `if x.f != nil { …; return }` makes the rest of the block run under `x.f == nil`: the lazy fill
		// written with an early return instead of a nested `if x.f == nil { … }`
		g := guards
		for _, st := range s.List {
			e.walk(fn, st, g)
			if is, ok := st.(*ast.IfStmt); ok && is.Else == nil && fwTerminates(is.Body) {
				if be, ok := is.Cond.(*ast.BinaryExpr); ok && be.Op == token.NEQ && fwEmptyLit(be.Y) {
					g = append(append([]string{}, g...), src(be.X))
				}
			}
		}
		return
	case *ast.IfStmt:
		if s.Init != nil {
			e.walk(fn, s.Init, guards)
		}
		e.exprs(fn, s.Cond, guards)
		g := guards
		if be, ok := s.Cond.(*ast.BinaryExpr); ok && be.Op == token.EQL && fwEmptyLit(be.Y) {
			g = append(append([]string{}, guards...), src(be.X))
		}
		e.walk(fn, s.Body, g)
		if s.Else != nil {
			e.walk(fn, s.Else, guards)
		}
		return
	case *ast.AssignStmt:
		for _, r := range s.Rhs {
			e.exprs(fn, r, guards)
		}
		for i, l := range s.Lhs {
			if id, ok := l.(*ast.Ident); ok {
				if len(s.Lhs) == len(s.Rhs) {
					e.bind(id.Name, s.Rhs[i])
				} else if i == 0 && len(s.Rhs) == 1 {
					e.bind(id.Name, s.Rhs[0]) // x, ok := y.(*T)
				} else {
					delete(e.vars, id.Name)
					delete(e.fresh, id.Name)
				}
				continue
			}
			kind := ".write"
			if s.Tok == token.ASSIGN && len(s.Lhs) == len(s.Rhs) && src(s.Rhs[i]) == "nil" {
				kind = ".reset"
			}
			e.record(fn, l, kind, guards)
		}
		return
	case *ast.IncDecStmt:
		e.record(fn, s.X, ".write", guards)
		return
	case *ast.DeclStmt:
		if gd, ok := s.Decl.(*ast.GenDecl); ok {
			for _, sp := range gd.Specs {
				if vs, ok := sp.(*ast.ValueSpec); ok {
					for i, nm := range vs.Names {
						if vs.Type != nil {
							if t := e.known(fwBaseType(vs.Type)); t != "" {
								e.vars[nm.Name] = t
								// `var x T` is a fresh zero value; `var x *T` is not an object at all
								if _, isPtr := vs.Type.(*ast.StarExpr); !isPtr {
									e.fresh[nm.Name] = true
								}
							}
						}
						if i < len(vs.Values) {
							e.exprs(fn, vs.Values[i], guards)
							if vs.Type == nil {
								e.bind(nm.Name, vs.Values[i])
							}
						}
					}
				}
			}
		}
		return
	case *ast.TypeSwitchStmt:
		if s.Init != nil {
			e.walk(fn, s.Init, guards)
		}
		bound := ""
		if as, ok := s.Assign.(*ast.AssignStmt); ok && len(as.Lhs) == 1 {
			if id, ok := as.Lhs[0].(*ast.Ident); ok {
				bound = id.Name
			}
		}
		for _, c := range s.Body.List {
			cc := c.(*ast.CaseClause)
			sub := e.clone()
			if bound != "" {
				delete(sub.vars, bound)
				delete(sub.fresh, bound)
				if len(cc.List) == 1 {
					if t := e.known(fwBaseType(cc.List[0])); t != "" {
						sub.vars[bound] = t
					}
				}
			}
			for _, st := range cc.Body {
				sub.walk(fn, st, guards)
			}
		}
		return
	case *ast.RangeStmt:
		e.exprs(fn, s.X, guards)
		for _, kx := range []ast.Expr{s.Key, s.Value} {
			if id, ok := kx.(*ast.Ident); ok {
				delete(e.vars, id.Name)
				delete(e.fresh, id.Name)
			} else if kx != nil {
				e.record(fn, kx, ".write", guards)
			}
		}
		e.walk(fn, s.Body, guards)
		return
	case *ast.ForStmt:
		e.walk(fn, s.Init, guards)
		if s.Cond != nil {
			e.exprs(fn, s.Cond, guards)
		}
		e.walk(fn, s.Post, guards)
		e.walk(fn, s.Body, guards)
		return
	case *ast.SwitchStmt:
		if s.Init != nil {
			e.walk(fn, s.Init, guards)
		}
		if s.Tag != nil {
			e.exprs(fn, s.Tag, guards)
		}
		for _, c := range s.Body.List {
			cc := c.(*ast.CaseClause)
			for _, x := range cc.List {
				e.exprs(fn, x, guards)
			}
			for _, st := range cc.Body {
				e.walk(fn, st, guards)
			}
		}
		return
	case *ast.SelectStmt:
		for _, c := range s.Body.List {
			cc := c.(*ast.CommClause)
			e.walk(fn, cc.Comm, guards)
			for _, st := range cc.Body {
				e.walk(fn, st, guards)
			}
		}
		return
	case *ast.LabeledStmt:
		e.walk(fn, s.Stmt, guards)
		return
	case *ast.ExprStmt:
		e.exprs(fn, s.X, guards)
		return
	case *ast.ReturnStmt:
		for _, r := range s.Results {
			e.exprs(fn, r, guards)
		}
		return
	case *ast.DeferStmt:
		e.exprs(fn, s.Call, guards)
		return
	case *ast.GoStmt:
		e.exprs(fn, s.Call, guards)
		return
	case *ast.SendStmt:
		e.exprs(fn, s.Chan, guards)
		e.exprs(fn, s.Value, guards)
		return
	case ast.Stmt:
		return
	}
}

// exprs: function literals (their bodies are statements of the enclosing function) and the builtins that write into
// their first argument
func (e *fwEnv) exprs(fn string, x ast.Expr, guards []string) {
	if x == nil {
		return
	}
	ast.Inspect(x, func(n ast.Node) bool {
		switch v := n.(type) {
		case *ast.FuncLit:
			sub := e.clone()
			for _, f := range v.Type.Params.List {
				for _, nm := range f.Names {
					delete(sub.fresh, nm.Name)
					if t := e.known(fwBaseType(f.Type)); t != "" {
						sub.vars[nm.Name] = t
					} else {
						delete(sub.vars, nm.Name)
					}
				}
			}
			sub.walk(fn, v.Body, guards)
			return false
		case *ast.CallExpr:
			e.noteCall(fn, v, guards)
			if id, ok := v.Fun.(*ast.Ident); ok && (id.Name == "copy" || id.Name == "delete") && len(v.Args) > 0 {
				if sel, _, ok := e.target(v.Args[0]); ok {
					e.record(fn, &ast.IndexExpr{X: sel}, ".elem", guards)
				}
			}
			if se, ok := v.Fun.(*ast.SelectorExpr); ok && len(v.Args) == 1 {
				if id, ok := se.X.(*ast.Ident); ok && id.Name == "sort" {
					if sel, _, ok := e.target(v.Args[0]); ok {
						e.record(fn, &ast.IndexExpr{X: sel}, ".elem", guards)
					}
				}
			}
		}
		return true
	})
}

// fwAnalyse: one package directory; struct names get `prefix` (empty for package types)
func fwAnalyse(dir, prefix string) (rows []fwRow, values []string, calls []fwCall) {
	files, err := filepath.Glob(filepath.Join(*repo, dir, "*.go"))
	if err != nil {
		panic(err)
	}
	sort.Strings(files)
	p := &fwPkg{decls: map[string]bool{}, calls: map[[2]string]map[string]bool{}, funcs: map[string]string{}, structs: map[string]*fwStruct{}, value: map[string]bool{}, rows: map[fwRow]bool{}}
	var parsed []*ast.File
	for _, abs := range files {
		if strings.HasSuffix(abs, "_test.go") {
			continue
		}
		rel, _ := filepath.Rel(*repo, abs)
		f := parseFile(rel)
		parsed = append(parsed, f)
		for _, im := range f.Imports {
			name := strings.Trim(im.Path.Value, "\"`")
			if i := strings.LastIndex(name, "/"); i >= 0 {
				name = name[i+1:]
			}
			if im.Name != nil {
				name = im.Name.Name
			}
			fwPackages[name] = true
		}
	}
	hasPType := map[string]bool{}
	for _, f := range parsed {
		for _, d := range f.Decls {
			switch d := d.(type) {
			case *ast.GenDecl:
				for _, sp := range d.Specs {
					ts, ok := sp.(*ast.TypeSpec)
					if !ok {
						continue
					}
					st, ok := ts.Type.(*ast.StructType)
					if !ok {
						continue
					}
					fs := &fwStruct{fields: map[string]ast.Expr{}}
					for _, fl := range st.Fields.List {
						if len(fl.Names) == 0 {
							if b := fwBaseType(fl.Type); b != "" {
								fs.embedded = append(fs.embedded, b)
							}
						}
						for _, nm := range fl.Names {
							fs.fields[nm.Name] = fl.Type
						}
					}
					p.structs[ts.Name.Name] = fs
				}
			case *ast.FuncDecl:
				p.decls[funcKey(d)] = true
				if d.Name.Name == "PType" {
					hasPType[recvTypeName(d)] = true
				}
				if d.Recv == nil && d.Type.Results != nil && len(d.Type.Results.List) == 1 && len(d.Type.Results.List[0].Names) <= 1 {
					p.funcs[d.Name.Name] = fwBaseType(d.Type.Results.List[0].Type)
				}
			}
		}
	}
	for name := range p.structs {
		if hasPType[name] {
			p.value[name] = true
		}
	}
	for changed := true; changed; {
		changed = false
		for name, st := range p.structs {
			if p.value[name] {
				continue
			}
			for _, em := range st.embedded {
				if p.value[em] {
					p.value[name] = true
					changed = true
				}
			}
		}
	}
	for _, f := range parsed {
		for _, d := range f.Decls {
			fd, ok := d.(*ast.FuncDecl)
			if !ok || fd.Body == nil {
				continue
			}
			env := &fwEnv{p: p, vars: map[string]string{}, fresh: map[string]bool{}}
			if r := recvVarName(fd); r != "" {
				if t := env.known(recvTypeName(fd)); t != "" {
					env.vars[r] = t
				}
			}
			for _, fl := range fd.Type.Params.List {
				for _, nm := range fl.Names {
					if t := env.known(fwBaseType(fl.Type)); t != "" {
						env.vars[nm.Name] = t
					}
				}
			}
			env.walk(funcKey(fd), fd.Body, nil)
		}
	}
	for r := range p.rows {
		if r.ty != "?" {
			r.ty = prefix + r.ty
		}
		r.fn = prefix + r.fn
		rows = append(rows, r)
	}
	for name := range p.value {
		values = append(values, prefix+name)
	}
	for k, fs := range p.calls {
		var fl []string
		for f := range fs {
			fl = append(fl, f)
		}
		sort.Strings(fl)
		calls = append(calls, fwCall{prefix + k[0], prefix + k[1], fl})
	}
	return rows, values, calls
}

// fwCall: a call of the unexported helper by the caller; guarded = fields of the call's receiver that are empty at every
// such call site
type fwCall struct {
	helper, caller string
	guarded        []string
}

func genFieldWrites() string {
	rows, vals, calls := fwAnalyse("types", "")
	r2, v2, c2 := fwAnalyse("internal", "internal.")
	rows = append(rows, r2...)
	vals = append(vals, v2...)
	calls = append(calls, c2...)
	sort.Slice(rows, func(i, j int) bool {
		a, b := rows[i], rows[j]
		if a.ty != b.ty {
			return a.ty < b.ty
		}
		if a.field != b.field {
			return a.field < b.field
		}
		if a.fn != b.fn {
			return a.fn < b.fn
		}
		return a.kind < b.kind
	})
	var vs []string
	for _, name := range vals {
		vs = append(vs, leanStr(name))
	}
	sort.Strings(vs)
	var b strings.Builder
	b.WriteString(header("fieldwrites", "types/*.go, internal/*.go (non-test)"))
	b.WriteString("import Pcore.Model.ImmutResolve\nnamespace Pcore.Generated\nopen Pcore.Immut\n\n")
	fmt.Fprintf(&b, "/-- the structs behind px.Value implementations (a `PType` method, or embedding one that has it) -/\ndef valueStructs : List String := [%s]\n\n", strings.Join(vs, ", "))
	var rl []string
	for _, r := range rows {
		rl = append(rl, fmt.Sprintf("  ⟨%s, %s, %s, %s⟩", leanStr(r.ty), leanStr(r.field), leanStr(r.fn), r.kind))
	}
	fmt.Fprintf(&b, "def fieldWrites : List FieldWrite := [\n%s]\n", strings.Join(rl, ",\n"))
	// the helpers that write: who calls them (one level), and which receiver fields are empty at the call
	writers := map[string]bool{}
	for _, r := range rows {
		writers[r.fn] = true
	}
	var cl []string
	for _, c := range calls {
		if !writers[c.helper] {
			continue
		}
		var gl []string
		for _, g := range c.guarded {
			gl = append(gl, leanStr(g))
		}
		cl = append(cl, fmt.Sprintf("  (%s, %s, [%s])", leanStr(c.helper), leanStr(c.caller), strings.Join(gl, ", ")))
	}
	sort.Strings(cl)
	fmt.Fprintf(&b, "\n/-- calls of the unexported helpers that assign fields: (helper, caller, receiver fields known empty at every such call) -/\ndef helperCalls : List (String × String × List String) := [\n%s]\n", strings.Join(cl, ",\n"))
	b.WriteString("\nend Pcore.Generated\n")
	return b.String()
}
