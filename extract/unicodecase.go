package main

import (
	"fmt"
	"go/ast"
	"go/parser"
	"go/token"
	"os/exec"
	"path/filepath"
	"strconv"
	"strings"
)

// Family "unicodecase": Go's simple case mapping, the table unicode.ToUpper / unicode.ToLower (and so strings.ToUpper /
// strings.ToLower) search: `var _CaseRanges = []CaseRange{ {Lo, Hi, d{upper, lower, title}}, … }` of
// $GOROOT/src/unicode/tables.go.  Deltas are emitted as integers; the constant UpperLower as MaxRune+1 = 1114112.

func init() { register("unicodecase", "UnicodeCase", genUnicodeCase) }

func goroot() string {
	out, err := exec.Command("go", "env", "GOROOT").Output()
	if err != nil {
		panic(fmt.Sprintf("go env GOROOT: %v", err))
	}
	return strings.TrimSpace(string(out))
}

func caseInt(e ast.Expr) (string, bool) {
	switch e := e.(type) {
	case *ast.BasicLit:
		if e.Kind == token.INT {
			v, err := strconv.ParseInt(e.Value, 0, 64)
			if err == nil {
				return strconv.FormatInt(v, 10), true
			}
		}
	case *ast.UnaryExpr:
		if e.Op == token.SUB {
			if s, ok := caseInt(e.X); ok {
				return "-" + s, true
			}
		}
	case *ast.Ident:
		if e.Name == "UpperLower" {
			return "1114112", true
		}
	}
	return "", false
}

func genUnicodeCase() string {
	file := filepath.Join(goroot(), "src", "unicode", "tables.go")
	f, err := parser.ParseFile(fset, file, nil, 0)
	if err != nil {
		panic(err)
	}
	var lit *ast.CompositeLit
	for _, d := range f.Decls {
		gd, ok := d.(*ast.GenDecl)
		if !ok || gd.Tok != token.VAR {
			continue
		}
		for _, sp := range gd.Specs {
			vs := sp.(*ast.ValueSpec)
			if len(vs.Names) == 1 && vs.Names[0].Name == "_CaseRanges" && len(vs.Values) == 1 {
				lit, _ = vs.Values[0].(*ast.CompositeLit)
			}
		}
	}
	if lit == nil {
		panic("unicodecase: var _CaseRanges not found in " + file)
	}
	var b strings.Builder
	b.WriteString(header("unicodecase", "$GOROOT/src/unicode/tables.go (_CaseRanges)"))
	b.WriteString("import Pcore.Model.UnicodeCase\nnamespace Pcore.Generated\nopen Pcore.UnicodeCase\n\n")
	b.WriteString("def caseRanges : List CaseRange := [\n")
	rows := []string{}
	for _, e := range lit.Elts {
		row, ok := e.(*ast.CompositeLit)
		bad := func() { rows = append(rows, "  { lo := 0, hi := 0, up := 0, low := 0, title := 0, unknown := "+leanStr(src(e))+" }") }
		if !ok || len(row.Elts) != 3 {
			bad()
			continue
		}
		lo, ok1 := caseInt(row.Elts[0])
		hi, ok2 := caseInt(row.Elts[1])
		d, ok3 := row.Elts[2].(*ast.CompositeLit)
		if !ok1 || !ok2 || !ok3 || len(d.Elts) != 3 {
			bad()
			continue
		}
		u, o1 := caseInt(d.Elts[0])
		l, o2 := caseInt(d.Elts[1])
		t, o3 := caseInt(d.Elts[2])
		if !o1 || !o2 || !o3 {
			bad()
			continue
		}
		rows = append(rows, fmt.Sprintf("  { lo := %s, hi := %s, up := %s, low := %s, title := %s, unknown := \"\" }", lo, hi, u, l, t))
	}
	b.WriteString(strings.Join(rows, ",\n"))
	b.WriteString("\n]\n\nend Pcore.Generated\n")
	return b.String()
}
