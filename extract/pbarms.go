package main

import (
	"fmt"
	"go/ast"
	"strings"
)

// Family "pbarms": which kinds the type switches of proto/convert.go handle explicitly (everything else falls to
// their `default:` arm, which produces undef).  Bodies are not inspected: they are tied by correspondence.

func init() { register("pbarms", "PbArms", genPbArms) }

var pbKinds = map[string]string{
	"px.Boolean": "bool", "px.Float": "flt", "px.Integer": "int", "px.StringValue": "str",
	"*types.UndefValue": "undef", "*types.Array": "arr", "*types.Hash": "hsh", "*types.Binary": "bin",
	"*datapb.Data_BooleanValue": "bool", "*datapb.Data_FloatValue": "flt", "*datapb.Data_IntegerValue": "int",
	"*datapb.Data_StringValue": "str", "*datapb.Data_UndefValue": "undef", "*datapb.Data_ArrayValue": "arr",
	"*datapb.Data_HashValue": "hsh", "*datapb.Data_BinaryValue": "bin", "*datapb.Data_Reference": "ref",
}

func typeSwitchArms(fd *ast.FuncDecl) string {
	var arms []string
	found := false
	ast.Inspect(fd.Body, func(n ast.Node) bool {
		ts, ok := n.(*ast.TypeSwitchStmt)
		if !ok || found {
			return true
		}
		found = true
		for _, c := range ts.Body.List {
			cc := c.(*ast.CaseClause)
			for _, e := range cc.List {
				if k, ok := pbKinds[src(e)]; ok {
					arms = append(arms, "."+k)
				} else {
					arms = append(arms, ".other "+leanStr(src(e)))
				}
			}
		}
		return false
	})
	if !found {
		return "[.other \"no type switch\"]"
	}
	return "[" + strings.Join(arms, ", ") + "]"
}

func genPbArms() string {
	const file = "proto/convert.go"
	f := parseFile(file)
	var b strings.Builder
	b.WriteString(header("pbarms", file))
	b.WriteString("import Pcore.Model.Json\nnamespace Pcore.Generated\nopen Pcore.Json\n\n")
	fmt.Fprintf(&b, "def pbArms : PBArms where\n  toPB := %s\n  fromPB := %s\n  consume := %s\n",
		typeSwitchArms(findFunc(f, "", "ToPBData")), typeSwitchArms(findFunc(f, "", "FromPBData")),
		typeSwitchArms(findFunc(f, "", "ConsumePBData")))
	b.WriteString("\nend Pcore.Generated\n")
	return b.String()
}
