package main

import (
	"fmt"
	"go/ast"
	"go/token"
	"sort"
	"strings"
)

// Family "stringhash": facts about hash/stringhash.go that the C09 model of hash.StringHash rests on.
//
// For every method of *stringHash: where it tests `h.frozen` (first statement / right after the
// "found: return" statement / nowhere / somewhere unrecognised), which fields of the receiver it writes
// (directly, through the local alias `index := h.index`, through `e := &h.entries[p]`, through
// `delete(h.index, …)`), which it reads, which methods it calls on the receiver.  Plus the shapes of the
// few statements whose exact form the theorems need: Delete's re-numbering loop, the erase of the key, the
// rebuilt entries slice, the "miss" path of Put/ComputeIfAbsent (index[key] = len(entries); append), Put's
// "hit" path, the bodies of Copy/Merge/PutAll/Get/Includes, the two constructors.
// Anything not recognised is emitted as `.unknown "<source>"` / `false`, which the side condition rejects.

func init() { register("stringhash", "StringHashFacts", genStringHash) }

const shFile = "hash/stringhash.go"

var shFields = map[string]bool{"entries": true, "index": true, "frozen": true}

type shMethod struct {
	name   string
	guard  string
	writes map[string]bool
	reads  map[string]bool
	calls  map[string]bool
}

func shRecvName(fd *ast.FuncDecl) string {
	if fd.Recv != nil && len(fd.Recv.List) == 1 && len(fd.Recv.List[0].Names) == 1 {
		return fd.Recv.List[0].Names[0].Name
	}
	return "_"
}

// isRecvField: e is `recv.f` for a known field
func isRecvField(e ast.Expr, recv string) (string, bool) {
	if sel, ok := e.(*ast.SelectorExpr); ok {
		if id, ok := sel.X.(*ast.Ident); ok && id.Name == recv && shFields[sel.Sel.Name] {
			return sel.Sel.Name, true
		}
	}
	return "", false
}

func shAnalyse(fd *ast.FuncDecl) *shMethod {
	recv := shRecvName(fd)
	m := &shMethod{name: fd.Name.Name, writes: map[string]bool{}, reads: map[string]bool{}, calls: map[string]bool{}}
	alias := map[string]string{} // local name -> field it aliases (map alias or pointer into entries)

	// which field does an lvalue / mutated expression designate?  "" = not receiver state
	var target func(e ast.Expr) string
	target = func(e ast.Expr) string {
		switch e := e.(type) {
		case *ast.ParenExpr:
			return target(e.X)
		case *ast.Ident:
			return alias[e.Name]
		case *ast.SelectorExpr:
			if f, ok := isRecvField(e, recv); ok {
				return f
			}
			return target(e.X) // e.value, h.entries[p].value
		case *ast.IndexExpr:
			return target(e.X)
		case *ast.StarExpr:
			return target(e.X)
		case *ast.UnaryExpr:
			if e.Op == token.AND {
				return target(e.X)
			}
		}
		return ""
	}

	ast.Inspect(fd.Body, func(n ast.Node) bool {
		switch n := n.(type) {
		case *ast.SelectorExpr:
			if f, ok := isRecvField(n, recv); ok {
				m.reads[f] = true
			}
		case *ast.AssignStmt:
			for i, l := range n.Lhs {
				if id, ok := l.(*ast.Ident); ok {
					// a local: does it alias receiver state?  `index := h.index`, `e := &h.entries[p]`
					if i < len(n.Rhs) && len(n.Lhs) == len(n.Rhs) {
						r := n.Rhs[i]
						if f, ok := isRecvField(r, recv); ok && f == "index" {
							alias[id.Name] = "index"
						} else if u, ok := r.(*ast.UnaryExpr); ok && u.Op == token.AND {
							if t := target(u.X); t != "" {
								alias[id.Name] = t
							}
						} else if f, ok := isRecvField(r, recv); ok && f == "entries" {
							alias[id.Name] = "entries" // a second slice header over the same backing array
						}
					}
					continue
				}
				if t := target(l); t != "" {
					m.writes[t] = true
				}
			}
			// `x := append(h.entries, …)` assigned to anything but h.entries may write into the receiver's spare capacity
			for i, r := range n.Rhs {
				if call, ok := r.(*ast.CallExpr); ok {
					if id, ok := call.Fun.(*ast.Ident); ok && id.Name == "append" && len(call.Args) > 0 {
						if t := target(call.Args[0]); t != "" {
							same := false
							if i < len(n.Lhs) {
								if f, ok := isRecvField(n.Lhs[i], recv); ok && f == t {
									same = true
								}
							}
							if !same {
								m.writes["other:append-into-"+t] = true
							}
						}
					}
				}
			}
		case *ast.IncDecStmt:
			if t := target(n.X); t != "" {
				m.writes[t] = true
			}
		case *ast.CallExpr:
			if id, ok := n.Fun.(*ast.Ident); ok {
				switch id.Name {
				case "delete":
					if len(n.Args) > 0 {
						if t := target(n.Args[0]); t != "" {
							m.writes[t] = true
						}
					}
				case "copy":
					if len(n.Args) > 0 {
						if t := target(n.Args[0]); t != "" {
							m.writes[t] = true
						}
					}
				case "len", "cap", "append", "make", "panic", "dflt", "f", "consumer":
				default:
				}
			}
			if sel, ok := n.Fun.(*ast.SelectorExpr); ok {
				if id, ok := sel.X.(*ast.Ident); ok && id.Name == recv {
					m.calls[sel.Sel.Name] = true
				}
			}
			// receiver state handed to another function (not a builtin): it may be changed there
			fn := src(n.Fun)
			if fn != "len" && fn != "cap" && fn != "append" && fn != "copy" && fn != "delete" {
				for _, a := range n.Args {
					if t := target(a); t != "" {
						if _, isSel := a.(*ast.SelectorExpr); isSel && strings.HasSuffix(src(a), ".value") {
							continue // a stored value is passed by value
						}
						if _, isSel := a.(*ast.SelectorExpr); isSel && strings.HasSuffix(src(a), ".key") {
							continue
						}
						m.writes["other:escapes-"+t] = true
					}
				}
			}
		}
		return true
	})

	// the frozen test
	isGuard := func(s ast.Stmt) bool {
		is, ok := s.(*ast.IfStmt)
		if !ok || is.Init != nil || is.Else != nil || len(is.Body.List) != 1 {
			return false
		}
		if f, ok := isRecvField(is.Cond, recv); !ok || f != "frozen" {
			return false
		}
		es, ok := is.Body.List[0].(*ast.ExprStmt)
		if !ok {
			return false
		}
		call, ok := es.X.(*ast.CallExpr)
		return ok && src(call.Fun) == "panic" && len(call.Args) == 1 && strings.HasPrefix(src(call.Args[0]), "frozenError{")
	}
	isHitReturn := func(s ast.Stmt) bool {
		is, ok := s.(*ast.IfStmt)
		if !ok || is.Init == nil || is.Else != nil || len(is.Body.List) != 1 {
			return false
		}
		if _, ok := is.Body.List[0].(*ast.ReturnStmt); !ok {
			return false
		}
		return src(is.Init) == "p, ok := "+recv+".index[key]" && src(is.Cond) == "ok"
	}
	m.guard = ".none"
	mentions := false
	ast.Inspect(fd.Body, func(n ast.Node) bool {
		if is, ok := n.(*ast.IfStmt); ok {
			ast.Inspect(is.Cond, func(c ast.Node) bool {
				if e, ok := c.(ast.Expr); ok {
					if f, ok := isRecvField(e, recv); ok && f == "frozen" {
						mentions = true
					}
				}
				return true
			})
		}
		return true
	})
	l := fd.Body.List
	switch {
	case len(l) > 0 && isGuard(l[0]):
		m.guard = ".atStart"
	case len(l) > 1 && isHitReturn(l[0]) && isGuard(l[1]):
		m.guard = ".afterHit"
	case mentions:
		m.guard = ".unknown " + leanStr("frozen is tested at an unrecognised place")
	}
	return m
}

func leanFields(set map[string]bool) string {
	xs := []string{}
	for k := range set {
		xs = append(xs, k)
	}
	sort.Strings(xs)
	out := []string{}
	for _, k := range xs {
		if shFields[k] {
			out = append(out, "."+k)
		} else {
			out = append(out, ".other "+leanStr(k))
		}
	}
	return "[" + strings.Join(out, ", ") + "]"
}

func leanStrs(set map[string]bool) string {
	xs := []string{}
	for k := range set {
		xs = append(xs, leanStr(k))
	}
	sort.Strings(xs)
	return "[" + strings.Join(xs, ", ") + "]"
}

// canon prints a statement with its loops over a slice in one canonical form, so that
//   for i, e := range X { … e … i … }     and     for i := 0; i < len(X); i++ { … X[i] … i … }
// (and any choice of the two variable names) compare equal:  for $i, $e := range X { … $e … $i … }.
// Only loops directly at the statement's top level or nested in its blocks are rewritten (textually, on whole
// identifiers).
func canon(s ast.Stmt) string {
	switch s := s.(type) {
	case *ast.RangeStmt:
		body := canonBlock(s.Body)
		if s.Tok == token.DEFINE {
			if s.Value != nil && src(s.Value) != "_" {
				body = replaceIdent(body, src(s.Value), "$e")
			}
			if s.Key != nil && src(s.Key) != "_" {
				body = replaceIdent(body, src(s.Key), "$i")
			}
			return "for $i, $e := range " + src(s.X) + " " + body
		}
	case *ast.ForStmt:
		// for i := 0; i < len(X); i++ { … }
		if as, ok := s.Init.(*ast.AssignStmt); ok && as.Tok == token.DEFINE && len(as.Lhs) == 1 && len(as.Rhs) == 1 && src(as.Rhs[0]) == "0" {
			i := src(as.Lhs[0])
			if inc, ok := s.Post.(*ast.IncDecStmt); ok && inc.Tok == token.INC && src(inc.X) == i {
				if be, ok := s.Cond.(*ast.BinaryExpr); ok && be.Op == token.LSS && src(be.X) == i {
					if call, ok := be.Y.(*ast.CallExpr); ok && src(call.Fun) == "len" && len(call.Args) == 1 {
						x := src(call.Args[0])
						body := canonBlock(s.Body)
						body = strings.Replace(body, x+"["+i+"]", "$e", -1)
						body = replaceIdent(body, i, "$i")
						return "for $i, $e := range " + x + " " + body
					}
				}
			}
		}
		return "for " + src(s.Init) + "; " + src(s.Cond) + "; " + src(s.Post) + " " + canonBlock(s.Body)
	case *ast.IfStmt:
		out := "if "
		if s.Init != nil {
			out += src(s.Init) + "; "
		}
		// `if !c { A } else { B }` is `if c { B } else { A }`: one canonical text for both
		if ue, ok := s.Cond.(*ast.UnaryExpr); ok && ue.Op == token.NOT {
			if eb, ok := s.Else.(*ast.BlockStmt); ok {
				cond := src(ue.X)
				if pe, ok := ue.X.(*ast.ParenExpr); ok {
					cond = src(pe.X)
				}
				return out + cond + " " + canonBlock(eb) + " else " + canonBlock(s.Body)
			}
		}
		out += src(s.Cond) + " " + canonBlock(s.Body)
		if s.Else != nil {
			out += " else " + canon(s.Else)
		}
		return out
	case *ast.BlockStmt:
		return canonBlock(s)
	}
	return src(s)
}

func canonBlock(b *ast.BlockStmt) string {
	parts := make([]string, len(b.List))
	for i, s := range b.List {
		parts[i] = canon(s)
	}
	if len(parts) == 0 {
		return "{}"
	}
	return "{ " + strings.Join(parts, "; ") + " }"
}

func isIdentByte(c byte) bool {
	return c == '_' || c == '$' || c >= '0' && c <= '9' || c >= 'a' && c <= 'z' || c >= 'A' && c <= 'Z'
}

// replaceIdent replaces whole-identifier occurrences of name that are not selected fields (`x.name`)
func replaceIdent(text, name, by string) string {
	var b strings.Builder
	for i := 0; i < len(text); {
		if strings.HasPrefix(text[i:], name) && (i == 0 || (!isIdentByte(text[i-1]) && text[i-1] != '.')) &&
			(i+len(name) == len(text) || !isIdentByte(text[i+len(name)])) {
			b.WriteString(by)
			i += len(name)
			continue
		}
		b.WriteByte(text[i])
		i++
	}
	return b.String()
}

func stmtsSrc(l []ast.Stmt) []string {
	out := make([]string, len(l))
	for i, s := range l {
		out[i] = canon(s)
	}
	return out
}

func sameSrc(l []ast.Stmt, want ...string) bool {
	got := stmtsSrc(l)
	if len(got) != len(want) {
		return false
	}
	for i := range got {
		if got[i] != strings.Join(strings.Fields(want[i]), " ") {
			return false
		}
	}
	return true
}

func leanBool(b bool) string {
	if b {
		return "true"
	}
	return "false"
}

// the miss path: `recv.index[key] = len(recv.entries)` immediately followed by the append (or the other way round)
func missPath(fd *ast.FuncDecl, recv, val string) string {
	idx := recv + ".index[key] = len(" + recv + ".entries)"
	app := recv + ".entries = append(" + recv + ".entries, stringEntry{key, " + val + "})"
	res := ""
	ast.Inspect(fd.Body, func(n ast.Node) bool {
		bl, ok := n.(*ast.BlockStmt)
		if !ok {
			return true
		}
		ss := stmtsSrc(bl.List)
		for i := 0; i+1 < len(ss); i++ {
			if ss[i] == idx && ss[i+1] == app {
				res = ".indexLenThenAppend"
			} else if ss[i] == app && ss[i+1] == idx && res == "" {
				res = ".appendThenIndexLen"
			}
		}
		return true
	})
	if res == "" {
		return ".unknown " + leanStr("no `index[key] = len(entries); entries = append(entries, …)` pair in "+fd.Name.Name)
	}
	return res
}

func genStringHash() string {
	f := parseFile(shFile)
	var b strings.Builder
	b.WriteString(header("stringhash", shFile))
	b.WriteString("import Pcore.Model.StringHashFacts\nnamespace Pcore.Generated\nopen Pcore.Coll\n\n")

	// all methods of *stringHash, in source order
	var ms []*shMethod
	decl := map[string]*ast.FuncDecl{}
	for _, d := range f.Decls {
		fd, ok := d.(*ast.FuncDecl)
		if !ok || fd.Recv == nil || len(fd.Recv.List) != 1 {
			continue
		}
		t := fd.Recv.List[0].Type
		if st, ok := t.(*ast.StarExpr); ok {
			t = st.X
		}
		if id, ok := t.(*ast.Ident); !ok || id.Name != "stringHash" {
			continue
		}
		ms = append(ms, shAnalyse(fd))
		decl[fd.Name.Name] = fd
	}
	need := func(name string) *ast.FuncDecl {
		if fd, ok := decl[name]; ok {
			return fd
		}
		panic("stringhash: method " + name + " not found")
	}

	// Delete: hit block, erase, loop, rebuilt slice
	del := need("Delete")
	dr := shRecvName(del)
	renum := ".unknown " + leanStr("no re-numbering loop found")
	erases, cut := false, false
	scanHit := func(hit []ast.Stmt) {
		seenLoop := false
		for i, s := range hit {
			ss := src(s)
			if (ss == "delete("+dr+".index, key)" || ss == "delete(index, key)") && !seenLoop {
				erases = true
			}
			if rs, ok := s.(*ast.RangeStmt); ok && (src(rs.X) == "index" || src(rs.X) == dr+".index") {
				seenLoop = true
				renum = ".unknown " + leanStr(ss)
				if rs.Key != nil && rs.Value != nil && src(rs.Key) == "k" && src(rs.Value) == "v" && len(rs.Body.List) == 1 {
					if inner, ok := rs.Body.List[0].(*ast.IfStmt); ok && inner.Init == nil && inner.Else == nil && src(inner.Cond) == "v > p" && len(inner.Body.List) == 1 {
						switch src(inner.Body.List[0]) {
						case "index[k] = v - 1", dr + ".index[k] = v - 1":
							renum = ".decAbove"
						case "index[k] = p - 1", dr + ".index[k] = p - 1":
							renum = ".pMinus1Above"
						}
					}
				}
			}
			if i+2 < len(hit) && (sameSrc(hit[i:i+3],
				"ne := make([]stringEntry, len("+dr+".entries)-1)",
				"for $i, $e := range "+dr+".entries { if $i < p { ne[$i] = $e } else if $i > p { ne[$i-1] = $e } }",
				dr+".entries = ne") || sameSrc(hit[i:i+3],
				"ne := make([]stringEntry, 0, len("+dr+".entries)-1)",
				"for $i, $e := range "+dr+".entries { if $i != p { ne = append(ne, $e) } }",
				dr+".entries = ne")) {
				cut = true
			}
			// the same cut written with two copies
			if i+3 < len(hit) && sameSrc(hit[i:i+4],
				"ne := make([]stringEntry, len("+dr+".entries)-1)",
				"copy(ne, "+dr+".entries[:p])",
				"copy(ne[p:], "+dr+".entries[p+1:])",
				dr+".entries = ne") {
				cut = true
			}
		}
	}
	isLookup := func(x string) bool { return x == "p, ok := index[key]" || x == "p, ok := "+dr+".index[key]" }
	ast.Inspect(del.Body, func(n ast.Node) bool {
		is, ok := n.(*ast.IfStmt)
		if !ok || is.Init == nil {
			return true
		}
		if !isLookup(src(is.Init)) || src(is.Cond) != "ok" {
			return true
		}
		scanHit(is.Body.List)
		return false
	})
	// the early-return form of the same method: `p, ok := index[key]; if !ok { return … }; <the hit statements>`
	for j := 0; j+1 < len(del.Body.List); j++ {
		if as, ok := del.Body.List[j].(*ast.AssignStmt); ok && isLookup(src(as)) {
			if is, ok := del.Body.List[j+1].(*ast.IfStmt); ok && is.Init == nil && is.Else == nil && src(is.Cond) == "!ok" && len(is.Body.List) == 1 {
				if _, ok := is.Body.List[0].(*ast.ReturnStmt); ok {
					scanHit(del.Body.List[j+2:])
				}
			}
		}
	}

	put := need("Put")
	pr := shRecvName(put)
	putHit := false
	ast.Inspect(put.Body, func(n ast.Node) bool {
		if is, ok := n.(*ast.IfStmt); ok && is.Init != nil && src(is.Init) == "p, replaced = "+pr+".index[key]" && src(is.Cond) == "replaced" {
			putHit = sameSrc(is.Body.List, "e := &"+pr+".entries[p]", "oldValue = e.value", "e.value = value")
		}
		return true
	})

	cp := need("Copy")
	cr := shRecvName(cp)
	copyFresh, copyFrozen := false, "none"
	if n := len(cp.Body.List); n == 5 {
		copyFresh = sameSrc(cp.Body.List[:4],
			"entries := make([]stringEntry, len("+cr+".entries))",
			"copy(entries, "+cr+".entries)",
			"index := make(map[string]int, len("+cr+".index))",
			"for $i, $e := range "+cr+".index { index[$i] = $e }")
		switch src(cp.Body.List[4]) {
		case "return &stringHash{entries, index, false}":
			copyFrozen = "some false"
		case "return &stringHash{entries, index, true}":
			copyFrozen = "some true"
		}
	}

	mg := need("Merge")
	mr := shRecvName(mg)
	mergeOK := sameSrc(mg.Body.List, "merged = "+mr+".Copy()", "merged.PutAll(other)", "return")
	pa := need("PutAll")
	par := shRecvName(pa)
	putAllOK := sameSrc(pa.Body.List, "for $i, $e := range other.(*stringHash).entries { "+par+".Put($e.key, $e.value) }")
	g := need("Get")
	gr := shRecvName(g)
	getOK := sameSrc(g.Body.List, "if p, ok := "+gr+".index[key]; ok { return "+gr+".entries[p].value, true }", "return nil, false")
	inc := need("Includes")
	ir := shRecvName(inc)
	incOK := sameSrc(inc.Body.List, "_, ok := "+ir+".index[key]", "return ok")

	newOK := sameSrc(findFunc(f, "", "NewStringHash").Body.List,
		"return &stringHash{make([]stringEntry, 0, capacity), make(map[string]int, capacity), false}")
	emptyOK := false
	for _, d := range f.Decls {
		if gd, ok := d.(*ast.GenDecl); ok && gd.Tok == token.VAR {
			for _, sp := range gd.Specs {
				if vs, ok := sp.(*ast.ValueSpec); ok && len(vs.Names) == 1 && vs.Names[0].Name == "EmptyStringHash" && len(vs.Values) == 1 {
					emptyOK = src(vs.Values[0]) == "&stringHash{[]stringEntry{}, map[string]int{}, true}"
				}
			}
		}
	}

	b.WriteString("def shFacts : ShFacts where\n  methods := [\n")
	for i, m := range ms {
		sep := ","
		if i == len(ms)-1 {
			sep = "]"
		}
		fmt.Fprintf(&b, "    ⟨%s, %s, %s, %s, %s⟩%s\n", leanStr(m.name), m.guard, leanFields(m.writes), leanFields(m.reads), leanStrs(m.calls), sep)
	}
	fmt.Fprintf(&b, "  renum := %s\n", renum)
	fmt.Fprintf(&b, "  deleteErasesKey := %s\n", leanBool(erases))
	fmt.Fprintf(&b, "  deleteCutsEntry := %s\n", leanBool(cut))
	fmt.Fprintf(&b, "  putMiss := %s\n", missPath(put, pr, "value"))
	fmt.Fprintf(&b, "  ciaMiss := %s\n", missPath(need("ComputeIfAbsent"), shRecvName(need("ComputeIfAbsent")), "value"))
	fmt.Fprintf(&b, "  putHitReplacesValue := %s\n", leanBool(putHit))
	fmt.Fprintf(&b, "  copyFrozen := %s\n", copyFrozen)
	fmt.Fprintf(&b, "  copyFresh := %s\n", leanBool(copyFresh))
	fmt.Fprintf(&b, "  mergeIsCopyPutAll := %s\n", leanBool(mergeOK))
	fmt.Fprintf(&b, "  putAllIsPutEach := %s\n", leanBool(putAllOK))
	fmt.Fprintf(&b, "  getViaIndex := %s\n", leanBool(getOK))
	fmt.Fprintf(&b, "  includesViaIndex := %s\n", leanBool(incOK))
	fmt.Fprintf(&b, "  newIsEmptyUnfrozen := %s\n", leanBool(newOK))
	fmt.Fprintf(&b, "  emptyIsFrozen := %s\n", leanBool(emptyOK))
	b.WriteString("\nend Pcore.Generated\n")
	return b.String()
}
