package main

import (
	"fmt"
	"go/ast"
	"go/token"
	"io/ioutil"
	"path/filepath"
	"sort"
	"strings"
)

// Family "hashops": facts about types.Hash that the C09 model of the index/entries layer rests on.
//
//   * every composite literal of type Hash in package types and the fields it sets (a new Hash must start
//     with `entries` only: no index carried over from anywhere);
//   * every assignment to a field `.index` or `.entries` of a Hash in types/hashtype.go: who, and what
//     (the lazily built map / nil / the result of mergeEntries / the BuildHash callback);
//   * every assignment *through* `X.entries[i]` (there must be none: entries are never changed in place);
//   * the shapes of valueIndex, mergeEntries (copy of the receiver's entries, then replace-or-append through
//     the receiver's index), Delete, DeleteAll, get, IncludesKey, Keys, Values, Len, At, Merge, the Get*
//     wrappers, WrapHash, BuildHash, MutableHashValue.PutAll/Put, NewMutableHash.
// A body that is not recognised is `.unknown "<source>"` / `false`; the side condition rejects it.

func init() { register("hashops", "HashOps", genHashOps) }

const hashFile = "types/hashtype.go"

func enclosingFuncs(f *ast.File, visit func(fn string, fd *ast.FuncDecl)) {
	for _, d := range f.Decls {
		if fd, ok := d.(*ast.FuncDecl); ok && fd.Body != nil {
			name := fd.Name.Name
			if fd.Recv != nil && len(fd.Recv.List) == 1 {
				t := fd.Recv.List[0].Type
				if st, ok := t.(*ast.StarExpr); ok {
					t = st.X
				}
				if id, ok := t.(*ast.Ident); ok {
					name = id.Name + "." + name
				}
			}
			visit(name, fd)
		}
	}
}

func bodyIs(fd *ast.FuncDecl, want ...string) bool { return sameSrc(fd.Body.List, want...) }

func genHashOps() string {
	f := parseFile(hashFile)
	var b strings.Builder
	b.WriteString(header("hashops", "types/*.go (composite literals), "+hashFile))
	b.WriteString("import Pcore.Model.HashFacts\nnamespace Pcore.Generated\nopen Pcore.Coll\n\n")

	// 1. composite literals of type Hash anywhere in package types (non-test files)
	type lit struct{ where, keys string }
	var lits []lit
	files, err := filepath.Glob(filepath.Join(*repo, "types", "*.go"))
	if err != nil {
		panic(err)
	}
	sort.Strings(files)
	for _, p := range files {
		if strings.HasSuffix(p, "_test.go") {
			continue
		}
		if _, err := ioutil.ReadFile(p); err != nil {
			panic(err)
		}
		rel, _ := filepath.Rel(*repo, p)
		pf := parseFile(rel)
		enclosingFuncs(pf, func(fn string, fd *ast.FuncDecl) {
			ast.Inspect(fd.Body, func(n ast.Node) bool {
				cl, ok := n.(*ast.CompositeLit)
				if !ok {
					return true
				}
				if id, ok := cl.Type.(*ast.Ident); !ok || id.Name != "Hash" {
					return true
				}
				keys := []string{}
				for _, e := range cl.Elts {
					if kv, ok := e.(*ast.KeyValueExpr); ok {
						keys = append(keys, src(kv.Key))
					} else {
						keys = append(keys, "<positional>")
					}
				}
				sort.Strings(keys)
				ks := make([]string, len(keys))
				for i, k := range keys {
					ks[i] = leanStr(k)
				}
				lits = append(lits, lit{filepath.Base(p) + ":" + fn, "[" + strings.Join(ks, ", ") + "]"})
				return true
			})
		})
	}

	// 2./3. assignments to .index / .entries and through .entries[i] in hashtype.go
	type wr struct{ fn, field, what string }
	var writes []wr
	var elemWrites []string
	rootedAtEntries := func(e ast.Expr) bool {
		for {
			switch x := e.(type) {
			case *ast.IndexExpr:
				if sel, ok := x.X.(*ast.SelectorExpr); ok && sel.Sel.Name == "entries" {
					return true
				}
				e = x.X
			case *ast.SelectorExpr:
				e = x.X
			case *ast.ParenExpr:
				e = x.X
			case *ast.StarExpr:
				e = x.X
			default:
				return false
			}
		}
	}
	enclosingFuncs(f, func(fn string, fd *ast.FuncDecl) {
		ast.Inspect(fd.Body, func(n ast.Node) bool {
			as, ok := n.(*ast.AssignStmt)
			if !ok {
				return true
			}
			for i, l := range as.Lhs {
				if sel, ok := l.(*ast.SelectorExpr); ok && (sel.Sel.Name == "index" || sel.Sel.Name == "entries") {
					what := ".unknown " + leanStr(src(as))
					if len(as.Lhs) == len(as.Rhs) {
						switch r := src(as.Rhs[i]); {
						case r == "nil":
							what = ".nil"
						case r == "result" && sel.Sel.Name == "index":
							what = ".built"
						case strings.HasSuffix(r, ".mergeEntries(o)"):
							what = ".merged"
						case strings.HasPrefix(r, "bld("):
							what = ".callback"
						}
					}
					writes = append(writes, wr{fn, sel.Sel.Name, what})
				} else if rootedAtEntries(l) {
					elemWrites = append(elemWrites, leanStr(fn+": "+src(as)))
				}
			}
			return true
		})
	})

	fd := func(recv, name string) *ast.FuncDecl { return findFunc(f, recv, name) }
	shape := func(ok bool, yes string, d *ast.FuncDecl) string {
		if ok {
			return yes
		}
		return ".unknown " + leanStr(src(d.Body))
	}

	vi := fd("Hash", "valueIndex")
	viShape := shape(false, "", vi)
	if len(vi.Body.List) == 2 {
		if is, ok := vi.Body.List[0].(*ast.IfStmt); ok && is.Init == nil && is.Else == nil && src(is.Cond) == "hv.index == nil" &&
			sameSrc(is.Body.List,
				"result := make(map[px.HashKey]int, len(hv.entries))",
				"for $i, $e := range hv.entries { result[px.ToKey($e.key)] = $i }",
				"hv.index = result") && src(vi.Body.List[1]) == "return hv.index" {
			viShape = ".lazyLastWins"
		}
	}

	me := fd("Hash", "mergeEntries")
	mergeCopies, mergeLoop := false, ".unknown "+leanStr("mergeEntries: no loop over the other entries")
	l := me.Body.List
	for i := 0; i+3 < len(l); i++ {
		if sameSrc(l[i:i+2], "index := hv.valueIndex()", "selfLen := len(hv.entries)") &&
			strings.HasPrefix(src(l[i+2]), "all := make([]*HashEntry, selfLen, ") && src(l[i+3]) == "copy(all, hv.entries)" { // any capacity
			mergeCopies = true
		}
	}
	for i, s := range l {
		if rs, ok := s.(*ast.RangeStmt); ok && src(rs.X) == "others" {
			mergeLoop = ".unknown " + leanStr(src(rs))
			if i == len(l)-2 && src(l[len(l)-1]) == "return all" {
				switch canon(rs) {
				case "for $i, $e := range others { if idx, ok := index[px.ToKey($e.key)]; ok { all[idx] = $e } else { all = append(all, $e) } }":
					mergeLoop = ".replaceOrAppend"
				case "for $i, $e := range others { all = append(all, $e) }":
					mergeLoop = ".alwaysAppend"
				}
			}
		}
	}
	// the switch that takes the other hash's entries: `others` is only read
	othersOK := len(l) > 1 && src(l[0]) == "var others []*HashEntry"

	del := fd("Hash", "Delete")
	delShape := ".unknown " + leanStr(src(del.Body))
	if len(del.Body.List) == 2 && src(del.Body.List[1]) == "return hv" {
		if is, ok := del.Body.List[0].(*ast.IfStmt); ok && is.Else == nil && is.Init != nil &&
			src(is.Init) == "idx, ok := hv.valueIndex()[px.ToKey(key)]" && src(is.Cond) == "ok" &&
			len(is.Body.List) == 3 && strings.HasPrefix(src(is.Body.List[0]), "entries := make([]*HashEntry, 0, ") && // any capacity
			sameSrc(is.Body.List[1:], "entries = append(entries, hv.entries[:idx]...)",
				"return WrapHash(append(entries, hv.entries[idx+1:]...))") {
			delShape = ".cutAtIndex"
		}
		// the same cut written with two copies into a slice of the final length
		if is, ok := del.Body.List[0].(*ast.IfStmt); ok && is.Else == nil && is.Init != nil &&
			src(is.Init) == "idx, ok := hv.valueIndex()[px.ToKey(key)]" && src(is.Cond) == "ok" && len(is.Body.List) == 4 &&
			sameSrc(is.Body.List, "entries := make([]*HashEntry, len(hv.entries)-1)", "copy(entries, hv.entries[:idx])",
				"copy(entries[idx:], hv.entries[idx+1:])", "return WrapHash(entries)") {
			delShape = ".cutAtIndex"
		}
	}

	da := fd("Hash", "DeleteAll")
	daShape := ".unknown " + leanStr(src(da.Body))
	if dl := da.Body.List; len(dl) == 7 &&
		src(dl[0]) == "valueIndex := hv.valueIndex()" &&
		src(dl[1]) == "deleted := make(map[int]bool, keys.Len())" &&
		src(dl[2]) == "keys.Each(func(key px.Value) { if idx, ok := valueIndex[px.ToKey(key)]; ok { deleted[idx] = true } })" &&
		src(dl[3]) == "if len(deleted) == 0 { return hv }" &&
		strings.HasPrefix(src(dl[4]), "entries := make([]*HashEntry, 0, ") && // any capacity
		canon(dl[5]) == "for $i, $e := range hv.entries { if !deleted[$i] { entries = append(entries, $e) } }" &&
		src(dl[6]) == "return WrapHash(entries)" {
		daShape = ".markThenFilter"
	}

	get := fd("Hash", "get")
	getOK := len(get.Body.List) == 2 && src(get.Body.List[1]) == "return undef, false"
	if getOK {
		is, ok := get.Body.List[0].(*ast.IfStmt)
		getOK = ok && is.Else == nil && is.Init != nil && src(is.Init) == "pos, ok := hv.valueIndex()[key]" && src(is.Cond) == "ok" &&
			sameSrc(is.Body.List, "return hv.entries[pos].value, true")
	}
	wrappers := bodyIs(fd("Hash", "Get"), "return hv.get(px.ToKey(key))") &&
		bodyIs(fd("Hash", "Get2"), "return hv.get2(px.ToKey(key), dflt)") &&
		bodyIs(fd("Hash", "Get4"), "return hv.get(px.HashKey(key))") &&
		bodyIs(fd("Hash", "Get5"), "return hv.get2(px.HashKey(key), dflt)")
	get2 := fd("Hash", "get2")
	get2OK := len(get2.Body.List) == 2 && src(get2.Body.List[1]) == "return dflt"
	if get2OK {
		is, ok := get2.Body.List[0].(*ast.IfStmt)
		get2OK = ok && is.Else == nil && is.Init != nil && src(is.Init) == "pos, ok := hv.valueIndex()[key]" && src(is.Cond) == "ok" &&
			sameSrc(is.Body.List, "return hv.entries[pos].value")
	}
	incOK := bodyIs(fd("Hash", "IncludesKey"), "_, ok := hv.valueIndex()[px.ToKey(o)]", "return ok") &&
		bodyIs(fd("Hash", "IncludesKey2"), "_, ok := hv.valueIndex()[px.HashKey(key)]", "return ok")
	viewsOK := bodyIs(fd("Hash", "Keys"), "keys := make([]px.Value, len(hv.entries))",
		"for $i, $e := range hv.entries { keys[$i] = $e.key }", "return WrapValues(keys)") &&
		bodyIs(fd("Hash", "Values"), "values := make([]px.Value, len(hv.entries))",
			"for $i, $e := range hv.entries { values[$i] = $e.value }", "return WrapValues(values)") &&
		bodyIs(fd("Hash", "Len"), "return len(hv.entries)") &&
		bodyIs(fd("Hash", "At"), "if i >= 0 && i < len(hv.entries) { return hv.entries[i] }", "return undef") &&
		bodyIs(fd("Hash", "Each"), "for $i, $e := range hv.entries { consumer($e) }") &&
		bodyIs(fd("Hash", "EachPair"), "for $i, $e := range hv.entries { consumer($e.key, $e.value) }")
	mergeOK := bodyIs(fd("Hash", "Merge"), "return WrapHash(hv.mergeEntries(o))")
	wrapOK := bodyIs(fd("", "WrapHash"), "return &Hash{entries: entries}")
	buildOK := bodyIs(fd("", "BuildHash"), "h := &Hash{entries: make([]*HashEntry, 0, len)}", "h.entries = bld(h, h.entries)", "return h")
	newMutOK := bodyIs(fd("", "NewMutableHash"), "return &MutableHashValue{Hash{entries: make([]*HashEntry, 0, 7)}}")
	putOK := bodyIs(fd("MutableHashValue", "Put"), "hv.PutAll(WrapHash([]*HashEntry{{key, value}}))")
	// PutAll: first the merged entries, and the index is reset afterwards (the cached types may be reset in any order)
	pa := fd("MutableHashValue", "PutAll")
	putAllResets := false
	if pl := stmtsSrc(pa.Body.List); len(pl) >= 2 && pl[0] == "hv.entries = hv.mergeEntries(o)" {
		for _, s := range pl[1:] {
			if s == "hv.index = nil" {
				putAllResets = true
			}
		}
	}

	b.WriteString("def hashFacts : HashFacts where\n  literals := [\n")
	for i, l := range lits {
		sep := ","
		if i == len(lits)-1 {
			sep = "]"
		}
		fmt.Fprintf(&b, "    (%s, %s)%s\n", leanStr(l.where), l.keys, sep)
	}
	if len(lits) == 0 {
		b.WriteString("    ]\n")
	}
	b.WriteString("  fieldWrites := [\n")
	for i, w := range writes {
		sep := ","
		if i == len(writes)-1 {
			sep = "]"
		}
		fmt.Fprintf(&b, "    (%s, %s, %s)%s\n", leanStr(w.fn), leanStr(w.field), w.what, sep)
	}
	if len(writes) == 0 {
		b.WriteString("    ]\n")
	}
	fmt.Fprintf(&b, "  entryElementWrites := [%s]\n", strings.Join(elemWrites, ", "))
	fmt.Fprintf(&b, "  valueIndex := %s\n", viShape)
	fmt.Fprintf(&b, "  mergeCopiesReceiver := %s\n", leanBool(mergeCopies && othersOK))
	fmt.Fprintf(&b, "  mergeLoop := %s\n", mergeLoop)
	fmt.Fprintf(&b, "  delete := %s\n", delShape)
	fmt.Fprintf(&b, "  deleteAll := %s\n", daShape)
	fmt.Fprintf(&b, "  getViaIndex := %s\n", leanBool(getOK && get2OK && wrappers))
	fmt.Fprintf(&b, "  includesViaIndex := %s\n", leanBool(incOK))
	fmt.Fprintf(&b, "  viewsReadEntries := %s\n", leanBool(viewsOK))
	fmt.Fprintf(&b, "  mergeWrapsMerged := %s\n", leanBool(mergeOK))
	fmt.Fprintf(&b, "  wrapSetsEntriesOnly := %s\n", leanBool(wrapOK && buildOK && newMutOK))
	fmt.Fprintf(&b, "  putIsPutAllOfSingleton := %s\n", leanBool(putOK))
	fmt.Fprintf(&b, "  putAllResetsIndex := %s\n", leanBool(putAllResets))
	b.WriteString("\nend Pcore.Generated\n")
	_ = token.ADD
	return b.String()
}
