package main

import (
	"fmt"
	"go/ast"
	"go/token"
	"sort"
	"strings"
)

// Family "locksets" (C13): for the shared fields named in C13's anchor — basicLoader.namedEntries,
// fileBasedLoader.locks / index, the value of a loaderEntry, dependencyLoader.index in loader/*.go, and the runtime's
// systemLoader / environmentLoader / settings (rt.lock, internal/runtime.go; table `rtLocksets`) — every read / write
// site with the set of mutexes SYNTACTICALLY held there (Lock and RLock are told apart: "lock:w" / "lock:r"):
//   X.lock.Lock() / RLock() … Unlock() / RUnlock(), `defer X.lock.Unlock()` (held to the end of the function),
//   the same for X.locksLock and for the local per-name mutex `nameLock`.
// An unexported method that is only ever called with a lock held inherits the intersection of the lock sets of its call
// sites (one fixpoint over the call graph of the three files).  Function literals that are deferred or started with `go`
// are analysed with no lock held; other function literals (callbacks that run inside the call) with the current set.
// Composite literals (construction of an object that is not yet shared) are not accesses.  Writes through a local alias
// of an inner map are not tracked (syntactic analysis; stated in the trusted base).
// Anything not understood — an unbalanced lock in a branch, a tracked field selected from something that is not the
// receiver — becomes a row with `field := "unknown: …"`, which no side condition accepts.

func init() { register("locksets", "Locksets", genLocksets) }

var lsFiles = []string{"loader/loader.go", "loader/dependency.go", "loader/filebased.go", "internal/runtime.go"}

// the rows of internal/runtime.go (the runtime's lazily created system / environment loaders and its settings map, all
// guarded by rt.lock) go to a table of their own, `rtLocksets`
const lsRuntimeFile = "internal/runtime.go"

type lsRow struct {
	file, fn, field string
	write           bool
	held            []string // "lock:w", "lock:r", "locksLock:w", "nameLock:w"
	initFn          bool
	line            int
}

type lsFunc struct {
	file string
	decl *ast.FuncDecl
	recv string // receiver type name ("" for plain functions)
	rv   string // receiver variable name
	name string // recv.name
}

type lsCall struct {
	callee string
	held   map[string]bool
	caller string
}

type lsAnalysis struct {
	funcs map[string]*lsFunc
	embed map[string][]string // struct → embedded struct names
	base  map[string]map[string]bool
	rows  []lsRow
	calls []lsCall
}

func lockOp(call *ast.CallExpr) (mutex, op string, ok bool) {
	sel, isSel := call.Fun.(*ast.SelectorExpr)
	if !isSel {
		return
	}
	switch sel.Sel.Name {
	case "Lock", "RLock", "Unlock", "RUnlock":
	default:
		return
	}
	switch x := sel.X.(type) {
	case *ast.SelectorExpr:
		if x.Sel.Name == "lock" || x.Sel.Name == "locksLock" {
			return x.Sel.Name, sel.Sel.Name, true
		}
	case *ast.Ident:
		if x.Name == "nameLock" || x.Name == "staticLock" {
			return x.Name, sel.Sel.Name, true
		}
	}
	return "unknown:" + src(sel.X), sel.Sel.Name, true
}

func copySet(m map[string]bool) map[string]bool {
	c := map[string]bool{}
	for k, v := range m {
		if v {
			c[k] = true
		}
	}
	return c
}

func sameSet(a, b map[string]bool) bool {
	if len(a) != len(b) {
		return false
	}
	for k := range a {
		if !b[k] {
			return false
		}
	}
	return true
}

func setList(m map[string]bool) []string {
	var l []string
	for k := range m {
		l = append(l, k)
	}
	sort.Strings(l)
	return l
}

type lsWalker struct {
	a  *lsAnalysis
	f  *lsFunc
	fn string // name used in rows (closures get a suffix)
}

// methodsOf: does struct `recv` (or something it embeds) declare method m?  returns the declaring "Type.m"
func (a *lsAnalysis) resolveMethod(recv, m string) string {
	if _, ok := a.funcs[recv+"."+m]; ok {
		return recv + "." + m
	}
	for _, e := range a.embed[recv] {
		if r := a.resolveMethod(e, m); r != "" {
			return r
		}
	}
	return ""
}

func (w *lsWalker) fieldName(sel *ast.SelectorExpr) (string, bool) {
	switch sel.Sel.Name {
	case "namedEntries":
		return "basicLoader.namedEntries", true
	case "systemLoader", "environmentLoader", "settings":
		if id, ok := sel.X.(*ast.Ident); ok && id.Name == w.f.rv && w.f.recv == "rt" {
			return "rt." + sel.Sel.Name, true
		}
		if w.f.file == lsRuntimeFile {
			return "unknown: " + src(sel) + " in " + w.fn, true
		}
		return "", false
	case "locks", "index", "value":
		if id, ok := sel.X.(*ast.Ident); ok && id.Name == w.f.rv && w.f.recv != "" {
			// the field of the receiver (or of a struct it embeds)
			switch sel.Sel.Name {
			case "value":
				if w.f.recv == "loaderEntry" {
					return "loaderEntry.value", true
				}
			case "locks":
				if w.f.recv == "fileBasedLoader" {
					return "fileBasedLoader.locks", true
				}
			case "index":
				if w.f.recv == "fileBasedLoader" || w.f.recv == "dependencyLoader" {
					return w.f.recv + ".index", true
				}
			}
		}
		return "unknown: " + src(sel) + " in " + w.fn, true
	}
	return "", false
}

func (w *lsWalker) row(field string, write bool, held map[string]bool, pos token.Pos) {
	w.a.rows = append(w.a.rows, lsRow{file: w.f.file, fn: w.fn, field: field, write: write, held: setList(held),
		initFn: w.f.name == "init", line: fset.Position(pos).Line})
}

// scan an expression for reads of tracked fields, calls of sibling methods and function literals
func (w *lsWalker) scan(e ast.Node, held map[string]bool) {
	if e == nil {
		return
	}
	ast.Inspect(e, func(n ast.Node) bool {
		switch n := n.(type) {
		case *ast.CompositeLit:
			// construction: keys are field names, not accesses; values may still contain accesses
			for _, el := range n.Elts {
				if kv, ok := el.(*ast.KeyValueExpr); ok {
					w.scan(kv.Value, held)
				} else {
					w.scan(el, held)
				}
			}
			return false
		case *ast.FuncLit:
			w.block(n.Body.List, copySet(held))
			return false
		case *ast.CallExpr:
			if id, ok := n.Fun.(*ast.Ident); ok && id.Name == "delete" && len(n.Args) == 2 {
				if sel, ok := n.Args[0].(*ast.SelectorExpr); ok {
					if f, tracked := w.fieldName(sel); tracked {
						w.row(f, true, held, n.Pos())
						w.scan(n.Args[1], held)
						return false
					}
				}
			}
			if sel, ok := n.Fun.(*ast.SelectorExpr); ok {
				// l.method(…) or l.embedded.method(…)
				recvT := ""
				switch x := sel.X.(type) {
				case *ast.Ident:
					if x.Name == w.f.rv {
						recvT = w.f.recv
					}
				case *ast.SelectorExpr:
					if id, ok := x.X.(*ast.Ident); ok && id.Name == w.f.rv {
						recvT = x.Sel.Name
					}
				}
				if recvT != "" {
					if callee := w.a.resolveMethod(recvT, sel.Sel.Name); callee != "" {
						w.a.calls = append(w.a.calls, lsCall{callee: callee, held: copySet(held), caller: w.f.name})
					}
				}
			}
		case *ast.SelectorExpr:
			if f, tracked := w.fieldName(n); tracked {
				w.row(f, false, held, n.Pos())
			}
		}
		return true
	})
}

func (w *lsWalker) unknown(what string, pos token.Pos) {
	w.row("unknown: "+what+" in "+w.fn, false, nil, pos)
}

// block walks statements in order; returns the lock set held afterwards
func (w *lsWalker) block(stmts []ast.Stmt, held map[string]bool) map[string]bool {
	for _, s := range stmts {
		held = w.stmt(s, held)
	}
	return held
}

func (w *lsWalker) branches(held map[string]bool, bodies ...[]ast.Stmt) map[string]bool {
	for _, b := range bodies {
		after := w.block(b, copySet(held))
		if !sameSet(after, held) && !endsInReturn(b) {
			w.unknown("a branch changes the lock set", b[0].Pos())
		}
	}
	return held
}

func endsInReturn(b []ast.Stmt) bool {
	if len(b) == 0 {
		return false
	}
	switch s := b[len(b)-1].(type) {
	case *ast.ReturnStmt:
		return true
	case *ast.ExprStmt:
		if c, ok := s.X.(*ast.CallExpr); ok {
			if id, ok := c.Fun.(*ast.Ident); ok && id.Name == "panic" {
				return true
			}
		}
	}
	return false
}

func (w *lsWalker) stmt(s ast.Stmt, held map[string]bool) map[string]bool {
	switch s := s.(type) {
	case *ast.ExprStmt:
		if call, ok := s.X.(*ast.CallExpr); ok {
			if m, op, ok := lockOp(call); ok {
				if strings.HasPrefix(m, "unknown:") {
					w.unknown("lock operation on "+m, s.Pos())
					return held
				}
				held = copySet(held)
				switch op {
				case "Lock":
					held[m+":w"] = true
				case "RLock":
					held[m+":r"] = true
				case "Unlock":
					delete(held, m+":w")
				case "RUnlock":
					delete(held, m+":r")
				}
				return held
			}
		}
		w.scan(s.X, held)
	case *ast.DeferStmt:
		if _, _, ok := lockOp(s.Call); ok {
			return held // released at function end: held for the rest of the body
		}
		if fl, ok := s.Call.Fun.(*ast.FuncLit); ok {
			sub := &lsWalker{a: w.a, f: w.f, fn: w.fn + "$defer"}
			sub.block(fl.Body.List, map[string]bool{})
			for _, a := range s.Call.Args {
				w.scan(a, held)
			}
			return held
		}
		w.scan(s.Call, map[string]bool{})
	case *ast.GoStmt:
		if fl, ok := s.Call.Fun.(*ast.FuncLit); ok {
			sub := &lsWalker{a: w.a, f: w.f, fn: w.fn + "$go"}
			sub.block(fl.Body.List, map[string]bool{})
			return held
		}
		w.scan(s.Call, map[string]bool{})
	case *ast.AssignStmt:
		for _, l := range s.Lhs {
			switch x := l.(type) {
			case *ast.IndexExpr:
				if sel, ok := x.X.(*ast.SelectorExpr); ok {
					if f, tracked := w.fieldName(sel); tracked {
						w.row(f, true, held, x.Pos())
						w.scan(x.Index, held)
						continue
					}
				}
				w.scan(x, held)
			case *ast.SelectorExpr:
				if f, tracked := w.fieldName(x); tracked {
					w.row(f, true, held, x.Pos())
					continue
				}
				w.scan(x, held)
			case *ast.StarExpr:
				// *old.(*loaderEntry) = … overwrites every field of the entry
				if strings.Contains(src(x.X), "loaderEntry") {
					w.row("loaderEntry.value", true, held, x.Pos())
					continue
				}
				w.scan(x, held)
			default:
				w.scan(x, held)
			}
		}
		for _, r := range s.Rhs {
			// a guarded MAP copied into a variable is an alias of the live map: what is done through it later (ranging
			// over it after the lock is released, say) is invisible to a syntactic lock-set analysis — not accepted
			if sel, ok := r.(*ast.SelectorExpr); ok {
				if f, tracked := w.fieldName(sel); tracked && f != "loaderEntry.value" && f != "rt.systemLoader" && f != "rt.environmentLoader" && !strings.HasPrefix(f, "unknown") && w.f.name != "init" {
					w.unknown("alias of the guarded map "+f+" ("+src(s)+")", r.Pos())
				}
			}
			w.scan(r, held)
		}
	case *ast.IfStmt:
		if s.Init != nil {
			held = w.stmt(s.Init, held)
		}
		w.scan(s.Cond, held)
		var bodies [][]ast.Stmt
		bodies = append(bodies, s.Body.List)
		switch e := s.Else.(type) {
		case *ast.BlockStmt:
			bodies = append(bodies, e.List)
		case *ast.IfStmt:
			bodies = append(bodies, []ast.Stmt{e})
		}
		return w.branches(held, bodies...)
	case *ast.ForStmt:
		if s.Init != nil {
			held = w.stmt(s.Init, held)
		}
		w.scan(s.Cond, held)
		if s.Post != nil {
			w.stmt(s.Post, held)
		}
		return w.branches(held, s.Body.List)
	case *ast.RangeStmt:
		w.scan(s.X, held)
		return w.branches(held, s.Body.List)
	case *ast.SwitchStmt:
		if s.Init != nil {
			held = w.stmt(s.Init, held)
		}
		w.scan(s.Tag, held)
		for _, c := range s.Body.List {
			cc := c.(*ast.CaseClause)
			for _, e := range cc.List {
				w.scan(e, held)
			}
			w.branches(held, cc.Body)
		}
	case *ast.TypeSwitchStmt:
		if s.Init != nil {
			held = w.stmt(s.Init, held)
		}
		w.stmt(s.Assign, held)
		for _, c := range s.Body.List {
			w.branches(held, c.(*ast.CaseClause).Body)
		}
	case *ast.BlockStmt:
		return w.block(s.List, held)
	case *ast.ReturnStmt:
		for _, r := range s.Results {
			w.scan(r, held)
		}
	case *ast.DeclStmt:
		w.scan(s.Decl, held)
	case *ast.IncDecStmt:
		w.scan(s.X, held)
	case *ast.BranchStmt, *ast.EmptyStmt:
	case *ast.LabeledStmt:
		return w.stmt(s.Stmt, held)
	default:
		w.unknown(fmt.Sprintf("statement %T", s), s.Pos())
	}
	return held
}

func genLocksets() string {
	a := &lsAnalysis{funcs: map[string]*lsFunc{}, embed: map[string][]string{}, base: map[string]map[string]bool{}}
	for _, rel := range lsFiles {
		f := parseFile(rel)
		for _, d := range f.Decls {
			switch d := d.(type) {
			case *ast.GenDecl:
				for _, sp := range d.Specs {
					ts, ok := sp.(*ast.TypeSpec)
					if !ok {
						continue
					}
					st, ok := ts.Type.(*ast.StructType)
					if !ok {
						continue
					}
					for _, fld := range st.Fields.List {
						if len(fld.Names) == 0 {
							if id, ok := fld.Type.(*ast.Ident); ok {
								a.embed[ts.Name.Name] = append(a.embed[ts.Name.Name], id.Name)
							}
						}
					}
				}
			case *ast.FuncDecl:
				if d.Body == nil {
					continue
				}
				lf := &lsFunc{file: rel, decl: d, name: d.Name.Name}
				if d.Recv != nil && len(d.Recv.List) == 1 {
					t := d.Recv.List[0].Type
					if st, ok := t.(*ast.StarExpr); ok {
						t = st.X
					}
					if id, ok := t.(*ast.Ident); ok {
						lf.recv = id.Name
						lf.name = id.Name + "." + d.Name.Name
					}
					if len(d.Recv.List[0].Names) == 1 {
						lf.rv = d.Recv.List[0].Names[0].Name
					}
				}
				if _, dup := a.funcs[lf.name]; dup && lf.name == "init" {
					lf.name = "init@" + rel
				}
				a.funcs[lf.name] = lf
			}
		}
	}
	names := make([]string, 0, len(a.funcs))
	for n := range a.funcs {
		names = append(names, n)
	}
	sort.Strings(names)
	// fixpoint: the lock set an unexported method can rely on = intersection over its call sites
	for round := 0; round < 6; round++ {
		a.rows, a.calls = nil, nil
		for _, n := range names {
			f := a.funcs[n]
			w := &lsWalker{a: a, f: f, fn: n}
			start := copySet(a.base[n])
			w.block(f.decl.Body.List, start)
		}
		nb := map[string]map[string]bool{}
		for _, c := range a.calls {
			f := a.funcs[c.callee]
			if f == nil || ast.IsExported(f.decl.Name.Name) {
				continue
			}
			if cur, ok := nb[c.callee]; ok {
				for _, k := range setList(cur) {
					if c.held[k] {
						continue
					}
					// a mutex held exclusively at one call site and shared at another is held SHARED as far as the callee
					// can rely on it
					m := strings.TrimSuffix(strings.TrimSuffix(k, ":w"), ":r")
					switch {
					case strings.HasSuffix(k, ":r") && c.held[m+":w"]:
					case strings.HasSuffix(k, ":w") && c.held[m+":r"]:
						delete(cur, k)
						cur[m+":r"] = true
					default:
						delete(cur, k)
					}
				}
			} else {
				nb[c.callee] = copySet(c.held)
			}
		}
		same := len(nb) == len(a.base)
		for k, v := range nb {
			if !sameSet(v, a.base[k]) {
				same = false
			}
		}
		a.base = nb
		if same {
			break
		}
	}
	sort.SliceStable(a.rows, func(i, j int) bool {
		if a.rows[i].file != a.rows[j].file {
			return a.rows[i].file < a.rows[j].file
		}
		return a.rows[i].line < a.rows[j].line
	})
	var b strings.Builder
	b.WriteString(header("locksets", strings.Join(lsFiles, ", ")))
	b.WriteString("import Pcore.Model.Lockset\nnamespace Pcore.Generated\nopen Pcore.Lockset\n")
	table := func(name string, rows []lsRow) {
		b.WriteString("\ndef " + name + " : List Access := [\n")
		for i, r := range rows {
			var hs []string
			for _, h := range r.held {
				p := strings.SplitN(h, ":", 2)
				hs = append(hs, fmt.Sprintf("(%s, .%s)", leanStr(p[0]), p[1]))
			}
			sep := ","
			if i == len(rows)-1 {
				sep = ""
			}
			fmt.Fprintf(&b, "  { fn := %s, field := %s, write := %v, held := [%s], init := %v }%s  -- %s:%d\n",
				leanStr(r.fn), leanStr(r.field), r.write, strings.Join(hs, ", "), r.initFn, sep, r.file, r.line)
		}
		b.WriteString("]\n")
	}
	var loaderRows, rtRows []lsRow
	for _, r := range a.rows {
		if r.file == lsRuntimeFile {
			rtRows = append(rtRows, r)
		} else {
			loaderRows = append(loaderRows, r)
		}
	}
	table("locksets", loaderRows)
	table("rtLocksets", rtRows)
	b.WriteString("\nend Pcore.Generated\n")
	return b.String()
}
