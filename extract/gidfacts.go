package main

import (
	"fmt"
	"go/ast"
	"go/constant"
	"go/parser"
	"go/token"
	"path/filepath"
	"strings"
)

// Family "gidfacts" (property C14): the constants of threadlocal.getg() — the size of the buffer handed to runtime.Stack, the
// length of the "goroutine " prefix, the bounds of the digit test, the radix — read out of the ONE idiom
// lean/Pcore/Model/GidFacts.lean models:
//
//	const prefixLen = P                       (optional: then the loop header holds the literal)
//	var buf [B]byte
//	l := runtime.Stack(buf[:K], false)        (`buf[:]` → K = B)
//	n := int64(A)
//	for i := prefixLen; i < l; i++ { d := buf[i]; if d < LO || d > HI { break }; n = n*R + int64(d-S) }
//	if n == Z { panic(…) }
//	return n
//
// Local names are free (they are bound by the statements themselves and must be used consistently).  Every constant hole is
// an integer / rune CONSTANT EXPRESSION evaluated with go/constant (0x30, 48, '0', '0'+0, byte('0'), prefixLen … are the same
// constant: the source text of a constant never matters).  A statement that does not fit is copied into `unknown`; a table
// with a non-empty `unknown` satisfies no obligation.  Pure go/ast matching; never executes pcore.

func init() { register("gidfacts", "GidFacts", genGidFacts) }

type gidFacts struct {
	prefixLen, bufLen, stackLen, acc0, loopFrom, digitLo, digitHi, base, digitSub, panicOn uint64
	unknown                                                                                 []string
}

func gfShort(s string) string {
	if r := []rune(s); len(r) > 200 {
		s = string(r[:200]) + "…"
	}
	return s
}

// gfConst evaluates an integer / rune constant expression (0x30, 48, '0', '0'+0, prefixLen-0, byte('0'), (1<<6) …) with
// go/constant; `env` holds the local constants declared before.  The SOURCE TEXT of a constant never matters, only its value.
func gfConst(e ast.Expr, env map[string]constant.Value) (constant.Value, bool) {
	switch x := e.(type) {
	case *ast.BasicLit:
		if x.Kind != token.INT && x.Kind != token.CHAR {
			return nil, false
		}
		v := constant.MakeFromLiteral(x.Value, x.Kind, 0)
		if v.Kind() == constant.Unknown {
			return nil, false
		}
		return constant.ToInt(v), true
	case *ast.Ident:
		v, ok := env[x.Name]
		return v, ok
	case *ast.ParenExpr:
		return gfConst(x.X, env)
	case *ast.UnaryExpr:
		v, ok := gfConst(x.X, env)
		if !ok || (x.Op != token.ADD && x.Op != token.SUB) {
			return nil, false
		}
		return constant.UnaryOp(x.Op, v, 0), true
	case *ast.BinaryExpr:
		l, ok1 := gfConst(x.X, env)
		r, ok2 := gfConst(x.Y, env)
		if !ok1 || !ok2 {
			return nil, false
		}
		switch x.Op {
		case token.ADD, token.SUB, token.MUL, token.AND, token.OR, token.XOR:
			return constant.BinaryOp(l, x.Op, r), true
		case token.QUO, token.REM:
			if constant.Sign(r) == 0 {
				return nil, false
			}
			op := x.Op
			if op == token.QUO {
				op = token.QUO_ASSIGN // integer division
			}
			return constant.BinaryOp(l, op, r), true
		case token.SHL, token.SHR:
			n, ok := constant.Uint64Val(r)
			if !ok || n > 63 {
				return nil, false
			}
			return constant.Shift(l, x.Op, uint(n)), true
		}
		return nil, false
	case *ast.CallExpr:
		// a conversion to an integer type
		if id, ok := x.Fun.(*ast.Ident); ok && len(x.Args) == 1 && x.Ellipsis == token.NoPos {
			switch id.Name {
			case "byte", "uint8", "int", "int64", "uint", "uint64", "int32", "rune", "uint32":
				return gfConst(x.Args[0], env)
			}
		}
	}
	return nil, false
}

func gfNat(e ast.Expr, env map[string]constant.Value) (uint64, bool) {
	v, ok := gfConst(e, env)
	if !ok || v.Kind() != constant.Int {
		return 0, false
	}
	return constant.Uint64Val(v)
}

func gfName(e ast.Expr) (string, bool) {
	id, ok := e.(*ast.Ident)
	if !ok || id.Name == "_" {
		return "", false
	}
	return id.Name, true
}

func gfIs(e ast.Expr, name string) bool {
	id, ok := e.(*ast.Ident)
	return ok && name != "" && id.Name == name
}

func gfDefine1(s ast.Stmt) (string, ast.Expr, bool) {
	a, ok := s.(*ast.AssignStmt)
	if !ok || a.Tok != token.DEFINE || len(a.Lhs) != 1 || len(a.Rhs) != 1 {
		return "", nil, false
	}
	n, ok := gfName(a.Lhs[0])
	return n, a.Rhs[0], ok
}

func gfBin(e ast.Expr, op token.Token) (ast.Expr, ast.Expr, bool) {
	for {
		p, ok := e.(*ast.ParenExpr)
		if !ok {
			break
		}
		e = p.X
	}
	b, ok := e.(*ast.BinaryExpr)
	if !ok || b.Op != op {
		return nil, nil, false
	}
	return b.X, b.Y, true
}

func gidFactsOf(f *ast.File, fd *ast.FuncDecl) (g gidFacts) {
	unk := func(n ast.Node) { g.unknown = append(g.unknown, gfShort(src(n))) }
	missing := func(what string) { g.unknown = append(g.unknown, "missing: "+what) }
	if fd.Type.Params.NumFields() != 0 || fd.Type.Results.NumFields() != 1 || src(fd.Type.Results.List[0].Type) != "int64" {
		g.unknown = append(g.unknown, "signature: "+gfShort(src(fd.Type)))
	}
	// read through one level of helper extraction (inline.go, inlineresults.go)
	stmts := inlineResultHelpers(f, inlineHelpers(f, fd.Body.List))
	env := map[string]constant.Value{}
	i := 0
	next := func() ast.Stmt {
		if i < len(stmts) {
			s := stmts[i]
			i++
			return s
		}
		return nil
	}
	s := next()
	// const prefixLen = P (optional)
	pfxName := ""
	if ds, ok := s.(*ast.DeclStmt); ok {
		if gd, ok := ds.Decl.(*ast.GenDecl); ok && gd.Tok == token.CONST && len(gd.Specs) == 1 {
			if vs, ok := gd.Specs[0].(*ast.ValueSpec); ok && len(vs.Names) == 1 && len(vs.Values) == 1 {
				if v, ok := gfConst(vs.Values[0], env); ok {
					if n, ok := constant.Uint64Val(v); ok {
						pfxName = vs.Names[0].Name
						env[pfxName] = v
						g.prefixLen = n
						s = next()
					}
				}
			}
		}
	}
	// var buf [B]byte
	bufName := ""
	okBuf := false
	if ds, ok := s.(*ast.DeclStmt); ok {
		if gd, ok := ds.Decl.(*ast.GenDecl); ok && gd.Tok == token.VAR && len(gd.Specs) == 1 {
			if vs, ok := gd.Specs[0].(*ast.ValueSpec); ok && len(vs.Names) == 1 && len(vs.Values) == 0 {
				if at, ok := vs.Type.(*ast.ArrayType); ok && at.Len != nil && (gfIs(at.Elt, "byte") || gfIs(at.Elt, "uint8")) {
					if n, ok := gfNat(at.Len, env); ok {
						bufName, g.bufLen, okBuf = vs.Names[0].Name, n, true
					}
				}
			}
		}
	}
	if !okBuf {
		if s != nil {
			unk(s)
		} else {
			missing("var buf [N]byte")
		}
	}
	// l := runtime.Stack(buf[:K], false)
	s = next()
	lName := ""
	okStack := false
	if name, rhs, ok := gfDefine1(s); ok {
		if c, ok := rhs.(*ast.CallExpr); ok && src(c.Fun) == "runtime.Stack" && len(c.Args) == 2 && c.Ellipsis == token.NoPos && gfIs(c.Args[1], "false") {
			if sl, ok := c.Args[0].(*ast.SliceExpr); ok && gfIs(sl.X, bufName) && !sl.Slice3 {
				lowOK := sl.Low == nil
				if !lowOK {
					if n, ok := gfNat(sl.Low, env); ok && n == 0 {
						lowOK = true
					}
				}
				if lowOK {
					if sl.High == nil {
						lName, g.stackLen, okStack = name, g.bufLen, true
					} else if n, ok := gfNat(sl.High, env); ok {
						lName, g.stackLen, okStack = name, n, true
					} else if c2, ok := sl.High.(*ast.CallExpr); ok && gfIs(c2.Fun, "len") && len(c2.Args) == 1 && gfIs(c2.Args[0], bufName) {
						lName, g.stackLen, okStack = name, g.bufLen, true
					}
				}
			}
		}
	}
	if !okStack {
		if s != nil {
			unk(s)
		} else {
			missing("l := runtime.Stack(buf[:N], false)")
		}
	}
	// n := int64(A)
	s = next()
	nName := ""
	okAcc := false
	if name, rhs, ok := gfDefine1(s); ok {
		if c, ok := rhs.(*ast.CallExpr); ok && gfIs(c.Fun, "int64") && len(c.Args) == 1 {
			if n, ok := gfNat(c.Args[0], env); ok {
				nName, g.acc0, okAcc = name, n, true
			}
		}
	}
	if !okAcc {
		if s != nil {
			unk(s)
		} else {
			missing("n := int64(0)")
		}
	}
	// for i := P; i < l; i++ { d := buf[i]; if d < LO || d > HI { break }; n = n*R + int64(d-S) }
	s = next()
	okFor := false
	if fs, ok := s.(*ast.ForStmt); ok && fs.Init != nil && fs.Cond != nil && fs.Post != nil && len(fs.Body.List) == 3 {
		func() {
			iName, from, ok := gfDefine1(fs.Init)
			if !ok {
				return
			}
			fromV, ok := gfNat(from, env)
			if !ok {
				return
			}
			cx, cy, ok := gfBin(fs.Cond, token.LSS)
			if !ok || !gfIs(cx, iName) || !gfIs(cy, lName) {
				return
			}
			inc, ok := fs.Post.(*ast.IncDecStmt)
			if !ok || inc.Tok != token.INC || !gfIs(inc.X, iName) {
				return
			}
			dName, rhs, ok := gfDefine1(fs.Body.List[0])
			if !ok {
				return
			}
			ix, ok := rhs.(*ast.IndexExpr)
			if !ok || !gfIs(ix.X, bufName) || !gfIs(ix.Index, iName) {
				return
			}
			is, ok := fs.Body.List[1].(*ast.IfStmt)
			if !ok || is.Init != nil || is.Else != nil || len(is.Body.List) != 1 {
				return
			}
			br, ok := is.Body.List[0].(*ast.BranchStmt)
			if !ok || br.Tok != token.BREAK || br.Label != nil {
				return
			}
			lo, hi, ok := gfBin(is.Cond, token.LOR)
			if !ok {
				return
			}
			lx, ly, ok1 := gfBin(lo, token.LSS)
			hx, hy, ok2 := gfBin(hi, token.GTR)
			if !ok1 || !ok2 || !gfIs(lx, dName) || !gfIs(hx, dName) {
				return
			}
			loV, ok1 := gfNat(ly, env)
			hiV, ok2 := gfNat(hy, env)
			if !ok1 || !ok2 {
				return
			}
			st, ok := fs.Body.List[2].(*ast.AssignStmt)
			if !ok || st.Tok != token.ASSIGN || len(st.Lhs) != 1 || len(st.Rhs) != 1 || !gfIs(st.Lhs[0], nName) {
				return
			}
			mul, add, ok := gfBin(st.Rhs[0], token.ADD)
			if !ok {
				return
			}
			mx, my, ok := gfBin(mul, token.MUL)
			if !ok || !gfIs(mx, nName) {
				return
			}
			baseV, ok := gfNat(my, env)
			if !ok {
				return
			}
			conv, ok := add.(*ast.CallExpr)
			if !ok || !gfIs(conv.Fun, "int64") || len(conv.Args) != 1 {
				return
			}
			sx, sy, ok := gfBin(conv.Args[0], token.SUB)
			if !ok || !gfIs(sx, dName) {
				return
			}
			subV, ok := gfNat(sy, env)
			if !ok {
				return
			}
			if nName == "" || lName == "" || bufName == "" || dName == iName || dName == nName || iName == nName || dName == lName || iName == lName {
				return
			}
			g.loopFrom, g.digitLo, g.digitHi, g.base, g.digitSub = fromV, loV, hiV, baseV, subV
			if pfxName == "" {
				g.prefixLen = fromV
			}
			okFor = true
		}()
	}
	if !okFor {
		if s != nil {
			unk(s)
		} else {
			missing("the digit loop")
		}
	}
	// if n == Z { panic(…) }
	s = next()
	okPanic := false
	if is, ok := s.(*ast.IfStmt); ok && is.Init == nil && is.Else == nil && len(is.Body.List) == 1 {
		if x, y, ok := gfBin(is.Cond, token.EQL); ok && gfIs(x, nName) {
			if z, ok := gfNat(y, env); ok {
				if es, ok := is.Body.List[0].(*ast.ExprStmt); ok {
					if c, ok := es.X.(*ast.CallExpr); ok && gfIs(c.Fun, "panic") && len(c.Args) == 1 {
						g.panicOn, okPanic = z, true
					}
				}
			}
		}
	}
	if !okPanic {
		if s != nil {
			unk(s)
		} else {
			missing("if n == 0 { panic(…) }")
		}
	}
	// return n
	s = next()
	if rs, ok := s.(*ast.ReturnStmt); !ok || len(rs.Results) != 1 || !gfIs(rs.Results[0], nName) {
		if s != nil {
			unk(s)
		} else {
			missing("return n")
		}
	}
	for i < len(stmts) {
		unk(stmts[i])
		i++
	}
	return
}

func genGidFacts() string {
	const file = "threadlocal/gid.go"
	g := func() (g gidFacts) {
		defer func() {
			if e := recover(); e != nil {
				g = gidFacts{unknown: []string{fmt.Sprintf("extractor: %v", e)}}
			}
		}()
		// parsed WITHOUT comments: a comment is never part of a statement's printed form
		f, err := parser.ParseFile(fset, filepath.Join(*repo, file), nil, 0)
		if err != nil {
			panic(err)
		}
		return gidFactsOf(f, findFunc(f, "", "getg"))
	}()
	var b strings.Builder
	b.WriteString(header("gidfacts", file))
	b.WriteString("import Pcore.Model.GidFacts\nnamespace Pcore.Generated\nopen Pcore.GidFacts\n\n")
	b.WriteString("def gidFacts : Facts where\n")
	for _, r := range []struct {
		n string
		v uint64
	}{{"prefixLen", g.prefixLen}, {"bufLen", g.bufLen}, {"stackLen", g.stackLen}, {"acc0", g.acc0}, {"loopFrom", g.loopFrom},
		{"digitLo", g.digitLo}, {"digitHi", g.digitHi}, {"base", g.base}, {"digitSub", g.digitSub}, {"panicOn", g.panicOn}} {
		fmt.Fprintf(&b, "  %s := %d\n", r.n, r.v)
	}
	us := make([]string, len(g.unknown))
	for i, u := range g.unknown {
		us[i] = leanStr(u)
	}
	b.WriteString("  unknown := [" + strings.Join(us, ", ") + "]\n")
	b.WriteString("\nend Pcore.Generated\n")
	return b.String()
}
