package main

import (
	"fmt"
	"go/ast"
	"go/parser"
	"path/filepath"
	"regexp"
	"strconv"
	"strings"
)

// Family "gidfacts" (property C14): the constants of threadlocal.getg() — the size of the buffer handed to runtime.Stack, the
// length of the "goroutine " prefix, the bounds of the digit test, the radix — read out of the ONE idiom
// lean/Pcore/Model/GidFacts.lean models:
//
//	const prefixLen = P                       (optional: then the loop header holds the literal)
//	var buf [B]byte
//	l := runtime.Stack(buf[:K], false)        (`buf[:]` → K = B)
//	n := int64(A)
//	for i := prefixLen; i < l; i++ { d := buf[i]; if d < LO || d > HI { break }; n = n*R + int64(d-S) }
//	if n == Z { panic(…) }
//	return n
//
// Local names are free (they are bound by the statements themselves and must be used consistently).  A statement that
// does not fit is copied into `unknown`; a table with a non-empty `unknown` satisfies no obligation.  Pure go/ast + the
// printed form of single statements; never executes pcore.

func init() { register("gidfacts", "GidFacts", genGidFacts) }

const gfNum = `(0[xX][0-9a-fA-F]+|[0-9]+)`
const gfId = `([A-Za-z_][A-Za-z_0-9]*)`

var (
	gfConst  = regexp.MustCompile(`^const ` + gfId + ` = ` + gfNum + `$`)
	gfBuf    = regexp.MustCompile(`^var ` + gfId + ` \[` + gfNum + `\]byte$`)
	gfStack  = regexp.MustCompile(`^` + gfId + ` := runtime\.Stack\(` + gfId + `\[:` + gfNum + `?\], false\)$`)
	gfAcc    = regexp.MustCompile(`^` + gfId + ` := int64\(` + gfNum + `\)$`)
	gfFor    = regexp.MustCompile(`^for ` + gfId + ` := ([A-Za-z_0-9]+); ` + gfId + ` < ` + gfId + `; ` + gfId + `\+\+ \{ (.*) \}$`)
	gfByte   = regexp.MustCompile(`^` + gfId + ` := ` + gfId + `\[` + gfId + `\]$`)
	gfTest   = regexp.MustCompile(`^if ` + gfId + ` < ` + gfNum + ` \|\| ` + gfId + ` > ` + gfNum + ` \{ break \}$`)
	gfStep   = regexp.MustCompile(`^` + gfId + ` = ` + gfId + `\*` + gfNum + ` \+ int64\(` + gfId + `-` + gfNum + `\)$`)
	gfPanic  = regexp.MustCompile(`^if ` + gfId + ` == ` + gfNum + ` \{ panic\(.*\) \}$`)
	gfReturn = regexp.MustCompile(`^return ` + gfId + `$`)
)

type gidFacts struct {
	prefixLen, bufLen, stackLen, acc0, loopFrom, digitLo, digitHi, base, digitSub, panicOn uint64
	unknown                                                                                 []string
}

func gfParse(s string) uint64 {
	n, err := strconv.ParseUint(s, 0, 64)
	if err != nil {
		panic(fmt.Sprintf("number %q: %v", s, err))
	}
	return n
}

func gfShort(s string) string {
	if r := []rune(s); len(r) > 200 {
		s = string(r[:200]) + "…"
	}
	return s
}

func gidFactsOf(f *ast.File, fd *ast.FuncDecl) (g gidFacts) {
	unk := func(n ast.Node) { g.unknown = append(g.unknown, gfShort(src(n))) }
	if fd.Type.Params.NumFields() != 0 || fd.Type.Results.NumFields() != 1 || src(fd.Type.Results.List[0].Type) != "int64" {
		g.unknown = append(g.unknown, "signature: "+gfShort(src(fd.Type)))
	}
	// read through one level of helper extraction (inline.go, inlineresults.go)
	stmts := inlineResultHelpers(f, inlineHelpers(f, fd.Body.List))
	i := 0
	next := func() (ast.Stmt, string) {
		if i < len(stmts) {
			s := stmts[i]
			i++
			return s, src(s)
		}
		return nil, ""
	}
	pfxName, havePfx := "", false
	s, txt := next()
	if m := gfConst.FindStringSubmatch(txt); m != nil {
		pfxName, havePfx = m[1], true
		g.prefixLen = gfParse(m[2])
		s, txt = next()
	}
	bufName := ""
	if m := gfBuf.FindStringSubmatch(txt); m != nil {
		bufName = m[1]
		g.bufLen = gfParse(m[2])
	} else if s != nil {
		unk(s)
	} else {
		g.unknown = append(g.unknown, "missing: var buf [N]byte")
	}
	lName := ""
	s, txt = next()
	if m := gfStack.FindStringSubmatch(txt); m != nil && m[2] == bufName {
		lName = m[1]
		if m[3] == "" {
			g.stackLen = g.bufLen
		} else {
			g.stackLen = gfParse(m[3])
		}
	} else if s != nil {
		unk(s)
	} else {
		g.unknown = append(g.unknown, "missing: l := runtime.Stack(buf[:N], false)")
	}
	nName := ""
	s, txt = next()
	if m := gfAcc.FindStringSubmatch(txt); m != nil {
		nName = m[1]
		g.acc0 = gfParse(m[2])
	} else if s != nil {
		unk(s)
	} else {
		g.unknown = append(g.unknown, "missing: n := int64(0)")
	}
	s, txt = next()
	okFor := false
	if fs, isFor := s.(*ast.ForStmt); isFor {
		if m := gfFor.FindStringSubmatch(txt); m != nil && m[1] == m[3] && m[1] == m[5] && m[4] == lName && lName != "" && len(fs.Body.List) == 3 {
			iName := m[1]
			fromOK := true
			switch {
			case havePfx && m[2] == pfxName:
				g.loopFrom = g.prefixLen
			case regexp.MustCompile(`^` + gfNum + `$`).MatchString(m[2]):
				g.loopFrom = gfParse(m[2])
				if !havePfx {
					g.prefixLen = g.loopFrom
				}
			default:
				fromOK = false
			}
			b0, b1, b2 := src(fs.Body.List[0]), src(fs.Body.List[1]), src(fs.Body.List[2])
			m0, m1, m2 := gfByte.FindStringSubmatch(b0), gfTest.FindStringSubmatch(b1), gfStep.FindStringSubmatch(b2)
			if fromOK && m0 != nil && m1 != nil && m2 != nil {
				dName := m0[1]
				if m0[2] == bufName && m0[3] == iName && m1[1] == dName && m1[3] == dName &&
					m2[1] == nName && m2[2] == nName && m2[4] == dName && nName != "" &&
					dName != iName && dName != nName && iName != nName {
					g.digitLo, g.digitHi = gfParse(m1[2]), gfParse(m1[4])
					g.base, g.digitSub = gfParse(m2[3]), gfParse(m2[5])
					okFor = true
				}
			}
		}
	}
	if !okFor {
		if s != nil {
			unk(s)
		} else {
			g.unknown = append(g.unknown, "missing: the digit loop")
		}
	}
	s, txt = next()
	if m := gfPanic.FindStringSubmatch(txt); m != nil && m[1] == nName {
		g.panicOn = gfParse(m[2])
	} else if s != nil {
		unk(s)
	} else {
		g.unknown = append(g.unknown, "missing: if n == 0 { panic(…) }")
	}
	s, txt = next()
	if m := gfReturn.FindStringSubmatch(txt); m == nil || m[1] != nName {
		if s != nil {
			unk(s)
		} else {
			g.unknown = append(g.unknown, "missing: return n")
		}
	}
	for i < len(stmts) {
		unk(stmts[i])
		i++
	}
	return
}

func genGidFacts() string {
	const file = "threadlocal/gid.go"
	g := func() (g gidFacts) {
		defer func() {
			if e := recover(); e != nil {
				g = gidFacts{unknown: []string{fmt.Sprintf("extractor: %v", e)}}
			}
		}()
		// parsed WITHOUT comments: a comment is never part of a statement's printed form
		f, err := parser.ParseFile(fset, filepath.Join(*repo, file), nil, 0)
		if err != nil {
			panic(err)
		}
		return gidFactsOf(f, findFunc(f, "", "getg"))
	}()
	var b strings.Builder
	b.WriteString(header("gidfacts", file))
	b.WriteString("import Pcore.Model.GidFacts\nnamespace Pcore.Generated\nopen Pcore.GidFacts\n\n")
	b.WriteString("def gidFacts : Facts where\n")
	for _, r := range []struct {
		n string
		v uint64
	}{{"prefixLen", g.prefixLen}, {"bufLen", g.bufLen}, {"stackLen", g.stackLen}, {"acc0", g.acc0}, {"loopFrom", g.loopFrom},
		{"digitLo", g.digitLo}, {"digitHi", g.digitHi}, {"base", g.base}, {"digitSub", g.digitSub}, {"panicOn", g.panicOn}} {
		fmt.Fprintf(&b, "  %s := %d\n", r.n, r.v)
	}
	us := make([]string, len(g.unknown))
	for i, u := range g.unknown {
		us[i] = leanStr(u)
	}
	b.WriteString("  unknown := [" + strings.Join(us, ", ") + "]\n")
	b.WriteString("\nend Pcore.Generated\n")
	return b.String()
}
