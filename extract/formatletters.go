package main

import (
	"go/ast"
	"go/token"
	"sort"
	"strconv"
	"strings"
)

// Family "formatletters": for each value kind's ToString the `switch f.FormatChar()`:
//   handled     – the letters of the arms that format (anything but a bare panic(s.UnsupportedFormat(…)))
//   toFloat     – of those, the letters whose arm hands over to floatValue(…).ToString
//   toInt       – of those, the letters whose arm hands over to integerValue(…).ToString
//   documented  – the literal passed to UnsupportedFormat (all calls in the function must agree)
// Kinds without such a switch (Undef, Regexp) are emitted with `noSwitch := true`.

// Family "formatlettersx": the same facts for EVERY value kind with a ToString of its own (table `formatLettersX` over `XKind`,
// lean/Pcore/Model/FormatX.lean), plus
//   flagged     – of the handled letters, those whose arm calls ApplyStringFlags (width, precision and `-` are honoured)
// and the plain function TypeToString (Type values); object instances are formatted by Hash.ToString2 (ObjectToString).
func init() {
	register("formatletters", "FormatLetters", genFormatLetters)
	register("formatlettersx", "FormatLettersX", genFormatLettersX)
}

type letterSite struct {
	kind, file, recv, fn string
}

var letterSites = []letterSite{
	{"int", "types/integertype.go", "integerValue", "ToString"},
	{"float", "types/floattype.go", "floatValue", "ToString"},
	{"str", "types/stringtype.go", "stringValue", "ToString"},
	{"bool", "types/booleantype.go", "booleanValue", "ToString"},
	{"bin", "types/binarytype.go", "Binary", "ToString"},
	{"dflt", "types/defaulttype.go", "DefaultValue", "ToString"},
	{"arr", "types/arraytype.go", "Array", "ToString2"},
	{"hash", "types/hashtype.go", "Hash", "ToString2"},
	{"undef", "types/undeftype.go", "UndefValue", "ToString"},
	{"regexp", "types/regexptype.go", "Regexp", "ToString"},
}

var letterSitesX = append(append([]letterSite{}, letterSites...),
	letterSite{"semver", "types/semvertype.go", "SemVer", "ToString"},
	letterSite{"semverRange", "types/semverrangetype.go", "SemVerRange", "ToString"},
	letterSite{"uri", "types/uritype.go", "UriValue", "ToString"},
	letterSite{"tspan", "types/timespantype.go", "Timespan", "ToString"},
	letterSite{"tstamp", "types/timestamptype.go", "Timestamp", "ToString"},
	letterSite{"sensitive", "types/sensitivetype.go", "Sensitive", "ToString"},
	letterSite{"typ", "types/types.go", "", "TypeToString"},
	letterSite{"obj", "types/hashtype.go", "Hash", "ToString2"},
	letterSite{"talias", "types/typealiastype.go", "TypeAliasType", "ToString"},
	letterSite{"otype", "types/objecttype.go", "objectType", "ToString"},
)

// armCalls: the arm contains a call `….NAME(…)`
func armCalls(body []ast.Stmt, name string) bool {
	found := false
	for _, st := range body {
		ast.Inspect(st, func(n ast.Node) bool {
			if call, ok := n.(*ast.CallExpr); ok {
				if sel, ok := call.Fun.(*ast.SelectorExpr); ok && sel.Sel.Name == name {
					found = true
				}
			}
			return true
		})
	}
	return found
}

func leanChars(s string) string {
	xs := make([]string, 0, len(s))
	for i := 0; i < len(s); i++ {
		xs = append(xs, leanChar(s[i]))
	}
	return "[" + strings.Join(xs, ", ") + "]"
}

// unsupportedLiteral returns the literal of a call `….UnsupportedFormat(t, LIT, f)`
func unsupportedLiteral(n ast.Node) (string, bool) {
	call, ok := n.(*ast.CallExpr)
	if !ok {
		return "", false
	}
	sel, ok := call.Fun.(*ast.SelectorExpr)
	if !ok || sel.Sel.Name != "UnsupportedFormat" || len(call.Args) != 3 {
		return "", false
	}
	lit, ok := call.Args[1].(*ast.BasicLit)
	if !ok || lit.Kind != token.STRING {
		return "", false
	}
	s, err := strconv.Unquote(lit.Value)
	if err != nil {
		return "", false
	}
	return s, true
}

// isRejectArm: the arm is exactly `panic(x.UnsupportedFormat(…))`
func isRejectArm(body []ast.Stmt) bool {
	if len(body) != 1 {
		return false
	}
	es, ok := body[0].(*ast.ExprStmt)
	if !ok {
		return false
	}
	call, ok := es.X.(*ast.CallExpr)
	if !ok || len(call.Args) != 1 {
		return false
	}
	if id, ok := call.Fun.(*ast.Ident); !ok || id.Name != "panic" {
		return false
	}
	_, ok = unsupportedLiteral(call.Args[0])
	return ok
}

func armDelegates(body []ast.Stmt, conv string) bool {
	found := false
	for _, st := range body {
		ast.Inspect(st, func(n ast.Node) bool {
			if call, ok := n.(*ast.CallExpr); ok {
				if sel, ok := call.Fun.(*ast.SelectorExpr); ok && sel.Sel.Name == "ToString" {
					if inner, ok := sel.X.(*ast.CallExpr); ok {
						if id, ok := inner.Fun.(*ast.Ident); ok && id.Name == conv {
							found = true
						}
					}
				}
			}
			return true
		})
	}
	return found
}

func sortedChars(m map[byte]bool) string {
	bs := make([]int, 0, len(m))
	for c := range m {
		bs = append(bs, int(c))
	}
	sort.Ints(bs)
	out := make([]byte, len(bs))
	for i, c := range bs {
		out[i] = byte(c)
	}
	return string(out)
}

func genFormatLetters() string {
	return genLetterTable("formatletters", "Pcore.Model.Format", "formatLetters", "LetterRow", letterSites, false)
}

func genFormatLettersX() string {
	return genLetterTable("formatlettersx", "Pcore.Model.FormatX", "formatLettersX", "XLetterRow", letterSitesX, true)
}

func genLetterTable(family, imp, table, rowType string, sites []letterSite, withFlagged bool) string {
	var b strings.Builder
	b.WriteString(header(family, "the ToString methods of the value kinds (types/*type.go)"))
	b.WriteString("import " + imp + "\nnamespace Pcore.Generated\nopen Pcore.Format\n\n")
	b.WriteString("def " + table + " : List " + rowType + " := [\n")
	rows := []string{}
	for _, site := range sites {
		f := parseFile(site.file)
		fd := findFunc(f, site.recv, site.fn)
		var unknown []string
		handled, toFloat, toInt, flagged := map[byte]bool{}, map[byte]bool{}, map[byte]bool{}, map[byte]bool{}
		// every UnsupportedFormat literal in the function
		lits := map[string]bool{}
		ast.Inspect(fd, func(n ast.Node) bool {
			if s, ok := unsupportedLiteral(n); ok {
				lits[s] = true
			}
			return true
		})
		// the switch on f.FormatChar()
		var sw *ast.SwitchStmt
		nsw := 0
		ast.Inspect(fd, func(n ast.Node) bool {
			if s, ok := n.(*ast.SwitchStmt); ok && s.Tag != nil && src(s.Tag) == "f.FormatChar()" {
				sw = s
				nsw++
			}
			return true
		})
		noSwitch := sw == nil
		// ApplyStringFlags called outside the switch: it applies whatever the letter
		flagsAll := false
		ast.Inspect(fd, func(n ast.Node) bool {
			if sw != nil && n == ast.Node(sw) {
				return false
			}
			if call, ok := n.(*ast.CallExpr); ok {
				if sel, ok := call.Fun.(*ast.SelectorExpr); ok && sel.Sel.Name == "ApplyStringFlags" {
					flagsAll = true
				}
			}
			return true
		})
		if nsw > 1 {
			unknown = append(unknown, "more than one switch on f.FormatChar()")
		}
		if sw != nil {
			hasDefault := false
			for _, c := range sw.Body.List {
				cc := c.(*ast.CaseClause)
				reject := isRejectArm(cc.Body)
				if cc.List == nil {
					hasDefault = true
					if !reject {
						unknown = append(unknown, "default arm is not panic(UnsupportedFormat): "+src(cc))
					}
					continue
				}
				for _, e := range cc.List {
					lit, ok := e.(*ast.BasicLit)
					if !ok || lit.Kind != token.CHAR {
						unknown = append(unknown, "case "+src(e))
						continue
					}
					r, _, _, err := strconv.UnquoteChar(strings.Trim(lit.Value, "'"), '\'')
					if err != nil || r >= 128 {
						unknown = append(unknown, "case "+src(e))
						continue
					}
					if reject {
						continue
					}
					handled[byte(r)] = true
					if armDelegates(cc.Body, "floatValue") {
						toFloat[byte(r)] = true
					}
					if armDelegates(cc.Body, "integerValue") {
						toInt[byte(r)] = true
					}
					if armCalls(cc.Body, "ApplyStringFlags") {
						flagged[byte(r)] = true
					}
				}
			}
			if !hasDefault {
				unknown = append(unknown, "no default arm")
			}
			if len(lits) != 1 {
				unknown = append(unknown, "UnsupportedFormat literals: "+strconv.Itoa(len(lits)))
			}
		} else if len(lits) != 0 {
			unknown = append(unknown, "UnsupportedFormat without a switch on f.FormatChar()")
		}
		doc := ""
		for s := range lits {
			if len(lits) == 1 {
				doc = s
			}
		}
		us := make([]string, len(unknown))
		for i, u := range unknown {
			us[i] = leanStr(u)
		}
		fl := ""
		if withFlagged {
			fl = " flagsAll := " + strconv.FormatBool(flagsAll) + ", flagged := " + leanChars(sortedChars(flagged)) + ","
		}
		rows = append(rows, "  { kind := ."+site.kind+", noSwitch := "+strconv.FormatBool(noSwitch)+
			", handled := "+leanChars(sortedChars(handled))+", toFloat := "+leanChars(sortedChars(toFloat))+
			", toInt := "+leanChars(sortedChars(toInt))+",\n   "+fl+" documented := "+leanChars(doc)+", unknown := ["+strings.Join(us, ", ")+"] }")
	}
	b.WriteString(strings.Join(rows, ",\n"))
	b.WriteString("\n]\n\nend Pcore.Generated\n")
	return b.String()
}
