package main

import (
	"fmt"
	"go/ast"
	"go/token"
	"sort"
	"strings"
)

// Family "cachefacts" (property C08): the hidden per-value state of Array and Hash — every struct field that is not
// the backing slice (`reducedType`, `detailedType`, `index`: lazily built caches) — and every assignment to such a
// field anywhere in types/arraytype.go and types/hashtype.go, classified:
//
//   .lazyFill   `recv.f = …` inside `if recv.f == nil { … }`: the cache is filled once, from the receiver
//   .reset      `recv.f = nil`
//   .unknown "<src>"  anything else (an unguarded overwrite, a write to another value's cache)
//
// plus the methods that assign the receiver's backing slice (`recv.entries = …`: the mutators).  What these facts have
// to satisfy (`CachesSafe`: every mutator resets every cache of its type; nothing but lazy fills and resets) lives in
// hand-written Lean.

func init() { register("cachefacts", "CacheFacts", genCacheFacts) }

func structFields(f *ast.File, name string) []string {
	var out []string
	ast.Inspect(f, func(n ast.Node) bool {
		ts, ok := n.(*ast.TypeSpec)
		if !ok || ts.Name.Name != name {
			return true
		}
		st, ok := ts.Type.(*ast.StructType)
		if !ok {
			return true
		}
		for _, fl := range st.Fields.List {
			if len(fl.Names) == 0 {
				out = append(out, "embedded "+src(fl.Type))
			}
			for _, nm := range fl.Names {
				out = append(out, nm.Name)
			}
		}
		return false
	})
	return out
}

func genCacheFacts() string {
	files := []string{"types/arraytype.go", "types/hashtype.go"}
	var b strings.Builder
	b.WriteString(header("cachefacts", strings.Join(files, ", ")))
	b.WriteString("import Pcore.Model.Caches\nnamespace Pcore.Generated\nopen Pcore.Heap\n\n")

	parsed := map[string]*ast.File{}
	for _, rel := range files {
		parsed[rel] = parseFile(rel)
	}
	// hidden state = fields other than the backing slice
	cache := map[string]bool{}
	var fieldRows []string
	for _, tn := range []struct{ file, name string }{{files[0], "Array"}, {files[1], "Hash"}, {files[1], "MutableHashValue"}} {
		var cs []string
		for _, fl := range structFields(parsed[tn.file], tn.name) {
			if storageField[fl] {
				continue
			}
			cs = append(cs, leanStr(fl))
			if !strings.HasPrefix(fl, "embedded ") {
				cache[fl] = true
			}
		}
		fieldRows = append(fieldRows, fmt.Sprintf("(%s, [%s])", leanStr(tn.name), strings.Join(cs, ", ")))
	}

	type wrow struct{ method, field, kind string }
	var writes []wrow
	mutators := map[string]bool{}
	for _, rel := range files {
		for _, d := range parsed[rel].Decls {
			fd, ok := d.(*ast.FuncDecl)
			if !ok || fd.Body == nil {
				continue
			}
			key := funcKey(fd)
			recv := recvVarName(fd)
			rt := recvTypeName(fd)
			isValueMethod := rt == "Array" || rt == "Hash" || rt == "MutableHashValue"
			// guards: the stack of `if x.f == nil` conditions we are inside of
			var walk func(n ast.Node, guards []string)
			walk = func(n ast.Node, guards []string) {
				switch s := n.(type) {
				case nil:
					return
				case *ast.IfStmt:
					g := guards
					if be, ok := s.Cond.(*ast.BinaryExpr); ok && be.Op == token.EQL && src(be.Y) == "nil" {
						g = append(append([]string{}, guards...), src(be.X))
					}
					if s.Init != nil {
						walk(s.Init, guards)
					}
					walk(s.Body, g)
					if s.Else != nil {
						walk(s.Else, guards)
					}
					return
				case *ast.AssignStmt:
					for i, l := range s.Lhs {
						sel, ok := l.(*ast.SelectorExpr)
						if !ok {
							continue
						}
						target := src(sel.X)
						if storageField[sel.Sel.Name] && isValueMethod && target == recv {
							mutators[key] = true
						}
						if !cache[sel.Sel.Name] {
							continue
						}
						// only fields of collection values: the receiver, or something whose static type we cannot
						// see (reported as unknown when it is not the receiver of a value method)
						if !(isValueMethod && target == recv) {
							if looksLikeCollectionVar(fd, target) {
								writes = append(writes, wrow{key, sel.Sel.Name, ".unknown " + leanStr(src(s))})
							}
							continue
						}
						kind := ".unknown " + leanStr(src(s))
						if i < len(s.Rhs) && src(s.Rhs[i]) == "nil" && len(s.Lhs) == len(s.Rhs) {
							kind = ".reset"
						} else {
							for _, g := range guards {
								if g == src(l) {
									kind = ".lazyFill"
								}
							}
						}
						writes = append(writes, wrow{key, sel.Sel.Name, kind})
					}
				}
				// generic descent
				ast.Inspect(n, func(m ast.Node) bool {
					if m == n || m == nil {
						return true
					}
					switch m.(type) {
					case *ast.IfStmt, *ast.AssignStmt:
						walk(m, guards)
						return false
					}
					return true
				})
			}
			walk(fd.Body, nil)
		}
	}
	sort.SliceStable(writes, func(i, j int) bool { return writes[i].method < writes[j].method })
	var wl []string
	for _, w := range writes {
		wl = append(wl, fmt.Sprintf("    (%s, %s, %s)", leanStr(w.method), leanStr(w.field), w.kind))
	}
	var ms []string
	for m := range mutators {
		ms = append(ms, leanStr(m))
	}
	sort.Strings(ms)
	fmt.Fprintf(&b, "def cacheFacts : CacheFacts where\n  fields := [%s]\n  writes := [\n%s]\n  mutators := [%s]\n",
		strings.Join(fieldRows, ", "), strings.Join(wl, ",\n"), strings.Join(ms, ", "))
	b.WriteString("\nend Pcore.Generated\n")
	return b.String()
}

// looksLikeCollectionVar: is `name` a parameter or local of the function whose declared type is *Array / *Hash /
// *MutableHashValue (syntactically)?  Used to report writes to ANOTHER value's cache.
func looksLikeCollectionVar(fd *ast.FuncDecl, name string) bool {
	found := false
	isColl := func(t ast.Expr) bool {
		s := strings.TrimPrefix(src(t), "*")
		return s == "Array" || s == "Hash" || s == "MutableHashValue"
	}
	for _, f := range fd.Type.Params.List {
		for _, n := range f.Names {
			if n.Name == name && isColl(f.Type) {
				found = true
			}
		}
	}
	ast.Inspect(fd.Body, func(n ast.Node) bool {
		switch s := n.(type) {
		case *ast.AssignStmt:
			for i, l := range s.Lhs {
				if id, ok := l.(*ast.Ident); ok && id.Name == name && i < len(s.Rhs) {
					if collectionLit(s.Rhs[i]) != nil {
						found = true
					}
					if ta, ok := s.Rhs[i].(*ast.TypeAssertExpr); ok && ta.Type != nil && isColl(ta.Type) {
						found = true
					}
				}
			}
		case *ast.TypeSwitchStmt:
			// `switch o := o.(type) { case *Hash: … }`
			if as, ok := s.Assign.(*ast.AssignStmt); ok && len(as.Lhs) == 1 && src(as.Lhs[0]) == name {
				for _, c := range s.Body.List {
					for _, t := range c.(*ast.CaseClause).List {
						if isColl(t) {
							found = true
						}
					}
				}
			}
		}
		return true
	})
	return found
}
