package main

import (
	"fmt"
	"go/ast"
	"go/token"
	"strconv"
	"strings"
)

// Family "objschema": the declared schema of an object definition, `TypeObjectInitHash` of types/objecttype.go.
//
//   members   one row per element of the `NewStructType([]*StructElement{ … })` literal, in source order:
//             the key (a `keyXxx` constant resolved to its string), whether the key is optional
//             (`newOptionalType3(key)`), and the value type classified by the source text of the expression
//             (a named package-level type such as `TypeEquality`, `DefaultBooleanType()`, or the one inline
//             expression `NewVariantType(DefaultTypeType(), TypeTypeName)`); anything else is `.unknown "<src>"`.
//   typeDefs  the source text of the package-level definitions the member types refer to (`TypeEquality = …`,
//             `TypeMemberNames = …`, `MemberNamePattern = …` …): the side condition compares them with the texts
//             the model's `sinst` was written against.
//   readKeys  every `keyXxx` constant that `(*objectType).InitFromHash` reads from its `initHash` argument
//             (`initHash.Get4(k)`, `initHash.Get5(k, …)`, `stringArg/hashArg/boolArg(initHash, k, …)`), resolved.
//
// Nothing is executed; an unrecognised element of the literal becomes a member named "?" with an unknown type.

func init() { register("objschema", "ObjectSchema", genObjSchema) }

var objSchemaTypes = map[string]string{
	"TypeTypeName": ".typeName",
	"NewVariantType(DefaultTypeType(), TypeTypeName)": ".typeOrTypeName",
	"TypeParameters":       ".parameters",
	"TypeAttributes":       ".attributes",
	"TypeConstants":        ".constants",
	"TypeFunctions":        ".functions",
	"TypeEquality":         ".equality",
	"DefaultBooleanType()": ".boolean",
	"TypeMemberNames":      ".memberNames",
	"typeAnnotations":      ".annotations",
}

// package-level definitions whose text the side condition pins
var objSchemaDefs = []string{"TypeNamePattern", "TypeTypeName", "MemberNamePattern", "TypeMemberName", "TypeMemberNames",
	"TypeAttributes", "TypeParameters", "TypeFunctions", "TypeEquality"}

func stringConsts(f *ast.File) map[string]string {
	vals := map[string]string{}
	for _, d := range f.Decls {
		gd, ok := d.(*ast.GenDecl)
		if !ok || gd.Tok != token.CONST {
			continue
		}
		for _, sp := range gd.Specs {
			vs, ok := sp.(*ast.ValueSpec)
			if !ok || len(vs.Names) != 1 || len(vs.Values) != 1 {
				continue
			}
			if lit, ok := vs.Values[0].(*ast.BasicLit); ok && lit.Kind == token.STRING {
				if s, err := strconv.Unquote(lit.Value); err == nil {
					vals[vs.Names[0].Name] = s
				}
			}
		}
	}
	return vals
}

func packageVar(f *ast.File, name string) ast.Expr {
	for _, d := range f.Decls {
		gd, ok := d.(*ast.GenDecl)
		if !ok || gd.Tok != token.VAR {
			continue
		}
		for _, sp := range gd.Specs {
			vs, ok := sp.(*ast.ValueSpec)
			if !ok || len(vs.Names) != 1 || len(vs.Values) != 1 || vs.Names[0].Name != name {
				continue
			}
			return vs.Values[0]
		}
	}
	return nil
}

func callName(e ast.Expr) (string, []ast.Expr) {
	if c, ok := e.(*ast.CallExpr); ok {
		if id, ok := c.Fun.(*ast.Ident); ok {
			return id.Name, c.Args
		}
	}
	return "", nil
}

func genObjSchema() string {
	const file = "types/objecttype.go"
	f := parseFile(file)
	consts := stringConsts(f)
	var b strings.Builder
	b.WriteString(header("objschema", file))
	b.WriteString("import Pcore.Model.ObjectSchema\nnamespace Pcore.Generated\nopen Pcore.Object\n\n")

	// members
	var rows []string
	bad := func(e ast.Expr) {
		rows = append(rows, fmt.Sprintf("{ name := \"?\", optional := false, ty := .unknown %s }", leanStr(src(e))))
	}
	lit := packageVar(f, "TypeObjectInitHash")
	name, args := callName(lit)
	var elems []ast.Expr
	if name == "NewStructType" && len(args) == 1 {
		if cl, ok := args[0].(*ast.CompositeLit); ok {
			elems = cl.Elts
		}
	}
	if elems == nil {
		panic("TypeObjectInitHash is not `NewStructType([]*StructElement{…})`")
	}
	for _, e := range elems {
		fn, a := callName(e)
		if !(fn == "NewStructElement" || fn == "newStructElement2") || len(a) != 2 {
			bad(e)
			continue
		}
		keyExpr := a[0]
		optional := false
		if fn == "NewStructElement" {
			kn, ka := callName(keyExpr)
			if kn == "newOptionalType3" && len(ka) == 1 {
				optional = true
				keyExpr = ka[0]
			} else {
				// a required key given as a plain string value would be `newStructElement2`; anything else is not recognised
				bad(e)
				continue
			}
		}
		key := ""
		switch k := keyExpr.(type) {
		case *ast.Ident:
			v, ok := consts[k.Name]
			if !ok {
				bad(e)
				continue
			}
			key = v
		case *ast.BasicLit:
			s, err := strconv.Unquote(k.Value)
			if err != nil {
				bad(e)
				continue
			}
			key = s
		default:
			bad(e)
			continue
		}
		ty, ok := objSchemaTypes[src(a[1])]
		if !ok {
			ty = ".unknown " + leanStr(src(a[1]))
		}
		rows = append(rows, fmt.Sprintf("{ name := %s, optional := %v, ty := %s }", leanStr(key), optional, ty))
	}

	// definitions the member types rest on
	var defs []string
	for _, n := range objSchemaDefs {
		e := packageVar(f, n)
		txt := "?"
		if e != nil {
			txt = src(e)
		}
		defs = append(defs, fmt.Sprintf("(%s, %s)", leanStr(n), leanStr(txt)))
	}

	// keys read by InitFromHash
	var keys []string
	seen := map[string]bool{}
	addKey := func(e ast.Expr) {
		id, ok := e.(*ast.Ident)
		if !ok {
			return
		}
		v, ok := consts[id.Name]
		if !ok {
			v = "?" + id.Name
		}
		if !seen[v] {
			seen[v] = true
			keys = append(keys, leanStr(v))
		}
	}
	isInitHash := func(e ast.Expr) bool {
		id, ok := e.(*ast.Ident)
		return ok && id.Name == "initHash"
	}
	fd := findFunc(f, "objectType", "InitFromHash")
	ast.Inspect(fd.Body, func(n ast.Node) bool {
		c, ok := n.(*ast.CallExpr)
		if !ok {
			return true
		}
		switch fun := c.Fun.(type) {
		case *ast.SelectorExpr: // initHash.Get4(k) / Get5(k, d) / GetEntry(k) / IncludesKey2(k)
			if isInitHash(fun.X) && len(c.Args) >= 1 {
				addKey(c.Args[0])
			}
		case *ast.Ident: // stringArg(initHash, k, d) / hashArg(initHash, k) / boolArg(initHash, k, d) / typeArg(…)
			if len(c.Args) >= 2 && isInitHash(c.Args[0]) {
				addKey(c.Args[1])
			}
		}
		return true
	})

	b.WriteString("def objectSchema : Schema where\n  members := [\n    " + strings.Join(rows, ",\n    ") + "]\n")
	b.WriteString("  typeDefs := [\n    " + strings.Join(defs, ",\n    ") + "]\n")
	b.WriteString("  readKeys := [" + strings.Join(keys, ", ") + "]\n")
	b.WriteString("\nend Pcore.Generated\n")
	return b.String()
}
