package main

import (
	"fmt"
	"go/ast"
	"go/token"
	"sort"
	"strings"
)

// Family "sliceidioms" (property C08): for every function that creates a collection value — the methods of *Array,
// *Hash and *MutableHashValue, the constructors BuildArray/BuildHash/WrapValues/WrapHash/…, BasicCollector and the
// parser's convertHashEntries — classify the expression that becomes the new value's backing slice, and every
// write through a slice that belongs to the receiver.  Rows:
//
//   ("Array.Add/r0", .freshCopy)          r<n>  n-th collection-producing `return` (source order; a delegation
//                                               `return av.Reject(…)` contributes the rows of its target)
//   ("Array.EachSlice/c0", .resliceReceiver)  c<n>  n-th collection constructed outside a return statement
//   ("Array.Sort/w0", .inPlace)           w<n>  n-th write through receiver storage (x[i] = …, copy(x, …), sort)
//   ("MutableHashValue.PutAll/a0", …)     a<n>  n-th assignment to the receiver's elements/entries field
//
// The analysis is syntactic and flow-insensitive: every local variable gets the worst class among its
// assignments.  Anything not recognised is `unknown "<source>"`, which no side condition accepts.

func init() { register("sliceidioms", "SliceIdioms", genSliceIdioms) }

type sclass int

const (
	cNone         sclass = iota // not a slice we know anything about (nil, zero value)
	cFresh                      // make(...), composite literal, result of a helper that allocates, append to those
	cFreshCopy                  // fresh and filled by copy(...)/append(fresh, recv...)
	cOwned                      // storage private to the collector while a value is under construction
	cCallback                   // a fresh slice handed to a builder callback whose result is stored
	cParam                      // a slice received as parameter (or the storage of an argument)
	cRecv                       // receiver.elements / receiver.entries
	cRecvSlice                  // receiver storage re-sliced
	cAppParam                   // append(param, …)
	cAppRecv                    // append(receiver storage, …)
	cAppRecvSlice               // append(receiver storage[i:j], …)
	cUnknown
)

func severity(c sclass) int {
	switch c {
	case cNone:
		return 0
	case cFresh, cFreshCopy, cOwned, cCallback:
		return 1
	case cParam, cRecv, cRecvSlice:
		return 2
	case cAppParam, cAppRecv, cAppRecvSlice:
		return 3
	}
	return 4
}

func joinClass(a, b sclass) sclass {
	if a == b {
		return a
	}
	sa, sb := severity(a), severity(b)
	if sa == 1 && sb == 1 {
		for _, c := range []sclass{cCallback, cOwned, cFreshCopy} {
			if a == c || b == c {
				return c
			}
		}
		return cFresh
	}
	if sa > sb {
		return a
	}
	if sb > sa {
		return b
	}
	if (a == cRecv && b == cRecvSlice) || (a == cRecvSlice && b == cRecv) {
		return cRecvSlice
	}
	return cUnknown
}

func idiomOf(c sclass, source string) string {
	switch c {
	case cFresh:
		return ".mapIntoFresh"
	case cFreshCopy:
		return ".freshCopy"
	case cOwned:
		return ".ownedAppend"
	case cCallback:
		return ".freshToCallback"
	case cParam:
		return ".wrapsArgument"
	case cRecv, cRecvSlice:
		return ".resliceReceiver"
	case cAppRecv:
		return ".appendToReceiver"
	case cAppRecvSlice:
		return ".resliceThenAppend"
	}
	return ".unknown " + leanStr(source)
}

type sliceRow struct{ key, idiom string }

type sliceAnalysis struct {
	files    map[string]*ast.File // package-relative file → AST
	funcs    map[string]*ast.FuncDecl
	visiting map[string]bool
	rowsOf   map[string][]sliceRow // memo: function key → rows
	retClass map[string]sclass     // memo: slice-returning helper → class of its result (in terms of ITS receiver/params)
}

func recvTypeName(fd *ast.FuncDecl) string {
	if fd.Recv == nil || len(fd.Recv.List) != 1 {
		return ""
	}
	t := fd.Recv.List[0].Type
	if st, ok := t.(*ast.StarExpr); ok {
		t = st.X
	}
	if id, ok := t.(*ast.Ident); ok {
		return id.Name
	}
	return ""
}

func recvVarName(fd *ast.FuncDecl) string {
	if fd.Recv == nil || len(fd.Recv.List) != 1 || len(fd.Recv.List[0].Names) != 1 {
		return ""
	}
	return fd.Recv.List[0].Names[0].Name
}

func funcKey(fd *ast.FuncDecl) string {
	if r := recvTypeName(fd); r != "" {
		return r + "." + fd.Name.Name
	}
	return fd.Name.Name
}

func (sa *sliceAnalysis) load(pkg string, rels ...string) {
	for _, rel := range rels {
		f := parseFile(rel)
		sa.files[rel] = f
		for _, d := range f.Decls {
			if fd, ok := d.(*ast.FuncDecl); ok && fd.Body != nil {
				k := funcKey(fd)
				if pkg != "" {
					k = pkg + "." + k
				}
				sa.funcs[k] = fd
			}
		}
	}
}

// env of one function under analysis
type fenv struct {
	sa     *sliceAnalysis
	fd     *ast.FuncDecl
	recv   string            // receiver variable name ("" for plain functions)
	rtype  string            // receiver type name
	vars   map[string]sclass // local variables (and "s." for the slice field of a local struct)
	params map[string]bool   // slice-typed parameters
	alias  map[string]bool   // local variables that are the receiver itself (`x := av`)
	funcPs map[string]bool   // func-typed parameters
}

var storageField = map[string]bool{"elements": true, "entries": true}

func isSliceType(t ast.Expr) bool {
	_, ok := t.(*ast.ArrayType)
	return ok
}

// class of a slice-valued expression
func (e *fenv) class(x ast.Expr) sclass {
	switch x := x.(type) {
	case *ast.ParenExpr:
		return e.class(x.X)
	case *ast.Ident:
		if x.Name == "nil" {
			return cNone
		}
		if c, ok := e.vars[x.Name]; ok {
			return c
		}
		if e.params[x.Name] {
			return cParam
		}
		return cUnknown
	case *ast.SelectorExpr:
		if id, ok := x.X.(*ast.Ident); ok {
			if c, ok := e.vars[id.Name+"."]; ok && !(id.Name == e.recv && e.recv != "") {
				if _, isColl := e.vars[id.Name+".$storage"]; !isColl {
					return c // the slice inside a local helper struct (a sorter)
				}
			}
			if storageField[x.Sel.Name] {
				if (id.Name == e.recv && e.recv != "") || e.alias[id.Name] {
					return cRecv
				}
				if c, ok := e.vars[id.Name+".$storage"]; ok {
					return c // storage of a collection value constructed locally
				}
				return cParam // storage of some other collection value (an argument)
			}
			if c, ok := e.vars[id.Name+"."]; ok {
				return c
			}
		}
		if e.rtype == "BasicCollector" {
			return cOwned
		}
		return cUnknown
	case *ast.IndexExpr:
		// hm.stack[top]: an element of the collector's private stack of slices
		if e.rtype == "BasicCollector" {
			return cOwned
		}
		return cUnknown
	case *ast.SliceExpr:
		if x.Slice3 {
			return cUnknown
		}
		switch c := e.class(x.X); c {
		case cRecv, cRecvSlice:
			return cRecvSlice
		case cFresh, cFreshCopy, cOwned, cParam, cNone:
			return c
		}
		return cUnknown
	case *ast.CompositeLit:
		if isSliceType(x.Type) {
			return cFresh
		}
		return cUnknown
	case *ast.CallExpr:
		return e.callClass(x)
	}
	return cUnknown
}

func (e *fenv) callClass(call *ast.CallExpr) sclass {
	fn := src(call.Fun)
	switch fn {
	case "make":
		if len(call.Args) >= 1 && isSliceType(call.Args[0]) {
			return cFresh
		}
		return cUnknown
	case "append":
		if len(call.Args) == 0 {
			return cUnknown
		}
		switch c := e.class(call.Args[0]); c {
		case cFresh, cFreshCopy:
			if call.Ellipsis != token.NoPos {
				return cFreshCopy
			}
			return c
		case cNone:
			return cFresh // append(nil, …) allocates
		case cOwned:
			return cOwned
		case cParam, cAppParam:
			return cAppParam
		case cRecv, cAppRecv:
			return cAppRecv
		case cRecvSlice, cAppRecvSlice:
			return cAppRecvSlice
		}
		return cUnknown
	}
	// a function-typed parameter applied to a fresh slice: the builder callback of BuildArray/BuildHash
	if id, ok := call.Fun.(*ast.Ident); ok && e.funcPs[id.Name] {
		for _, a := range call.Args {
			if c := e.class(a); c == cFresh || c == cFreshCopy || c == cCallback {
				return cCallback
			}
		}
		return cUnknown
	}
	// helpers that return a slice: analysed on their own, then instantiated at the call site
	var key string
	recvIsSelf := false
	switch f := call.Fun.(type) {
	case *ast.Ident:
		key = f.Name
	case *ast.SelectorExpr:
		if id, ok := f.X.(*ast.Ident); ok {
			if id.Name == "px" {
				key = "px." + f.Sel.Name
			} else if id.Name == e.recv && e.recv != "" {
				key = e.rtype + "." + f.Sel.Name
				if _, ok := e.sa.funcs[key]; !ok && e.rtype == "MutableHashValue" {
					key = "Hash." + f.Sel.Name // promoted through the embedded Hash
				}
				recvIsSelf = true
			}
		}
	}
	if sel, ok := call.Fun.(*ast.SelectorExpr); ok && key == "" && sel.Sel.Name == "AppendTo" && len(call.Args) == 1 {
		// List.AppendTo(slice): every implementation in the analysed files must return append(slice, …)
		n := 0
		for k, fd := range e.sa.funcs {
			if strings.HasSuffix(k, ".AppendTo") {
				if c, p := e.sa.helperClass(k, fd); c != cAppParam || p != 0 {
					return cUnknown
				}
				n++
			}
		}
		if n == 0 {
			return cUnknown
		}
		switch c := e.class(call.Args[0]); c {
		case cFresh, cFreshCopy, cOwned:
			return c
		case cNone:
			return cFresh
		case cParam:
			return cAppParam
		case cRecv:
			return cAppRecv
		case cRecvSlice:
			return cAppRecvSlice
		}
		return cUnknown
	}
	fd, ok := e.sa.funcs[key]
	if !ok {
		return cUnknown
	}
	rc, pidx := e.sa.helperClass(key, fd)
	switch rc {
	case cNone:
		return cNone
	case cFresh, cFreshCopy:
		return rc
	case cRecv, cRecvSlice, cAppRecv, cAppRecvSlice:
		if recvIsSelf {
			return rc
		}
		return cUnknown
	case cAppParam, cParam:
		// the helper returns (an extension of) its pidx-th parameter
		if pidx >= 0 && pidx < len(call.Args) {
			c := e.class(call.Args[pidx])
			if rc == cParam {
				return c
			}
			switch c {
			case cFresh, cFreshCopy, cOwned:
				return c
			case cNone:
				return cFresh
			case cParam:
				return cAppParam
			case cRecv:
				return cAppRecv
			case cRecvSlice:
				return cAppRecvSlice
			}
		}
	}
	return cUnknown
}

// helperClass: class of the slice a helper returns, in terms of the helper's own receiver and parameters; for
// cParam/cAppParam the index of the parameter concerned
func (sa *sliceAnalysis) helperClass(key string, fd *ast.FuncDecl) (sclass, int) {
	if c, ok := sa.retClass[key]; ok {
		return c, sa.paramIndex(key)
	}
	if sa.visiting["h:"+key] {
		return cNone, -1 // a recursive call: contributes nothing new to the join
	}
	sa.visiting["h:"+key] = true
	defer delete(sa.visiting, "h:"+key)
	if fd.Type.Results == nil || len(fd.Type.Results.List) != 1 || !isSliceType(fd.Type.Results.List[0].Type) {
		sa.retClass[key] = cUnknown
		return cUnknown, -1
	}
	e := sa.newEnv(fd)
	e.scanAssignments()
	res := cNone
	pidx := -1
	first := true
	ast.Inspect(fd.Body, func(n ast.Node) bool {
		if _, ok := n.(*ast.FuncLit); ok {
			return false
		}
		if r, ok := n.(*ast.ReturnStmt); ok && len(r.Results) == 1 {
			c := e.class(r.Results[0])
			if c == cParam || c == cAppParam {
				// which parameter?
				ast.Inspect(r.Results[0], func(m ast.Node) bool {
					if id, ok := m.(*ast.Ident); ok && e.params[id.Name] && pidx < 0 {
						pidx = e.paramPos(id.Name)
					}
					return true
				})
			}
			if first {
				res, first = c, false
			} else {
				res = joinClass(res, c)
			}
		}
		return true
	})
	sa.retClass[key] = res
	sa.retClass["$pidx:"+key] = sclass(pidx + 1)
	return res, pidx
}

func (sa *sliceAnalysis) paramIndex(key string) int {
	return int(sa.retClass["$pidx:"+key]) - 1
}

func (e *fenv) paramPos(name string) int {
	i := 0
	for _, f := range e.fd.Type.Params.List {
		for _, n := range f.Names {
			if n.Name == name {
				return i
			}
			i++
		}
	}
	return -1
}

func (sa *sliceAnalysis) newEnv(fd *ast.FuncDecl) *fenv {
	e := &fenv{sa: sa, fd: fd, recv: recvVarName(fd), rtype: recvTypeName(fd), vars: map[string]sclass{},
		params: map[string]bool{}, funcPs: map[string]bool{}, alias: map[string]bool{}}
	for _, f := range fd.Type.Params.List {
		for _, n := range f.Names {
			if isSliceType(f.Type) {
				e.params[n.Name] = true
			}
			if _, ok := f.Type.(*ast.FuncType); ok {
				e.funcPs[n.Name] = true
			}
		}
	}
	return e
}

func (e *fenv) assign(name string, c sclass, define bool) {
	if old, ok := e.vars[name]; ok && !define {
		e.vars[name] = joinClass(old, c)
		return
	}
	if old, ok := e.vars[name]; ok {
		e.vars[name] = joinClass(old, c)
		return
	}
	e.vars[name] = c
}

// sliceFieldOfLit: a local struct built with a slice inside (`&arraySorter{make(…), cmp}`): class of that slice
func (e *fenv) sliceFieldOfLit(x ast.Expr) (sclass, bool) {
	if u, ok := x.(*ast.UnaryExpr); ok && u.Op == token.AND {
		x = u.X
	}
	cl, ok := x.(*ast.CompositeLit)
	if !ok || isSliceType(cl.Type) {
		return cNone, false
	}
	found := false
	res := cNone
	for _, el := range cl.Elts {
		v := el
		if kv, ok := el.(*ast.KeyValueExpr); ok {
			v = kv.Value
		}
		c := e.class(v)
		if c != cUnknown {
			if found {
				res = joinClass(res, c)
			} else {
				res, found = c, true
			}
		}
	}
	return res, found
}

func (e *fenv) scanAssignments() {
	for pass := 0; pass < 3; pass++ {
		ast.Inspect(e.fd.Body, func(n ast.Node) bool {
			switch s := n.(type) {
			case *ast.AssignStmt:
				if len(s.Lhs) != len(s.Rhs) {
					return true
				}
				for i, l := range s.Lhs {
					if sel, ok := l.(*ast.SelectorExpr); ok && storageField[sel.Sel.Name] {
						if id, ok := sel.X.(*ast.Ident); ok && id.Name != e.recv {
							if _, isColl := e.vars[id.Name+".$storage"]; isColl {
								e.vars[id.Name+".$storage"] = joinClass(e.vars[id.Name+".$storage"], e.class(s.Rhs[i]))
							}
						}
						continue
					}
					id, ok := l.(*ast.Ident)
					if !ok {
						continue
					}
					if rid, ok := s.Rhs[i].(*ast.Ident); ok && e.recv != "" && (rid.Name == e.recv || e.alias[rid.Name]) {
						e.alias[id.Name] = true
						continue
					}
					if c, ok := e.sliceFieldOfLit(s.Rhs[i]); ok {
						e.assign(id.Name+".", c, s.Tok == token.DEFINE)
						if cl := collectionLit(s.Rhs[i]); cl != nil {
							e.assign(id.Name+".$storage", c, s.Tok == token.DEFINE)
						}
						continue
					}
					c := e.class(s.Rhs[i])
					if c == cUnknown {
						if _, isCall := s.Rhs[i].(*ast.CallExpr); !isCall && !looksLikeSlice(s.Rhs[i]) {
							continue // not a slice at all (ints, booleans, …)
						}
						if call, isCall := s.Rhs[i].(*ast.CallExpr); isCall && !e.mayReturnSlice(call) {
							continue
						}
					}
					e.assign(id.Name, c, s.Tok == token.DEFINE)
				}
			case *ast.ValueSpec:
				for i, id := range s.Names {
					if i < len(s.Values) {
						e.assign(id.Name, e.class(s.Values[i]), true)
					} else if s.Type != nil && isSliceType(s.Type) {
						e.assign(id.Name, cNone, true)
					}
				}
			case *ast.CallExpr:
				// copy(x, recv…) marks a fresh x as a copy
				if src(s.Fun) == "copy" && len(s.Args) == 2 {
					if id, ok := s.Args[0].(*ast.Ident); ok {
						if c, ok := e.vars[id.Name]; ok && c == cFresh {
							e.vars[id.Name] = cFreshCopy
						}
					}
					if sel, ok := s.Args[0].(*ast.SelectorExpr); ok {
						if id, ok := sel.X.(*ast.Ident); ok {
							if c, ok := e.vars[id.Name+"."]; ok && c == cFresh {
								e.vars[id.Name+"."] = cFreshCopy
							}
						}
					}
				}
			}
			return true
		})
	}
}

func looksLikeSlice(x ast.Expr) bool {
	switch x := x.(type) {
	case *ast.SliceExpr:
		return true
	case *ast.CompositeLit:
		return isSliceType(x.Type)
	case *ast.SelectorExpr:
		return storageField[x.Sel.Name]
	}
	return false
}

func (e *fenv) mayReturnSlice(call *ast.CallExpr) bool {
	switch src(call.Fun) {
	case "make":
		return len(call.Args) > 0 && isSliceType(call.Args[0])
	case "append":
		return true
	}
	if id, ok := call.Fun.(*ast.Ident); ok && e.funcPs[id.Name] {
		return true
	}
	var key string
	switch f := call.Fun.(type) {
	case *ast.Ident:
		key = f.Name
	case *ast.SelectorExpr:
		if id, ok := f.X.(*ast.Ident); ok {
			if id.Name == "px" {
				key = "px." + f.Sel.Name
			} else if id.Name == e.recv {
				key = e.rtype + "." + f.Sel.Name
				if _, ok := e.sa.funcs[key]; !ok {
					key = "Hash." + f.Sel.Name
				}
			}
		}
	}
	if fd, ok := e.sa.funcs[key]; ok {
		return fd.Type.Results != nil && len(fd.Type.Results.List) == 1 && isSliceType(fd.Type.Results.List[0].Type)
	}
	return false
}

// collectionLit: &Array{elements: X} / &Hash{entries: X} / Array{…} / MutableHashValue{Hash{entries: X}}
func collectionLit(x ast.Expr) *ast.CompositeLit {
	if u, ok := x.(*ast.UnaryExpr); ok && u.Op == token.AND {
		x = u.X
	}
	cl, ok := x.(*ast.CompositeLit)
	if !ok {
		return nil
	}
	if id, ok := cl.Type.(*ast.Ident); ok && (id.Name == "Array" || id.Name == "Hash" || id.Name == "MutableHashValue") {
		return cl
	}
	return nil
}

// storageOfConstruction: the expression that becomes the backing slice of a collection constructed by x, if x
// is such a construction
func storageOfConstruction(x ast.Expr) (ast.Expr, bool) {
	if call, ok := x.(*ast.CallExpr); ok {
		switch src(call.Fun) {
		case "WrapValues", "WrapHash":
			if len(call.Args) == 1 {
				return call.Args[0], true
			}
		}
		return nil, false
	}
	if cl := collectionLit(x); cl != nil {
		for _, el := range cl.Elts {
			if kv, ok := el.(*ast.KeyValueExpr); ok {
				if storageField[src(kv.Key)] {
					return kv.Value, true
				}
			} else if inner := collectionLit(el); inner != nil {
				return storageOfConstruction(inner)
			}
		}
		return nil, true // zero storage
	}
	return nil, false
}

var collectionResult = map[string]bool{"px.List": true, "px.OrderedMap": true, "*Array": true, "*Hash": true,
	"*MutableHashValue": true, "px.Value": true}

// rows of one function
func (sa *sliceAnalysis) rows(key string) []sliceRow {
	if r, ok := sa.rowsOf[key]; ok {
		return r
	}
	fd, ok := sa.funcs[key]
	if !ok {
		return []sliceRow{{key + "/r0", ".unknown " + leanStr("no such function "+key)}}
	}
	if sa.visiting[key] {
		return []sliceRow{{key + "/r0", ".unknown " + leanStr("recursive delegation "+key)}}
	}
	sa.visiting[key] = true
	defer delete(sa.visiting, key)

	e := sa.newEnv(fd)
	e.scanAssignments()
	var rows []sliceRow
	nr, nc, nw, na := 0, 0, 0, 0
	add := func(kind string, cnt *int, idiom string) {
		rows = append(rows, sliceRow{fmt.Sprintf("%s/%s%d", key, kind, *cnt), idiom})
		*cnt++
	}
	recvStorage := func(c sclass) bool { return c == cRecv || c == cRecvSlice }
	// class of the slice inside a sorter-like local struct or of a plain slice argument
	argClass := func(x ast.Expr) sclass {
		if id, ok := x.(*ast.Ident); ok {
			if c, ok := e.vars[id.Name+"."]; ok {
				return c
			}
		}
		return e.class(x)
	}
	inReturn := map[ast.Node]bool{}
	// mark a recognised construction (and the literals nested in it) so that it is not reported twice
	mark := func(x ast.Node) {
		inReturn[x] = true
		if u, ok := x.(*ast.UnaryExpr); ok {
			x = u.X
			inReturn[x] = true
		}
		if cl, ok := x.(*ast.CompositeLit); ok {
			for _, el := range cl.Elts {
				if inner := collectionLit(el); inner != nil {
					inReturn[inner] = true
				}
			}
		}
	}
	var visit func(n ast.Node) bool
	visit = func(n ast.Node) bool {
		switch s := n.(type) {
		case *ast.ReturnStmt:
			for _, r := range s.Results {
				// the receiver itself
				if id, ok := r.(*ast.Ident); ok && id.Name == e.recv && e.recv != "" {
					add("r", &nr, ".returnsReceiver")
					continue
				}
				if u, ok := r.(*ast.UnaryExpr); ok && u.Op == token.AND {
					if sel, ok := u.X.(*ast.SelectorExpr); ok && src(sel.X) == e.recv {
						add("r", &nr, ".returnsReceiver") // &hv.Hash
						continue
					}
				}
				// a local that holds a collection constructed earlier (`ar := &Array{…}; …; return ar`)
				if id, ok := r.(*ast.Ident); ok {
					if c, ok := e.vars[id.Name+".$storage"]; ok {
						add("r", &nr, idiomOf(c, src(r)))
						continue
					}
				}
				if st, ok := storageOfConstruction(r); ok {
					mark(r)
					if st == nil {
						add("r", &nr, ".mapIntoFresh")
					} else {
						add("r", &nr, idiomOf(e.class(st), src(st)))
					}
					continue
				}
				// delegation: recv.M(…)  or  WrapValues(fresh).M(…)
				if call, ok := r.(*ast.CallExpr); ok {
					if sel, ok := call.Fun.(*ast.SelectorExpr); ok {
						target := ""
						freshRecv := false
						if id, ok := sel.X.(*ast.Ident); ok && id.Name == e.recv && e.recv != "" {
							target = e.rtype + "." + sel.Sel.Name
							if _, ok := sa.funcs[target]; !ok && e.rtype == "MutableHashValue" {
								target = "Hash." + sel.Sel.Name
							}
						} else if st, ok := storageOfConstruction(sel.X); ok {
							mark(sel.X)
							c := cFresh
							if st != nil {
								c = e.class(st)
							}
							if severity(c) == 1 {
								freshRecv = true
								if src(sel.X.(*ast.CallExpr).Fun) == "WrapValues" {
									target = "Array." + sel.Sel.Name
								} else {
									target = "Hash." + sel.Sel.Name
								}
							}
						}
						if tfd, ok := sa.funcs[target]; ok && returnsCollection(tfd) {
							for _, tr := range sa.rows(target) {
								if !strings.Contains(tr.key, "/r") {
									continue
								}
								idiom := tr.idiom
								if freshRecv && (idiom == ".returnsReceiver" || idiom == ".resliceReceiver") {
									idiom = ".mapIntoFresh" // the receiver of the delegation is itself fresh
								}
								add("r", &nr, idiom)
							}
							inReturn[r] = true
							continue
						}
					}
				}
				if returnsCollection(fd) {
					if isConstantCollection(r) {
						add("r", &nr, ".constant")
					} else if !isNonCollectionReturn(r) {
						add("r", &nr, ".unknown "+leanStr(src(r)))
					}
				}
			}
		case *ast.AssignStmt:
			for i, l := range s.Lhs {
				// receiver.elements = X
				if sel, ok := l.(*ast.SelectorExpr); ok && storageField[sel.Sel.Name] && src(sel.X) == e.recv && e.recv != "" && i < len(s.Rhs) {
					add("a", &na, idiomOf(e.class(s.Rhs[i]), src(s.Rhs[i])))
				}
				// x[i] = v through receiver storage
				if ix, ok := l.(*ast.IndexExpr); ok {
					if recvStorage(e.class(ix.X)) {
						add("w", &nw, ".inPlace")
					}
				}
			}
		case *ast.CallExpr:
			fn := src(s.Fun)
			switch {
			case fn == "copy" && len(s.Args) == 2:
				if recvStorage(e.class(s.Args[0])) {
					add("w", &nw, ".inPlace")
				}
			case strings.HasPrefix(fn, "sort.") && len(s.Args) >= 1:
				if recvStorage(argClass(s.Args[0])) {
					add("w", &nw, ".inPlace")
				}
			}
			if st, ok := storageOfConstruction(s); ok && !inReturn[s] {
				if st == nil {
					add("c", &nc, ".mapIntoFresh")
				} else {
					add("c", &nc, idiomOf(e.class(st), src(st)))
				}
			}
		case *ast.UnaryExpr, *ast.CompositeLit:
			if x, ok := n.(ast.Expr); ok && !inReturn[x] {
				if cl := collectionLit(x); cl != nil {
					mark(n)
					if st, _ := storageOfConstruction(x); st == nil {
						add("c", &nc, ".mapIntoFresh")
					} else {
						add("c", &nc, idiomOf(e.class(st), src(st)))
					}
				}
			}
		}
		return true
	}
	ast.Inspect(fd.Body, visit)
	sa.rowsOf[key] = rows
	return rows
}

func returnsCollection(fd *ast.FuncDecl) bool {
	if fd.Type.Results == nil || len(fd.Type.Results.List) != 1 {
		return false
	}
	return collectionResult[src(fd.Type.Results.List[0].Type)]
}

func isConstantCollection(r ast.Expr) bool {
	switch src(r) {
	case "px.EmptyArray", "px.EmptyMap", "emptyArray", "emptyMap":
		return true
	}
	return false
}

// results of px.Value-returning functions that are not collections (undef, elements …) are not rows
func isNonCollectionReturn(r ast.Expr) bool {
	switch x := r.(type) {
	case *ast.Ident:
		return true
	case *ast.IndexExpr, *ast.SelectorExpr:
		return true
	case *ast.CallExpr:
		_ = x
		return true
	}
	return false
}

func genSliceIdioms() string {
	sa := &sliceAnalysis{files: map[string]*ast.File{}, funcs: map[string]*ast.FuncDecl{}, visiting: map[string]bool{},
		rowsOf: map[string][]sliceRow{}, retClass: map[string]sclass{}}
	sa.load("", "types/arraytype.go", "types/hashtype.go", "types/basiccollector.go", "types/parser.go", "types/types.go")
	sa.load("px", "px/collection.go")
	sa.load("serialization", "serialization/deserializer.go")

	// which functions: every method of Array / Hash / MutableHashValue that returns a collection or consumes
	// slices of the receiver, the collection constructors, the collector, the parser's hash-entry conversion
	var keys []string
	for k, fd := range sa.funcs {
		switch recvTypeName(fd) {
		case "Array", "Hash", "MutableHashValue":
			// every method: those that do not create collections contribute rows only if they write through
			// the receiver's storage or build a collection on the side (EachSlice)
			keys = append(keys, k)
		case "BasicCollector":
			switch fd.Name.Name {
			case "AddArray", "AddHash", "Add", "AddRef", "PopLast", "Init":
				keys = append(keys, k)
			}
		case "":
			switch fd.Name.Name {
			case "BuildArray", "BuildHash", "WrapValues", "WrapHash", "WrapHash2", "WrapArray3", "SingletonArray",
				"NewMutableHash", "convertHashEntries", "WrapHashFromArray", "IndexedFromArray", "singleMap", "singletonMap":
				if !strings.Contains(k, ".") {
					keys = append(keys, k)
				}
			}
		}
	}
	sort.Strings(keys)
	var b strings.Builder
	b.WriteString(header("sliceidioms", "types/arraytype.go, types/hashtype.go, types/basiccollector.go, types/parser.go, px/collection.go"))
	b.WriteString("import Pcore.Model.SliceHeap\nnamespace Pcore.Generated\nopen Pcore.Heap\n\n")
	b.WriteString("def sliceIdioms : List (String × Idiom) := [\n")
	var lines []string
	for _, k := range keys {
		rows := sa.rows(k)
		// collector methods: every append / re-slice of the private stack is a row of its own
		if strings.HasPrefix(k, "BasicCollector.") {
			rows = append(rows, collectorRows(sa, k)...)
		}
		for _, r := range rows {
			lines = append(lines, fmt.Sprintf("  (%s, %s)", leanStr(r.key), r.idiom))
		}
	}
	// every call of BuildArray / BuildHash: what the builder callback returns
	lines = append(lines, builderRows(sa)...)
	b.WriteString(strings.Join(lines, ",\n"))
	b.WriteString("]\n\n")
	// the statements each classification relied on (allocations, copies, appends, in-place writes, returns): for the
	// reader of a broken obligation and for the audit of the extractor — no theorem depends on this text
	b.WriteString("/-- per function: the statements the classification above relied on -/\n")
	b.WriteString("def sliceIdiomEvidence : List (String × List String) := [\n")
	var ev []string
	for _, k := range keys {
		if len(sa.rows(k)) == 0 && !strings.HasPrefix(k, "BasicCollector.") {
			continue
		}
		if es := evidenceOf(sa, sa.funcs[k]); len(es) > 0 {
			for i := range es {
				es[i] = leanStr(es[i])
			}
			ev = append(ev, fmt.Sprintf("  (%s, [%s])", leanStr(k), strings.Join(es, ",\n      ")))
		}
	}
	b.WriteString(strings.Join(ev, ",\n"))
	b.WriteString("]\n\nend Pcore.Generated\n")
	return b.String()
}

// evidenceOf: the slice-relevant statements of a function, in source order
func evidenceOf(sa *sliceAnalysis, fd *ast.FuncDecl) []string {
	e := sa.newEnv(fd)
	e.scanAssignments()
	var out []string
	clip := func(x string) string {
		if len(x) > 150 {
			return x[:150] + " …"
		}
		return x
	}
	ast.Inspect(fd.Body, func(n ast.Node) bool {
		switch s := n.(type) {
		case *ast.AssignStmt:
			rel := false
			for _, r := range s.Rhs {
				if looksLikeSlice(r) {
					rel = true
				}
				if call, ok := r.(*ast.CallExpr); ok && e.mayReturnSlice(call) {
					rel = true
				}
				if _, ok := storageOfConstruction(r); ok {
					rel = true
				}
				if _, ok := e.sliceFieldOfLit(r); ok {
					rel = true
				}
			}
			for _, l := range s.Lhs {
				if ix, ok := l.(*ast.IndexExpr); ok && e.class(ix.X) != cUnknown {
					rel = true
				}
				if sel, ok := l.(*ast.SelectorExpr); ok && storageField[sel.Sel.Name] {
					rel = true
				}
			}
			if rel {
				out = append(out, clip(src(s)))
			}
		case *ast.ExprStmt:
			if call, ok := s.X.(*ast.CallExpr); ok {
				fn := src(call.Fun)
				if fn == "copy" || strings.HasPrefix(fn, "sort.") {
					out = append(out, clip(src(s)))
				}
			}
		case *ast.ReturnStmt:
			if returnsCollection(fd) || (fd.Type.Results != nil && len(fd.Type.Results.List) == 1 && isSliceType(fd.Type.Results.List[0].Type)) {
				out = append(out, clip(src(s)))
			}
		}
		return true
	})
	return out
}

// builderRows: every call `BuildArray(n, func(a *Array, elements []px.Value) []px.Value { … })` (BuildHash alike) in the
// analysed files — the constructor hands a fresh zero-length slice to the callback and stores what it returns:
//
//	.appendsToGiven   the callback returns its slice parameter, which it only ever re-assigns by `p = append(p, …)`
//	.ownedHandOver    the callback pushes the parameter on the collector's private stack, runs the nested events, takes
//	                  the slice back from the stack AND pops it (`st := hm.stack[top]; hm.stack = hm.stack[0:top]`)
//	                  before returning it: nothing can append to it afterwards
func builderRows(sa *sliceAnalysis) []string {
	var keys []string
	for k := range sa.funcs {
		keys = append(keys, k)
	}
	sort.Strings(keys)
	var out []string
	for _, k := range keys {
		fd := sa.funcs[k]
		n := 0
		ast.Inspect(fd.Body, func(nd ast.Node) bool {
			call, ok := nd.(*ast.CallExpr)
			if !ok {
				return true
			}
			fn := src(call.Fun)
			if fn != "BuildArray" && fn != "BuildHash" && fn != "types.BuildArray" && fn != "types.BuildHash" {
				return true
			}
			raw := strings.Join(strings.Fields(src(call)), " ")
			if len(raw) > 160 {
				raw = raw[:160] + " …"
			}
			idiom := ".unknown " + leanStr(raw)
			if len(call.Args) == 2 {
				if fl, ok := call.Args[1].(*ast.FuncLit); ok && len(fl.Type.Params.List) == 2 && len(fl.Type.Params.List[1].Names) == 1 {
					idiom = classifyBuilder(fl, fl.Type.Params.List[1].Names[0].Name, idiom)
				}
			}
			out = append(out, fmt.Sprintf("  (%s, %s)", leanStr(fmt.Sprintf("%s/b%d", k, n)), idiom))
			n++
			return true
		})
	}
	return out
}

func classifyBuilder(fl *ast.FuncLit, param string, unknown string) string {
	// all assignments to the parameter must be `param = append(param, …)`; nobody else may be handed the parameter
	// except `append(X.stack, param)` (the collector's stack)
	onlyAppends := true
	pushed := "" // X.stack when the parameter is pushed there
	taken := ""  // local taken back from X.stack[top]
	popped := false
	var returns []string
	ast.Inspect(fl.Body, func(n ast.Node) bool {
		switch s := n.(type) {
		case *ast.AssignStmt:
			for i, l := range s.Lhs {
				if i >= len(s.Rhs) {
					break
				}
				ls, rs := src(l), src(s.Rhs[i])
				if ls == param {
					if !strings.HasPrefix(rs, "append("+param+", ") {
						onlyAppends = false
					}
					continue
				}
				if strings.HasSuffix(ls, ".stack") && rs == "append("+ls+", "+param+")" {
					pushed = ls
					continue
				}
				if pushed != "" && strings.HasPrefix(rs, pushed+"[") && !strings.Contains(rs, ":") {
					if id, ok := l.(*ast.Ident); ok {
						taken = id.Name
					}
					continue
				}
				if pushed != "" && ls == pushed && strings.HasPrefix(rs, pushed+"[0:") {
					popped = true
					continue
				}
			}
		case *ast.ReturnStmt:
			if len(s.Results) == 1 {
				returns = append(returns, src(s.Results[0]))
			}
		case *ast.FuncLit:
			if s != fl {
				// nested closures (Each callbacks): their returns are not the builder's
				ast.Inspect(s.Body, func(m ast.Node) bool {
					if as, ok := m.(*ast.AssignStmt); ok {
						for i, l := range as.Lhs {
							if i < len(as.Rhs) && src(l) == param && !strings.HasPrefix(src(as.Rhs[i]), "append("+param+", ") {
								onlyAppends = false
							}
						}
					}
					return true
				})
				return false
			}
		}
		return true
	})
	if len(returns) != 1 {
		return unknown
	}
	switch {
	case returns[0] == param && onlyAppends && pushed == "":
		return ".appendsToGiven"
	case taken != "" && returns[0] == taken && popped && onlyAppends:
		return ".ownedHandOver"
	}
	return unknown
}

// collectorRows: writes to the collector's own stack (`hm.stack[top] = append(hm.stack[top], x)`, `= st[:l]`)
func collectorRows(sa *sliceAnalysis, key string) []sliceRow {
	fd := sa.funcs[key]
	e := sa.newEnv(fd)
	e.scanAssignments()
	var rows []sliceRow
	n := 0
	ast.Inspect(fd.Body, func(nd ast.Node) bool {
		s, ok := nd.(*ast.AssignStmt)
		if !ok {
			return true
		}
		for i, l := range s.Lhs {
			if i >= len(s.Rhs) {
				break
			}
			ls := src(l)
			if !strings.HasPrefix(ls, e.recv+".stack") && !strings.HasPrefix(ls, e.recv+".values") {
				continue
			}
			idiom := ".unknown " + leanStr(src(s))
			rs := src(s.Rhs[i])
			switch {
			case strings.HasPrefix(rs, "append("+ls+", "), strings.HasPrefix(rs, "append("+e.recv+".stack, "):
				idiom = ".ownedAppend"
			case strings.HasPrefix(rs, "make("):
				idiom = ".mapIntoFresh"
			default:
				if sl, ok := s.Rhs[i].(*ast.SliceExpr); ok && !sl.Slice3 {
					if c := e.class(sl.X); c == cOwned || src(sl.X) == e.recv+".stack" || src(sl.X) == e.recv+".values" {
						idiom = ".ownedReslice"
					} else if id, ok := sl.X.(*ast.Ident); ok && e.vars[id.Name] == cOwned {
						idiom = ".ownedReslice"
					}
				}
			}
			rows = append(rows, sliceRow{fmt.Sprintf("%s/o%d", key, n), idiom})
			n++
		}
		return true
	})
	return rows
}
