package main

import (
	"fmt"
	"go/ast"
	"go/token"
	"strconv"
	"strings"
)

// Family "keytable": the kind-prefix constants HkXxx of types/types.go and, for every value kind the C07 model covers,
// the leading constant bytes its ToKey writes (the first two WriteByte calls of the method, or the byte literal it
// returns).  A leading byte that is not a literal or an Hk constant is emitted as 999 ("unknown"), which no side
// condition accepts.

func init() { register("keytable", "KeyTable", genKeyTable) }

func hkConsts(f *ast.File) ([]string, map[string]int) {
	names := []string{}
	vals := map[string]int{}
	for _, d := range f.Decls {
		gd, ok := d.(*ast.GenDecl)
		if !ok || gd.Tok != token.CONST {
			continue
		}
		for _, sp := range gd.Specs {
			vs, ok := sp.(*ast.ValueSpec)
			if !ok || len(vs.Names) != 1 || len(vs.Values) != 1 || !strings.HasPrefix(vs.Names[0].Name, "Hk") {
				continue
			}
			v := 999
			// byte('c')
			if call, ok := vs.Values[0].(*ast.CallExpr); ok && len(call.Args) == 1 {
				if id, ok := call.Fun.(*ast.Ident); ok && id.Name == "byte" {
					if lit, ok := call.Args[0].(*ast.BasicLit); ok && lit.Kind == token.CHAR {
						if r, _, _, err := strconv.UnquoteChar(strings.Trim(lit.Value, "'"), '\''); err == nil && r < 256 {
							v = int(r)
						}
					}
				}
			}
			names = append(names, vs.Names[0].Name)
			vals[vs.Names[0].Name] = v
		}
	}
	return names, vals
}

func constByte(e ast.Expr, hk map[string]int) int {
	switch e := e.(type) {
	case *ast.BasicLit:
		if e.Kind == token.INT {
			if n, err := strconv.Atoi(e.Value); err == nil && n >= 0 && n < 256 {
				return n
			}
		}
	case *ast.Ident:
		if v, ok := hk[e.Name]; ok {
			return v
		}
	}
	return 999
}

// the arguments of the first n WriteByte calls in the function, in source order
func firstWriteBytes(fd *ast.FuncDecl, n int, hk map[string]int) []int {
	out := []int{}
	ast.Inspect(fd.Body, func(x ast.Node) bool {
		if len(out) >= n {
			return false
		}
		if call, ok := x.(*ast.CallExpr); ok && len(call.Args) == 1 {
			if sel, ok := call.Fun.(*ast.SelectorExpr); ok && sel.Sel.Name == "WriteByte" {
				out = append(out, constByte(call.Args[0], hk))
			}
		}
		return true
	})
	for len(out) < n {
		out = append(out, 999)
	}
	return out
}

// the elements of the first []byte{…} composite literal below the node
func firstByteLit(n ast.Node, hk map[string]int) []int {
	var out []int
	ast.Inspect(n, func(x ast.Node) bool {
		if out != nil {
			return false
		}
		if cl, ok := x.(*ast.CompositeLit); ok {
			if at, ok := cl.Type.(*ast.ArrayType); ok && at.Len == nil {
				if id, ok := at.Elt.(*ast.Ident); ok && id.Name == "byte" {
					out = []int{}
					for _, e := range cl.Elts {
						out = append(out, constByte(e, hk))
					}
					return false
				}
			}
		}
		return true
	})
	if out == nil {
		return []int{999}
	}
	return out
}

func findVar(f *ast.File, name string) ast.Node {
	for _, d := range f.Decls {
		if gd, ok := d.(*ast.GenDecl); ok && gd.Tok == token.VAR {
			for _, sp := range gd.Specs {
				if vs, ok := sp.(*ast.ValueSpec); ok && len(vs.Names) == 1 && vs.Names[0].Name == name && len(vs.Values) == 1 {
					return vs.Values[0]
				}
			}
		}
	}
	panic("var " + name + " not found")
}

func genKeyTable() string {
	tf := parseFile("types/types.go")
	names, hk := hkConsts(tf)
	var b strings.Builder
	b.WriteString(header("keytable", "types/types.go and the ToKey methods of types/*type.go"))
	b.WriteString("namespace Pcore.Generated\n\n")
	b.WriteString("/-- the `HkXxx = byte('c')` constants -/\ndef hkConsts : List (String × Nat) := [\n")
	for i, n := range names {
		sep := ","
		if i == len(names)-1 {
			sep = "]"
		}
		fmt.Fprintf(&b, "  (%s, %d)%s\n", leanStr(n), hk[n], sep)
	}
	type row struct {
		name  string
		bytes []int
	}
	rows := []row{}
	stream := func(file, recv string) {
		rows = append(rows, row{recv, firstWriteBytes(findFunc(parseFile(file), recv, "ToKey"), 2, hk)})
	}
	stream("types/arraytype.go", "Array")
	stream("types/hashtype.go", "HashEntry")
	stream("types/hashtype.go", "Hash")
	stream("types/binarytype.go", "Binary")
	stream("types/integertype.go", "integerValue")
	stream("types/floattype.go", "floatValue")
	stream("types/regexptype.go", "Regexp")
	stream("types/tupletype.go", "TupleType")
	stream("types/timespantype.go", "Timespan")
	stream("types/timestamptype.go", "Timestamp")
	stream("types/uritype.go", "UriValue")
	stream("types/semvertype.go", "SemVer")
	stream("types/semverrangetype.go", "SemVerRange")
	rows = append(rows, row{"UndefValue", firstByteLit(findFunc(parseFile("types/undeftype.go"), "UndefValue", "ToKey"), hk)})
	rows = append(rows, row{"DefaultValue", firstByteLit(findFunc(parseFile("types/defaulttype.go"), "DefaultValue", "ToKey"), hk)})
	bf := parseFile("types/booleantype.go")
	rows = append(rows, row{"hkTrue", firstByteLit(findVar(bf, "hkTrue"), hk)})
	rows = append(rows, row{"hkFalse", firstByteLit(findVar(bf, "hkFalse"), hk)})
	rows = append(rows, row{"appendKey(type)", firstWriteBytes(findFunc(tf, "", "appendKey"), 2, hk)})
	// the mark of a string element: written by appendElementKey itself, or by the helper that computes the element key
	ekf := findFunc(tf, "", "elementKey")
	if ekf == nil {
		ekf = findFunc(tf, "", "appendElementKey")
	}
	rows = append(rows, row{"appendElementKey(string)", firstWriteBytes(ekf, 2, hk)})
	b.WriteString("\n/-- the leading constant bytes of each key -/\ndef keyHeads : List (String × List Nat) := [\n")
	for i, r := range rows {
		xs := make([]string, len(r.bytes))
		for j, v := range r.bytes {
			xs[j] = strconv.Itoa(v)
		}
		sep := ","
		if i == len(rows)-1 {
			sep = "]"
		}
		fmt.Fprintf(&b, "  (%s, [%s])%s\n", leanStr(r.name), strings.Join(xs, ", "), sep)
	}
	// the literal each XxxType.Name() returns (the first byte string of every type key): receiver ↦ name
	nameRows := [][2]string{
		{"types/anytype.go", "AnyType"}, {"types/undeftype.go", "UndefType"}, {"types/stringtype.go", "stringType"}, {"types/integertype.go", "IntegerType"},
		{"types/floattype.go", "FloatType"}, {"types/enumtype.go", "EnumType"}, {"types/arraytype.go", "ArrayType"}, {"types/varianttype.go", "VariantType"},
		{"types/tupletype.go", "TupleType"}, {"types/optionaltype.go", "OptionalType"}, {"types/typetype.go", "TypeType"}, {"types/defaulttype.go", "DefaultType"},
		{"types/unittype.go", "UnitType"}, {"types/scalartype.go", "ScalarType"}, {"types/scalardatatype.go", "ScalarDataType"}, {"types/numerictype.go", "NumericType"},
		{"types/binarytype.go", "BinaryType"}, {"types/semverrangetype.go", "SemVerRangeType"}, {"types/booleantype.go", "BooleanType"},
		{"types/collectiontype.go", "CollectionType"}, {"types/notundeftype.go", "NotUndefType"}, {"types/sensitivetype.go", "SensitiveType"},
		{"types/iterabletype.go", "IterableType"}, {"types/iteratortype.go", "IteratorType"}, {"types/regexptype.go", "RegexpType"}, {"types/patterntype.go", "PatternType"},
		{"types/typereferencetype.go", "TypeReferenceType"}, {"types/semvertype.go", "SemVerType"}, {"types/hashtype.go", "HashType"}, {"types/liketype.go", "LikeType"},
		{"types/callabletype.go", "CallableType"}, {"types/runtimetype.go", "RuntimeType"}, {"types/structtype.go", "StructType"}, {"types/inittype.go", "InitType"},
	}
	b.WriteString("\n/-- the string literal each `XxxType.Name()` returns -/\ndef typeNames : List (String × String) := [\n")
	for i, r := range nameRows {
		name := "unknown"
		if fd := findFunc(parseFile(r[0]), r[1], "Name"); fd != nil && fd.Body != nil && len(fd.Body.List) == 1 {
			if ret, ok := fd.Body.List[0].(*ast.ReturnStmt); ok && len(ret.Results) == 1 {
				if lit, ok := ret.Results[0].(*ast.BasicLit); ok && lit.Kind == token.STRING {
					if s, err := strconv.Unquote(lit.Value); err == nil {
						name = s
					}
				}
			}
		}
		sep := ","
		if i == len(nameRows)-1 {
			sep = "]"
		}
		fmt.Fprintf(&b, "  (%s, %s)%s\n", leanStr(r[1]), leanStr(name), sep)
	}
	b.WriteString("\nend Pcore.Generated\n")
	return b.String()
}
