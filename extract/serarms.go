package main

import (
	"fmt"
	"go/ast"
	"go/token"
	"sort"
	"strings"
)

// Family "serarms" (C10): the emit discipline of serialization/serializer.go.
//
//   * the statement lists of the three emit primitives (the methods that call consumer.Add / AddArray / AddHash):
//     `refIndex++` → incr, `consumer.M(…)` → consume M, anything else → unknown;
//   * the shape of the de-duplication wrapper (the method that calls consumer.AddRef): does it record the position
//     after the emitter ran and only if a position was consumed (recordAfter), or before (recordBefore);
//   * every consumer call and every write of refIndex OUTSIDE those methods ("stray": must be none);
//   * the arms of toData's type switch: handled types, whether the arm's first statement is the wrapper call, and the
//     methods of the receiver it calls; the same call summary for valueToDataHash.
// The wrapper is found by what it does, not by its name, and is called "process" in the tables (a rename is harmless).

func init() { register("serarms", "SerArms", genSerArms) }

func selChain(e ast.Expr) []string {
	switch x := e.(type) {
	case *ast.Ident:
		return []string{x.Name}
	case *ast.SelectorExpr:
		if c := selChain(x.X); c != nil {
			return append(c, x.Sel.Name)
		}
	}
	return nil
}

// consumerCall: `<recv>.consumer.<M>(…)` → M
func consumerCall(n ast.Node) string {
	ce, ok := n.(*ast.CallExpr)
	if !ok {
		return ""
	}
	c := selChain(ce.Fun)
	if len(c) == 3 && c[1] == "consumer" {
		switch c[2] {
		case "Add", "AddArray", "AddHash", "AddRef":
			return c[2]
		}
	}
	return ""
}

func isRefIndex(e ast.Expr) bool {
	c := selChain(e)
	return len(c) == 2 && c[1] == "refIndex"
}

func containsConsumerCall(fd *ast.FuncDecl, names ...string) bool {
	found := false
	ast.Inspect(fd.Body, func(n ast.Node) bool {
		if m := consumerCall(n); m != "" {
			for _, w := range names {
				if w == m {
					found = true
				}
			}
		}
		return true
	})
	return found
}

func recvName(fd *ast.FuncDecl) string {
	if fd.Recv != nil && len(fd.Recv.List) == 1 && len(fd.Recv.List[0].Names) == 1 {
		return fd.Recv.List[0].Names[0].Name
	}
	return ""
}

func primActs(fd *ast.FuncDecl) string {
	var acts []string
	for _, st := range fd.Body.List {
		switch s := st.(type) {
		case *ast.IncDecStmt:
			if s.Tok == token.INC && isRefIndex(s.X) {
				acts = append(acts, ".incr")
				continue
			}
		case *ast.ExprStmt:
			if m := consumerCall(s.X); m != "" {
				acts = append(acts, ".consume "+leanStr(m))
				continue
			}
		}
		acts = append(acts, ".unknown "+leanStr(src(st)))
	}
	return "[" + strings.Join(acts, ", ") + "]"
}

// processShape classifies the branch of the wrapper that runs the emitter
func processShape(fd *ast.FuncDecl) string {
	var elseBlock *ast.BlockStmt
	ast.Inspect(fd.Body, func(n ast.Node) bool {
		if is, ok := n.(*ast.IfStmt); ok && elseBlock == nil {
			hasRef := false
			ast.Inspect(is.Body, func(m ast.Node) bool {
				if consumerCall(m) == "AddRef" {
					hasRef = true
				}
				return true
			})
			if b, ok := is.Else.(*ast.BlockStmt); ok && hasRef {
				elseBlock = b
			}
		}
		return true
	})
	if elseBlock == nil {
		// the same branch written with an early return: `if found { AddRef; return }` followed by the emitting statements
		for i, st := range fd.Body.List {
			is, ok := st.(*ast.IfStmt)
			if !ok || is.Else != nil || len(is.Body.List) == 0 {
				continue
			}
			if _, ret := is.Body.List[len(is.Body.List)-1].(*ast.ReturnStmt); !ret {
				continue
			}
			hasRef := false
			ast.Inspect(is.Body, func(m ast.Node) bool {
				if consumerCall(m) == "AddRef" {
					hasRef = true
				}
				return true
			})
			if hasRef {
				elseBlock = &ast.BlockStmt{List: fd.Body.List[i+1:]}
				break
			}
		}
	}
	if elseBlock == nil {
		return ".unknown " + leanStr("no `if found { AddRef } else { … }`")
	}
	var shape []string
	saved := ""
	// countRecords: exactly one `values[v] = saved` and no other indexed assignment among the statements
	countRecords := func(nodes []ast.Stmt) bool {
		records := 0
		other := false
		for _, n := range nodes {
			ast.Inspect(n, func(m ast.Node) bool {
				if as, ok := m.(*ast.AssignStmt); ok && len(as.Lhs) == 1 {
					if _, ok := as.Lhs[0].(*ast.IndexExpr); ok && as.Tok == token.ASSIGN {
						if src(as.Rhs[0]) == saved {
							records++
						} else {
							other = true
						}
					}
				}
				return true
			})
		}
		return records == 1 && !other
	}
	for i, st := range elseBlock.List {
		// the guard form of the last step: `if <recv>.refIndex <= saved { return }` followed by the recording statements
		if is, ok := st.(*ast.IfStmt); ok && is.Else == nil && is.Init == nil && saved != "" && len(is.Body.List) == 1 {
			if _, ret := is.Body.List[0].(*ast.ReturnStmt); ret {
				if be, ok := is.Cond.(*ast.BinaryExpr); ok && be.Op == token.LEQ && isRefIndex(be.X) && src(be.Y) == saved &&
					i+1 < len(elseBlock.List) && countRecords(elseBlock.List[i+1:]) {
					shape = append(shape, "recordIfAdvanced")
					break
				}
			}
		}
		switch s := st.(type) {
		case *ast.AssignStmt:
			if len(s.Lhs) == 1 && len(s.Rhs) == 1 && isRefIndex(s.Rhs[0]) {
				if id, ok := s.Lhs[0].(*ast.Ident); ok && s.Tok == token.DEFINE {
					saved = id.Name
					shape = append(shape, "savePos")
					continue
				}
				if _, ok := s.Lhs[0].(*ast.IndexExpr); ok {
					shape = append(shape, "recordNow")
					continue
				}
			}
		case *ast.ExprStmt:
			if ce, ok := s.X.(*ast.CallExpr); ok && len(ce.Args) == 0 {
				if _, ok := ce.Fun.(*ast.Ident); ok {
					shape = append(shape, "doer")
					continue
				}
			}
		case *ast.IfStmt:
			// if <recv>.refIndex > saved { [if not yet recorded] values[v] = saved }
			if be, ok := s.Cond.(*ast.BinaryExpr); ok && be.Op == token.GTR && isRefIndex(be.X) && saved != "" && src(be.Y) == saved && s.Else == nil {
				records := 0
				other := false
				ast.Inspect(s.Body, func(m ast.Node) bool {
					if as, ok := m.(*ast.AssignStmt); ok && len(as.Lhs) == 1 {
						if _, ok := as.Lhs[0].(*ast.IndexExpr); ok && as.Tok == token.ASSIGN {
							if src(as.Rhs[0]) == saved {
								records++
							} else {
								other = true
							}
						}
					}
					return true
				})
				if records == 1 && !other {
					shape = append(shape, "recordIfAdvanced")
					continue
				}
			}
		}
		shape = append(shape, "?"+src(st))
	}
	switch strings.Join(shape, ",") {
	case "savePos,doer,recordIfAdvanced":
		return ".recordAfter"
	case "recordNow,doer":
		return ".recordBefore"
	}
	return ".unknown " + leanStr(strings.Join(shape, ","))
}

func recvCalls(body ast.Node, recv string, rename map[string]string) []string {
	set := map[string]bool{}
	ast.Inspect(body, func(n ast.Node) bool {
		if ce, ok := n.(*ast.CallExpr); ok {
			c := selChain(ce.Fun)
			if len(c) == 2 && c[0] == recv {
				name := c[1]
				if r, ok := rename[name]; ok {
					name = r
				}
				set[name] = true
			}
		}
		return true
	})
	var out []string
	for k := range set {
		out = append(out, k)
	}
	sort.Strings(out)
	return out
}

func leanStrList(xs []string) string {
	q := make([]string, len(xs))
	for i, x := range xs {
		q[i] = leanStr(x)
	}
	return "[" + strings.Join(q, ", ") + "]"
}

func genSerArms() string {
	const file = "serialization/serializer.go"
	f := parseFile(file)
	prims := map[string]*ast.FuncDecl{} // consumer method → the primitive that calls it
	var process *ast.FuncDecl
	var funcs []*ast.FuncDecl
	for _, d := range f.Decls {
		fd, ok := d.(*ast.FuncDecl)
		if !ok || fd.Body == nil {
			continue
		}
		funcs = append(funcs, fd)
		if containsConsumerCall(fd, "AddRef") && process == nil {
			process = fd
		}
	}
	// a primitive is a method whose body is a short straight line holding exactly one consumer call of that kind
	for _, m := range []string{"Add", "AddArray", "AddHash"} {
		for _, fd := range funcs {
			if fd == process || len(fd.Body.List) > 3 {
				continue
			}
			n := 0
			for _, st := range fd.Body.List {
				if es, ok := st.(*ast.ExprStmt); ok && consumerCall(es.X) == m {
					n++
				}
			}
			if n == 1 && prims[m] == nil {
				prims[m] = fd
			}
		}
	}
	acts := func(m string) string {
		if prims[m] == nil {
			return "[.unknown " + leanStr("no primitive calls consumer."+m) + "]"
		}
		return primActs(prims[m])
	}
	inPrim := func(fd *ast.FuncDecl) bool {
		for _, p := range prims {
			if p == fd {
				return true
			}
		}
		return false
	}
	rename := map[string]string{}
	for m, p := range prims {
		rename[p.Name.Name] = map[string]string{"Add": "addData", "AddArray": "addArray", "AddHash": "addHash"}[m]
	}
	shape := ".unknown " + leanStr("no method calls consumer.AddRef")
	if process != nil {
		rename[process.Name.Name] = "process"
		shape = processShape(process)
	}
	// stray consumer calls / refIndex writes
	var stray []string
	for _, fd := range funcs {
		fd := fd
		ast.Inspect(fd.Body, func(n ast.Node) bool {
			if m := consumerCall(n); m != "" {
				ok := (inPrim(fd) && prims[m] == fd) || (fd == process && m == "AddRef")
				if !ok {
					stray = append(stray, fd.Name.Name+": consumer."+m)
				}
			}
			switch s := n.(type) {
			case *ast.IncDecStmt:
				if isRefIndex(s.X) && !inPrim(fd) {
					stray = append(stray, fd.Name.Name+": "+src(s))
				}
			case *ast.AssignStmt:
				for _, l := range s.Lhs {
					if isRefIndex(l) {
						stray = append(stray, fd.Name.Name+": "+src(s))
					}
				}
			}
			return true
		})
	}
	// arms of toData
	var arms []string
	td := findFunc(f, "context", "toData")
	recv := recvName(td)
	var ts *ast.TypeSwitchStmt
	ast.Inspect(td.Body, func(n ast.Node) bool {
		if t, ok := n.(*ast.TypeSwitchStmt); ok && ts == nil {
			ts = t
		}
		return ts == nil
	})
	if ts == nil {
		arms = append(arms, "{ types := [\"no type switch\"], wrapped := false, calls := [] }")
	} else {
		for _, c := range ts.Body.List {
			cc := c.(*ast.CaseClause)
			var types []string
			for _, e := range cc.List {
				types = append(types, src(e))
			}
			if cc.List == nil {
				types = []string{"default"}
			}
			wrapped := false
			if len(cc.Body) > 0 {
				if es, ok := cc.Body[0].(*ast.ExprStmt); ok {
					if ce, ok := es.X.(*ast.CallExpr); ok {
						c := selChain(ce.Fun)
						wrapped = len(c) == 2 && c[0] == recv && process != nil && c[1] == process.Name.Name
					}
				}
			}
			blk := &ast.BlockStmt{List: cc.Body}
			arms = append(arms, fmt.Sprintf("{ types := %s, wrapped := %v, calls := %s }", leanStrList(types), wrapped, leanStrList(recvCalls(blk, recv, rename))))
		}
	}
	vh := findFunc(f, "context", "valueToDataHash")
	sites := 0
	ast.Inspect(vh.Body, func(n ast.Node) bool {
		if ce, ok := n.(*ast.CallExpr); ok {
			c := selChain(ce.Fun)
			if len(c) == 2 && process != nil && c[1] == process.Name.Name {
				sites++
			}
		}
		return true
	})
	var helpers []string
	for _, name := range []string{"nonStringKeyedHashToData", "toKeyExtendedHash", "unknownToStringWithWarning", "pcoreTypeToData"} {
		fd := findFunc(f, "context", name)
		helpers = append(helpers, "("+leanStr(name)+", "+leanStrList(recvCalls(fd.Body, recvName(fd), rename))+")")
	}
	var b strings.Builder
	b.WriteString(header("serarms", file))
	b.WriteString("import Pcore.Model.SerArms\nnamespace Pcore.Generated\nopen Pcore.Ser\n\n")
	fmt.Fprintf(&b, "def serArms : SerArms where\n  addData := %s\n  addArray := %s\n  addHash := %s\n  process := %s\n  stray := %s\n  toDataArms := [\n    %s]\n  hashCalls := %s\n  hashProcessSites := %d\n  helperCalls := [\n    %s]\n",
		acts("Add"), acts("AddArray"), acts("AddHash"), shape, leanStrList(stray), strings.Join(arms, ",\n    "),
		leanStrList(recvCalls(vh.Body, recvName(vh), rename)), sites, strings.Join(helpers, ",\n    "))
	b.WriteString("\nend Pcore.Generated\n")
	return b.String()
}
