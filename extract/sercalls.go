package main

import (
	"fmt"
	"go/ast"
	"go/token"
	"sort"
	"strings"
)

// Family "sercalls" (property C08, "serializing reads the value only"): what serialization/serializer.go — the code that
// WALKS a value — can do to it.  The fields of every value struct are unexported, so another package can change a value
// only through a method it calls on it or through storage an accessor hands out.  Emitted:
//
//   calls    the sorted set of method names invoked through a selector whose root is not an imported package
//            (`value.EachPair(…)`, `consumer.AddRef(…)` …), except the functions / methods the file declares itself
//            (`sc.process(…)`: their bodies are scanned like the rest; extracting a new helper adds no name)
//   writes   every assignment / inc-dec / copy / delete target, per enclosing function, classified by the ROOT of the target:
//            "recv"          state of the serializer itself (`sc.values[value] = pos`: the memo table keyed by identity)
//            "local"         a variable declared in the function is (re)bound
//            "fresh-through" a write through a local that only ever holds storage created in the function (make, literal)
//            "local-through" a write through any other local (it may alias storage of a value)
//            "param"         a parameter: written THROUGH when the target is an index / field / deref of it
//            "other <src>"   anything else
//
// What the table has to satisfy lives in hand-written Lean (`SerFactsSafe`: every call is a reviewed read-only / emitting
// method; every write goes to the serializer's own state or to a plain local).

func init() { register("sercalls", "SerCalls", genSerCalls) }

func genSerCalls() string {
	rel := "serialization/serializer.go"
	f := parseFile(rel)
	pkgs := map[string]bool{}
	for _, im := range f.Imports {
		name := strings.Trim(im.Path.Value, "\"`")
		if i := strings.LastIndex(name, "/"); i >= 0 {
			name = name[i+1:]
		}
		if im.Name != nil {
			name = im.Name.Name
		}
		pkgs[name] = true
	}
	calls := map[string]bool{}
	own := map[string]bool{} // functions / methods declared in the file itself: calling one of them is not a call on a value
	for _, d := range f.Decls {
		if fd, ok := d.(*ast.FuncDecl); ok {
			own[fd.Name.Name] = true
		}
	}
	type wrow struct{ fn, what string }
	writes := map[wrow]bool{}
	root := func(x ast.Expr) (id string, through bool) {
		for {
			switch v := x.(type) {
			case *ast.ParenExpr:
				x = v.X
			case *ast.StarExpr:
				x, through = v.X, true
			case *ast.IndexExpr:
				x, through = v.X, true
			case *ast.SliceExpr:
				x, through = v.X, true
			case *ast.SelectorExpr:
				x, through = v.X, true
			case *ast.Ident:
				return v.Name, through
			default:
				return "", through
			}
		}
	}
	for _, d := range f.Decls {
		fd, ok := d.(*ast.FuncDecl)
		if !ok || fd.Body == nil {
			continue
		}
		recv := recvVarName(fd)
		params := map[string]bool{}
		for _, fl := range fd.Type.Params.List {
			for _, nm := range fl.Names {
				params[nm.Name] = true
			}
		}
		locals := map[string]bool{}
		notFresh := map[string]bool{} // locals bound (somewhere) to something that is not a creation of new storage
		creates := func(x ast.Expr, self string) bool {
			switch v := x.(type) {
			case *ast.CompositeLit:
				return true
			case *ast.UnaryExpr:
				_, ok := v.X.(*ast.CompositeLit)
				return v.Op == token.AND && ok
			case *ast.CallExpr:
				if id, ok := v.Fun.(*ast.Ident); ok && (id.Name == "make" || id.Name == "new") {
					return true
				}
				if id, ok := v.Fun.(*ast.Ident); ok && id.Name == "append" && len(v.Args) > 0 {
					if a, ok := v.Args[0].(*ast.Ident); ok && a.Name == self {
						return true
					}
				}
			case *ast.SliceExpr:
				if a, ok := v.X.(*ast.Ident); ok && a.Name == self {
					return true
				}
			}
			return false
		}
		ast.Inspect(fd.Body, func(n ast.Node) bool {
			switch s := n.(type) {
			case *ast.AssignStmt:
				for i, l := range s.Lhs {
					if id, ok := l.(*ast.Ident); ok {
						if s.Tok == token.DEFINE {
							locals[id.Name] = true
						}
						if len(s.Lhs) != len(s.Rhs) || !creates(s.Rhs[i], id.Name) {
							notFresh[id.Name] = true
						}
					}
				}
			case *ast.ValueSpec:
				for _, nm := range s.Names {
					locals[nm.Name] = true
				}
			case *ast.RangeStmt:
				for _, kx := range []ast.Expr{s.Key, s.Value} {
					if id, ok := kx.(*ast.Ident); ok && s.Tok == token.DEFINE {
						locals[id.Name] = true
					}
				}
			case *ast.FuncLit:
				for _, fl := range s.Type.Params.List {
					for _, nm := range fl.Names {
						params[nm.Name] = true
					}
				}
			case *ast.TypeSwitchStmt:
				if as, ok := s.Assign.(*ast.AssignStmt); ok {
					for _, l := range as.Lhs {
						if id, ok := l.(*ast.Ident); ok {
							params[id.Name] = true // an alias of the switched value, not a fresh variable
						}
					}
				}
			}
			return true
		})
		target := func(lhs ast.Expr) {
			id, through := root(lhs)
			what := "other " + src(lhs)
			switch {
			case id == "_":
				return
			case id != "" && id == recv:
				what = "recv" // state of the serializer itself (whatever field: `sc.values[value] = pos`, `sc.refIndex++`)
			case id != "" && params[id]:
				if !through {
					what = "local" // re-binding the parameter variable itself
				} else {
					what = "param"
				}
			case id != "" && locals[id]:
				what = "local"
				if through && !notFresh[id] {
					what = "fresh-through" // into storage the function created itself (make / literal)
				} else if through {
					what = "local-through"
				}
			}
			writes[wrow{funcKey(fd), what}] = true
		}
		ast.Inspect(fd.Body, func(n ast.Node) bool {
			switch s := n.(type) {
			case *ast.AssignStmt:
				if s.Tok != token.DEFINE {
					for _, l := range s.Lhs {
						target(l)
					}
				}
			case *ast.IncDecStmt:
				target(s.X)
			case *ast.CallExpr:
				if id, ok := s.Fun.(*ast.Ident); ok && (id.Name == "copy" || id.Name == "delete") && len(s.Args) > 0 {
					target(&ast.IndexExpr{X: s.Args[0]})
				}
				if se, ok := s.Fun.(*ast.SelectorExpr); ok {
					if id, _ := root(se.X); !(pkgs[id] && isIdent(se.X)) && !own[se.Sel.Name] {
						calls[se.Sel.Name] = true
					}
				}
			}
			return true
		})
	}
	var cl []string
	for c := range calls {
		cl = append(cl, leanStr(c))
	}
	sort.Strings(cl)
	var wl []string
	for w := range writes {
		wl = append(wl, fmt.Sprintf("(%s, %s)", leanStr(w.fn), leanStr(w.what)))
	}
	sort.Strings(wl)
	var b strings.Builder
	b.WriteString(header("sercalls", rel))
	b.WriteString("namespace Pcore.Generated\n\n")
	fmt.Fprintf(&b, "/-- method names the serializer invokes on anything that is not a package -/\ndef serCalls : List String := [%s]\n\n", strings.Join(cl, ", "))
	fmt.Fprintf(&b, "/-- targets of the serializer's assignments: (function, root of the target) -/\ndef serWrites : List (String × String) := [\n  %s]\n", strings.Join(wl, ",\n  "))
	b.WriteString("\nend Pcore.Generated\n")
	return b.String()
}

func isIdent(x ast.Expr) bool { _, ok := x.(*ast.Ident); return ok }
