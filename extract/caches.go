package main

import (
	"fmt"
	"go/ast"
	"go/token"
	"strings"
)

// Family "caches" (C13): the lazily memoised fields of shared immutable-looking objects.  For every function that fills
// such a cache (`if recv.field == nil/"" { … recv.field = … }`) and every assignment that PUBLISHES the cache field:
// is the publication the last thing the function does on that path (only `return`s — and verifhook points — follow it,
// in its block and in every enclosing block), or is the published object completed afterwards?

func init() { register("caches", "CacheSites", genCaches) }

// The lazily initialised fields are FOUND, not listed: in every method of the files below, an `if recv.F == nil` (or
// `== ""`) whose body assigns `recv.F` — directly, or through a method of the same receiver that it calls — is a lazy
// initialisation of F.  (Array/Hash caches, typedName caches, StructType.hashedMembers, objectType.ctor …)
var cacheFiles = []string{"types/arraytype.go", "types/hashtype.go", "types/typedname.go", "types/structtype.go", "types/objecttype.go"}

func isPointOrReturn(s ast.Stmt) (isReturn, ok bool) {
	switch s := s.(type) {
	case *ast.ReturnStmt:
		return true, true
	case *ast.ExprStmt:
		if c, isCall := s.X.(*ast.CallExpr); isCall {
			if strings.HasPrefix(src(c.Fun), "verifhook.Point") {
				return false, true
			}
			if _, op, isLock := lockOp(c); isLock && (op == "Unlock" || op == "RUnlock") {
				return false, true // releasing the lock that guarded the initialisation writes nothing to the object
			}
		}
	}
	return false, false
}

type cacheRow struct {
	fn, field   string
	publishLast bool
	line        int
}

// walk finds the publishing assignments; contOK = nothing but returns/points follows the enclosing statement
func cacheWalk(stmts []ast.Stmt, rv, field string, contOK bool, fn string, rows *[]cacheRow) {
	for i, s := range stmts {
		// what follows s inside this block
		tailOK, returned := true, false
		for _, f := range stmts[i+1:] {
			isRet, ok := isPointOrReturn(f)
			if !ok {
				tailOK = false
				break
			}
			if isRet {
				returned = true
				break
			}
		}
		here := tailOK && (returned || contOK)
		switch s := s.(type) {
		case *ast.AssignStmt:
			for _, l := range s.Lhs {
				if sel, ok := l.(*ast.SelectorExpr); ok && sel.Sel.Name == field {
					if id, ok := sel.X.(*ast.Ident); ok && id.Name == rv && s.Tok == token.ASSIGN {
						*rows = append(*rows, cacheRow{fn: fn, field: field, publishLast: here, line: fset.Position(s.Pos()).Line})
					}
				}
			}
		case *ast.IfStmt:
			cacheWalk(s.Body.List, rv, field, here, fn, rows)
			switch e := s.Else.(type) {
			case *ast.BlockStmt:
				cacheWalk(e.List, rv, field, here, fn, rows)
			case *ast.IfStmt:
				cacheWalk([]ast.Stmt{e}, rv, field, here, fn, rows)
			}
		case *ast.ForStmt:
			cacheWalk(s.Body.List, rv, field, false, fn, rows)
		case *ast.RangeStmt:
			cacheWalk(s.Body.List, rv, field, false, fn, rows)
		case *ast.BlockStmt:
			cacheWalk(s.List, rv, field, here, fn, rows)
		case *ast.SwitchStmt:
			for _, c := range s.Body.List {
				cacheWalk(c.(*ast.CaseClause).Body, rv, field, here, fn, rows)
			}
		}
	}
}

// lazyField: is cond `rv.F == nil` / `rv.F == ""`?  returns F
func lazyField(cond ast.Expr, rv string) (string, bool) {
	be, ok := cond.(*ast.BinaryExpr)
	if !ok || be.Op != token.EQL {
		return "", false
	}
	for _, pair := range [][2]ast.Expr{{be.X, be.Y}, {be.Y, be.X}} {
		sel, ok := pair[0].(*ast.SelectorExpr)
		if !ok {
			continue
		}
		id, ok := sel.X.(*ast.Ident)
		if !ok || id.Name != rv {
			continue
		}
		switch z := pair[1].(type) {
		case *ast.Ident:
			if z.Name == "nil" {
				return sel.Sel.Name, true
			}
		case *ast.BasicLit:
			if z.Kind == token.STRING && (z.Value == "``" || z.Value == `""`) {
				return sel.Sel.Name, true
			}
		}
	}
	return "", false
}

// calledMethods: the methods of the receiver called (as statements or inside expressions) in these statements
func calledMethods(stmts []ast.Stmt, rv string) []string {
	var out []string
	for _, st := range stmts {
		ast.Inspect(st, func(n ast.Node) bool {
			if c, ok := n.(*ast.CallExpr); ok {
				if sel, ok := c.Fun.(*ast.SelectorExpr); ok {
					if id, ok := sel.X.(*ast.Ident); ok && id.Name == rv {
						out = append(out, sel.Sel.Name)
					}
				}
			}
			return true
		})
	}
	return out
}

type methodDecl struct {
	recv, rv string
	fd       *ast.FuncDecl
}

func genCaches() string {
	var rows []cacheRow
	for _, file := range cacheFiles {
		f := parseFile(file)
		methods := map[string]methodDecl{} // "Recv.name"
		var order []string
		for _, d := range f.Decls {
			fd, ok := d.(*ast.FuncDecl)
			if !ok || fd.Body == nil || fd.Recv == nil || len(fd.Recv.List) != 1 || len(fd.Recv.List[0].Names) != 1 {
				continue
			}
			t := fd.Recv.List[0].Type
			if st, ok := t.(*ast.StarExpr); ok {
				t = st.X
			}
			id, ok := t.(*ast.Ident)
			if !ok {
				continue
			}
			k := id.Name + "." + fd.Name.Name
			methods[k] = methodDecl{id.Name, fd.Recv.List[0].Names[0].Name, fd}
			order = append(order, k)
		}
		for _, k := range order {
			m := methods[k]
			// every lazy-initialisation `if` of this method, at any depth; contOK as in cacheWalk
			var visit func(stmts []ast.Stmt, contOK bool)
			visit = func(stmts []ast.Stmt, contOK bool) {
				for i, s := range stmts {
					tailOK, returned := true, false
					for _, fo := range stmts[i+1:] {
						isRet, ok := isPointOrReturn(fo)
						if !ok {
							tailOK = false
							break
						}
						if isRet {
							returned = true
							break
						}
					}
					here := tailOK && (returned || contOK)
					switch s := s.(type) {
					case *ast.IfStmt:
						if field, ok := lazyField(s.Cond, m.rv); ok {
							before := len(rows)
							cacheWalk(s.Body.List, m.rv, field, here, k, &rows)
							if len(rows) == before {
								// not assigned here: through a method of the same receiver?
								for _, callee := range calledMethods(s.Body.List, m.rv) {
									if cm, ok := methods[m.recv+"."+callee]; ok {
										cacheWalk(cm.fd.Body.List, cm.rv, field, true, k+">"+callee, &rows)
									}
								}
							}
							// an `if` that assigns nothing to the field is a test, not an initialisation: no row
						} else {
							visit(s.Body.List, here)
						}
						switch e := s.Else.(type) {
						case *ast.BlockStmt:
							visit(e.List, here)
						case *ast.IfStmt:
							visit([]ast.Stmt{e}, here)
						}
					case *ast.ForStmt:
						visit(s.Body.List, false)
					case *ast.RangeStmt:
						visit(s.Body.List, false)
					case *ast.BlockStmt:
						visit(s.List, here)
					}
				}
			}
			visit(m.fd.Body.List, true)
		}
	}
	var b strings.Builder
	b.WriteString(header("caches", strings.Join(cacheFiles, ", ")))
	b.WriteString("import Pcore.Model.LazyCache\nnamespace Pcore.Generated\nopen Pcore.LazyCache\n\ndef cacheSites : List CacheSite := [\n")
	for i, r := range rows {
		sep := ","
		if i == len(rows)-1 {
			sep = ""
		}
		fmt.Fprintf(&b, "  { fn := %s, field := %s, publishLast := %v }%s  -- line %d\n", leanStr(r.fn), leanStr(r.field), r.publishLast, sep, r.line)
	}
	b.WriteString("]\n\nend Pcore.Generated\n")
	return b.String()
}
