package main

import (
	"fmt"
	"go/ast"
	"go/token"
	"strings"
)

// Family "caches" (C13): the lazily memoised fields of shared immutable-looking objects.  For every function that fills
// such a cache (`if recv.field == nil/"" { … recv.field = … }`) and every assignment that PUBLISHES the cache field:
// is the publication the last thing the function does on that path (only `return`s — and verifhook points — follow it,
// in its block and in every enclosing block), or is the published object completed afterwards?

func init() { register("caches", "CacheSites", genCaches) }

type cacheFn struct{ file, recv, name, field string }

var cacheFns = []cacheFn{
	{"types/arraytype.go", "Array", "privateReducedType", "reducedType"},
	{"types/arraytype.go", "Array", "privateDetailedType", "detailedType"},
	{"types/hashtype.go", "Hash", "privateReducedType", "reducedType"},
	{"types/hashtype.go", "Hash", "privateDetailedType", "detailedType"},
	{"types/hashtype.go", "Hash", "valueIndex", "index"},
	{"types/typedname.go", "typedName", "MapKey", "canonical"},
	{"types/typedname.go", "typedName", "Parts", "parts"},
}

func isPointOrReturn(s ast.Stmt) (isReturn, ok bool) {
	switch s := s.(type) {
	case *ast.ReturnStmt:
		return true, true
	case *ast.ExprStmt:
		if c, isCall := s.X.(*ast.CallExpr); isCall && strings.HasPrefix(src(c.Fun), "verifhook.Point") {
			return false, true
		}
	}
	return false, false
}

type cacheRow struct {
	fn, field   string
	publishLast bool
	line        int
}

// walk finds the publishing assignments; contOK = nothing but returns/points follows the enclosing statement
func cacheWalk(stmts []ast.Stmt, rv, field string, contOK bool, fn string, rows *[]cacheRow) {
	for i, s := range stmts {
		// what follows s inside this block
		tailOK, returned := true, false
		for _, f := range stmts[i+1:] {
			isRet, ok := isPointOrReturn(f)
			if !ok {
				tailOK = false
				break
			}
			if isRet {
				returned = true
				break
			}
		}
		here := tailOK && (returned || contOK)
		switch s := s.(type) {
		case *ast.AssignStmt:
			for _, l := range s.Lhs {
				if sel, ok := l.(*ast.SelectorExpr); ok && sel.Sel.Name == field {
					if id, ok := sel.X.(*ast.Ident); ok && id.Name == rv && s.Tok == token.ASSIGN {
						*rows = append(*rows, cacheRow{fn: fn, field: field, publishLast: here, line: fset.Position(s.Pos()).Line})
					}
				}
			}
		case *ast.IfStmt:
			cacheWalk(s.Body.List, rv, field, here, fn, rows)
			switch e := s.Else.(type) {
			case *ast.BlockStmt:
				cacheWalk(e.List, rv, field, here, fn, rows)
			case *ast.IfStmt:
				cacheWalk([]ast.Stmt{e}, rv, field, here, fn, rows)
			}
		case *ast.ForStmt:
			cacheWalk(s.Body.List, rv, field, false, fn, rows)
		case *ast.RangeStmt:
			cacheWalk(s.Body.List, rv, field, false, fn, rows)
		case *ast.BlockStmt:
			cacheWalk(s.List, rv, field, here, fn, rows)
		case *ast.SwitchStmt:
			for _, c := range s.Body.List {
				cacheWalk(c.(*ast.CaseClause).Body, rv, field, here, fn, rows)
			}
		}
	}
}

func genCaches() string {
	var rows []cacheRow
	files := map[string]*ast.File{}
	for _, cf := range cacheFns {
		f := files[cf.file]
		if f == nil {
			f = parseFile(cf.file)
			files[cf.file] = f
		}
		fd := findFunc(f, cf.recv, cf.name)
		rv := ""
		if len(fd.Recv.List[0].Names) == 1 {
			rv = fd.Recv.List[0].Names[0].Name
		}
		name := cf.recv + "." + cf.name
		before := len(rows)
		cacheWalk(fd.Body.List, rv, cf.field, true, name, &rows)
		if len(rows) == before {
			// the idiom was not recognised: a row that no side condition accepts
			rows = append(rows, cacheRow{fn: name, field: "unknown: no assignment to " + rv + "." + cf.field, publishLast: false, line: fset.Position(fd.Pos()).Line})
		}
	}
	var b strings.Builder
	b.WriteString(header("caches", "types/arraytype.go, types/hashtype.go, types/typedname.go"))
	b.WriteString("import Pcore.Model.LazyCache\nnamespace Pcore.Generated\nopen Pcore.LazyCache\n\ndef cacheSites : List CacheSite := [\n")
	for i, r := range rows {
		sep := ","
		if i == len(rows)-1 {
			sep = ""
		}
		fmt.Fprintf(&b, "  { fn := %s, field := %s, publishLast := %v }%s  -- line %d\n", leanStr(r.fn), leanStr(r.field), r.publishLast, sep, r.line)
	}
	b.WriteString("]\n\nend Pcore.Generated\n")
	return b.String()
}
