package main

import (
	"fmt"
	"go/ast"
	"go/token"
	"strings"
)

// Family "caches" (C13): the lazily memoised fields of shared immutable-looking objects.  For every function that fills
// such a cache (`if recv.field == nil/"" { … recv.field = … }`) and every assignment that PUBLISHES the cache field:
// is the publication the last thing the function does on that path (only `return`s — and verifhook points — follow it,
// in its block and in every enclosing block), or is the published object completed afterwards?

func init() { register("caches", "CacheSites", genCaches) }

// The lazily initialised fields are FOUND, not listed: in every method of the files below, an `if recv.F == nil` (or
// `== ""`) whose body assigns `recv.F` — directly, or through a method of the same receiver that it calls — is a lazy
// initialisation of F.  (Array/Hash caches, typedName caches, StructType.hashedMembers, objectType.ctor …)
var cacheFiles = []string{"types/arraytype.go", "types/hashtype.go", "types/typedname.go", "types/structtype.go", "types/objecttype.go"}

func isPointOrReturn(s ast.Stmt) (isReturn, ok bool) {
	switch s := s.(type) {
	case *ast.ReturnStmt:
		return true, true
	case *ast.ExprStmt:
		if c, isCall := s.X.(*ast.CallExpr); isCall {
			if strings.HasPrefix(src(c.Fun), "verifhook.Point") {
				return false, true
			}
			if _, op, isLock := lockOp(c); isLock && (op == "Unlock" || op == "RUnlock") {
				return false, true // releasing the lock that guarded the initialisation writes nothing to the object
			}
		}
	}
	return false, false
}

type cacheRow struct {
	fn, field   string
	publishLast bool
	line        int
	stmt        *ast.AssignStmt
	rv          string
}

// A completion write: between the publication of a cache pointer and the return of the fill function, an assignment
// THROUGH the published object — `rv.F.x = …`, `rv.F[i] = …`, or `a.x = …` / `a[i] = …` where `a` is a local that occurs in
// the published expression (the published object itself, `hv.reducedType = ht`, or a slice handed to its constructor,
// `NewTupleType(types, nil)`).  Shape: `once` (not in a loop, and no other write to the same location can happen on the
// same path), `perIndex` (`a[i] = …` inside the loop over i), `repeated` (anything else: in a loop without being indexed
// by the loop variable, or a location that is assigned by two statements that are not in exclusive branches).
type cacheWrite struct {
	fn, target, shape string
	line              int
}

type cwStep struct {
	node   ast.Node
	branch int
}

type cwSite struct {
	target   string
	line     int
	loopVars []string
	inLoop   bool
	indexVar string // the index of the outermost IndexExpr of the left-hand side when it is a plain identifier
	path     []cwStep
}

func cwExclusive(a, b []cwStep) bool {
	for _, x := range a {
		for _, y := range b {
			if x.node == y.node && x.branch != y.branch {
				return true
			}
		}
	}
	return false
}

// aliases: the local identifiers that occur as values in the published expression
func cwAliases(e ast.Expr) map[string]bool {
	out := map[string]bool{}
	var visit func(n ast.Node)
	visit = func(n ast.Node) {
		switch x := n.(type) {
		case nil:
		case *ast.Ident:
			if x.Name != "nil" && x.Name != "true" && x.Name != "false" {
				out[x.Name] = true
			}
		case *ast.CallExpr:
			// the function position names a function or a conversion, not a value that is shared
			if _, isLit := x.Fun.(*ast.FuncLit); isLit {
				visit(x.Fun)
			}
			for _, a := range x.Args {
				visit(a)
			}
		case *ast.SelectorExpr:
			visit(x.X)
		case *ast.CompositeLit:
			for _, el := range x.Elts {
				if kv, ok := el.(*ast.KeyValueExpr); ok {
					visit(kv.Value)
				} else {
					visit(el)
				}
			}
		case *ast.UnaryExpr:
			visit(x.X)
		case *ast.StarExpr:
			visit(x.X)
		case *ast.ParenExpr:
			visit(x.X)
		case *ast.IndexExpr:
			visit(x.X)
		case *ast.SliceExpr:
			visit(x.X)
		case *ast.TypeAssertExpr:
			visit(x.X)
		case *ast.BinaryExpr:
			visit(x.X)
			visit(x.Y)
		}
	}
	visit(e)
	return out
}

// cwTarget: is `lhs` a write through the published object?  (root.field… with root == rv, or root in aliases)
func cwTarget(lhs ast.Expr, rv, field string, aliases map[string]bool) (indexVar string, ok bool) {
	if ix, isIx := lhs.(*ast.IndexExpr); isIx {
		if id, isId := ix.Index.(*ast.Ident); isId {
			indexVar = id.Name
		}
	}
	e := lhs
	depth := 0
	for {
		switch x := e.(type) {
		case *ast.SelectorExpr:
			if id, isId := x.X.(*ast.Ident); isId && id.Name == rv {
				// rv.<sel>: through the published object only when <sel> is the cache field and something follows
				return indexVar, x.Sel.Name == field && depth > 0
			}
			e = x.X
			depth++
		case *ast.IndexExpr:
			e = x.X
			depth++
		case *ast.StarExpr:
			e = x.X
		case *ast.ParenExpr:
			e = x.X
		case *ast.Ident:
			return indexVar, depth > 0 && x.Name != rv && aliases[x.Name]
		default:
			return indexVar, false
		}
	}
}

func completionWrites(body []ast.Stmt, rv, field string, pub *ast.AssignStmt, fn string) []cacheWrite {
	aliases := map[string]bool{}
	for _, r := range pub.Rhs {
		for k := range cwAliases(r) {
			aliases[k] = true
		}
	}
	delete(aliases, rv)
	var sites []cwSite
	var walk func(stmts []ast.Stmt, loopVars []string, inLoop bool, path []cwStep)
	walk = func(stmts []ast.Stmt, loopVars []string, inLoop bool, path []cwStep) {
		for _, s := range stmts {
			switch s := s.(type) {
			case *ast.AssignStmt:
				if s.Pos() <= pub.Pos() {
					continue
				}
				for _, l := range s.Lhs {
					if iv, ok := cwTarget(l, rv, field, aliases); ok {
						sites = append(sites, cwSite{target: src(l), line: fset.Position(s.Pos()).Line, loopVars: loopVars, inLoop: inLoop,
							indexVar: iv, path: path})
					}
				}
			case *ast.IfStmt:
				walk(s.Body.List, loopVars, inLoop, append(append([]cwStep{}, path...), cwStep{s, 0}))
				switch e := s.Else.(type) {
				case *ast.BlockStmt:
					walk(e.List, loopVars, inLoop, append(append([]cwStep{}, path...), cwStep{s, 1}))
				case *ast.IfStmt:
					walk([]ast.Stmt{e}, loopVars, inLoop, append(append([]cwStep{}, path...), cwStep{s, 1}))
				}
			case *ast.ForStmt:
				lv := append([]string{}, loopVars...)
				if as, ok := s.Init.(*ast.AssignStmt); ok {
					for _, l := range as.Lhs {
						if id, ok := l.(*ast.Ident); ok {
							lv = append(lv, id.Name)
						}
					}
				}
				walk(s.Body.List, lv, true, path)
			case *ast.RangeStmt:
				lv := append([]string{}, loopVars...)
				if id, ok := s.Key.(*ast.Ident); ok && id.Name != "_" {
					lv = append(lv, id.Name)
				}
				walk(s.Body.List, lv, true, path)
			case *ast.BlockStmt:
				walk(s.List, loopVars, inLoop, path)
			case *ast.SwitchStmt:
				for i, c := range s.Body.List {
					walk(c.(*ast.CaseClause).Body, loopVars, inLoop, append(append([]cwStep{}, path...), cwStep{s, i}))
				}
			case *ast.TypeSwitchStmt:
				for i, c := range s.Body.List {
					walk(c.(*ast.CaseClause).Body, loopVars, inLoop, append(append([]cwStep{}, path...), cwStep{s, i}))
				}
			}
		}
	}
	walk(body, nil, false, nil)
	var out []cacheWrite
	for i, w := range sites {
		byLoopVar := false
		for _, v := range w.loopVars {
			if v == w.indexVar && v != "" {
				byLoopVar = true
			}
		}
		conflict := false
		for j, o := range sites {
			if i != j && o.target == w.target && !cwExclusive(w.path, o.path) {
				conflict = true
			}
		}
		shape := "once"
		switch {
		case conflict, w.inLoop && !byLoopVar:
			shape = "repeated"
		case w.inLoop:
			shape = "perIndex"
		}
		out = append(out, cacheWrite{fn: fn, target: w.target, shape: shape, line: w.line})
	}
	return out
}

// walk finds the publishing assignments; contOK = nothing but returns/points follows the enclosing statement
func cacheWalk(stmts []ast.Stmt, rv, field string, contOK bool, fn string, rows *[]cacheRow) {
	for i, s := range stmts {
		// what follows s inside this block
		tailOK, returned := true, false
		for _, f := range stmts[i+1:] {
			isRet, ok := isPointOrReturn(f)
			if !ok {
				tailOK = false
				break
			}
			if isRet {
				returned = true
				break
			}
		}
		here := tailOK && (returned || contOK)
		switch s := s.(type) {
		case *ast.AssignStmt:
			for _, l := range s.Lhs {
				if sel, ok := l.(*ast.SelectorExpr); ok && sel.Sel.Name == field {
					if id, ok := sel.X.(*ast.Ident); ok && id.Name == rv && s.Tok == token.ASSIGN {
						*rows = append(*rows, cacheRow{fn: fn, field: field, publishLast: here, line: fset.Position(s.Pos()).Line, stmt: s, rv: rv})
					}
				}
			}
		case *ast.IfStmt:
			cacheWalk(s.Body.List, rv, field, here, fn, rows)
			switch e := s.Else.(type) {
			case *ast.BlockStmt:
				cacheWalk(e.List, rv, field, here, fn, rows)
			case *ast.IfStmt:
				cacheWalk([]ast.Stmt{e}, rv, field, here, fn, rows)
			}
		case *ast.ForStmt:
			cacheWalk(s.Body.List, rv, field, false, fn, rows)
		case *ast.RangeStmt:
			cacheWalk(s.Body.List, rv, field, false, fn, rows)
		case *ast.BlockStmt:
			cacheWalk(s.List, rv, field, here, fn, rows)
		case *ast.SwitchStmt:
			for _, c := range s.Body.List {
				cacheWalk(c.(*ast.CaseClause).Body, rv, field, here, fn, rows)
			}
		}
	}
}

// lazyField: is cond `rv.F == nil` / `rv.F == ""`?  returns F
func lazyField(cond ast.Expr, rv string) (string, bool) {
	be, ok := cond.(*ast.BinaryExpr)
	if !ok || be.Op != token.EQL {
		return "", false
	}
	for _, pair := range [][2]ast.Expr{{be.X, be.Y}, {be.Y, be.X}} {
		sel, ok := pair[0].(*ast.SelectorExpr)
		if !ok {
			continue
		}
		id, ok := sel.X.(*ast.Ident)
		if !ok || id.Name != rv {
			continue
		}
		switch z := pair[1].(type) {
		case *ast.Ident:
			if z.Name == "nil" {
				return sel.Sel.Name, true
			}
		case *ast.BasicLit:
			if z.Kind == token.STRING && (z.Value == "``" || z.Value == `""`) {
				return sel.Sel.Name, true
			}
		}
	}
	return "", false
}

// calledMethods: the methods of the receiver called (as statements or inside expressions) in these statements
func calledMethods(stmts []ast.Stmt, rv string) []string {
	var out []string
	for _, st := range stmts {
		ast.Inspect(st, func(n ast.Node) bool {
			if c, ok := n.(*ast.CallExpr); ok {
				if sel, ok := c.Fun.(*ast.SelectorExpr); ok {
					if id, ok := sel.X.(*ast.Ident); ok && id.Name == rv {
						out = append(out, sel.Sel.Name)
					}
				}
			}
			return true
		})
	}
	return out
}

type methodDecl struct {
	recv, rv string
	fd       *ast.FuncDecl
}

func genCaches() string {
	var rows []cacheRow
	var writes []cacheWrite
	for _, file := range cacheFiles {
		f := parseFile(file)
		methods := map[string]methodDecl{} // "Recv.name"
		var order []string
		for _, d := range f.Decls {
			fd, ok := d.(*ast.FuncDecl)
			if !ok || fd.Body == nil || fd.Recv == nil || len(fd.Recv.List) != 1 || len(fd.Recv.List[0].Names) != 1 {
				continue
			}
			t := fd.Recv.List[0].Type
			if st, ok := t.(*ast.StarExpr); ok {
				t = st.X
			}
			id, ok := t.(*ast.Ident)
			if !ok {
				continue
			}
			k := id.Name + "." + fd.Name.Name
			methods[k] = methodDecl{id.Name, fd.Recv.List[0].Names[0].Name, fd}
			order = append(order, k)
		}
		for _, k := range order {
			m := methods[k]
			// every lazy-initialisation `if` of this method, at any depth; contOK as in cacheWalk
			var visit func(stmts []ast.Stmt, contOK bool)
			visit = func(stmts []ast.Stmt, contOK bool) {
				for i, s := range stmts {
					tailOK, returned := true, false
					for _, fo := range stmts[i+1:] {
						isRet, ok := isPointOrReturn(fo)
						if !ok {
							tailOK = false
							break
						}
						if isRet {
							returned = true
							break
						}
					}
					here := tailOK && (returned || contOK)
					switch s := s.(type) {
					case *ast.IfStmt:
						if field, ok := lazyField(s.Cond, m.rv); ok {
							before := len(rows)
							cacheWalk(s.Body.List, m.rv, field, here, k, &rows)
							for _, r := range rows[before:] {
								if !r.publishLast {
									writes = append(writes, completionWrites(s.Body.List, m.rv, field, r.stmt, k)...)
								}
							}
							if len(rows) == before {
								// not assigned here: through a method of the same receiver?
								for _, callee := range calledMethods(s.Body.List, m.rv) {
									if cm, ok := methods[m.recv+"."+callee]; ok {
										b2 := len(rows)
										cacheWalk(cm.fd.Body.List, cm.rv, field, true, k+">"+callee, &rows)
										for _, r := range rows[b2:] {
											if !r.publishLast {
												writes = append(writes, completionWrites(cm.fd.Body.List, cm.rv, field, r.stmt, k+">"+callee)...)
											}
										}
									}
								}
							}
							// an `if` that assigns nothing to the field is a test, not an initialisation: no row
						} else {
							visit(s.Body.List, here)
						}
						switch e := s.Else.(type) {
						case *ast.BlockStmt:
							visit(e.List, here)
						case *ast.IfStmt:
							visit([]ast.Stmt{e}, here)
						}
					case *ast.ForStmt:
						visit(s.Body.List, false)
					case *ast.RangeStmt:
						visit(s.Body.List, false)
					case *ast.BlockStmt:
						visit(s.List, here)
					}
				}
			}
			visit(m.fd.Body.List, true)
		}
	}
	var b strings.Builder
	b.WriteString(header("caches", strings.Join(cacheFiles, ", ")))
	b.WriteString("import Pcore.Model.LazyCache\nnamespace Pcore.Generated\nopen Pcore.LazyCache\n\ndef cacheSites : List CacheSite := [\n")
	for i, r := range rows {
		sep := ","
		if i == len(rows)-1 {
			sep = ""
		}
		fmt.Fprintf(&b, "  { fn := %s, field := %s, publishLast := %v }%s  -- line %d\n", leanStr(r.fn), leanStr(r.field), r.publishLast, sep, r.line)
	}
	b.WriteString("]\n\n-- writes through a published cache pointer, between the publication and the return of the fill function\ndef cacheWrites : List CacheWrite := [\n")
	for i, w := range writes {
		sep := ","
		if i == len(writes)-1 {
			sep = ""
		}
		fmt.Fprintf(&b, "  { fn := %s, target := %s, shape := .%s }%s  -- line %d\n", leanStr(w.fn), leanStr(w.target), w.shape, sep, w.line)
	}
	b.WriteString("]\n\nend Pcore.Generated\n")
	return b.String()
}
