package main

import (
	"fmt"
	"go/ast"
	"go/token"
	"strings"
)

// Family "lexloops": for every `for { … }` loop of types/lexer.go, what each arm of its switch does in one
// iteration: which reader results it is taken for (labels) and how every path through it ends — return, panic,
// break out of the loop, or back to the loop head with / without having called sr.Next() (and whether that call
// sits under a test that confines r to a range of ASCII characters).  The meaning of the table (which tables
// describe loops that must terminate) lives in lean/Pcore/Proofs/LexLoops.lean; an idiom that is not recognised
// is emitted as `.unknown "<source>"` / `.other "<source>"`, which the side condition never accepts.

func init() { register("lexloops", "LexLoops", genLexLoops) }

type llOut struct {
	kind     string // ret panic brk loop unknown
	consumed bool
	guarded  bool
	src      string
}

func (o llOut) lean() string {
	switch o.kind {
	case "ret":
		return ".ret"
	case "panic":
		return ".panic"
	case "brk":
		return ".brk"
	case "loop":
		return fmt.Sprintf(".loop %v %v", o.consumed, o.guarded)
	}
	return ".unknown " + leanStr(o.src)
}

type llCtx struct {
	rvar     string // the variable that holds the reader result
	readerOK bool
}

// isReaderCall: sr.Next() / sr.Peek()
func isReaderCall(e ast.Expr, name string) bool {
	c, ok := e.(*ast.CallExpr)
	if !ok {
		return false
	}
	s, ok := c.Fun.(*ast.SelectorExpr)
	if !ok || s.Sel.Name != name {
		return false
	}
	id, ok := s.X.(*ast.Ident)
	return ok && id.Name == "sr"
}

func containsNext(n ast.Node) bool {
	found := false
	ast.Inspect(n, func(x ast.Node) bool {
		if e, ok := x.(ast.Expr); ok && isReaderCall(e, "Next") {
			found = true
		}
		return !found
	})
	return found
}

// containsConsumer: a call of another consume* function (it reads on from the cursor)
func containsConsumer(n ast.Node) bool {
	found := false
	ast.Inspect(n, func(x ast.Node) bool {
		if c, ok := x.(*ast.CallExpr); ok {
			if id, ok := c.Fun.(*ast.Ident); ok && strings.HasPrefix(id.Name, "consume") {
				found = true
			}
		}
		return !found
	})
	return found
}

func isPanic(s ast.Stmt) bool {
	es, ok := s.(*ast.ExprStmt)
	if !ok {
		return false
	}
	c, ok := es.X.(*ast.CallExpr)
	if !ok {
		return false
	}
	id, ok := c.Fun.(*ast.Ident)
	return ok && id.Name == "panic"
}

// rangeTest: does the condition confine `r` to ASCII characters, i.e. is it built with && / || from comparisons, where
// every comparison that mentions r compares it (==, >=, <=, >, <) with a character literal below 0x80, and every
// disjunct mentions r at least once?  Such a test is false for 0 and for utf8.RuneError.
func rangeTest(e ast.Expr, r string) bool {
	switch e := e.(type) {
	case *ast.ParenExpr:
		return rangeTest(e.X, r)
	case *ast.BinaryExpr:
		switch e.Op {
		case token.LOR:
			return rangeTest(e.X, r) && rangeTest(e.Y, r)
		case token.LAND:
			// one conjunct confining r is enough, the others must not be strange uses of r
			lx, ly := rangeTest(e.X, r), rangeTest(e.Y, r)
			return (lx && (ly || !mentions(e.Y, r))) || (ly && !mentions(e.X, r))
		case token.EQL, token.GEQ, token.LEQ, token.GTR, token.LSS:
			id, ok := e.X.(*ast.Ident)
			if !ok || id.Name != r {
				return false
			}
			lit, ok := e.Y.(*ast.BasicLit)
			if !ok || lit.Kind != token.CHAR {
				return false
			}
			return asciiCharLit(lit.Value) && (e.Op != token.LSS && e.Op != token.LEQ || true)
		}
	}
	return false
}

func asciiCharLit(v string) bool {
	// 'x' or an escape of an ASCII character; reject '\x00' and anything non-ASCII
	if len(v) < 3 {
		return false
	}
	body := v[1 : len(v)-1]
	if body == `\x00` || body == `\000` || body == `\u0000` {
		return false
	}
	for _, c := range body {
		if c >= 0x80 {
			return false
		}
	}
	return true
}

func mentions(e ast.Expr, r string) bool {
	found := false
	ast.Inspect(e, func(x ast.Node) bool {
		if id, ok := x.(*ast.Ident); ok && id.Name == r {
			found = true
		}
		return !found
	})
	return found
}

// a lower bound test alone (`r <= 'z'`) would admit 0: require that a pure range test has, per disjunct, an equality or a lower
// bound.  (Checked separately so that rangeTest stays readable.)
func hasLowerBound(e ast.Expr, r string) bool {
	switch e := e.(type) {
	case *ast.ParenExpr:
		return hasLowerBound(e.X, r)
	case *ast.BinaryExpr:
		switch e.Op {
		case token.LOR:
			return hasLowerBound(e.X, r) && hasLowerBound(e.Y, r)
		case token.LAND:
			return hasLowerBound(e.X, r) || hasLowerBound(e.Y, r)
		case token.EQL, token.GEQ, token.GTR:
			id, ok := e.X.(*ast.Ident)
			return ok && id.Name == r
		}
	}
	return false
}

// the file's own one-line predicates `func isX(p rune) bool { return <range test on p> }`: a call `isX(r)` confines r
// like the test it stands for (the commonest harmless rewrite of a character-class test)
var lexPredicates = map[string]*ast.FuncDecl{}

func confines(e ast.Expr, r string) bool {
	if call, ok := e.(*ast.CallExpr); ok && len(call.Args) == 1 {
		if id, ok := call.Fun.(*ast.Ident); ok {
			if arg, ok := call.Args[0].(*ast.Ident); ok && arg.Name == r {
				if fd, ok := lexPredicates[id.Name]; ok && len(fd.Body.List) == 1 && len(fd.Type.Params.List) == 1 && len(fd.Type.Params.List[0].Names) == 1 {
					if ret, ok := fd.Body.List[0].(*ast.ReturnStmt); ok && len(ret.Results) == 1 {
						p := fd.Type.Params.List[0].Names[0].Name
						return rangeTest(ret.Results[0], p) && hasLowerBound(ret.Results[0], p)
					}
				}
			}
		}
	}
	return rangeTest(e, r) && hasLowerBound(e, r)
}

func labelOf(e ast.Expr, tagged bool, r string) string {
	if tagged {
		switch x := e.(type) {
		case *ast.BasicLit:
			if x.Kind == token.INT && x.Value == "0" {
				return ".zero"
			}
			if x.Kind == token.CHAR && asciiCharLit(x.Value) {
				return ".char"
			}
		case *ast.SelectorExpr:
			if id, ok := x.X.(*ast.Ident); ok && id.Name == "utf8" && x.Sel.Name == "RuneError" {
				return ".runeError"
			}
		}
		return ".other " + leanStr(src(e))
	}
	if confines(e, r) {
		return ".condRange"
	}
	return ".other " + leanStr(src(e))
}

// walk returns the ways a statement list can end.  `rest` is what happens when control falls off its end;
// `inSwitch`: a `break` leaves the enclosing (inner) switch, i.e. also continues with `rest`.
func (c *llCtx) walk(stmts []ast.Stmt, consumed, guarded bool, guardCtx bool, rest func(consumed, guarded bool) []llOut, loopLevel bool, nextClause func(consumed, guarded bool) []llOut) []llOut {
	if len(stmts) == 0 {
		return rest(consumed, guarded)
	}
	s := stmts[0]
	tail := stmts[1:]
	cont := func(cn, gd bool) []llOut {
		return c.walk(tail, cn, gd, guardCtx, rest, loopLevel, nextClause)
	}
	note := func(n ast.Node) (bool, bool) {
		if containsNext(n) || containsConsumer(n) {
			if !consumed {
				return true, guardCtx
			}
			return true, guarded
		}
		return consumed, guarded
	}
	switch s := s.(type) {
	case *ast.ReturnStmt:
		return []llOut{{kind: "ret"}}
	case *ast.BranchStmt:
		switch s.Tok {
		case token.CONTINUE:
			return []llOut{{kind: "loop", consumed: consumed, guarded: guarded}}
		case token.BREAK:
			if loopLevel {
				return []llOut{{kind: "brk"}}
			}
			return rest(consumed, guarded)
		case token.FALLTHROUGH:
			if nextClause != nil {
				return nextClause(consumed, guarded)
			}
		}
		return []llOut{{kind: "unknown", src: src(s)}}
	case *ast.ExprStmt:
		if isPanic(s) {
			return []llOut{{kind: "panic"}}
		}
		cn, gd := note(s)
		return cont(cn, gd)
	case *ast.AssignStmt, *ast.IncDecStmt, *ast.DeclStmt:
		cn, gd := note(s)
		return cont(cn, gd)
	case *ast.IfStmt:
		if s.Init != nil {
			return []llOut{{kind: "unknown", src: src(s)}}
		}
		cn, gd := consumed, guarded
		if containsNext(s.Cond) {
			cn, gd = note(s.Cond)
		}
		g2 := guardCtx || confines(s.Cond, c.rvar)
		outs := c.walk(s.Body.List, cn, gd, g2, func(a, b bool) []llOut { return cont(a, b) }, loopLevel, nextClause)
		switch e := s.Else.(type) {
		case nil:
			outs = append(outs, cont(cn, gd)...)
		case *ast.BlockStmt:
			outs = append(outs, c.walk(e.List, cn, gd, guardCtx, func(a, b bool) []llOut { return cont(a, b) }, loopLevel, nextClause)...)
		case *ast.IfStmt:
			outs = append(outs, c.walk([]ast.Stmt{e}, cn, gd, guardCtx, func(a, b bool) []llOut { return cont(a, b) }, loopLevel, nextClause)...)
		default:
			outs = append(outs, llOut{kind: "unknown", src: src(s)})
		}
		return outs
	case *ast.SwitchStmt:
		// an inner switch (after `r = sr.Next()` inside an arm): every clause, plus falling through it without a match
		cn, gd := consumed, guarded
		if s.Init != nil {
			return []llOut{{kind: "unknown", src: src(s)}}
		}
		if s.Tag != nil && containsNext(s.Tag) {
			cn, gd = note(s.Tag)
		}
		var outs []llOut
		hasDefault := false
		clauses := s.Body.List
		for i := range clauses {
			cc := clauses[i].(*ast.CaseClause)
			if cc.List == nil {
				hasDefault = true
			}
			var next func(a, b bool) []llOut
			if i+1 < len(clauses) {
				nb := clauses[i+1].(*ast.CaseClause).Body
				next = func(a, b bool) []llOut {
					return c.walk(nb, a, b, guardCtx, func(x, y bool) []llOut { return cont(x, y) }, false, nil)
				}
			}
			outs = append(outs, c.walk(cc.Body, cn, gd, guardCtx, func(a, b bool) []llOut { return cont(a, b) }, false, next)...)
		}
		if !hasDefault {
			outs = append(outs, cont(cn, gd)...)
		}
		return outs
	}
	return []llOut{{kind: "unknown", src: src(s)}}
}

func dedupe(outs []llOut) []llOut {
	seen := map[string]bool{}
	var r []llOut
	for _, o := range outs {
		k := o.lean()
		if !seen[k] {
			seen[k] = true
			r = append(r, o)
		}
	}
	return r
}

func genLexLoops() string {
	f := parseFile("types/lexer.go")
	for _, d := range f.Decls {
		if fd, ok := d.(*ast.FuncDecl); ok && fd.Recv == nil && fd.Body != nil {
			lexPredicates[fd.Name.Name] = fd
		}
	}
	var b strings.Builder
	b.WriteString(header("lexloops", "types/lexer.go"))
	b.WriteString("import Pcore.Model.LexLoops\nnamespace Pcore.Generated\nopen Pcore.LexLoops\n\ndef lexLoops : List Loop := [\n")
	first := true
	for _, d := range f.Decls {
		fd, ok := d.(*ast.FuncDecl)
		if !ok || fd.Body == nil {
			continue
		}
		ast.Inspect(fd.Body, func(n ast.Node) bool {
			fs, ok := n.(*ast.ForStmt)
			if !ok {
				return true
			}
			if !first {
				b.WriteString(",\n")
			}
			first = false
			b.WriteString(loopLean(fd.Name.Name, fs))
			return false
		})
	}
	b.WriteString("]\n\nend Pcore.Generated\n")
	return b.String()
}

func loopLean(fn string, fs *ast.ForStmt) string {
	unknown := func(why string) string {
		return fmt.Sprintf("  { fn := %s, kind := .unknown %s, arms := [] }", leanStr(fn), leanStr(why))
	}
	if fs.Cond != nil {
		return unknown("loop with a condition: " + src(fs.Cond))
	}
	body := fs.Body.List
	c := &llCtx{}
	kind := ""
	i := 0
	// the read at the top of the iteration
	var sw *ast.SwitchStmt
	if len(body) > 0 {
		if as, ok := body[0].(*ast.AssignStmt); ok && len(as.Lhs) == 1 && len(as.Rhs) == 1 && as.Tok == token.DEFINE {
			if id, ok := as.Lhs[0].(*ast.Ident); ok {
				if isReaderCall(as.Rhs[0], "Next") {
					kind, c.rvar, i = "next", id.Name, 1
				} else if isReaderCall(as.Rhs[0], "Peek") {
					kind, c.rvar, i = "peek", id.Name, 1
				}
			}
		} else if s, ok := body[0].(*ast.SwitchStmt); ok && s.Tag != nil && isReaderCall(s.Tag, "Next") && s.Init == nil {
			kind, c.rvar = "next", "\x00"
			sw = s
		}
	}
	if kind == "" {
		return unknown("the iteration does not start with r := sr.Next() / sr.Peek()")
	}
	consumedTop := kind == "next"
	type arm struct {
		labels []string
		outs   []llOut
	}
	var arms []arm
	// what follows the switch inside the loop body (nextToken: `break`)
	afterSwitch := func(rest []ast.Stmt) func(a, b bool) []llOut {
		return func(a, b bool) []llOut {
			return c.walk(rest, a, b, false, func(x, y bool) []llOut {
				return []llOut{{kind: "loop", consumed: x, guarded: y}}
			}, true, nil)
		}
	}
	// guards of the shape `if r == X { … }` in front of the switch
	for sw == nil && i < len(body) {
		switch s := body[i].(type) {
		case *ast.IfStmt:
			be, ok := s.Cond.(*ast.BinaryExpr)
			if !ok || be.Op != token.EQL || s.Else != nil || s.Init != nil {
				return unknown("statement before the switch: " + src(s))
			}
			id, ok := be.X.(*ast.Ident)
			if !ok || id.Name != c.rvar {
				return unknown("statement before the switch: " + src(s))
			}
			lab := labelOf(be.Y, true, c.rvar)
			if idy, ok := be.Y.(*ast.Ident); ok && idy.Name == "end" {
				lab = ".char" // the closing quote of consumeString: an ASCII quote character
			}
			outs := c.walk(s.Body.List, consumedTop, false, false, func(a, b bool) []llOut {
				return []llOut{{kind: "unknown", src: "guard falls through: " + src(s)}}
			}, true, nil)
			arms = append(arms, arm{[]string{lab}, dedupe(outs)})
			i++
		case *ast.SwitchStmt:
			sw = s
		default:
			return unknown("statement before the switch: " + src(s))
		}
	}
	if sw == nil {
		return unknown("no switch in the loop body")
	}
	tagged := sw.Tag != nil
	if tagged && !isReaderCall(sw.Tag, "Next") {
		if id, ok := sw.Tag.(*ast.Ident); !ok || id.Name != c.rvar {
			return unknown("switch on something else than the reader result: " + src(sw.Tag))
		}
	}
	rest := body[i+1:]
	if sw == body[0] {
		rest = body[1:]
	}
	clauses := sw.Body.List
	hasDefault := false
	for ci := range clauses {
		cc := clauses[ci].(*ast.CaseClause)
		var labels []string
		if cc.List == nil {
			labels = []string{".dflt"}
			hasDefault = true
		}
		for _, e := range cc.List {
			labels = append(labels, labelOf(e, tagged, c.rvar))
		}
		guardCtx := true
		for _, l := range labels {
			if l != ".char" && l != ".condRange" {
				guardCtx = false
			}
		}
		var next func(a, b bool) []llOut
		if ci+1 < len(clauses) {
			nb := clauses[ci+1].(*ast.CaseClause).Body
			next = func(a, b bool) []llOut {
				return c.walk(nb, a, b, false, afterSwitch(rest), false, nil)
			}
		}
		g0 := consumedTop && guardCtx
		outs := c.walk(cc.Body, consumedTop, g0, guardCtx, afterSwitch(rest), false, next)
		arms = append(arms, arm{labels, dedupe(outs)})
	}
	if !hasDefault {
		// no clause matches: control leaves the switch
		arms = append(arms, arm{[]string{".dflt"}, dedupe(afterSwitch(rest)(consumedTop, false))})
	}
	var sb strings.Builder
	fmt.Fprintf(&sb, "  { fn := %s, kind := .%s, arms := [\n", leanStr(fn), kind)
	for ai, a := range arms {
		os := make([]string, len(a.outs))
		for k, o := range a.outs {
			os[k] = o.lean()
		}
		sep := ","
		if ai == len(arms)-1 {
			sep = ""
		}
		fmt.Fprintf(&sb, "      { labels := [%s], outs := [%s] }%s\n", strings.Join(a.labels, ", "), strings.Join(os, ", "), sep)
	}
	sb.WriteString("    ] }")
	return sb.String()
}
