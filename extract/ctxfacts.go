package main

import (
	"fmt"
	"go/ast"
	"go/parser"
	"go/token"
	"path/filepath"
	"strconv"
	"strings"
)

// Family "ctxfacts" (property C14): the SHAPE, statement by statement, of the functions that set, restore, fork and
// release the goroutine-local current context:
//
//   px/context.go        DoWithContext, Fork, Go
//   internal/context.go  (*pxContext).Fork (+ clone), (*pxContext).DoWithLoader
//   internal/runtime.go  (*rt).Do, doWithRoot, Try, TryWithParent, DoWithParent (px.Context branch), RootContext
//   threadlocal/gid.go   Init, Cleanup, Set, Get
//
// One `List Act` per function (vocabulary and meaning: lean/Pcore/Model/CtxFacts.lean).  Pure go/ast pattern
// matching.  Identifiers are resolved against the declaration (receiver, parameters, the variable bound by a
// recognised statement); a statement that is not recognised becomes `.unknown "<normalised source>"`, a function
// that does not exist `[.absent]`.  Nothing in here panics on an unexpected shape (and if it did, the field becomes
// `[.unknown "extractor: …"]`).

func init() { register("ctxfacts", "CtxFacts", genCtxFacts) }

const cfThreadlocalPath = "github.com/lyraproj/pcore/threadlocal"
const cfPxPath = "github.com/lyraproj/pcore/px"

// cfEnv: what the identifiers of the function being described stand for ("" = nothing in scope).
type cfEnv struct {
	tl                  string                // qualifier of package threadlocal in this file ("threadlocal.")
	px                  string                // qualifier of package px in this file ("" inside package px, else "px.")
	recv                string                // receiver
	ctx                 string                // ‹ctx›: the context that is to become current
	parent              string                // ‹parent›: the context to fork from / the parent parameter
	actor               string                // ‹actor›: the function parameter that receives the context
	loader              string                // DoWithLoader: the loader parameter
	doer                string                // DoWithLoader: the doer parameter
	save                string                // ‹save›: variable bound by the save statement
	errv                string                // ‹err›: the named error result
	clone               string                // (*pxContext).Fork: the clone
	made                map[string]bool       // locals made by make([]T, len(recv.stack))
	copied              map[string]bool       // … and filled by copy(x, recv.stack)
	cloneOK             func() (bool, string) // is (*pxContext).clone the expected struct copy?
	seenStack, seenVars bool
}

func cfUnknown(n ast.Node) string {
	s := src(n)
	if r := []rune(s); len(r) > 200 {
		s = string(r[:200]) + "…"
	}
	return ".unknown " + leanStr(s)
}

func cfIdent(e ast.Expr, name string) bool {
	id, ok := e.(*ast.Ident)
	return ok && name != "" && id.Name == name
}

func cfNewIdent(e ast.Expr) (string, bool) {
	id, ok := e.(*ast.Ident)
	if !ok || id.Name == "_" {
		return "", false
	}
	return id.Name, true
}

// cfCall: e is the call `fun(a1 … an)` (fun compared as source text), no `...`.
func cfCall(e ast.Expr, fun string, nargs int) (*ast.CallExpr, bool) {
	c, ok := e.(*ast.CallExpr)
	if !ok || c.Ellipsis != token.NoPos || len(c.Args) != nargs || src(c.Fun) != fun {
		return nil, false
	}
	return c, true
}

// cfThunk: e is `func() { … }()`; returns the body.
func cfThunk(c *ast.CallExpr) (*ast.BlockStmt, bool) {
	fl, ok := c.Fun.(*ast.FuncLit)
	if !ok || len(c.Args) != 0 || fl.Type.Params.NumFields() != 0 || fl.Type.Results.NumFields() != 0 {
		return nil, false
	}
	return fl.Body, true
}

// cfCtxLit: e is `func(x px.Context) { … }`; returns x and the body.
func cfCtxLit(env *cfEnv, e ast.Expr) (string, *ast.BlockStmt, bool) {
	fl, ok := e.(*ast.FuncLit)
	if !ok || fl.Type.Results.NumFields() != 0 || fl.Type.Params.NumFields() != 1 {
		return "", nil, false
	}
	p := fl.Type.Params.List[0]
	if len(p.Names) != 1 || src(p.Type) != env.px+"Context" {
		return "", nil, false
	}
	return p.Names[0].Name, fl.Body, true
}

func cfAssign1(s ast.Stmt, tok token.Token) (ast.Expr, ast.Expr, bool) {
	a, ok := s.(*ast.AssignStmt)
	if !ok || a.Tok != tok || len(a.Lhs) != 1 || len(a.Rhs) != 1 {
		return nil, nil, false
	}
	return a.Lhs[0], a.Rhs[0], true
}

func cfList(acts []string) string { return "[" + strings.Join(acts, ", ") + "]" }

func cfActs(env *cfEnv, stmts []ast.Stmt) []string {
	acts := []string{}
	for _, s := range stmts {
		if a := cfAct(env, s); a != "" {
			acts = append(acts, a)
		}
	}
	return acts
}

// cfAct describes one statement ("" = a recognised auxiliary statement that emits nothing).
func cfAct(env *cfEnv, s ast.Stmt) string {
	key := env.px + "PuppetContextKey"
	switch s := s.(type) {
	case *ast.IfStmt:
		// if ‹save›, ok := threadlocal.Get(PuppetContextKey); ok { … } else { … }
		if a, ok := s.Init.(*ast.AssignStmt); ok && a.Tok == token.DEFINE && len(a.Lhs) == 2 && len(a.Rhs) == 1 {
			save, ok1 := cfNewIdent(a.Lhs[0])
			if cfIdent(a.Lhs[0], "_") { // the old context is dropped: nothing can restore it
				save, ok1 = "", true
			}
			okv, ok2 := cfNewIdent(a.Lhs[1])
			if get, ok3 := cfCall(a.Rhs[0], env.tl+"Get", 1); ok1 && ok2 && ok3 && src(get.Args[0]) == key && cfIdent(s.Cond, okv) {
				var elseStmts []ast.Stmt
				switch e := s.Else.(type) {
				case nil:
				case *ast.BlockStmt:
					elseStmts = e.List
				default:
					return cfUnknown(s)
				}
				thenEnv, elseEnv := *env, *env
				thenEnv.save = save
				return ".ifGetCurrent " + cfList(cfActs(&thenEnv, s.Body.List)) + " " + cfList(cfActs(&elseEnv, elseStmts))
			}
			return cfUnknown(s)
		}
		// if ‹recv›.vars != nil { cv := make(map…, …); for k, v := range ‹recv›.vars { cv[k] = v }; clone.vars = cv }
		if s.Init == nil && s.Else == nil && env.clone != "" && src(s.Cond) == env.recv+".vars != nil" && len(s.Body.List) == 3 {
			lhs, rhs, ok := cfAssign1(s.Body.List[0], token.DEFINE)
			if !ok {
				return cfUnknown(s)
			}
			cv, ok1 := cfNewIdent(lhs)
			mk, ok2 := rhs.(*ast.CallExpr)
			if !ok1 || !ok2 || !cfIdent(mk.Fun, "make") || len(mk.Args) < 1 || len(mk.Args) > 2 {
				return cfUnknown(s)
			}
			if _, isMap := mk.Args[0].(*ast.MapType); !isMap {
				return cfUnknown(s)
			}
			rg, ok := s.Body.List[1].(*ast.RangeStmt)
			if !ok || rg.Tok != token.DEFINE || rg.Key == nil || rg.Value == nil || src(rg.X) != env.recv+".vars" || len(rg.Body.List) != 1 {
				return cfUnknown(s)
			}
			k, okk := cfNewIdent(rg.Key)
			v, okv := cfNewIdent(rg.Value)
			if !okk || !okv || k == cv || v == cv || src(rg.Body.List[0]) != cv+"["+k+"] = "+v {
				return cfUnknown(s)
			}
			if src(s.Body.List[2]) != env.clone+".vars = "+cv {
				return cfUnknown(s)
			}
			env.seenVars = true
			return ".varsFreshCopyIfNonNil"
		}
		return cfUnknown(s)

	case *ast.DeferStmt:
		if _, ok := cfCall(s.Call, env.tl+"Cleanup", 0); ok {
			return ".deferTlCleanup"
		}
		if env.errv != "" && src(s) == "defer func() { if r := recover(); r != nil { switch r := r.(type) { case error: "+env.errv+
			" = r case string: "+env.errv+" = errors.New(r) default: panic(r) } } }()" {
			return ".deferRecoverToError"
		}
		if body, ok := cfThunk(s.Call); ok && len(body.List) == 1 && env.save != "" {
			// defer func() { threadlocal.Set(PuppetContextKey, ‹save›) }()
			if es, ok := body.List[0].(*ast.ExprStmt); ok {
				if set, ok := cfCall(es.X, env.tl+"Set", 2); ok && src(set.Args[0]) == key && cfIdent(set.Args[1], env.save) {
					return ".deferRestoreCurrent"
				}
			}
			// defer func() { ‹recv›.loader = ‹save› }()
			if lhs, rhs, ok := cfAssign1(body.List[0], token.ASSIGN); ok && env.recv != "" && src(lhs) == env.recv+".loader" && cfIdent(rhs, env.save) {
				return ".deferRestoreLoader"
			}
		}
		return cfUnknown(s)

	case *ast.GoStmt:
		if body, ok := cfThunk(s.Call); ok {
			return ".goStmt " + cfList(cfActs(env, body.List))
		}
		return cfUnknown(s)

	case *ast.ExprStmt:
		call, ok := s.X.(*ast.CallExpr)
		if !ok || call.Ellipsis != token.NoPos {
			return cfUnknown(s)
		}
		fun := src(call.Fun)
		args := call.Args
		switch {
		case fun == env.tl+"Init" && len(args) == 0:
			return ".tlInit"
		case fun == env.tl+"Set" && len(args) == 2 && src(args[0]) == key && cfIdent(args[1], env.ctx):
			return ".setCurrent"
		case env.actor != "" && fun == env.actor && len(args) == 1 && cfIdent(args[0], env.ctx):
			return ".callActor"
		case env.doer != "" && fun == env.doer && len(args) == 0:
			return ".callDoer"
		case fun == env.px+"Fork" && len(args) == 2 && cfIdent(args[1], env.actor):
			if _, ok := cfCall(args[0], env.px+"CurrentContext", 0); ok {
				return ".forkOfCurrent"
			}
		case fun == "InitializeRuntime" && len(args) == 0:
			return ".initRuntime"
		case fun == env.px+"ResolveResolvables" && len(args) == 1 && cfIdent(args[0], env.ctx):
			return ".resolveResolvables"
		case fun == env.px+"DoWithContext" && len(args) == 2 && cfIdent(args[0], env.ctx):
			if cfIdent(args[1], env.actor) {
				return ".doWithContextActor"
			}
			if x, body, ok := cfCtxLit(env, args[1]); ok {
				inner := *env
				inner.ctx = x
				return ".doWithContextRoot " + cfList(cfActs(&inner, body.List))
			}
		case env.recv != "" && fun == env.recv+".doWithRoot" && len(args) == 1:
			if x, body, ok := cfCtxLit(env, args[0]); ok {
				inner := *env
				inner.ctx = x
				return ".doWithRoot " + cfList(cfActs(&inner, body.List))
			}
		case env.recv != "" && fun == env.recv+".DoWithParent" && len(args) == 2:
			if cfIdent(args[0], env.ctx) && cfIdent(args[1], env.actor) {
				return ".doWithParentRoot"
			}
			if _, ok := cfCall(args[0], env.recv+".RootContext", 0); ok && cfIdent(args[1], env.actor) {
				return ".doWithParentOfRootContext"
			}
			// ‹recv›.DoWithParent(‹parent›, func(c px.Context) { ‹err› = ‹actor›(c) })
			if x, body, ok := cfCtxLit(env, args[1]); ok && cfIdent(args[0], env.parent) && env.errv != "" && env.actor != "" &&
				len(body.List) == 1 && src(body.List[0]) == env.errv+" = "+env.actor+"("+x+")" {
				return ".doWithParentAssignErr"
			}
		case fun == "copy" && len(args) == 2 && env.recv != "" && src(args[1]) == env.recv+".stack":
			if id, ok := args[0].(*ast.Ident); ok && env.made[id.Name] {
				env.copied[id.Name] = true
				return ""
			}
		}
		return cfUnknown(s)

	case *ast.AssignStmt:
		if lhs, rhs, ok := cfAssign1(s, token.DEFINE); ok {
			x, okx := cfNewIdent(lhs)
			if !okx {
				return cfUnknown(s)
			}
			rs := src(rhs)
			switch {
			case env.parent != "" && rs == env.parent+".Fork()":
				env.ctx = x
				return ".forkContext"
			case env.recv != "" && rs == "WithParent(context.Background(), "+env.recv+".EnvironmentLoader(), "+env.recv+".logger, topImplRegistry)":
				env.ctx = x
				return ".newRootContext"
			case env.recv != "" && env.loader != "" && rs == env.recv+".loader":
				env.save = x
				return ".saveLoader"
			case env.recv != "" && env.cloneOK != nil && rs == env.recv+".clone()":
				if ok, why := env.cloneOK(); !ok {
					return ".unknown " + leanStr(src(s)+" // "+why)
				}
				env.clone = x
				return ".cloneStruct"
			case env.recv != "" && env.made != nil:
				// s := make([]T, len(‹recv›.stack))
				if mk, ok := rhs.(*ast.CallExpr); ok && cfIdent(mk.Fun, "make") && len(mk.Args) == 2 && src(mk.Args[1]) == "len("+env.recv+".stack)" {
					if at, ok := mk.Args[0].(*ast.ArrayType); ok && at.Len == nil {
						env.made[x] = true
						return ""
					}
				}
			}
			return cfUnknown(s)
		}
		if lhs, rhs, ok := cfAssign1(s, token.ASSIGN); ok {
			ls, rs := src(lhs), src(rhs)
			switch {
			case env.recv != "" && env.loader != "" && ls == env.recv+".loader" && cfIdent(rhs, env.loader):
				return ".setLoader"
			case env.clone != "" && ls == env.clone+".loader" &&
				(rs == env.px+"NewParentedLoader("+env.clone+".loader)" || rs == env.px+"NewParentedLoader("+env.recv+".loader)"):
				return ".wrapLoader"
			case env.clone != "" && ls == env.clone+".implRegistry" &&
				(rs == "newParentedImplementationRegistry("+env.clone+".implRegistry)" || rs == "newParentedImplementationRegistry("+env.recv+".implRegistry)"):
				return ".wrapRegistry"
			case env.clone != "" && ls == env.clone+".stack":
				env.seenStack = true
				if id, ok := rhs.(*ast.Ident); ok && env.made[id.Name] && env.copied[id.Name] {
					return ".stackFreshCopy"
				}
				if rs == env.recv+".stack" || rs == env.clone+".stack" {
					return ".stackAliased"
				}
			case env.clone != "" && ls == env.clone+".vars":
				env.seenVars = true
				if rs == env.recv+".vars" || rs == env.clone+".vars" {
					return ".varsAliased"
				}
			case env.errv != "" && ls == env.errv && env.recv != "":
				if c, ok := cfCall(rhs, env.recv+".TryWithParent", 2); ok && cfIdent(c.Args[0], env.ctx) && cfIdent(c.Args[1], env.actor) {
					return ".tryWithParentRoot"
				}
			}
		}
		return cfUnknown(s)

	case *ast.ReturnStmt:
		switch len(s.Results) {
		case 0:
			if env.errv != "" {
				return ".returnNamed"
			}
		case 1:
			r := s.Results[0]
			if cfIdent(r, env.clone) {
				return ".returnClone"
			}
			if cfIdent(r, env.ctx) {
				return ".returnCtx"
			}
			if c, ok := cfCall(r, env.recv+".TryWithParent", 2); ok && env.recv != "" && cfIdent(c.Args[1], env.actor) {
				if _, ok := cfCall(c.Args[0], env.recv+".RootContext", 0); ok {
					return ".returnTryWithParentOfRootContext"
				}
			}
		}
		return cfUnknown(s)
	}
	return cfUnknown(s)
}

// threadlocal/gid.go: literal statements (and two/three statement windows) of Init, Cleanup, Set, Get.
func cfTlActs(f *ast.File, fd *ast.FuncDecl) []string {
	params := cfParams(fd)
	key, value := "", ""
	if len(params) >= 1 {
		key = params[0]
	}
	if len(params) >= 2 {
		value = params[1]
	}
	// read through ONE level of helper extraction (`ls, ok := localStorage()`, `lockedStore(gid, ls)`): inlineresults.go, inline.go
	stmts := inlineResultHelpers(f, inlineHelpers(f, fd.Body.List))
	at := func(i int) string {
		if i < len(stmts) {
			return src(stmts[i])
		}
		return ""
	}
	acts := []string{}
	for i := 0; i < len(stmts); {
		s0, s1, s2 := at(i), at(i+1), at(i+2)
		switch {
		case s0 == "tlsLock.Lock()" && s1 == "tls[gid] = ls" && s2 == "tlsLock.Unlock()":
			acts = append(acts, ".tableAssignUnderLock")
			i += 3
		case s0 == "tlsLock.Lock()" && s1 == "delete(tls, gid)" && s2 == "tlsLock.Unlock()":
			acts = append(acts, ".tableDeleteUnderLock")
			i += 3
		case s0 == "tlsLock.RLock()" && s1 == "ls, ok := tls[gid]" && s2 == "tlsLock.RUnlock()":
			acts = append(acts, ".tableLookupUnderRLock")
			i += 3
		case key != "" && s0 == "var found interface{}" && s1 == "if ok { found, ok = ls["+key+"] }":
			acts = append(acts, ".lookupKeyIfTable")
			i += 2
		case key != "" && s0 == "if !ok { return nil, false }" && s1 == "found, ok := ls["+key+"]":
			// the same lookup with the missing table answered by an early return
			acts = append(acts, ".lookupKeyIfTable")
			i += 2
		case s0 == "gid := getg()":
			acts = append(acts, ".getGid")
			i++
		case s0 == "ls := make(map[string]interface{})":
			acts = append(acts, ".makeTable")
			i++
		case strings.HasPrefix(s0, "if !ok { panic(") && strings.HasSuffix(s0, ") }") && cfIsPanicIf(stmts[i]):
			acts = append(acts, ".panicIfNoTable")
			i++
		case key != "" && value != "" && s0 == "ls["+key+"] = "+value:
			acts = append(acts, ".storeKey")
			i++
		case s0 == "return found, ok":
			acts = append(acts, ".returnFound")
			i++
		default:
			acts = append(acts, cfUnknown(stmts[i]))
			i++
		}
	}
	return acts
}

// `if !ok { panic(x) }` with nothing else in it
func cfIsPanicIf(s ast.Stmt) bool {
	is, ok := s.(*ast.IfStmt)
	if !ok || is.Init != nil || is.Else != nil || len(is.Body.List) != 1 {
		return false
	}
	es, ok := is.Body.List[0].(*ast.ExprStmt)
	if !ok {
		return false
	}
	c, ok := es.X.(*ast.CallExpr)
	return ok && cfIdent(c.Fun, "panic") && len(c.Args) == 1
}

// --- declarations -------------------------------------------------------------------------------------

func cfParse(rel string) (f *ast.File, err error) {
	return parser.ParseFile(fset, filepath.Join(*repo, rel), nil, parser.ParseComments)
}

// cfFunc is findFunc without the panic.
func cfFunc(f *ast.File, recv, name string) *ast.FuncDecl {
	for _, d := range f.Decls {
		fd, ok := d.(*ast.FuncDecl)
		if !ok || fd.Name.Name != name || fd.Body == nil {
			continue
		}
		if recv == "" {
			if fd.Recv == nil {
				return fd
			}
			continue
		}
		if fd.Recv == nil || len(fd.Recv.List) != 1 {
			continue
		}
		t := fd.Recv.List[0].Type
		if st, ok := t.(*ast.StarExpr); ok {
			t = st.X
		}
		if id, ok := t.(*ast.Ident); ok && id.Name == recv {
			return fd
		}
	}
	return nil
}

func cfParams(fd *ast.FuncDecl) []string {
	var ns []string
	if fd.Type.Params == nil {
		return ns
	}
	for _, p := range fd.Type.Params.List {
		if len(p.Names) == 0 {
			ns = append(ns, "")
		}
		for _, n := range p.Names {
			if n.Name == "_" {
				ns = append(ns, "")
			} else {
				ns = append(ns, n.Name)
			}
		}
	}
	return ns
}

func cfRecvName(fd *ast.FuncDecl) string {
	if fd.Recv == nil || len(fd.Recv.List) != 1 || len(fd.Recv.List[0].Names) != 1 || fd.Recv.List[0].Names[0].Name == "_" {
		return ""
	}
	return fd.Recv.List[0].Names[0].Name
}

// the single named result, "" otherwise
func cfNamedResult(fd *ast.FuncDecl) string {
	r := fd.Type.Results
	if r == nil || len(r.List) != 1 || len(r.List[0].Names) != 1 {
		return ""
	}
	return r.List[0].Names[0].Name
}

// cfQualifier: how the file refers to the package with the given import path ("pkg."), "" + false when not imported.
func cfQualifier(f *ast.File, path string) (string, bool) {
	for _, im := range f.Imports {
		p, err := strconv.Unquote(im.Path.Value)
		if err != nil || p != path {
			continue
		}
		if im.Name != nil {
			if im.Name.Name == "." {
				return "", true
			}
			if im.Name.Name == "_" {
				return "", false
			}
			return im.Name.Name + ".", true
		}
		return path[strings.LastIndex(path, "/")+1:] + ".", true
	}
	return "", false
}

type cfFile struct {
	f   *ast.File
	err string
	tl  string
	px  string
}

func cfOpen(rel string, inPx bool) *cfFile {
	f, err := cfParse(rel)
	if err != nil || f == nil {
		return &cfFile{err: "cannot parse " + rel}
	}
	c := &cfFile{f: f}
	if q, ok := cfQualifier(f, cfThreadlocalPath); ok {
		c.tl = q
	} else {
		c.tl = "threadlocal‹not imported›."
	}
	if !inPx {
		if q, ok := cfQualifier(f, cfPxPath); ok {
			c.px = q
		} else {
			c.px = "px‹not imported›."
		}
	}
	return c
}

// field describes one function: setup fills the environment from the declaration (false = unexpected signature).
func (c *cfFile) field(recv, name string, nparams int, setup func(env *cfEnv, fd *ast.FuncDecl, params []string) ([]ast.Stmt, []string, bool)) (res string) {
	defer func() {
		if e := recover(); e != nil {
			res = "[.unknown " + leanStr(fmt.Sprintf("extractor: %v", e)) + "]"
		}
	}()
	if c.err != "" {
		return "[.unknown " + leanStr(c.err) + "]"
	}
	fd := cfFunc(c.f, recv, name)
	if fd == nil {
		return "[.absent]"
	}
	params := cfParams(fd)
	env := &cfEnv{tl: c.tl, px: c.px, recv: cfRecvName(fd)}
	if len(params) != nparams || (recv != "" && env.recv == "") {
		return "[.unknown " + leanStr("signature: "+src(fd.Type)) + "]"
	}
	for _, p := range params {
		if p == "" {
			return "[.unknown " + leanStr("signature: "+src(fd.Type)) + "]"
		}
	}
	stmts, prefix, ok := setup(env, fd, params)
	if !ok {
		return "[" + cfUnknown(fd.Body) + "]"
	}
	acts := append(prefix, cfActs(env, stmts)...)
	if env.clone != "" {
		// `*clone = *c` aliases whatever is not assigned afterwards
		var implied []string
		if !env.seenStack {
			implied = append(implied, ".stackAliased")
		}
		if !env.seenVars {
			implied = append(implied, ".varsAliased")
		}
		if len(implied) > 0 {
			var out []string
			for _, a := range acts {
				out = append(out, a)
				if a == ".cloneStruct" {
					out = append(out, implied...)
				}
			}
			acts = out
		}
	}
	return cfList(acts)
}

func cfWhole(fill func(env *cfEnv, fd *ast.FuncDecl, p []string)) func(*cfEnv, *ast.FuncDecl, []string) ([]ast.Stmt, []string, bool) {
	return func(env *cfEnv, fd *ast.FuncDecl, p []string) ([]ast.Stmt, []string, bool) {
		fill(env, fd, p)
		return fd.Body.List, nil, true
	}
}

func (c *cfFile) tlField(name string) (res string) {
	defer func() {
		if e := recover(); e != nil {
			res = "[.unknown " + leanStr(fmt.Sprintf("extractor: %v", e)) + "]"
		}
	}()
	if c.err != "" {
		return "[.unknown " + leanStr(c.err) + "]"
	}
	fd := cfFunc(c.f, "", name)
	if fd == nil {
		return "[.absent]"
	}
	return cfList(cfTlActs(c.f, fd))
}

func genCtxFacts() string {
	const pxFile, ctxFile, rtFile, tlFile = "px/context.go", "internal/context.go", "internal/runtime.go", "threadlocal/gid.go"
	pxF := cfOpen(pxFile, true)
	ctxF := cfOpen(ctxFile, false)
	rtF := cfOpen(rtFile, false)
	tlF := cfOpen(tlFile, false)

	// (*pxContext).clone must be: clone := &pxContext{}; *clone = *c; clone.Context = c; return clone
	cloneOK := func() (bool, string) {
		fd := cfFunc(ctxF.f, "pxContext", "clone")
		if fd == nil {
			return false, "clone: absent"
		}
		r := cfRecvName(fd)
		want := []string{"clone := &pxContext{}", "*clone = *" + r, "clone.Context = " + r, "return clone"}
		if r == "" || r == "clone" || len(cfParams(fd)) != 0 || len(fd.Body.List) != len(want) {
			return false, "clone: " + src(fd.Body)
		}
		for i, w := range want {
			if src(fd.Body.List[i]) != w {
				return false, "clone: " + src(fd.Body)
			}
		}
		return true, ""
	}

	type row struct{ name, val string }
	rows := []row{
		{"doWithContext", pxF.field("", "DoWithContext", 2, cfWhole(func(env *cfEnv, fd *ast.FuncDecl, p []string) {
			env.ctx, env.actor = p[0], p[1]
		}))},
		{"fork", pxF.field("", "Fork", 2, cfWhole(func(env *cfEnv, fd *ast.FuncDecl, p []string) {
			env.parent, env.actor = p[0], p[1]
		}))},
		{"goFn", pxF.field("", "Go", 1, cfWhole(func(env *cfEnv, fd *ast.FuncDecl, p []string) {
			env.actor = p[0]
		}))},
		{"ctxFork", ctxF.field("pxContext", "Fork", 0, cfWhole(func(env *cfEnv, fd *ast.FuncDecl, p []string) {
			env.made, env.copied, env.cloneOK = map[string]bool{}, map[string]bool{}, cloneOK
		}))},
		{"doWithLoader", ctxF.field("pxContext", "DoWithLoader", 2, cfWhole(func(env *cfEnv, fd *ast.FuncDecl, p []string) {
			env.loader, env.doer = p[0], p[1]
		}))},
		{"rtDo", rtF.field("rt", "Do", 1, cfWhole(func(env *cfEnv, fd *ast.FuncDecl, p []string) {
			env.actor = p[0]
		}))},
		{"rtDoWithRoot", rtF.field("rt", "doWithRoot", 1, cfWhole(func(env *cfEnv, fd *ast.FuncDecl, p []string) {
			env.actor = p[0]
		}))},
		{"rtTry", rtF.field("rt", "Try", 1, cfWhole(func(env *cfEnv, fd *ast.FuncDecl, p []string) {
			env.actor, env.errv = p[0], cfNamedResult(fd)
		}))},
		{"rtTryWithParent", rtF.field("rt", "TryWithParent", 2, cfWhole(func(env *cfEnv, fd *ast.FuncDecl, p []string) {
			env.parent, env.actor, env.errv = p[0], p[1], cfNamedResult(fd)
		}))},
		// InitializeRuntime(); if ec, ok := parentCtx.(px.Context); ok { THIS } else { … }
		// or, the same branch written with an early return:  …; if ec, ok := …; ok { THIS; return }; …
		{"rtDoWithParentCtx", rtF.field("rt", "DoWithParent", 2, func(env *cfEnv, fd *ast.FuncDecl, p []string) ([]ast.Stmt, []string, bool) {
			l := fd.Body.List
			if len(l) < 2 || cfAct(env, l[0]) != ".initRuntime" {
				return nil, nil, false
			}
			is, ok := l[1].(*ast.IfStmt)
			if !ok {
				return nil, nil, false
			}
			then := is.Body.List
			if is.Else == nil {
				// early-return form: the branch must end with a bare `return` and something must follow the `if`
				if len(l) < 3 || len(then) == 0 {
					return nil, nil, false
				}
				rs, isRet := then[len(then)-1].(*ast.ReturnStmt)
				if !isRet || len(rs.Results) != 0 {
					return nil, nil, false
				}
				then = then[:len(then)-1]
			} else if len(l) != 2 {
				return nil, nil, false
			}
			a, ok := is.Init.(*ast.AssignStmt)
			if !ok || a.Tok != token.DEFINE || len(a.Lhs) != 2 || len(a.Rhs) != 1 {
				return nil, nil, false
			}
			ec, ok1 := cfNewIdent(a.Lhs[0])
			okv, ok2 := cfNewIdent(a.Lhs[1])
			if !ok1 || !ok2 || src(a.Rhs[0]) != p[0]+".("+env.px+"Context)" || !cfIdent(is.Cond, okv) {
				return nil, nil, false
			}
			env.parent, env.actor = ec, p[1]
			return then, []string{".initRuntime"}, true
		})},
		{"rtRootContext", rtF.field("rt", "RootContext", 0, cfWhole(func(env *cfEnv, fd *ast.FuncDecl, p []string) {}))},
		{"tlInit", tlF.tlField("Init")},
		{"tlCleanup", tlF.tlField("Cleanup")},
		{"tlSet", tlF.tlField("Set")},
		{"tlGet", tlF.tlField("Get")},
	}

	var b strings.Builder
	b.WriteString(header("ctxfacts", strings.Join([]string{pxFile, ctxFile, rtFile, tlFile}, ", ")))
	b.WriteString("import Pcore.Model.CtxFacts\nnamespace Pcore.Generated\nopen Pcore.CtxFacts\n\n")
	b.WriteString("def ctxFacts : Facts where\n")
	for _, r := range rows {
		fmt.Fprintf(&b, "  %s := %s\n", r.name, r.val)
	}
	b.WriteString("\nend Pcore.Generated\n")
	return b.String()
}
