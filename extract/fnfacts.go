package main

import (
	"fmt"
	"go/ast"
	"go/token"
	"strings"
)

// Family "fnfacts" (property C16): the state of the resolved function object `goFunction` (internal/function.go) — its
// struct fields — and every place where a method of `*goFunction` could change it: an assignment / inc-dec whose target is
// a field of the receiver (`f.x = …`, `f.x[i] = …`, `f.x++`) and every address taken of a receiver field (`&f.x`, which is
// how sync/atomic writes).  What the facts have to satisfy (`FnStateless`: the fields are `name` and `dispatchers`, nothing
// writes them) lives in hand-written Lean; it is what makes "a sequence of calls is the single-call semantics applied call
// by call" (C16_call_stateless) a statement about the code.

func init() { register("fnfacts", "FnFacts", genFnFacts) }

func genFnFacts() string {
	rel := "internal/function.go"
	f := parseFile(rel)
	var b strings.Builder
	b.WriteString(header("fnfacts", rel))
	b.WriteString("import Pcore.Model.Dispatch\nnamespace Pcore.Generated\nopen Pcore.Dispatch\n\n")
	fields := structFields(f, "goFunction")
	if len(fields) == 0 {
		panic("struct goFunction not found")
	}
	fs := make([]string, len(fields))
	for i, x := range fields {
		fs[i] = leanStr(x)
	}
	var rows []string
	methods := 0
	for _, d := range f.Decls {
		fd, ok := d.(*ast.FuncDecl)
		if !ok || fd.Recv == nil || len(fd.Recv.List) != 1 || fd.Body == nil {
			continue
		}
		st, ok := fd.Recv.List[0].Type.(*ast.StarExpr)
		if !ok {
			continue
		}
		id, ok := st.X.(*ast.Ident)
		if !ok || id.Name != "goFunction" {
			continue
		}
		methods++
		if len(fd.Recv.List[0].Names) == 0 {
			continue
		}
		recv := fd.Recv.List[0].Names[0].Name
		// does the expression denote (a part of) a field of the receiver?
		var onRecv func(e ast.Expr) bool
		onRecv = func(e ast.Expr) bool {
			switch e := e.(type) {
			case *ast.SelectorExpr:
				if x, ok := e.X.(*ast.Ident); ok && x.Name == recv {
					return true
				}
				return onRecv(e.X)
			case *ast.IndexExpr:
				return onRecv(e.X)
			case *ast.StarExpr:
				return onRecv(e.X)
			case *ast.ParenExpr:
				return onRecv(e.X)
			case *ast.Ident:
				return false
			}
			return false
		}
		add := func(kind string, n ast.Node) {
			rows = append(rows, fmt.Sprintf("(%s, %s, %s)", leanStr(fd.Name.Name), leanStr(kind), leanStr(src(n))))
		}
		ast.Inspect(fd.Body, func(n ast.Node) bool {
			switch n := n.(type) {
			case *ast.AssignStmt:
				for _, l := range n.Lhs {
					if onRecv(l) || (func() bool { x, ok := l.(*ast.Ident); return ok && x.Name == recv && n.Tok != token.DEFINE })() {
						add("assign", n)
					}
				}
			case *ast.IncDecStmt:
				if onRecv(n.X) {
					add("incdec", n)
				}
			case *ast.UnaryExpr:
				if n.Op == token.AND && onRecv(n.X) {
					add("addr", n)
				}
			}
			return true
		})
	}
	if methods == 0 {
		panic("no method of *goFunction found")
	}
	b.WriteString("def fnFacts : FnFacts where\n")
	b.WriteString("  fields := [" + strings.Join(fs, ", ") + "]\n")
	b.WriteString("  writes := [" + strings.Join(rows, ",\n    ") + "]\n")
	b.WriteString("\nend Pcore.Generated\n")
	return b.String()
}
