#!/usr/bin/env python3
"""Regenerates MANIFEST.json from props.json (claimed properties) and properties.jsonl (all ids)."""
import json, os
ROOT = os.path.dirname(os.path.abspath(__file__))
import glob
props = {os.path.basename(p)[:-5]: json.load(open(p)) for p in glob.glob(os.path.join(ROOT, 'props', 'C*.json'))}
allids = [json.loads(l)['id'] for l in open(os.path.join(ROOT, 'properties.jsonl'))]
na = json.load(open(os.path.join(ROOT, 'not_applicable.json')))
def hook_commits():
    import subprocess
    out = subprocess.run(['git', '-C', '/repo', 'log', '--format=%H %s'], capture_output=True, text=True).stdout
    return [l.split()[0] for l in out.split('\n') if l[41:].startswith('verif hook:')][::-1]


checks = []
for pid in allids:
    if pid not in props:
        continue
    c = props[pid]
    checks.append({
        'property_id': pid,
        'quick_cmd': './check %s --tier quick' % pid,
        'thorough_cmd': './check %s --tier thorough' % pid,
        'evidence_file': '/verif/evidence/%s.json' % pid,
        'replay_cmd_template': './check %s --replay {path}' % pid,
        'engine': 'lean4-proof+correspondence',
        'level_claimed': {'category': 'proof', 'text': c['level_text'], 'design_ref': c.get('design_ref', 'DESIGN.md §4 ' + pid)},
        'level_note': c['level_note'],
        'technique': c['technique'],
    })
m = {
    'version': 1,
    'setup_cmd': 'cd /verif && ./check --setup',
    'hooks': {
        'guard': 'verif',
        'enable': 'go build -tags verif (the harness module /verif/harness replaces github.com/lyraproj/pcore with /repo)',
        'baseline_off_cmd': "cd /repo && GOFLAGS=-mod=mod go test -vet=off -count=1 ./...",
        'source_commits': hook_commits(),
        'add_only': True,
    },
    'engines': [{
        'name': 'lean4-proof+correspondence', 'path': '/verif/check',
        'serves_properties': [c['property_id'] for c in checks],
        'kind_free_text': 'Lean 4 theorems about executable models (lean/Pcore), tied to /repo on every run by (1) a go/ast fact extractor regenerating lean/Pcore/Generated and (2) differential execution of the compiled model driver against the real code through the Go harness, which also evaluates each property predicate directly on the implementation',
    }],
    'checks': checks,
    'not_applicable': [{'property_id': p, 'reason': na[p]} for p in allids if p not in props],
    'notes': 'See DESIGN.md. Known findings: known_findings.json. Exit 2 from ./check means the machinery itself is broken (never a pass).',
}
json.dump(m, open(os.path.join(ROOT, 'MANIFEST.json'), 'w'), indent=1)
print('claimed', len(checks), 'not claimed', len(m['not_applicable']))
