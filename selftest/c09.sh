#!/bin/sh
# Self-test of the C09 check (DESIGN.md Appendix E, row C09): every mutant must yield `VIOLATION … replay=<concrete
# failing history>` (exit 1), the harmless rewrites must stay green (exit 0).  Works on a scratch worktree of /repo
# (removed afterwards); never touches /repo's working tree.   usage: selftest/c09.sh [name…]
set -u
here=$(cd "$(dirname "$0")/.." && pwd)
export GOFLAGS=-mod=mod GOPROXY=off GOSUMDB=off GOTOOLCHAIN=local
W=/tmp/selftest-c09.$$
rc=0

edit() { # file, python expression transforming the source text `s`
  python3 - "$W/$1" "$2" <<'PY'
import sys
p, expr = sys.argv[1], sys.argv[2]
s = open(p).read()
t = eval(expr)
assert t != s, 'mutation did not apply: ' + expr[:80]
open(p, 'w').write(t)
PY
}

run() { # name, expected exit status, expected pattern in the output
  name=$1; want=$2; pat=$3
  out=$(cd "$here" && VERIF_REPO=$W ./check C09 2>&1); got=$?
  if [ "$got" = "$want" ] && echo "$out" | grep -q "$pat"; then
    echo "ok    $name (exit $got)"
  else
    echo "FAIL  $name: exit $got, wanted $want and /$pat/"; echo "$out" | tail -5 | cut -c1-200; rc=1
  fi
  (cd "$W" && git checkout -q -- . && git clean -fdq)
}

git -C /repo worktree add -q --detach "$W" HEAD || exit 2
# the last run of ./check rewrites Generated/* and evidence from the scratch tree: restore them from /repo at the end
trap 'git -C /repo worktree remove --force "$W"; cd "$here" && ./check C09 >/dev/null 2>&1' EXIT
concrete='VIOLATION property=C09 replay=[^ ]*$'
want=${*:-renum merge-append deleteall-first put-noguard putall-stale miss-order seed1 seed2 loop-index presize base}
for m in $want; do
case $m in
renum)  # stringHash.Delete: v - 1 -> p - 1 (the defect fixed by c7ffca4)
  edit hash/stringhash.go "s.replace('index[k] = v - 1', 'index[k] = p - 1')"
  run "mutant stringHash.Delete re-numbers to p-1" 1 "$concrete" ;;
merge-append)  # mergeEntries: always append
  edit types/hashtype.go "s.replace('if idx, ok := index[px.ToKey(entry.key)]; ok {', 'if idx, ok := index[px.ToKey(entry.key)]; ok && idx < 0 {')"
  run "mutant mergeEntries always appends" 1 "$concrete" ;;
deleteall-first)  # Hash.DeleteAll: delete only the first key
  edit types/hashtype.go "s.replace('if idx, ok := valueIndex[px.ToKey(key)]; ok {', 'if idx, ok := valueIndex[px.ToKey(key)]; ok && len(deleted) == 0 {')"
  run "mutant Hash.DeleteAll deletes only the first key" 1 "$concrete" ;;
put-noguard)  # stringHash.Put without its frozen test
  edit hash/stringhash.go "s.replace('''(oldValue interface{}, replaced bool) {
	if h.frozen {
		panic(frozenError{key})
	}
''', '''(oldValue interface{}, replaced bool) {
''')"
  run "mutant stringHash.Put does not test frozen" 1 "$concrete" ;;
putall-stale)  # MutableHashValue.PutAll keeps the index
  edit types/hashtype.go "s.replace('''	hv.detailedType = nil
	hv.index = nil''', '''	hv.detailedType = nil''')"
  run "mutant MutableHashValue.PutAll keeps a stale index" 1 "$concrete" ;;
miss-order)  # ComputeIfAbsent: index set after the append (one past the entry)
  edit hash/stringhash.go "s.replace('''	value := dflt()
	h.index[key] = len(h.entries)
	h.entries = append(h.entries, stringEntry{key, value})''', '''	value := dflt()
	h.entries = append(h.entries, stringEntry{key, value})
	h.index[key] = len(h.entries)''')"
  run "mutant ComputeIfAbsent indexes one past the new entry" 1 "$concrete" ;;
seed1)  # independently seeded: Copy of a frozen StringHash shares the entries
  (cd "$W" && git apply "$here/seeded/C09-s1/patch.diff" && rm -f hash/zz_demo_test.go)
  run "seeded C09-s1 (Copy shares the entries of a frozen receiver)" 1 "$concrete" ;;
seed2)  # independently seeded: mergeEntries appends into the receiver's spare capacity
  (cd "$W" && git apply "$here/seeded/C09-s2/patch.diff" && rm -f types/zz_demo_test.go)
  run "seeded C09-s2 (mergeEntries appends into the receiver's spare capacity)" 1 "$concrete" ;;
loop-index)  # harmless: iterate entries by index instead of range
  edit types/hashtype.go "s.replace('''	for idx, entry := range hv.entries {
		if !deleted[idx] {
			entries = append(entries, entry)
		}
	}''', '''	for i := 0; i < len(hv.entries); i++ {
		if !deleted[i] {
			entries = append(entries, hv.entries[i])
		}
	}''').replace('''		for idx, entry := range hv.entries {
			result[px.ToKey(entry.key)] = idx
		}''', '''		for n := 0; n < len(hv.entries); n++ {
			result[px.ToKey(hv.entries[n].key)] = n
		}''')"
  edit hash/stringhash.go "s.replace('''		ne := make([]stringEntry, len(h.entries)-1)
		for i, e := range h.entries {
			if i < p {
				ne[i] = e
			} else if i > p {
				ne[i-1] = e
			}
		}''', '''		ne := make([]stringEntry, 0, len(h.entries)-1)
		for i := 0; i < len(h.entries); i++ {
			if i != p {
				ne = append(ne, h.entries[i])
			}
		}''')"
  run "harmless: entries iterated by index instead of range" 0 '0 violation' ;;
presize)  # harmless: fresh slices pre-sized differently
  edit types/hashtype.go "s.replace('entries := make([]*HashEntry, 0, len(hv.entries)-1)', 'entries := make([]*HashEntry, 0, len(hv.entries))').replace('all := make([]*HashEntry, selfLen, selfLen+len(others))', 'all := make([]*HashEntry, selfLen, selfLen+len(others)+4)')"
  run "harmless: fresh slices pre-sized differently" 0 '0 violation' ;;
base)  # the tree with the three C09 fixes reverted (tag verif-base itself lacks the hooks other plug-ins of the harness need)
  (cd "$W" && git revert -n c7ffca4 42e8fdd b9af1f5 >/dev/null 2>&1) || { echo "FAIL  base: the fix commits do not revert cleanly"; rc=1; }
  run "fixes c7ffca4 42e8fdd b9af1f5 reverted (stringHash.Delete, Hash.Delete/DeleteAll, Merge defects)" 1 "$concrete"
  (cd "$W" && git reset -q --hard) ;;
*) echo "unknown name $m"; rc=2 ;;
esac
done
exit $rc
