#!/bin/sh
# Self-test of the C17 check (DESIGN.md Appendix E, row C17): every mutant must yield `VIOLATION … replay=<concrete
# definition>` (exit 1), the harmless rewrite must stay green (exit 0).  Works on a scratch worktree of /repo (removed
# afterwards); never touches /repo's working tree.   usage: selftest/c17.sh [mutant-name…]
set -u
here=$(cd "$(dirname "$0")/.." && pwd)
export GOFLAGS=-mod=mod GOPROXY=off GOSUMDB=off GOTOOLCHAIN=local
W=/tmp/selftest-c17.$$
rc=0

edit() { # file, python expression transforming the source text `s`
  python3 - "$W/$1" "$2" <<'PY'
import sys
p, expr = sys.argv[1], sys.argv[2]
s = open(p).read()
t = eval(expr)
assert t != s, 'mutation did not apply: ' + expr[:80]
open(p, 'w').write(t)
PY
}

run() { # name, expected exit status, expected substring of the replayed predicate classes (grep -E) or ''
  name=$1; want=$2; pat=$3
  rm -f "$here"/work/replays/C17-*.json
  out=$(cd "$here" && VERIF_REPO=$W ./check C17 2>&1); got=$?
  classes=$(cat "$here"/work/replays/C17-*.json 2>/dev/null | grep -o '"predicate": "FAIL [a-z-]*' | sed 's/.*FAIL //' | sort -u | tr '\n' ' ')
  if [ "$got" = "$want" ] && { [ -z "$pat" ] || echo "$classes" | grep -Eq "$pat"; }; then
    echo "ok    $name (exit $got; classes: $classes)"
  else
    echo "FAIL  $name: exit $got, wanted $want and classes /$pat/, got: $classes"; echo "$out" | tail -5; rc=1
  fi
  (cd "$W" && git checkout -q -- .)
}

git -C /repo worktree add -q --detach "$W" HEAD || exit 2
trap 'git -C /repo worktree remove --force "$W"; cd "$here" && ./check C17 >/dev/null 2>&1' EXIT
want=${*:-fill layout one-parent override-dup include-type by-position one-sided schema-dup schema-reorder loop-index diffs base}
for m in $want; do
case $m in
fill)  # fillValueSlice: ignore defaults
  edit types/objectvalue.go "s.replace('''				if !at.HasValue() {
					panic(px.Error(px.MissingRequiredAttribute, issue.H{\`label\`: at.Label()}))
				}
				values[ix] = at.Value()''', '''				values[ix] = undef''')"
  run "mutant fillValueSlice ignores defaults" 1 'get-wrong|pos-named-differ|inithash-roundtrip' ;;
layout)  # createAttributesInfo: optional before required
  edit types/objecttype.go "s.replace('''		attrs = append(attrs, optAttrs...)''', '''		attrs = append(optAttrs, attrs...)''')"
  run "mutant createAttributesInfo lays optional before required" 1 'new-rejected|get-wrong|fault' ;;
one-parent)  # objectType.IsAssignable: stop after one parent
  edit types/objecttype.go "s.replace('''		return t.IsAssignable(ot.parent, g)''', '''		return t.Equals(ot.parent, g)''')"
  run "mutant IsAssignable stops after one parent" 1 'subtype-not-instance' ;;
override-dup)  # back to EachAttribute(true, …): an overriding attribute laid out in addition to the overridden one
  edit types/objecttype.go "s.replace('''		atMap.EachValue(func(av interface{}) {
			attr := av.(px.Attribute)
			switch attr.Kind() {''', '''		t.EachAttribute(true, func(attr px.Attribute) {
			switch attr.Kind() {''')"
  run "mutant overriding attribute laid out twice" 1 'new-rejected|get-wrong|fault|pos-named-differ' ;;
include-type)  # undo 2607361: equality_include_type => false ignored again
  edit types/objectvalue.go "s.replace('''	if equalityIncludesType(o.typ) || equalityIncludesType(ov.typ) {''', '''	if true || equalityIncludesType(o.typ) || equalityIncludesType(ov.typ) {''')"
  run "mutant equality_include_type ignored" 1 'equality-include-type' ;;
by-position)  # cross-type comparison by position instead of by name
  edit types/objectvalue.go "s.replace('''		j, ok := oi.NameToPos()[ai.Attributes()[i].Name()]''', '''		j, ok := i, i < len(oi.Attributes())''')"
  run "mutant cross-type equality compares by position" 1 'equality-wrong|equality-include-type|fault' ;;
one-sided)  # only the receiver's type has to leave the type out (asymmetric Equals)
  edit types/objectvalue.go "s.replace('''	if equalityIncludesType(o.typ) || equalityIncludesType(ov.typ) {''', '''	if equalityIncludesType(o.typ) {''')"
  run "mutant cross-type equality looks at the receiver's flag only" 1 'equality-wrong' ;;
schema-dup)  # undo 54779d2: `equality` listed twice in TypeObjectInitHash
  edit types/objecttype.go "s.replace('''	NewStructElement(newOptionalType3(keySerialization), TypeMemberNames),''', '''	NewStructElement(newOptionalType3(keyEquality), TypeEquality),
	NewStructElement(newOptionalType3(keySerialization), TypeMemberNames),''')"
  run "mutant schema lists equality twice (broken table obligation + failing input)" 1 'schema-admitted-rejected' ;;
schema-reorder)  # harmless: members of the schema in another order
  edit types/objecttype.go "s.replace('''	NewStructElement(newOptionalType3(keyEquality), TypeEquality),
	NewStructElement(newOptionalType3(keyEqualityIncludeType), DefaultBooleanType()),''', '''	NewStructElement(newOptionalType3(keyEqualityIncludeType), DefaultBooleanType()),
	NewStructElement(newOptionalType3(keyEquality), TypeEquality),''')"
  run "harmless rewrite: schema members reordered" 0 '' ;;
loop-index)  # harmless: iterate attributes by index
  edit types/objectvalue.go "s.replace('''	for i, v := range values {
		attr := at[i]''', '''	for i := 0; i < len(values); i++ {
		v := values[i]
		attr := at[i]''').replace('''	for ix, v := range values {
		if v == nil {''', '''	for ix := 0; ix < len(values); ix++ {
		v := values[ix]
		if v == nil {''')"
  edit types/attributesinfo.go "s.replace('''	for ix, at := range attributes {
		nameToPos[at.Name()] = ix
		posToName[ix] = at.Name()
	}''', '''	for ix := 0; ix < len(attributes); ix++ {
		nameToPos[attributes[ix].Name()] = ix
		posToName[ix] = attributes[ix].Name()
	}''')"
  run "harmless rewrite: index loops" 0 '' ;;
diffs)  # the recorded patches selftest/C17/*.diff (deep chains, type-level InitHash): every one must be reported
  for d in "$here"/selftest/C17/*.diff; do
    (cd "$W" && git apply "$d") || { echo "FAIL  $d does not apply"; rc=1; continue; }
    case $(basename "$d" .diff) in
      attr-inithash-drops-any-undef|type-inithash-drops-include-type) pat='reinit-differs' ;;
      isassignable-two-levels) pat='subtype-not-instance' ;;
      equality-attributes-one-level-up) pat='equality-wrong|equality-include-type' ;;
      sweep-collectfunctions-no-parent) pat='ifacex-instance' ;;
      sweep-function-assertoverride-deleted) pat='fnover-accepted' ;;
      sweep-objectid-constant) pat='type-hash-key' ;;
      tparam-positional-skips-valuehash) pat='pos-named-differ|tparam-pos-named' ;;
      tparam-extension-equals-ignores-bindings) pat='equality-wrong' ;;
      tparam-binds-on-empty-values) pat='equality-wrong|pos-named-differ' ;;
      implements-ignores-function-type|implements-accepts-attribute-member) pat='ifacex-instance' ;;
      # the repaired findings, un-repaired (the reverse of the fix commit): the pre-fix tree is reported
      prefix-86875be-constant-undef) pat='reinit-differs' ;;
      prefix-8e14ef3-typedname-authority) pat='fault' ;;
      prefix-de95e71-tparam-undef) pat='pos-named-differ|tparam-pos-named|inithash-roundtrip' ;;
      prefix-fa7b8e6-deferred-arguments) pat='goobj-new-rejected|goobj-get|fault' ;;
      *) pat='' ;;
    esac
    run "mutant $(basename "$d" .diff)" 1 "$pat"
  done ;;
base)
  run "unchanged tree" 0 '' ;;
esac
done
exit $rc
