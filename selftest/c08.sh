#!/bin/sh
# Self-test of the C08 check (DESIGN.md Appendix E, row C08): every mutant must yield `VIOLATION … replay=<concrete
# failing history>` (exit 1), the harmless rewrites must stay green (exit 0).  Works on scratch worktrees of /repo
# (removed afterwards); never touches /repo's working tree.   usage: selftest/c08.sh [mutant-name…]
set -u
here=$(cd "$(dirname "$0")/.." && pwd)
export GOFLAGS=-mod=mod GOPROXY=off GOSUMDB=off GOTOOLCHAIN=local
W=/tmp/selftest-c08.$$
rc=0

edit() { # file, python expression transforming the source text `s`
  python3 - "$W/$1" "$2" <<'PY'
import sys
p, expr = sys.argv[1], sys.argv[2]
s = open(p).read()
t = eval(expr)
assert t != s, 'mutation did not apply: ' + expr[:80]
open(p, 'w').write(t)
PY
}

run() { # name, expected exit status, expected substring of the output
  name=$1; want=$2; pat=$3
  out=$(cd "$here" && VERIF_REPO=$W ./check C08 2>&1); got=$?
  if [ "$got" = "$want" ] && echo "$out" | grep -q "$pat"; then
    echo "ok    $name (exit $got)"
  else
    echo "FAIL  $name: exit $got, wanted $want and /$pat/"; echo "$out" | tail -5; rc=1
  fi
  (cd "$W" && git checkout -q -- .)
}

git -C /repo worktree add -q --detach "$W" HEAD || exit 2
trap 'git -C /repo worktree remove --force "$W"; cd "$here" && ./check C08 >/dev/null 2>&1' EXIT
want=${*:-add delete sort map-inplace cache-index cache-type collector presize loop-index base patches}
for m in $want; do
case $m in
add)  # Array.Add: back to append(av.elements, ov)
  edit types/arraytype.go "s.replace('''	el := make([]px.Value, len(av.elements)+1)
	copy(el, av.elements)
	el[len(av.elements)] = ov
	return WrapValues(el)''', '''	return WrapValues(append(av.elements, ov))''')"
  run "mutant Array.Add appends to the receiver" 1 'VIOLATION property=C08 replay=[^ ]*$' ;;
delete)  # Hash.Delete: back to the in-place append
  edit types/hashtype.go "s.replace('''		entries := make([]*HashEntry, 0, len(hv.entries)-1)
		entries = append(entries, hv.entries[:idx]...)
		return WrapHash(append(entries, hv.entries[idx+1:]...))''', '''		return WrapHash(append(hv.entries[:idx], hv.entries[idx+1:]...))''')"
  run "mutant Hash.Delete shifts in place" 1 'VIOLATION property=C08 replay=[^ ]*$' ;;
sort)  # Array.Sort: sort av.elements directly
  edit types/arraytype.go "s.replace('''	s := &arraySorter{make([]px.Value, len(av.elements)), comparator}
	copy(s.values, av.elements)''', '''	s := &arraySorter{av.elements, comparator}''')"
  run "mutant Array.Sort sorts the receiver's slice" 1 'VIOLATION property=C08 replay=[^ ]*$' ;;
map-inplace)  # Array.Map writes the mapped values into the receiver
  edit types/arraytype.go "s.replace('''	return WrapValues(px.Map(av.elements, mapper))''', '''	for i, e := range av.elements {
		av.elements[i] = mapper(e)
	}
	return av''')"
  run "mutant Array.Map maps in place" 1 'VIOLATION property=C08 replay=[^ ]*$' ;;
cache-index)  # MutableHashValue.PutAll no longer resets the key index
  edit types/hashtype.go "s.replace('''	hv.detailedType = nil
	hv.index = nil
''', '''	hv.detailedType = nil
''')"
  run "mutant PutAll keeps the stale key index" 1 'VIOLATION property=C08 replay=[^ ]*$' ;;
cache-type)  # … nor the inferred type (the defect fixed by 01dc3ec)
  edit types/hashtype.go "s.replace('''	hv.reducedType = nil
	hv.detailedType = nil
''', '''	hv.detailedType = nil
''')"
  run "mutant PutAll keeps the stale inferred type" 1 'VIOLATION property=C08 replay=[^ ]*$' ;;
collector)  # a rewrite of the collector's hash callback that the extractor does not recognise: broken obligation
  edit types/basiccollector.go "s.replace('''			entries = append(entries, WrapHashEntry(st[i], st[i+1]))
		}
		return entries''', '''			entries = append(entries, WrapHashEntry(st[i], st[i+1]))
		}
		entries = entries[:len(entries):len(entries)]
		return entries''')"
  run "rewrite of the collector's hash callback (extractor: unknown)" 1 'VIOLATION property=C08' ;;
presize)  # harmless: pre-size fresh slices differently
  edit types/arraytype.go "s.replace('''	el := make([]px.Value, len(av.elements)+1)
	copy(el, av.elements)
	el[len(av.elements)] = ov''', '''	n := len(av.elements)
	el := make([]px.Value, n, n+8)
	copy(el, av.elements)
	el = append(el, ov)''')"
  edit px/collection.go "s.replace('make([]Value, 0, 8)', 'make([]Value, 0, len(elements))')"
  edit types/hashtype.go "s.replace('entries := make([]*HashEntry, 0, len(hv.entries)-1)', 'entries := make([]*HashEntry, 0, len(hv.entries))')"
  run "harmless: fresh slices pre-sized differently" 0 '0 violation' ;;
loop-index)  # harmless: AddAll filled by append instead of index assignment
  edit types/arraytype.go "s.replace('''	el := make([]px.Value, sLen)
	copy(el, av.elements)
	for idx := aLen; idx < sLen; idx++ {
		el[idx] = ov.At(idx - aLen)
	}''', '''	el := make([]px.Value, aLen, sLen)
	copy(el, av.elements)
	for idx := aLen; idx < sLen; idx++ {
		el = append(el, ov.At(idx-aLen))
	}''')"
  run "harmless: AddAll appends to its own fresh slice" 0 '0 violation' ;;
base)  # the original tree
  git -C "$W" rev-parse -q --verify verif-base >/dev/null || { echo "skip  base: tag verif-base is not present in /repo"; continue; }
  git -C "$W" checkout -q verif-base
  run "tag verif-base (Array.Add/AddAll, Hash.Delete/DeleteAll defects)" 1 'VIOLATION property=C08 replay=[^ ]*$'
  git -C "$W" checkout -q --detach "$(git -C /repo rev-parse HEAD)" ;;
patches)  # the stored patches selftest/C08/*.diff: `harmless-*` must stay green, every other one must be reported
  for p in "$here"/selftest/C08/*.diff; do
    n=$(basename "$p" .diff)
    (cd "$W" && git apply "$p") || { echo "FAIL  $n: patch does not apply"; rc=1; continue; }
    case $n in
    harmless-*) run "harmless: $n" 0 '0 violation' ;;
    *) run "mutant $n" 1 'VIOLATION property=C08 replay=[^ ]*$' ;;
    esac
  done ;;
*) echo "unknown mutant $m"; rc=2 ;;
esac
done
exit $rc
