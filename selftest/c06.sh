#!/bin/sh
# Self-test of the C06 check: every mutant in selftest/C06/*.diff must be reported (exit 1, a VIOLATION line).  Each patch is
# applied to a scratch worktree of /repo HEAD by tools/trymut (removed afterwards); /repo itself is never touched.
#   usage: selftest/c06.sh [mutant-name…]        (default: all)
set -u
here=$(cd "$(dirname "$0")/.." && pwd)
export GOFLAGS=-mod=mod GOPROXY=off GOSUMDB=off GOTOOLCHAIN=local
rc=0
names=${*:-$(ls "$here"/selftest/C06/*.diff | xargs -n1 basename | sed 's/\.diff$//')}
for m in $names; do
  out=$(cd "$here" && tools/trymut C06 selftest/C06/$m.diff 2>&1); got=$?
  n=$(echo "$out" | grep -c '^VIOLATION')
  if [ "$got" = 1 ] && [ "$n" -gt 0 ]; then echo "ok    $m ($n violation line(s))"; else echo "FAIL  $m: exit $got"; echo "$out" | tail -3; rc=1; fi
done
exit $rc
