#!/bin/sh
# Self-test of the C11 check: every selftest/C11/mut-*.diff must yield a VIOLATION (exit 1), every
# selftest/C11/harmless-*.diff (a change of behaviour the property does not speak about: another de-duplication
# threshold of the JSON streamer, a protobuf consumer that asks for Binary as rich data) must stay green (exit 0).
# Each runs in a scratch worktree of /repo (tools/trymut).   usage: selftest/C11/run.sh [name…]
set -u
here=$(cd "$(dirname "$0")/../.." && pwd)
export GOFLAGS=-mod=mod GOPROXY=off GOSUMDB=off GOTOOLCHAIN=local
rc=0
for f in "$here"/selftest/C11/*.diff; do
  name=$(basename "$f" .diff)
  if [ $# -gt 0 ] && ! echo " $* " | grep -q " $name "; then continue; fi
  case $name in mut-*) want=1;; *) want=0;; esac
  out=$("$here"/tools/trymut C11 "$f" 2>&1); got=$?
  if [ "$got" = "$want" ]; then echo "ok    $name (exit $got)"; else echo "FAIL  $name: exit $got, wanted $want"; echo "$out" | tail -5; rc=1; fi
done
exit $rc
