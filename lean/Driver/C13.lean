import Driver.Sexp
import Driver.C12
import Pcore.Model.LoaderConc
import Pcore.Model.Lockset
import Pcore.Generated.Locksets
import Pcore.Model.LazyCache
import Pcore.Generated.CacheSites
import Pcore.Model.InstantiateOnce
import Driver.QueueC13
/-! Driver op for C13: `sched (tree NODE*) (threads (th STEP*)…) (sched T*)` — syntax and output in harness/c13/c13.go. -/
namespace C13
open Sx Pcore.LoaderSeq Pcore.LoaderConc

def threadOf (nl : Nat) : Sexp → Option (List Op)
  | .list (.atom "th" :: steps) => steps.mapM (C12.stepOf nl)
  | _ => none

def logsStr (ths : List Thread) : String :=
  let rec go (i : Nat) : List Thread → List String
    | [] => []
    | t :: r => s!"{i}:[{" ; ".intercalate (t.log.map fun e => C12.ansStr e.1)}]" :: go (i + 1) r
  " ".intercalate (go 0 ths)

def accStr (a : Pcore.Lockset.Access) : String :=
  let hs := a.held.map fun (m, md) => m ++ (match md with | .r => ":r" | .w => ":w")
  s!"{a.fn} {if a.write then "writes" else "reads"} {a.field} holding [{" ".intercalate hs}]"

/-- `lockrace`: `none` when the regenerated lock-set table satisfies the discipline, otherwise the offending access
    site and a conflicting one (the implementation side always answers `none`) -/
def lockrace : String :=
  let show1 : Option (Pcore.Lockset.Access × Option Pcore.Lockset.Access) → String
    | none => "none"
    | some (a, none) => "undisciplined: " ++ accStr a
    | some (a, some b) => "race: " ++ accStr a ++ " || " ++ accStr b ++
        " (the table row is the witness: an access outside its lock has no instrumented line in its window, so there is no schedule to replay)"
  match Pcore.Lockset.raceWitness Pcore.Generated.locksets with
  | some w => show1 (some w)
  | none =>
    -- the runtime's loaders and settings (rt.lock), without the recorded unlocked read of rt.SystemLoader
    show1 (Pcore.Lockset.raceWitness (Pcore.Lockset.withoutKnown Pcore.Lockset.knownUnlockedReads Pcore.Generated.rtLocksets))

/-! `cache (val VAL) (threads (th OP*)…) (sched T*)` — harness/c13/cache.go -/
open Pcore.LazyCache in
def scalarOK : Sexp → Bool
  | .list [.atom "i", n] => n.int?.isSome
  | .list [.atom "s", x] => x.bytes?.isSome
  | _ => false

/-- `(y)`: a slow element of an Array (its own PType() is a yield point) -/
def isSlow : Sexp → Bool
  | .list [.atom "y"] => true
  | _ => false

open Pcore.LazyCache in
/-- kind, size and number of slow elements of the shared value; `none` = malformed (as the harness decides) -/
def valOf : Sexp → Option (Kind × Nat × Nat)
  | .list (.atom "a" :: es) => if es.all (fun e => scalarOK e || isSlow e) then some (.arr, es.length, (es.filter isSlow).length) else none
  | .list (.atom "h" :: kvs) => do
    let ks ← kvs.mapM fun kv => match kv with
      | .list [k, v] => if scalarOK k && scalarOK v && toString k != "(s x)" then some k else none
      | _ => none
    let texts := ks.map toString
    if texts.eraseDups.length != texts.length then none
    else
      let mixed := ks.any fun k => match k with | .list (.atom "i" :: _) => true | _ => false
      some (if mixed then .hshMixed else .hshStr, ks.length, 0)
  | _ => none

open Pcore.LazyCache in
def copOf : Sexp → Option COp
  | .atom "ptype" => some .ptype
  | .atom "dtype" => some .dtype
  | .atom "str" => some .str
  | .atom "hkey" => some .pure
  | .atom "eq" => some .pure
  | .atom "inst" => some .pure
  | _ => none

open Pcore.LazyCache in
def obsStr : Obs → String
  | .full => "full" | .half => "half" | .fault => "fault" | .narrow => "narrow"

open Pcore.LazyCache in
def cacheExec (v : Sexp) (ths sch : List Sexp) : String :=
  match valOf v, ths.mapM (fun t => match t with
      | .list (.atom "th" :: ops) => ops.mapM copOf
      | _ => none), sch.mapM Sexp.nat? with
  | some (kind, size, slow), some (p :: progs), some sched =>
    -- a value with slow elements is only asked for its types (the other reads would need an equal fresh value)
    if slow > 0 && (p :: progs).any (·.any (· == COp.pure)) then "bad-op" else
    let c := execute (Cfg.ofTables Pcore.Generated.cacheSites Pcore.Generated.cacheWrites) kind size (p :: progs) sched slow
    let rec go (i : Nat) : List Pcore.LazyCache.Thread → List String
      | [] => []
      | t :: r => s!"{i}:[{" ; ".intercalate (t.log.map obsStr)}]" :: go (i + 1) r
    " ".intercalate (go 0 c.th)
  | _, _, _ => "bad-op"

/-! `files (files xN*) (threads (th (load xN)*)…) (sched T*)` — harness/c13/files.go -/
def letterOf (e : Sexp) : Option Char :=
  match e.bytes? with
  | some [b] =>
    let c := Char.ofNat b.toNat
    if ('a' ≤ c ∧ c ≤ 'z') ∨ ('A' ≤ c ∧ c ≤ 'Z') then some c else none
  | _ => none

def typeKey (c : Char) : Key := canon { auth := runtimeAuthority, ns := "type", name := String.singleton c }

/-- a file of the directory: `xN` (types/n.pp defines N), `(bad xN)` (n.pp does not parse), `(mis xN)` (n.pp defines another
    name) — the letter and, for a file whose instantiator raises, the issue code -/
def fileOfSexp : Sexp → Option (Char × Option String)
  | .list [.atom "bad", x] => (letterOf x).map fun c => (c, some "PARSE_ERROR")
  | .list [.atom "mis", x] => (letterOf x).map fun c => (c, some "PCORE_WRONG_DEFINITION")
  | x => (letterOf x).map fun c => (c, (none : Option String))

def fopOf : Sexp → Option Pcore.Instantiate.FOp
  | .list [.atom "load", x] => (letterOf x).map fun c => Pcore.Instantiate.FOp.load (typeKey c)
  | .list [.atom "loadp", x] => (letterOf x).map fun c => Pcore.Instantiate.FOp.loadParent (typeKey c)
  | _ => none

def fthreadOf : Sexp → Option (List Pcore.Instantiate.FOp)
  | .list (.atom "th" :: ops) => ops.mapM fopOf
  | _ => none

def filesExec (fs ths sch : List Sexp) : String :=
  let fl? : Option (List (Char × Option String)) := fs.mapM fileOfSexp
  let th? : Option (List (List Pcore.Instantiate.FOp)) := ths.mapM fthreadOf
  match fl?, th?, sch.mapM Sexp.nat? with
  | some fl, some (p :: progs), some sched =>
    let lows : List Char := fl.map fun (f : Char × Option String) => lowerChar f.1
    if lows.eraseDups.length != lows.length then "bad-op"
    else
      let numbered : List (Char × Option String × Nat) := (fl.zip (List.range fl.length)).map fun (f, i) => (lowerChar f.1, f.2, i)
      let files := numbered.filterMap fun (c, code, i) =>
        match code with
        | none => some (typeKey c, V.al (String.singleton c.toUpper) (i + 1))
        | some _ => none
      let broken := numbered.filterMap fun (c, code, _) => code.map fun cd => (typeKey c, cd)
      let c := Pcore.Instantiate.executeB files broken (p :: progs) sched
      let rec go (i : Nat) : List Pcore.Instantiate.Thread → List String
        | [] => []
        | t :: r => s!"{i}:[{" ; ".intercalate (t.log.map C12.ansStr)}]" :: go (i + 1) r
      " ".intercalate (go 0 c.th) ++ " | reads" ++
        String.join (lows.map fun ch => s!" {hexOfString (String.singleton ch)}={c.reads.count (typeKey ch)}")
  | _, _, _ => "bad-op"

/-- `cacherace`: `none` when every lazily initialised field found in the anchored files (outside the recorded known
    finding) is only ever assigned a complete value, otherwise the offending site (the implementation side answers `none`) -/
def cacherace : String :=
  match Pcore.LazyCache.publishOffender Pcore.LazyCache.knownPublishFirst Pcore.Generated.cacheSites with
  | some s => s!"publish-before-init: {s.fn} assigns {s.field} and completes the object afterwards (a reader outside the lock gets it half-built)"
  | none =>
    match Pcore.LazyCache.completionOffender Pcore.Generated.cacheWrites with
    | none => "none"
    | some w => s!"in-place-completion: {w.fn} assigns {w.target} more than once (or in a loop) after it has published the object: a reader gets an intermediate value, which need not be a type of the value at all"

def exec : List Sexp → String
  | [.atom "lockrace"] => lockrace
  | [.atom "queuerace"] => QueueC13.queuerace
  | [.atom "declq", .list [.atom "pend", n], .list (.atom "threads" :: ths), .list (.atom "sched" :: sch)] => QueueC13.declqExec n ths sch
  | [.atom "cacherace"] => cacherace
  | [.atom "structrace", n, r] =>        -- free-running on the implementation side; on a correct tree the only answer
    match n.nat?, r.nat? with
    | some n, some r => if n = 0 ∨ r = 0 ∨ n > 100000 ∨ r > 50 then "bad-op" else "full"
    | _, _ => "bad-op"
  | [.atom "forkview", .atom kind, .atom mode] =>   -- the specification: a forked routine sees the caller's context as it was AT THE CALL
    if (kind == "fork" || kind == "go") && (mode == "gated" || mode == "free") then "loader:call var:call stack:call" else "bad-op"
  | [.atom "typerace", n, r] =>          -- free-running on the implementation side; on a correct tree the only answer
    match n.nat?, r.nat? with
    | some n, some r => if n = 0 ∨ r = 0 ∨ n > 200000 ∨ r > 50 then "bad-op" else "ok"
    | _, _ => "bad-op"
  | [.atom "sysloader", n, r] =>         -- free-running on the implementation side; on a correct tree the only answer
    match n.nat?, r.nat? with
    | some n, some r => if n < 2 ∨ r = 0 ∨ n > 64 ∨ r > 50 then "bad-op" else "ok"
    | _, _ => "bad-op"
  | [.atom "declstress", n, r] =>        -- free-running on the implementation side; on a correct tree the only answer
    match n.nat?, r.nat? with
    | some n, some r => if n = 0 ∨ r = 0 ∨ n > 2000 ∨ r > 20 then "bad-op" else "ok"
    | _, _ => "bad-op"
  | [.atom "files", .list (.atom "files" :: fs), .list (.atom "threads" :: ths), .list (.atom "sched" :: sch)] => filesExec fs ths sch
  | [.atom "cache", .list [.atom "val", v], .list (.atom "threads" :: ths), .list (.atom "sched" :: sch)] => cacheExec v ths sch
  | [.atom "sched", .list (.atom "tree" :: nodes), .list (.atom "threads" :: ths), .list (.atom "sched" :: sch)] =>
    if C12.hasStatic nodes || (C12.tsTable nodes).any Option.isSome then "bad-op" else
    match C12.treeOf nodes with
    | none => "bad-op"
    | some [] => "bad-op"
    | some ps =>
      match ths.mapM (threadOf ps.length), sch.mapM Sexp.nat? with
      | some (p :: progs), some sched =>
        let c := execute ps (p :: progs) sched
        logsStr c.th ++ " |" ++ C12.dump c.sh
      | _, _ => "bad-op"
  | _ => "bad-op"

end C13
