import Driver.Sexp
import Driver.C12
import Pcore.Model.LoaderConc
import Pcore.Model.Lockset
import Pcore.Generated.Locksets
/-! Driver op for C13: `sched (tree NODE*) (threads (th STEP*)…) (sched T*)` — syntax and output in harness/c13/c13.go. -/
namespace C13
open Sx Pcore.LoaderSeq Pcore.LoaderConc

def threadOf (nl : Nat) : Sexp → Option (List Op)
  | .list (.atom "th" :: steps) => steps.mapM (C12.stepOf nl)
  | _ => none

def logsStr (ths : List Thread) : String :=
  let rec go (i : Nat) : List Thread → List String
    | [] => []
    | t :: r => s!"{i}:[{" ; ".intercalate (t.log.map fun e => C12.ansStr e.1)}]" :: go (i + 1) r
  " ".intercalate (go 0 ths)

def accStr (a : Pcore.Lockset.Access) : String :=
  let hs := a.held.map fun (m, md) => m ++ (match md with | .r => ":r" | .w => ":w")
  s!"{a.fn} {if a.write then "writes" else "reads"} {a.field} holding [{" ".intercalate hs}]"

/-- `lockrace`: `none` when the regenerated lock-set table satisfies the discipline, otherwise the offending access
    site and a conflicting one (the implementation side always answers `none`) -/
def lockrace : String :=
  match Pcore.Lockset.raceWitness Pcore.Generated.locksets with
  | none => "none"
  | some (a, none) => "undisciplined: " ++ accStr a
  | some (a, some b) => "race: " ++ accStr a ++ " || " ++ accStr b

def exec : List Sexp → String
  | [.atom "lockrace"] => lockrace
  | [.atom "sched", .list (.atom "tree" :: nodes), .list (.atom "threads" :: ths), .list (.atom "sched" :: sch)] =>
    match C12.treeOf nodes with
    | none => "bad-op"
    | some [] => "bad-op"
    | some ps =>
      match ths.mapM (threadOf ps.length), sch.mapM Sexp.nat? with
      | some (p :: progs), some sched =>
        let c := execute ps (p :: progs) sched
        logsStr c.th ++ " |" ++ C12.dump c.sh
      | _, _ => "bad-op"
  | _ => "bad-op"

end C13
