import Driver.Sexp
import Driver.C12
import Pcore.Model.LoaderConc
/-! Driver op for C13: `sched (tree NODE*) (threads (th STEP*)…) (sched T*)` — syntax and output in harness/c13/c13.go. -/
namespace C13
open Sx Pcore.LoaderSeq Pcore.LoaderConc

def threadOf (nl : Nat) : Sexp → Option (List Op)
  | .list (.atom "th" :: steps) => steps.mapM (C12.stepOf nl)
  | _ => none

def logsStr (ths : List Thread) : String :=
  let rec go (i : Nat) : List Thread → List String
    | [] => []
    | t :: r => s!"{i}:[{" ; ".intercalate (t.log.map fun e => C12.ansStr e.1)}]" :: go (i + 1) r
  " ".intercalate (go 0 ths)

def exec : List Sexp → String
  | [.atom "sched", .list (.atom "tree" :: nodes), .list (.atom "threads" :: ths), .list (.atom "sched" :: sch)] =>
    match C12.treeOf nodes with
    | none => "bad-op"
    | some [] => "bad-op"
    | some ps =>
      match ths.mapM (threadOf ps.length), sch.mapM Sexp.nat? with
      | some (p :: progs), some sched =>
        let c := execute ps (p :: progs) sched
        logsStr c.th ++ " |" ++ C12.dump c.sh
      | _, _ => "bad-op"
  | _ => "bad-op"

end C13
