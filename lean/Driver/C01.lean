import Driver.Lat
/-! Driver ops of C01 (shared table in Driver/Lat.lean; syntax in harness/lat/doc.go). -/
namespace C01
def exec : List Sx.Sexp → String := Lat.execOnly ["asg", "inst", "sound", "rxmatch"]
end C01
