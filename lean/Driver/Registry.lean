import Driver.Sexp
import Driver.C11

/- One entry per property: `exec : List Sexp → String`.  Each `Driver/Cxx.lean` defines
   `Cxx.exec`; this file only lists them. -/
namespace Registry
open Sx

def table : List (String × (List Sexp → String)) := [
  ("C11", C11.exec)
]

def lookup (p : String) : Option (List Sexp → String) :=
  (table.find? (·.1 == p)).map (·.2)

end Registry
