import Driver.Sexp
import Pcore.Model.Object
import Pcore.Model.ObjectSchema
import Pcore.Model.ObjectInitHash
import Pcore.Model.ObjectParams
import Pcore.Model.ObjectFuncs
import Pcore.Generated.ObjectSchema
/-! Driver op for C17:  `obj (D0 D1 …) (A0 A1 …)`  (syntax in harness/c17/c17.go). -/
namespace C17
open Sx Pcore.Object

def validName (s : String) : Bool := memberName s

def nameOf : Sexp → Option String
  | .atom s => if validName s then some s else none
  | _ => none

def repeats : List String → Bool
  | [] => false
  | n :: ns => ns.contains n || repeats ns

partial def valOf : Sexp → Option Val
  | .atom "u" => some .undef
  | .list [.atom "i", n] => n.int?.map .int
  | .list [.atom "s", s] => s.str?.map .str
  | .list [.atom "b", b] => b.bool?.map .bool
  | .list [.atom "f", n] => n.int?.map .float          -- a Float, in quarters
  | .list (.atom "a" :: es) => (es.mapM valOf).map (fun vs => vs.foldr Val.acons Val.anil)
  | _ => none

partial def tyOf : Sexp → Option Ty
  | .atom "int" => some .int
  | .atom "str" => some .str
  | .atom "bool" => some .bool
  | .atom "any" => some .any
  | .atom "float" => some .float
  | .atom "undef" => some .undefT
  | .list [.atom "opt", t] => (tyOf t).map .opt
  | .list [.atom "nu", t] => (tyOf t).map .notUndef
  | .list [.atom "var", a, b] => do
    let a' ← tyOf a
    let b' ← tyOf b
    pure (.variant a' b')
  | .list [.atom "arr", t] => (tyOf t).map .array
  | _ => none

def kindOf : Sexp → Option Kind
  | .atom "n" => some .normal
  | .atom "c" => some .constant
  | .atom "d" => some .derived
  | .atom "g" => some .givenOrDerived
  | .atom "r" => some .reference
  | _ => none

def optOf {α} (f : Sexp → Option α) : Sexp → Option (Option α)
  | .atom "-" => some none
  | e => (f e).map some

/-- trailing flags of an attribute: `o` (override => true), then `f` (final => true) or `nf` (final => false) -/
def flagsOf : List Sexp → Option (Bool × Option Bool)
  | [] => some (false, none)
  | [.atom "o"] => some (true, none)
  | [.atom "f"] => some (false, some true)
  | [.atom "nf"] => some (false, some false)
  | [.atom "o", .atom "f"] => some (true, some true)
  | [.atom "o", .atom "nf"] => some (true, some false)
  | _ => none

def attrOf : Sexp → Option AttrDecl
  | .list (n :: t :: k :: d :: flags) => do
    let name ← nameOf n
    let ty ← tyOf t
    let kind ← kindOf k
    let dflt ← optOf valOf d
    let (override, final) ← flagsOf flags
    pure { name := name, ty := ty, kind := kind, dflt := dflt, override := override, final := final }
  | _ => none

def eqOf : Sexp → Option EqDecl
  | .atom "-" => some .absent
  | .list [.atom "s", n] => (nameOf n).map .one
  | .list (.atom "l" :: ns) => (ns.mapM nameOf).map .many
  | _ => none

def serOf : Sexp → Option (Option (List String))
  | .atom "-" => some none
  | .list (.atom "l" :: ns) => (ns.mapM nameOf).map some
  | _ => none

def eitOf : Sexp → Option (Option Bool)
  | .atom "-" => some none
  | .atom "t" => some (some true)
  | .atom "f" => some (some false)
  | _ => none

/-- a `constants` entry: a value whose inferred type is in the alphabet (Integer, String, Boolean, Float, Undef) -/
def constOf : Sexp → Option (String × Val)
  | .list [k, v] => do
    let k' ← nameOf k
    let v' ← valOf v
    match v' with
    | .anil => none            -- an array: the type inferred for it is outside the alphabet
    | .acons _ _ => none
    | _ => pure (k', v')
  | _ => none

/-- a `type_parameters` entry -/
def paramOf : Sexp → Option (String × Ty)
  | .list [k, t] => do
    let k' ← nameOf k
    let t' ← tyOf t
    pure (k', t')
  | _ => none

/-- the return type of a member function: no Variant inside (type equality of Variants is not structural) -/
def plainRet : Ty → Bool
  | .variant _ _ => false
  | .opt t => plainRet t
  | .notUndef t => plainRet t
  | .array t => plainRet t
  | _ => true

/-- a `functions` entry `(NAME TY [o] [f])`: Callable[[0,0],TY], `override => true`, `final => true` -/
def fnOf : Sexp → Option FnDecl
  | .list (n :: t :: flags) => do
    let name ← nameOf n
    let ret ← tyOf t
    if !plainRet ret then none
    let (override, final) ← (match flags with
      | [] => some (false, false)
      | [.atom "o"] => some (true, false)
      | [.atom "f"] => some (false, true)
      | [.atom "o", .atom "f"] => some (true, true)
      | _ => none)
    pure { name := name, ret := ret, override := override, final := final }
  | _ => none

def defOf5 (i : Nat) (p as q e s : Sexp) (cs ps fs : List Sexp) : Option Def :=
  match as with
  | .list as => do
    let parent ← optOf Sexp.nat? p
    match parent with
    | some j => if j ≥ i then none
    | none => pure ()
    let attrs ← as.mapM attrOf
    if repeats (attrs.map (·.name)) then none
    let equality ← eqOf q
    let includeType ← eitOf e
    let serialization ← serOf s
    let constants ← cs.mapM constOf
    if repeats (constants.map (·.1)) then none
    let params ← ps.mapM paramOf
    if repeats (params.map (·.1)) then none
    let funcs ← fs.mapM fnOf
    if repeats (funcs.map (·.name)) then none
    pure { parent := parent, attrs := attrs, equality := equality, includeType := includeType,
           serialization := serialization, constants := constants, params := params, funcs := funcs }
  | _ => none

/-- the optional trailing elements of a definition, in this order: `(k …)` constants, `(p …)` type parameters, `(fn …)` functions -/
def tailOf : List Sexp → Option (List Sexp × List Sexp × List Sexp)
  | [] => some ([], [], [])
  | .list (.atom "k" :: cs) :: rest =>
    match rest with
    | [] => some (cs, [], [])
    | [.list (.atom "p" :: ps)] => some (cs, ps, [])
    | [.list (.atom "fn" :: fs)] => some (cs, [], fs)
    | [.list (.atom "p" :: ps), .list (.atom "fn" :: fs)] => some (cs, ps, fs)
    | _ => none
  | [.list (.atom "p" :: ps)] => some ([], ps, [])
  | [.list (.atom "p" :: ps), .list (.atom "fn" :: fs)] => some ([], ps, fs)
  | [.list (.atom "fn" :: fs)] => some ([], [], fs)
  | _ => none

def defOf (i : Nat) : Sexp → Option Def
  | .list (p :: as :: q :: e :: s :: rest) => do
    let (cs, ps, fs) ← tailOf rest
    defOf5 i p as q e s cs ps fs
  | _ => none

def defsOf : Nat → List Sexp → Option (List Def)
  | _, [] => some []
  | i, e :: es => do
    let d ← defOf i e
    let ds ← defsOf (i + 1) es
    pure (d :: ds)

inductive Action where
  | newpos (t : Nat) (vs : List Val)
  | newnamed (t : Nat) (es : List (String × Val))
  | get (o : Nat) (n : String)
  | inithash (o : Nat)
  | eq (o o' : Nat)
  | inst (t o : Nat)

def idx? (e : Sexp) : Option Nat := do
  let n ← e.nat?
  if n > 1000 then none else pure n

def entryOf : Sexp → Option (String × Val)
  | .list [k, v] => do
    let k' ← nameOf k
    let v' ← valOf v
    pure (k', v')
  | _ => none

def actionOf : Sexp → Option Action
  | .list (.atom "newpos" :: t :: vs) => do
    let t' ← idx? t
    let vs' ← vs.mapM valOf
    pure (.newpos t' vs')
  | .list (.atom "newnamed" :: t :: es) => do
    let t' ← idx? t
    let es' ← es.mapM entryOf
    if repeats (es'.map (·.1)) then none else pure (.newnamed t' es')
  | .list [.atom "get", o, n] => do
    let o' ← idx? o
    let n' ← nameOf n
    pure (.get o' n')
  | .list [.atom "inithash", o] => (idx? o).map .inithash
  | .list [.atom "eq", o, o'] => do
    let a ← idx? o
    let b ← idx? o'
    pure (.eq a b)
  | .list [.atom "inst", t, o] => do
    let a ← idx? t
    let b ← idx? o
    pure (.inst a b)
  | _ => none

/-- the elements of an array value (`none`: not an array) -/
def elems : Val → Option (List Val)
  | .anil => some []
  | .acons h t => (elems t).map (h :: ·)
  | _ => none

def valStr : Val → String
  | .int i => s!"(i {i})"
  | .str s => s!"(s {hexOfString s})"
  | .bool b => s!"(b {boolStr b})"
  | .undef => "u"
  | .hash c => c
  | .float q => s!"(f {q})"
  | .anil => "(a)"
  | .acons h t => "(a " ++ valStr h ++ tailStr t
where
  tailStr : Val → String
    | .anil => ")"
    | .acons h t => " " ++ valStr h ++ tailStr t
    | _ => " ?)"

def hashStr (es : List (String × Val)) : String :=
  "(h" ++ String.join (es.map fun (k, v) => " (" ++ k ++ " " ++ valStr v ++ ")") ++ ")"

def insertEntry (e : String × Val) : List (String × Val) → List (String × Val)
  | [] => [e]
  | x :: xs => if e.1 < x.1 then e :: x :: xs else x :: insertEntry e xs

/-- a hash standing as a value is identified by its entries sorted by key (Hash equality ignores the order) -/
def sortEntries (es : List (String × Val)) : List (String × Val) := es.foldr insertEntry []

/-- definitions in order (schema assertion against the regenerated member table, then the definition proper); stops at
    the first rejected one -/
def runDefs : List OType → List Def → List String × Option (List OType)
  | env, [] => ([], some env)
  | env, d :: ds =>
    match defineChecked Pcore.Generated.objectSchema.members env d with
    | .error c => ([c.toString], none)
    | .ok t =>
      let (rs, r) := runDefs (env ++ [t]) ds
      ("ok" :: rs, r)

def resB : Except Code Bool → String
  | .ok b => boolStr b
  | .error c => c.toString

def runActs (env : List OType) : List (Option PObj) → List Action → List String
  | _, [] => []
  | objs, a :: as =>
    match a with
    | .newpos t vs =>
      match env[t]? with
      | none => "notype" :: runActs env (objs ++ [none]) as
      | some ty =>
        match newPosX ty vs with
        | .ok o => "obj" :: runActs env (objs ++ [some o]) as
        | .error c => c.toString :: runActs env (objs ++ [none]) as
    | .newnamed t es =>
      match env[t]? with
      | none => "notype" :: runActs env (objs ++ [none]) as
      | some ty =>
        match newNamedX ty es (.hash (hashStr (sortEntries es))) with
        | .ok o => "obj" :: runActs env (objs ++ [some o]) as
        | .error c => c.toString :: runActs env (objs ++ [none]) as
    | .get o n =>
      (match (objs[o]?).join with
      | none => "noobj"
      | some ob =>
        match get ob.obj n with
        | .ok (some v) => "(some " ++ valStr v ++ ")"
        | .ok none => "none"
        | .error c => c.toString) :: runActs env objs as
    | .inithash o =>
      (match (objs[o]?).join with
      | none => "noobj"
      | some ob => hashStr (initHash ob.obj)) :: runActs env objs as
    | .eq o o' =>
      (match (objs[o]?).join, (objs[o']?).join with
      | some a, some b => resB (equalsX a b)
      | _, _ => "noobj") :: runActs env objs as
    | .inst t o =>
      (match (objs[o]?).join, env[t]? with
      | some ob, some ty => boolStr (isInstanceF ty ob.obj)
      | _, _ => "noobj") :: runActs env objs as

/-- the definitions the accepted types print as (`objectType.InitHash()`), in order -/
def reDefs : List Def → List OType → List Def
  | d :: ds, (l :: _) :: ts => typeDef d.parent l :: reDefs ds ts
  | _, _ => []

/-- third rendering: every type re-created from its own InitHash(); `same` when every re-definition is accepted and the
    actions yield the same observations -/
def reinit (defs : List Def) (env : List OType) (acts : List Action) (obs : List String) : String :=
  match runDefs [] (reDefs defs env) with
  | (_, some env') => if runActs env' [] acts == obs then "reinit same" else "reinit differs"
  | (rs, none) => "reinit " ++ " ".intercalate rs

def exec : List Sexp → String
  | [.atom "obj", .list ds, .list as] =>
    match defsOf 0 ds, as.mapM actionOf with
    | some defs, some acts =>
      if defs.isEmpty then "bad-op" else
      let (rs, env) := runDefs [] defs
      let head := "def " ++ " ".intercalate rs
      match env with
      | none => head
      | some env =>
        let obs := runActs env [] acts
        " ; ".intercalate (head :: obs ++ [reinit defs env acts obs])
    | _, _ => "bad-op"
  -- `asg T U`: IsAssignable(T, U) on the alphabet
  | [.atom "asg", a, b] =>
    match tyOf a, tyOf b with
    | some a', some b' => boolStr (asg a' b')
    | _, _ => "bad-op"
  -- `tinst T V`: IsInstance(T, V)
  | [.atom "tinst", t, v] =>
    match tyOf t, valOf v with
    | some t', some v' => boolStr (inst t' v')
    | _, _ => "bad-op"
  | _ => "bad-op"

end C17
