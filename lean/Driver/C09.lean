import Driver.Sexp
import Pcore.Model.StringHashFacts
import Pcore.Model.HashFacts
import Pcore.Model.ArrayPool
import Pcore.Generated.StringHashFacts
import Pcore.Generated.HashOps
/-!
Driver ops for C09 (syntax in harness/c09/c09.go): one line is a whole history.

  `sh <step>*`    hash.StringHash        → `Pcore.Coll.SH`  (values are the canonical integer texts)
  `hash <step>*`  types.Hash pool        → `Pcore.Coll.Hash` with `key = id` on canonical value texts
  `arr <step>*`   types.Array pool       → `Pcore.Coll.Arr`  on canonical value texts

The models are the ones driven by the regenerated fact tables (`stepSHT shFacts`, `Hash.mergeT hashFacts`, …).
Keys and values travel as their canonical text (`1`, `x31`, `(a 1)`): two values are equal iff their texts are
equal, so `px.ToKey` is modelled by the identity on texts (that `ToKey` respects equality is property C07).
-/
namespace C09
open Sx Pcore.Coll Pcore.Generated

def sp (xs : List String) : String := " ".intercalate xs

/-- a canonical (lower-case) hex string atom -/
def keyAtom? : Sexp → Option String
  | .atom s =>
    match (Sexp.atom s).bytes? with
    | some bs => if "x" ++ hexOfBytes bs = s then some s else none
    | none => none
  | _ => none

def intAtom? : Sexp → Option String
  | .atom s => s.toInt?.map toString
  | _ => none

def ref? (e : Sexp) : Option Nat :=
  match e with
  | .atom s => match s.toInt? with
    | some i => if i ≥ 0 then some i.toNat else none
    | none => none
  | _ => none

/-- the "falsy looking" values: `u` = undef (its text is `_`, what every query prints for undef), `bt` / `bf` = the
booleans, `d` = default, `(h)` = the empty hash.  Opaque texts like every other value. -/
def specialVal? : Sexp → Option String
  | .atom "u" => some "_"
  | .atom "bt" => some "bt"
  | .atom "bf" => some "bf"
  | .atom "d" => some "d"
  | .list [.atom "h"] => some "(h)"
  | _ => none

partial def valStr : Sexp → Option String
  | .atom s =>
    match intAtom? (.atom s) with
    | some i => some i
    | none =>
      match specialVal? (.atom s) with
      | some t => some t
      | none => keyAtom? (.atom s)
  | .list [.atom "h"] => some "(h)"
  | .list (.atom "a" :: xs) => (xs.mapM valStr).map fun ps => "(" ++ sp ("a" :: ps) ++ ")"
  | _ => none

/-- text that `types.Parse` reads back unchanged: integers, strings over [a-z0-9], arrays of those -/
partial def plainText : Sexp → Bool
  | .list [.atom "h"] => true
  | .atom s =>
    match intAtom? (.atom s) with
    | some _ => true
    | none =>
      if (specialVal? (.atom s)).isSome then true else
      match (Sexp.atom s).bytes? with
      | some bs => bs.all fun b => (97 ≤ b.toNat ∧ b.toNat ≤ 122) ∨ (48 ≤ b.toNat ∧ b.toNat ≤ 57)
      | none => false
  | .list (.atom "a" :: xs) => xs.all plainText
  | _ => false

def addUni (uni : List String) (k : String) : List String := if uni.contains k then uni else uni ++ [k]

/-! ### StringHash -/

inductive ShStep where
  | op (name : String) (o : SOp String)
  | swap
  | empty
  | equals
  | views

def shPair? : Sexp → Option (String × String)
  | .list [k, v] => do let k' ← keyAtom? k; let v' ← intAtom? v; pure (k', v')
  | _ => none

def shStep? : Sexp → Option (ShStep × List String)
  | .list [.atom "put", k, v] => do let k' ← keyAtom? k; let v' ← intAtom? v; pure (.op "put" (.put k' v'), [k'])
  | .list [.atom "cia", k, v] => do let k' ← keyAtom? k; let v' ← intAtom? v; pure (.op "cia" (.cia k' v'), [k'])
  | .list [.atom "delete", k] => do let k' ← keyAtom? k; pure (.op "delete" (.delete k'), [k'])
  | .list [.atom "get", k] => do let k' ← keyAtom? k; pure (.op "get" (.get k'), [k'])
  | .list (.atom "merge" :: ps) => do let ps' ← ps.mapM shPair?; pure (.op "merge" (.merge ps'), ps'.map (·.1))
  | .list (.atom "putall" :: ps) => do let ps' ← ps.mapM shPair?; pure (.op "putall" (.putAll ps'), ps'.map (·.1))
  | .list [.atom "copy"] => some (.op "copy" .copy, [])
  | .list [.atom "freeze"] => some (.op "freeze" .freeze, [])
  | .list [.atom "swap"] => some (.swap, [])
  | .list [.atom "empty"] => some (.empty, [])
  | .list [.atom "equals"] => some (.equals, [])
  | .list [.atom "views"] => some (.views, [])
  | _ => none

def getStr : Out String → String
  | .val v => v | .none => "_" | .fault => "fault" | .rejected => "rejected" | .unit => ""

/-- every query of a StringHash; the flag says that a query faulted -/
def shObs (h : SH String) (uni : List String) : String × Bool :=
  let gs := uni.map fun k => h.get k
  let gtxt := gs.map getStr
  let itxt := uni.map fun k => match h.get k with
    | .fault => "f"
    | _ => boolStr (h.includes k)
  ("E{" ++ sp (h.pairs.map fun e => e.1 ++ "=" ++ e.2) ++ "} K[" ++ sp h.keys ++ "] V[" ++ sp h.values ++ "] N"
      ++ toString h.len ++ " F" ++ boolStr h.frozen ++ " G[" ++ sp gtxt ++ "] I[" ++ String.join itxt ++ "]",
   gs.any fun g => match g with | .fault => true | _ => false)

def shRes (name : String) (op : SOp String) (o : Out String) : String :=
  match o with
  | .rejected => name ++ "=rejected"
  | .fault => name ++ "=fault"
  | _ =>
    match op, o with
    | .put _ _, .val v => s!"put={v},t"
    | .put _ _, _ => "put=_,f"
    | .delete _, o => "delete=" ++ getStr o
    | .get _, .val v => s!"get={v},t,{v}"
    | .get _, _ => "get=_,f,-1"
    | .cia _ _, o => "cia=" ++ getStr o
    | .putAll _, _ => "putall=ok"
    | _, _ => name

def runSh (steps : List ShStep) (uni : List String) : String := Id.run do
  let mut cur : SH String := SH.new
  let mut old : Option (SH String) := none
  let mut out : Array String := #[]
  for st in steps do
    let mut res := ""
    let mut bad := false
    match st with
    | .swap =>
      match old with
      | none => res := "skip"
      | some o => old := some cur; cur := o; res := "swap"
    | .empty => old := some cur; cur := SH.emptyFrozen; res := "empty"
    | .equals =>
      match old with
      | none => res := "skip"
      | some o =>
        match cur.equals o, o.equals cur with
        | some a, some b => res := "equals=" ++ boolStr a ++ "," ++ boolStr b
        | _, _ => res := "equals=fault"; bad := true
    | .views =>
      res := "views=K[" ++ sp cur.keys ++ "] V[" ++ sp cur.values ++ "] " ++ boolStr cur.empty
        ++ boolStr (cur.allPair fun _ v => v != "1") ++ boolStr (cur.anyPair fun _ v => v == "1")
    | .op name op =>
      let r := stepSHT shFacts cur op
      match op with
      | .copy => old := some cur
      | .merge _ => old := some cur
      | _ => pure ()
      cur := r.1
      res := shRes name op r.2
      bad := match r.2 with | .fault => true | _ => false
    let (o, f) := shObs cur uni
    out := out.push (res ++ " " ++ o)
    if bad || f then break
  let tail := match old with
    | none => "none"
    | some o => (shObs o uni).1
  return " | ".intercalate out.toList ++ " || old=" ++ tail

def execSh (steps : List Sexp) : String :=
  match steps.mapM shStep? with
  | none => "bad-op"
  | some ss =>
    let uni := ss.foldl (fun u s => s.2.foldl addUni u) []
    runSh (ss.map (·.1)) uni

/-! ### Hash -/

abbrev H := Hash String String String

inductive HStep where
  | make (op : String) (ps : List (String × String)) (plain : Bool)
  | mnew
  | put (i : Nat) (k v : String)
  | merge (i j : Nat)
  | delete (i : Nat) (k : String)
  | deleteAll (i : Nat) (ks : List String)
  | get (op : String) (i : Nat) (k : String)
  | mput (i : Nat) (k v : String)
  | mputall (i j : Nat)
  | slice (i x y : Nat)
  | filter (sel : Bool) (i : Nat) (ks : List String)
  | sort (i : Nat)
  | eachSlice (i : Nat) (n : Int)
  | mapKeys (i : Nat) (k : String)

def hPair? : Sexp → Option ((String × String) × Bool)
  | .list [k, v] => do let k' ← valStr k; let v' ← valStr v; pure ((k', v'), plainText k && plainText v)
  | _ => none

def hStep? : Sexp → Option (HStep × List String)
  | .list [.atom "mnew"] => some (.mnew, [])
  | .list [.atom "put", i, k, v] => do
      let i' ← ref? i; let k' ← valStr k; let v' ← valStr v; pure (.put i' k' v', [k'])
  | .list [.atom "mput", i, k, v] => do
      let i' ← ref? i; let k' ← valStr k; let v' ← valStr v; pure (.mput i' k' v', [k'])
  | .list [.atom "merge", i, j] => do let i' ← ref? i; let j' ← ref? j; pure (.merge i' j', [])
  | .list [.atom "mputall", i, j] => do let i' ← ref? i; let j' ← ref? j; pure (.mputall i' j', [])
  | .list [.atom "delete", i, k] => do let i' ← ref? i; let k' ← valStr k; pure (.delete i' k', [k'])
  | .list [.atom "get", i, k] => do let i' ← ref? i; let k' ← valStr k; pure (.get "get" i' k', [k'])
  | .list [.atom "get4", i, k] => do let i' ← ref? i; let k' ← keyAtom? k; pure (.get "get4" i' k', [k'])
  | .list [.atom "deleteAll", i, .list ks] => do
      let i' ← ref? i; let ks' ← ks.mapM valStr; pure (.deleteAll i' ks', ks')
  | .list [.atom "select", i, .list ks] => do
      let i' ← ref? i; let ks' ← ks.mapM valStr; pure (.filter true i' ks', ks')
  | .list [.atom "reject", i, .list ks] => do
      let i' ← ref? i; let ks' ← ks.mapM valStr; pure (.filter false i' ks', ks')
  | .list [.atom "slice", i, x, y] => do let i' ← ref? i; let x' ← ref? x; let y' ← ref? y; pure (.slice i' x' y', [])
  | .list [.atom "sort", i] => do let i' ← ref? i; pure (.sort i', [])
  | .list [.atom "eachSlice", i, n] => do let i' ← ref? i; let n' ← n.int?; pure (.eachSlice i' n', [])
  | .list [.atom "mapKeys", i, k] => do let i' ← ref? i; let k' ← valStr k; pure (.mapKeys i' k', [k'])
  | .list (.atom op :: ps) =>
    if op = "wrap" ∨ op = "parse" ∨ op = "parsea" ∨ op = "build" then do
      let ps' ← ps.mapM hPair?
      pure (.make op (ps'.map (·.1)) (ps'.all (·.2)), ps'.map (·.1.1))
    else none
  | _ => none

def hasDupKeys : List String → Bool
  | [] => false
  | k :: ks => ks.contains k || hasDupKeys ks

/-- every query of a Hash: receiver with its index cached, text, whether a query faulted -/
def hashObs (h : H) (uni : List String) : H × String × Bool :=
  let h1 := (h.valueIndex id).1
  let gs := uni.map fun k => (k, (h1.get id k).2)
  let gtxt (g : Option (Option String)) : String := match g with
    | some (some v) => v | some none => "_" | none => "fault"
  let itxt := gs.map fun (k, g) => match g with
    | none => "f"
    | _ => boolStr (h1.includesKey id k).2
  let ats := (List.range (h1.len + 1)).map fun i => match h1.atIdx i with
    | some e => e.1 ++ "=" ++ e.2 | none => "_"
  (h1, "E{" ++ sp (h1.entries.map fun e => e.1 ++ "=" ++ e.2) ++ "} K[" ++ sp h1.keys ++ "] V[" ++ sp h1.values ++ "] N"
      ++ toString h1.len ++ " A[" ++ sp ats ++ "] G[" ++ sp (gs.map fun g => gtxt g.2) ++ "] I[" ++ String.join itxt
      ++ "] S[" ++ sp ((gs.filter fun g => g.1.startsWith "x").map fun g => gtxt g.2) ++ "]",
   gs.any fun g => g.2.isNone)

def runHash (steps : List HStep) (uni : List String) : String := Id.run do
  let mut pool : Array (H × Bool) := #[]
  let mut out : Array String := #[]
  for st in steps do
    let mut res := ""
    let mut made : Option Nat := none      -- pool position whose observation is printed
    let mut fault := false
    match st with
    | .make op ps plain =>
      if (op = "parse" ∧ ¬ plain) ∨ (op = "parsea" ∧ (¬ plain ∨ ps.isEmpty)) then res := "skip"
      else
        pool := pool.push (Hash.wrap ps, false); res := op; made := some (pool.size - 1)
    | .mnew => pool := pool.push (Hash.wrap [], true); res := "mnew"; made := some (pool.size - 1)
    | .put i k v =>
      match pool[i]? with
      | none => res := "bad-ref"
      | some (h, m) =>
        let (h', r) := h.mergeT hashFacts id [(k, v)]
        pool := pool.set! i (h', m)
        match r with
        | some n => pool := pool.push (n, false); res := "put"; made := some (pool.size - 1)
        | none => res := "put"; fault := true
    | .merge i j =>
      match pool[i]?, pool[j]? with
      | some (h, m), some (o, _) =>
        let (h', r) := h.mergeT hashFacts id o.entries
        pool := pool.set! i (h', m)
        match r with
        | some n => pool := pool.push (n, false); res := "merge"; made := some (pool.size - 1)
        | none => res := "merge"; fault := true
      | _, _ => res := "bad-ref"
    | .delete i k =>
      match pool[i]? with
      | none => res := "bad-ref"
      | some (h, m) =>
        if m then res := "skip" else
        let (h', r) := h.delete id k
        pool := pool.set! i (h', m)
        match r with
        | some n => pool := pool.push (n, false); res := "delete"; made := some (pool.size - 1)
        | none => res := "delete"; fault := true
    | .deleteAll i ks =>
      match pool[i]? with
      | none => res := "bad-ref"
      | some (h, m) =>
        if m then res := "skip" else
        let (h', n) := h.deleteAll id ks
        pool := pool.set! i (h', m)
        pool := pool.push (n, false); res := "deleteAll"; made := some (pool.size - 1)
    | .get op i k =>
      match pool[i]? with
      | none => res := "bad-ref"
      | some (h, m) =>
        let (h', g) := h.get id k
        pool := pool.set! i (h', m)
        match g with
        | some (some v) => res := s!"{op}={v},t,{v},t"; made := some i
        | some none => res := s!"{op}=_,f,-1,f"; made := some i
        | none => res := op; fault := true
    | .slice i x y =>
      match pool[i]? with
      | none => res := "bad-ref"
      | some (h, m) =>
        if m then res := "skip" else
        match h.slice x y with
        | some n => pool := pool.push (n, false); res := "slice"; made := some (pool.size - 1)
        | none => res := "skip"             -- bounds outside the value: a caller error, outside the property
    | .filter sel i ks =>
      match pool[i]? with
      | none => res := "bad-ref"
      | some (h, m) =>
        if m then res := "skip" else
        let p := fun (e : String × String) => ks.contains e.1
        let n := if sel then h.selectPairs p else h.rejectPairs p
        pool := pool.push (n, false); res := (if sel then "select" else "reject"); made := some (pool.size - 1)
    | .sort i =>
      match pool[i]? with
      | none => res := "bad-ref"
      | some (h, m) =>
        -- sort.Sort is not stable: a hash holding two equal keys is not sorted (same rule as the harness)
        if m || hasDupKeys h.keys then res := "skip" else
        pool := pool.push (h.sort (fun x y => decide (x ≤ y)), false); res := "sort"; made := some (pool.size - 1)
    | .mapKeys i k =>
      match pool[i]? with
      | none => res := "bad-ref"
      | some (h, m) =>
        if m then res := "skip" else
        -- `MapEntries`: `mapped[i] = mapper(e)`, then `WrapHash(mapped)` (no check for equal keys)
        pool := pool.push (Hash.wrap (h.entries.map fun e => (k, e.2)), false); res := "mapKeys"; made := some (pool.size - 1)
    | .eachSlice i n =>
      match pool[i]? with
      | none => res := "bad-ref"
      | some (h, _) =>
        match h.eachSlice n with
        | none => res := "eachSlice=illegal"
        | some cs =>
          res := "eachSlice=[" ++ sp (cs.map fun c => "(" ++ sp (c.map fun e => e.1 ++ "=" ++ e.2) ++ ")") ++ "]"
    | .mput i k v =>
      match pool[i]? with
      | none => res := "bad-ref"
      | some (h, m) =>
        if !m then res := "skip" else
        match h.putAllT hashFacts id [(k, v)] with
        | some n => pool := pool.set! i (n, true); res := "mput"; made := some i
        | none => res := "mput"; fault := true
    | .mputall i j =>
      match pool[i]?, pool[j]? with
      | some (h, m), some (o, _) =>
        if !m then res := "skip" else
        match h.putAllT hashFacts id o.entries with
        | some n => pool := pool.set! i (n, true); res := "mputall"; made := some i
        | none => res := "mputall"; fault := true
      | _, _ => res := "bad-ref"
    if fault then
      out := out.push (res ++ "=fault")
      break
    match made with
    | none => out := out.push res
    | some p =>
      match pool[p]? with
      | none => out := out.push res
      | some (h, m) =>
        let (h', o, f) := hashObs h uni
        pool := pool.set! p (h', m)
        out := out.push (res ++ " " ++ o)
        if f then break
  let finals := pool.toList.map fun (h, _) =>
    let (_, o, f) := hashObs h uni
    if f then "fault" else o
  return " | ".intercalate out.toList ++ " || " ++ " ; ".intercalate finals

def execHash (steps : List Sexp) : String :=
  match steps.mapM hStep? with
  | none => "bad-op"
  | some ss =>
    let uni := ss.foldl (fun u s => s.2.foldl addUni u) []
    runHash (ss.map (·.1)) uni

/-! ### Array -/

/-- a value with the structure `Flatten` looks at; `none` = not a value -/
partial def avalOf : Sexp → Option AVal
  | .list [.atom "h"] => some (.leaf "(h)")
  | .atom s =>
    match intAtom? (.atom s) with
    | some i => some (.leaf i)
    | none =>
      match specialVal? (.atom s) with
      | some t => some (.leaf t)
      | none => (keyAtom? (.atom s)).map .leaf
  | .list (.atom "a" :: xs) => (xs.mapM avalOf).map .arr
  | _ => none

inductive AStep where
  | op (name : String) (o : AOp AVal)
  | flatten (i : Nat)

def aStep? : Sexp → Option AStep
  | .list [.atom "add", i, v] => do let i' ← ref? i; let v' ← avalOf v; pure (.op "add" (.add i' v'))
  | .list [.atom "delete", i, v] => do let i' ← ref? i; let v' ← avalOf v; pure (.op "delete" (.delete i' v'))
  | .list [.atom "find", i, v] => do let i' ← ref? i; let v' ← avalOf v; pure (.op "find" (.find i' v'))
  | .list [.atom "addAll", i, j] => do let i' ← ref? i; let j' ← ref? j; pure (.op "addAll" (.addAll i' j'))
  | .list [.atom "deleteAll", i, j] => do let i' ← ref? i; let j' ← ref? j; pure (.op "deleteAll" (.deleteAll i' j'))
  | .list [.atom "slice", i, a, b] => do
      let i' ← ref? i; let a' ← ref? a; let b' ← ref? b; pure (.op "slice" (.slice i' a' b'))
  | .list [.atom "unique", i] => do let i' ← ref? i; pure (.op "unique" (.unique i'))
  | .list [.atom "sort", i] => do let i' ← ref? i; pure (.op "sort" (.sort i'))
  | .list [.atom "len", i] => do let i' ← ref? i; pure (.op "len" (.len i'))
  | .list [.atom "flatten", i] => do let i' ← ref? i; pure (.flatten i')
  | .list [.atom "eachSlice", i, n] => do let i' ← ref? i; let n' ← n.int?; pure (.op "eachSlice" (.eachSlice i' n'))
  | .list [.atom "at", i, n] => do let i' ← ref? i; let n' ← n.int?; pure (.op "at" (.at i' n'))
  | .list (.atom "lit" :: vs) => (vs.mapM avalOf).map fun vs' => .op "lit" (.lit vs')
  | _ => none

def arrStr (a : List AVal) : String := (AVal.arr a).text

def textLe (x y : AVal) : Bool := decide (x.text ≤ y.text)

def runArr (steps : List AStep) : String := Id.run do
  let mut pool : List (List AVal) := []
  let mut out : Array String := #[]
  for st in steps do
    match st with
    | .flatten i =>
      match pool[i]? with
      | none => out := out.push "bad-ref"
      | some a =>
        let r := AVal.flats a
        pool := pool ++ [r]
        out := out.push ("flatten " ++ arrStr r ++ " N" ++ toString r.length)
    | .op name op =>
      let (pool', obs) := stepAImpl AVal.text textLe pool op
      let res := match obs with
        | .made =>
          match pool'.getLast? with
          | some a => name ++ " " ++ arrStr a ++ " N" ++ toString a.length
          | none => name
        | .badRef => "bad-ref"
        | .fault => "skip"                    -- Slice bounds outside the value: a caller error, outside the property
        | .illegal => name ++ "=illegal"
        | .got (some v) => name ++ "=" ++ v.text
        | .got none => name ++ "=_"
        | .num n => name ++ "=" ++ toString n
        | .chunks cs => name ++ "=[" ++ sp (cs.map arrStr) ++ "]"
        | .elems vs => name ++ "=" ++ arrStr vs
      pool := pool'
      out := out.push res
  return " | ".intercalate out.toList ++ " || " ++ " ; ".intercalate (pool.map arrStr)

def execArr (steps : List Sexp) : String :=
  match steps.mapM aStep? with
  | none => "bad-op"
  | some ss => runArr ss

def tagged : Sexp → Bool
  | .list (.atom _ :: _) => true
  | _ => false

def exec : List Sexp → String
  | .atom op :: steps =>
    if !steps.all tagged then "bad-op"
    else if op = "sh" then execSh steps
    else if op = "hash" then execHash steps
    else if op = "arr" then execArr steps
    else "bad-op"
  | _ => "bad-op"

end C09
