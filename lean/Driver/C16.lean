import Driver.Sexp
import Pcore.Model.Dispatch
import Pcore.Model.DispatchCtors
import Pcore.Model.CtorNew
import Pcore.Model.CtorCoerce
import Pcore.Model.CtorInit
import Pcore.Model.CtorCanCoerce
/-! Driver ops for C16:  `call <lt> <ds> <args> <blk>`, `newm <recv> <args>`, `coerce <ty> <v>`, `initinst <recv> <v>` and `initasg (init ty v*) <ty>` (syntax in harness/c16/c16.go).  The general
    `new` op is implementation-only. -/
namespace C16
open Sx Pcore.Dispatch Pcore.Dispatch.Alpha

def boundInt? : Sexp → Option (Option Int)
  | .atom "d" => some none
  | e => e.int?.map some

def boundNat? : Sexp → Option (Option Nat)
  | .atom "d" => some none
  | e => e.nat?.map some

/-- a Float bound: `d` (default) or the IEEE bits of a double that is not NaN -/
def fboundOf? (dflt : Int) : Sexp → Option Int
  | .atom "d" => some dflt
  | e => e.nat?.bind fun b => if b < 2 ^ 64 then F64.key b else none

/-- type terms; local aliases are expanded here (LocalTypes are resolved before any dispatch is created); an unknown
    name stays an unresolved type reference, which has no instances.  `fuel` bounds alias chains (the generator never
    builds recursive aliases; a cycle ends in `never`). -/
partial def tyOf (env : List (String × Sexp)) (fuel : Nat) : Sexp → Option Ty
  | .atom "int" => some (.int none none)
  | .atom "str" => some (.str 0 none)
  | .atom "any" => some .any
  | .atom "undef" => some .undef
  | .atom "bool" => some .bool
  | .list [.atom "int", lo, hi] => do some (.int (← boundInt? lo) (← boundInt? hi))
  | .list [.atom "str", lo, hi] => do
      let l ← boundNat? lo
      some (.str (l.getD 0) (← boundNat? hi))
  | .list (.atom "enum" :: vs) => (vs.mapM Sexp.str?).map .enum
  | .list [.atom "arr", e] => (tyOf env fuel e).map fun t => .arr t 0 none
  | .list [.atom "arrn", e, lo, hi] => do
      let t ← tyOf env fuel e
      some (.arr t (← lo.nat?) (← boundNat? hi))
  | .atom "num" => some .numeric
  | .atom "bin" => some .binary
  | .atom "tsp" => some (.timespan F64.minInt F64.maxInt)
  | .list [.atom "tsp", lo, hi] => do
      -- bounds in whole seconds, `d` = default
      let l ← boundInt? lo
      let h ← boundInt? hi
      some (.timespan (match l with | some x => x * 1000000000 | none => F64.minInt)
                      (match h with | some x => x * 1000000000 | none => F64.maxInt))
  | .atom "flt" => some (.float (-F64.maxFiniteKey) F64.maxFiniteKey)
  | .list [.atom "flt", lo, hi] => do
      some (.float (← fboundOf? (-F64.maxFiniteKey) lo) (← fboundOf? F64.maxFiniteKey hi))
  | .list [.atom "opt", e] => (tyOf env fuel e).map .opt
  | .list [.atom "nu", e] => (tyOf env fuel e).map .notUndef
  | .list [.atom "alias", e] => (tyOf env fuel e).map .alias
  | .list (.atom "tuple" :: ts) => (ts.mapM (tyOf env fuel)).map .tuple
  | .list [.atom "hash", k, v, lo, hi] => do
      some (.hash (← tyOf env fuel k) (← tyOf env fuel v) (← lo.nat?) (← boundNat? hi))
  | .list (.atom "struct" :: ms) =>
      (ms.mapM fun (m : Sexp) => match m with
        | Sexp.list [n, .atom k, t] => do
            let name ← n.str?
            let opt ← if k == "opt" then some true else if k == "req" then some false else none
            some (name, opt, ← tyOf env fuel t)
        | _ => none).map .struct
  | .list (.atom "var" :: t :: ts) => ((t :: ts).mapM (tyOf env fuel)).map .var
  | .list [.atom "al", .atom n] =>
      match fuel, env.find? (·.1 == n) with
      | f + 1, some (_, d) => tyOf env f d
      | _, _ => some .never
  | _ => none

partial def valOf : Sexp → Option Val
  | .list [.atom "i", n] => n.int?.map .int
  | .list [.atom "s", s] => s.str?.map .str
  | .list [.atom "b", b] => b.bool?.map .bool
  | .list [.atom "f", b] => b.nat?.bind fun n => if n < 2 ^ 64 then some (.float n) else none
  | .list [.atom "bin", b] => b.bytes?.map fun bs => .binary bs
  | .list [.atom "ts", n] => n.int?.bind fun x => if F64.minInt ≤ x && x ≤ F64.maxInt then some (.timespan x) else none
  | .list [.atom "u"] => some .undef
  | .list [.atom "d"] => some .default
  | .list (.atom "a" :: vs) => (vs.mapM valOf).map .arr
  | .list (.atom "h" :: es) =>
      (es.mapM fun (e : Sexp) => match e with
        | Sexp.list [k, v] => do some (← valOf k, ← valOf v)
        | _ => none).map .hash
  | _ => none

def bpOf : Sexp → Option BP
  | .atom "any" => some .any
  | .atom "str" => some .str
  | .atom "int" => some .int
  | .atom "num" => some .num
  | .atom "bool" => some .bool
  | _ => none

def btOf : Sexp → Option BTy
  | .atom "call" => some .any
  | .list [.atom "c", a, b] => do some (.range (← a.nat?) (← boundNat? b))
  | .list [.atom "ct", .list ps, a, b] => do some (.typed (← ps.mapM bpOf) (← a.nat?) (← boundNat? b))
  | _ => none

def bopOf (env : List (String × Sexp)) : Sexp → Option (BOp Ty BTy)
  | .list [.atom "req", t] => (tyOf env 8 t).map .param
  | .list [.atom "opt", t] => (tyOf env 8 t).map .optional
  | .list [.atom "rep", t] => (tyOf env 8 t).map .repeated
  | .list [.atom "reqrep", t] => (tyOf env 8 t).map .requiredRepeated
  | .list [.atom "ret", t] => (tyOf env 8 t).map .returns
  | .list [.atom "blk", b] => (btOf b).map .block
  | .list [.atom "optblk", b] => (btOf b).map .optionalBlock
  | _ => none

def creatorOf (env : List (String × Sexp)) : Sexp → Option (Creator Ty BTy)
  | .list (.atom "d" :: .atom k :: ops) => do
      let kind ← if k == "fn" then some FnKind.fn else if k == "fn2" then some FnKind.fn2 else none
      some { ops := ← ops.mapM (bopOf env), kind := kind }
  | _ => none

def envOf : List Sexp → Option (List (String × Sexp))
  | [] => some []
  | .list [.atom n, d] :: rest => (envOf rest).map ((n, d) :: ·)
  | _ => none

def blkOf : Sexp → Option (Option Blk)
  | .atom "nb" => some none
  | .list [.atom "b", a, b] => do
      let mn ← a.nat?
      let mx ← boundNat? b
      if mn > 8 then none
      match mx with
      | some m => if m < mn || m > 8 then none else some (some { min := mn, max := mx })
      | none => some (some { min := mn, max := none })
  | .list [.atom "bt", .list ps, a, b] => do
      -- a lambda with one parameter per type: the first MIN required, the others optional; MAX = `d`: the last one repeated
      let ts ← ps.mapM bpOf
      let mn ← a.nat?
      let mx ← boundNat? b
      if ts.length > 8 || mn > ts.length then none
      match mx with
      | some m => if m != ts.length then none else some (some { min := mn, max := mx, types := ts })
      | none => if ts.isEmpty then none else some (some { min := mn, max := none, types := ts })
  | _ => none

partial def valStr : Val → String
  | .int n => s!"(i {n})"
  | .str s => s!"(s {hexOfString s})"
  | .bool b => s!"(b {boolStr b})"
  | .float b => s!"(f {b})"
  | .binary bs => s!"(bin x{hexOfBytes bs})"
  | .timespan n => s!"(ts {n})"
  | .undef => "(u)"
  | .default => "(d)"
  | .arr vs => "(a" ++ String.join (vs.map fun v => " " ++ valStr v) ++ ")"
  | .hash es => "(h" ++ String.join (es.map fun (k, v) => " (" ++ valStr k ++ " " ++ valStr v ++ ")") ++ ")"

def recvTyOf : Sexp → Option RecvTy
  | .list [.atom "init"] => some .initDefault
  | .list (.atom "init" :: t :: ia) => do some (.init (← tyOf [] 0 t) (← ia.mapM valOf))
  | t => (tyOf [] 0 t).map .plain

def outcomeStr : Outcome → String
  | .ran i => s!"ran {i}"
  | .reported => "reported ILLEGAL_ARGUMENTS"

def callOf : Sexp → Option (List Val × Option Blk)
  | .list [.atom "c", .list (.atom "args" :: args), blk] => do some (← args.mapM valOf, ← blkOf blk)
  | _ => none

def exec : List Sexp → String
  | [.atom "calls", .list (.atom "lt" :: lt), .list (.atom "ds" :: ds), .list (.atom "seq" :: calls)] =>
    match envOf lt, calls.mapM callOf with
    | some env, some cs =>
      match ds.mapM (creatorOf env) with
      | none => "bad-op"
      | some crs =>
        match runSeq Alpha.inst Alpha.binst crs cs with
        | .builderRejected _ => "builder-rejected"
        | .resolveFailed .sizeError => "reported ILLEGAL_ARGUMENTS"
        | .called os => " | ".intercalate (os.map outcomeStr)
    | _, _ => "bad-op"
  | [.atom "newm", r, .list (.atom "args" :: args)] =>
    match recvTyOf r, args.mapM valOf with
    | some recv, some vs =>
      match newModel (fun cs => Pcore.Syntax.parseFloat cs) recv vs with
      | none => "bad-op"          -- a receiver whose constructor is not modelled
      | some (.value v) => "value " ++ valStr v
      | some (.reported c) => "reported " ++ c
      | some .fault => "fault"
    | _, _ => "bad-op"
  | [.atom "initinst", r, v] =>
    match recvTyOf r, valOf v with
    | some recv, some x =>
      match initIsInstance (fun cs => Pcore.Syntax.parseFloat cs) recv x with
      | .ok b => boolStr b
      | .error "UNMODELLED" => "bad-op"
      | .error c => "reported " ++ c
    | _, _ => "bad-op"
  | [.atom "initasg", .list (.atom "init" :: t :: ia), o] =>
    match tyOf [] 0 t, ia.mapM valOf, tyOf [] 0 o with
    | some ty, some ias, some oty =>
      match initIsAssignable (fun cs => Pcore.Syntax.parseFloat cs) ty ias oty with
      | .ok b => boolStr b
      | .error c => "reported " ++ c
    | _, _, _ => "bad-op"
  | [.atom "cancoerce", t, v] =>
    match tyOf [] 0 t, valOf v with
    | some ty, some x =>
      match canCoerce (fun cs => Pcore.Syntax.parseFloat cs) ty x with
      | .ok b => boolStr b
      | .error c => "reported " ++ c
    | _, _ => "bad-op"
  | [.atom "coerce", t, v] =>
    match tyOf [] 0 t, valOf v with
    | some ty, some x =>
      match coerceTo (fun cs => Pcore.Syntax.parseFloat cs) ty x with
      | .value r => "value " ++ valStr r
      | .reported "UNMODELLED" => "bad-op"    -- the coercion ended in a constructor that is not modelled
      | .reported c => "reported " ++ c
      | .fault => "fault"
    | _, _ => "bad-op"
  | [.atom "call", .list (.atom "lt" :: lt), .list (.atom "ds" :: ds), .list (.atom "args" :: args), blk] =>
    match envOf lt, blkOf blk, args.mapM valOf with
    | some env, some b, some vs =>
      match ds.mapM (creatorOf env) with
      | none => "bad-op"
      | some cs =>
        match run Alpha.inst Alpha.binst cs vs b with
        | .builderRejected _ => "builder-rejected"
        | .resolveFailed .sizeError => "reported ILLEGAL_ARGUMENTS"
        | .called (.ran i) => s!"ran {i}"
        | .called .reported => "reported ILLEGAL_ARGUMENTS"
    | _, _, _ => "bad-op"
  | _ => "bad-op"

end C16
