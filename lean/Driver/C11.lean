import Driver.Sexp
import Pcore.Model.Json
import Pcore.Generated.JsonTable
import Pcore.Generated.PbArms
/-! Driver ops for C11:  `json <ev>`, `pb <dval>`, `pbev <ev>` (syntax in harness/c11). -/
namespace C11
open Sx Pcore.Json

partial def evOf : Sexp → Option Ev
  | .list [.atom "i", n] => n.int?.map fun i => .sc (.int i)
  | .list [.atom "f", n] => n.nat?.map fun b => .sc (.flt b)
  | .list [.atom "s", s] => s.str?.map fun x => .sc (.str x)
  | .list [.atom "b", b] => b.bool?.map fun x => .sc (.bool x)
  | .list [.atom "u"] => some (.sc .null)
  | .list [.atom "r", n] => n.int?.map .ref
  | .list (.atom "a" :: es) => (es.mapM evOf).map .arr
  | .list (.atom "h" :: es) => (es.mapM evOf).map .hsh
  | _ => none

def scStr : Sc → String
  | .int i => s!"(i {i})" | .flt b => s!"(f {b})" | .str s => s!"(s {hexOfString s})"
  | .bool b => s!"(b {boolStr b})" | .null => "(u)"

partial def evStr : Ev → String
  | .sc s => scStr s
  | .ref n => s!"(r {n})"
  | .arr es => "(a" ++ String.join (es.map fun e => " " ++ evStr e) ++ ")"
  | .hsh es => "(h" ++ String.join (es.map fun e => " " ++ evStr e) ++ ")"

def tokStr : Tok → String
  | .lb => "[" | .rb => "]" | .lc => "{" | .rc => "}" | .comma => "," | .colon => ":"
  | .sc (.int i) => s!"i{i}" | .sc (.flt b) => s!"f{b}" | .sc (.str s) => "s" ++ hexOfString s
  | .sc (.bool b) => "b" ++ boolStr b | .sc .null => "u"
  | .bad _ => "?"

partial def dvalOf : Sexp → Option DVal
  | .list [.atom "i", n] => n.int?.map .int
  | .list [.atom "f", n] => n.nat?.map .flt
  | .list [.atom "s", s] => s.str?.map .str
  | .list [.atom "b", b] => b.bool?.map .bool
  | .list [.atom "u"] => some .undef
  | .list [.atom "x", s] => s.bytes?.map .bin
  | .list (.atom "a" :: es) => (es.mapM dvalOf).map .arr
  | .list (.atom "h" :: es) =>
      (es.mapM fun (e : Sexp) => match e with
        | Sexp.list [k, v] => do let k' ← dvalOf k; let v' ← dvalOf v; pure (k', v')
        | _ => none).map .hsh
  | _ => none

partial def dvalStr : DVal → String
  | .int i => s!"(i {i})" | .flt b => s!"(f {b})" | .str s => s!"(s {hexOfString s})"
  | .bool b => s!"(b {boolStr b})" | .undef => "(u)" | .bin bs => "(x x" ++ hexOfBytes bs ++ ")"
  | .arr vs => "(a" ++ String.join (vs.map fun e => " " ++ dvalStr e) ++ ")"
  | .hsh es => "(h" ++ String.join (es.map fun (k, v) => " (" ++ dvalStr k ++ " " ++ dvalStr v ++ ")") ++ ")"

/-- events as protobuf sees them -/
partial def pevOf : Sexp → Option PEv
  | .list [.atom "i", n] => n.int?.map fun i => .v (.int i)
  | .list [.atom "f", n] => n.nat?.map fun b => .v (.flt b)
  | .list [.atom "s", s] => s.str?.map fun x => .v (.str x)
  | .list [.atom "b", b] => b.bool?.map fun x => .v (.bool x)
  | .list [.atom "u"] => some (.v .undef)
  | .list [.atom "x", s] => s.bytes?.map fun x => .v (.bin x)
  | .list [.atom "r", n] => n.int?.map .ref
  | .list (.atom "a" :: es) => (es.mapM pevOf).map .arr
  | .list (.atom "h" :: es) => (es.mapM pevOf).map .hsh
  | _ => none

partial def pevStr : PEv → String
  | .v (.int i) => s!"(i {i})" | .v (.flt b) => s!"(f {b})" | .v (.str s) => s!"(s {hexOfString s})"
  | .v (.bool b) => s!"(b {boolStr b})" | .v .undef => "(u)" | .v (.bin bs) => "(x x" ++ hexOfBytes bs ++ ")"
  | .v _ => "?"
  | .ref n => s!"(r {n})"
  | .arr es => "(a" ++ String.join (es.map fun e => " " ++ pevStr e) ++ ")"
  | .hsh es => "(h" ++ String.join (es.map fun e => " " ++ pevStr e) ++ ")"

def exec : List Sexp → String
  | [.atom "json", e] =>
    match evOf e with
    | none => "bad-op"
    | some ev =>
      let toks := write Pcore.Generated.jsonTbl ev
      let rd := match read toks with | some e' => evStr e' | none => "err"
      " ".intercalate (toks.map tokStr) ++ " | " ++ rd
  | [.atom "pb", v] =>
    match dvalOf v with
    | none => "bad-op"
    | some dv =>
      let a := Pcore.Generated.pbArms
      let p := toPB a dv
      let viaStream := match protoConsume (consumePB a p) with | some p' => dvalStr (fromPB a p') | none => "fault"
      dvalStr (fromPB a p) ++ " | " ++ viaStream
  | [.atom "pbev", e] =>
    match pevOf e with
    | none => "bad-op"
    | some ev =>
      match protoConsume ev with
      | some p => pevStr (consumePB Pcore.Generated.pbArms p)
      | none => "fault"
  | _ => "bad-op"

end C11
