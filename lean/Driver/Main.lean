import Driver.Sexp
import Driver.Registry

/-
  Line protocol: every input line is `<PROPERTY> <op> <args…>`; the driver answers with exactly
  one line.  Unknown property / malformed line → `bad-op` (never a default answer).
-/
open Sx

def execLine (line : String) : String :=
  match parseAll line with
  | some (Sexp.atom p :: rest) =>
    match Registry.lookup p with
    | some f => f rest
    | none => "bad-op unknown-property"
  | _ => "bad-op unparsable"

partial def loop (hin : IO.FS.Stream) (hout : IO.FS.Stream) : IO Unit := do
  let line ← hin.getLine
  if line.isEmpty then
    hout.flush
    return ()
  hout.putStrLn (execLine line)
  loop hin hout

def main : IO Unit := do
  let hin ← IO.getStdin
  let hout ← IO.getStdout
  loop hin hout
