import Driver.Sexp
import Driver.DevC18
/-! scratch main for developing the C18 driver (not part of pcoredrv) -/
open Sx
def execLine18 (line : String) : String :=
  match parseAll line with
  | some (Sexp.atom "C18" :: rest) => DevC18.exec rest
  | _ => "bad-op unparsable"
partial def loop18 (hin hout : IO.FS.Stream) : IO Unit := do
  let line ← hin.getLine
  if line.isEmpty then hout.flush; return ()
  hout.putStrLn (execLine18 line)
  loop18 hin hout
def main : IO Unit := do loop18 (← IO.getStdin) (← IO.getStdout)
