import Driver.Sexp
import Pcore.Model.Reflect
/-! Driver op for C18:  `refl <go-type> <go-value>` (syntax in harness/c18/c18.go).  Structs are not modelled: the
    harness sends them as implementation-only `@refl` ops. -/
namespace C18
open Sx Pcore.Reflect

partial def tyOf : Sexp → Option GoTy
  | .atom "string" => some .string
  | .atom "bool" => some .bool
  | .atom "iface" => some .iface
  | .list [.atom "int", w] => w.nat?.map .int
  | .list [.atom "uint", w] => w.nat?.map .uint
  | .list [.atom "float", w] => w.nat?.map .float
  | .list [.atom "slice", e] => (tyOf e).map .slice
  | .list [.atom "ptr", e] => (tyOf e).map .ptr
  | .list [.atom "map", k, v] => do let k' ← tyOf k; let v' ← tyOf v; pure (.map k' v')
  | .list [.atom "array", n, e] => do let n' ← n.nat?; let e' ← tyOf e; pure (.array n' e')
  | _ => none

partial def valOf : GoTy → Sexp → Option GoVal
  | .int _, e => e.int?.map .int
  | .uint _, e => e.int?.map .int
  | .float _, e => e.nat?.map .flt
  | .string, e => e.str?.map .str
  | .bool, e => e.bool?.map .bool
  | .iface, .atom "nil" => some .nil
  | .iface, .list [.atom "i", t, v] => do let t' ← tyOf t; let v' ← valOf t' v; pure (.iface t' v')
  | .slice _, .atom "nil" => some .nil
  | .slice e, .list (.atom "s" :: xs) => (xs.mapM (valOf e)).map .slice
  | .array _ e, .list (.atom "a" :: xs) => (xs.mapM (valOf e)).map .arr
  | .map _ _, .atom "nil" => some .nil
  | .map k v, .list (.atom "m" :: es) =>
      (es.mapM fun (e : Sexp) => match e with
        | Sexp.list [a, b] => do let a' ← valOf k a; let b' ← valOf v b; pure (a', b')
        | _ => none).map .map
  | .ptr _, .atom "nil" => some .nil
  | .ptr e, .list [.atom "p", x] => (valOf e x).map .ptr
  | _, _ => none

def paren (xs : List String) : String := "(" ++ " ".intercalate xs ++ ")"

partial def tyStr : GoTy → String
  | .int w => s!"(int {w})" | .uint w => s!"(uint {w})" | .float w => s!"(float {w})"
  | .string => "string" | .bool => "bool" | .iface => "iface"
  | .slice e => paren ["slice", tyStr e] | .ptr e => paren ["ptr", tyStr e]
  | .map k v => paren ["map", tyStr k, tyStr v]
  | .array n e => paren ["array", toString n, tyStr e]

partial def goStr : GoVal → String
  | .int i => toString i | .flt b => toString b | .str s => hexOfString s | .bool b => boolStr b
  | .nil => "nil"
  | .slice es => paren ("s" :: es.map goStr)
  | .arr es => paren ("a" :: es.map goStr)
  | .map es => paren ("m" :: es.map fun kv => paren [goStr kv.1, goStr kv.2])
  | .ptr v => paren ["p", goStr v]
  | .iface t v => paren ["i", tyStr t, goStr v]

partial def valStr : Val → String
  | .int i => s!"(i {i})" | .flt b => s!"(f {b})" | .str s => s!"(s {hexOfString s})" | .bool b => s!"(b {boolStr b})"
  | .undef => "(u)"
  | .bin _ bs => "(x x" ++ hexOfBytes (bs.map fun i => UInt8.ofNat i.toNat) ++ ")"
  | .arr es => paren ("a" :: es.map valStr)
  | .hsh es => paren ("h" :: es.map fun kv => paren [valStr kv.1, valStr kv.2])

partial def ptyStr : Ty → String
  | .int lo hi => s!"(int {lo} {hi})" | .float w => s!"(float {w})" | .str => "str" | .bool => "bool"
  | .array e => paren ["array", ptyStr e] | .hash k v => paren ["hash", ptyStr k, ptyStr v]
  | .opt t => paren ["opt", ptyStr t] | .bin => "bin" | .any => "any"

/-- Go's float64 → float32 → float64 on bits (trusted: Lean's runtime uses the same IEEE conversion) -/
def r32 (b : Nat) : Nat := (Float.ofBits b.toUInt64).toFloat32.toFloat.toBits.toNat

/-- tag `puppet:"name=>'x', value=>LIT"` (either item optional; LIT = integer, 'string', true, false) -/
def splitOn2 (s sep : String) : List String := (s.splitOn sep)

def litOf (s : String) : Option Val :=
  if s == "true" then some (.bool true) else if s == "false" then some (.bool false)
  else if s.startsWith "'" && s.endsWith "'" && s.length ≥ 2 then
    some (.str (String.ofList ((s.toList.drop 1).take (s.length - 2))))
  else s.toInt?.map .int

def tagItems (t : String) : Option (Option String × Option Val) :=
  let pre := "puppet:\""
  let suf := "\""
  if !(t.startsWith pre && t.endsWith suf && t.length ≥ pre.length + suf.length) then none else
  let body := String.ofList ((t.toList.drop pre.length).take (t.length - pre.length - suf.length))
  (splitOn2 body ", ").foldlM (fun (acc : Option String × Option Val) item =>
    if item.startsWith "name=>" then
      match litOf (item.drop 6).toString with
      | some (.str n) => some (some n, acc.2)
      | _ => none
    else if item.startsWith "value=>" then
      (litOf (item.drop 7).toString).map fun d => (acc.1, some d)
    else none) (none, none)

def lowerFirst (goName : String) : Option String :=
  match goName.toList with
  | c :: r => some (String.ofList (c.toLower :: r))
  | [] => none

def fieldOf : Sexp → Option Field
  | .list [.atom n, t] => do let ty ← tyOf t; let a ← lowerFirst n; pure { name := a, ty := ty }
  | .list [.atom n, t, tag] => do
      let ty ← tyOf t
      let tg ← tag.str?
      let (nm, d) ← tagItems tg
      let a ← (match nm with | some x => some x | none => lowerFirst n)
      pure { name := a, ty := ty, dflt := d }
  | _ => none

def zipVals : List Field → List Sexp → Option (List (Field × GoVal))
  | [], [] => some []
  | f :: fs, v :: vs => do let gv ← valOf f.ty v; let r ← zipVals fs vs; pure ((f, gv) :: r)
  | _, _ => none

def variantStr (name : String) (orig : List GoVal) : Option (List GoVal) → String
  | some back => s!" | {name}=ok back={paren ("st" :: back.map goStr)} eq={boolStr ((back.map goStr) == (orig.map goStr))}"
  | none => s!" | {name}=reported PCORE_ILLEGAL_ARGUMENTS"

def isHsh : Val → Bool | .hsh _ => true | _ => false

def singleHash : List Val → Bool
  | [w] => isHsh w
  | _ => false

def exec : List Sexp → String
  | [.atom "obj", .list (.atom "struct" :: fsx), .list (.atom "st" :: vsx)] =>
    match fsx.mapM fieldOf with
    | none => "bad-op"
    | some fs =>
      match zipVals fs vsx with
      | none => "bad-op"
      | some fvs =>
        if fs.isEmpty || !(fvs.all fun fv => flatField fv.1 && hasType fv.1.ty fv.2) then "bad-op" else
        let ih := initHash fvs
        let full := fullHash fvs
        let attrs := attrOrder (·.1) fvs
        let afs := attrs.map (·.1)
        let orig := fvs.map (·.2)
        let pos := attrs.map fieldVal
        let trim := trimDefaults afs pos
        let ambiguous (h : List (Val × Val)) := match attrs with
          | fv :: _ => inst (typeOf fv.1.ty) (.hsh h)
          | [] => false
        valStr (.hsh ih)
          ++ (if singleHash pos then "" else variantStr "pos" orig (newPos r32 fs pos))
          ++ (if trim.length < pos.length && !singleHash trim then variantStr "postrim" orig (newPos r32 fs trim) else "")
          ++ (if ambiguous ih then "" else variantStr "named" orig (newNamed r32 fs ih))
          ++ (if ih.length != full.length && !ambiguous full then variantStr "full" orig (newNamed r32 fs full) else "")
  | [.atom "refl", t, v] =>
    match tyOf t with
    | none => "bad-op"
    | some ty =>
      match valOf ty v with
      | none => "bad-op"
      | some gv =>
        if !(Modelled ty && hasType ty gv) then "bad-op" else
        let w := wrap true ty gv
        let pt := typeOf ty
        let back := match reflectTo r32 ty w with
          | some b => s!"back={goStr b} eq={boolStr (goStr b == goStr gv)}"
          | none => "back=fault eq=f"
        s!"{valStr w} | {ptyStr pt} | inst={boolStr (inst pt w)} | {back}"
  | _ => "bad-op"

end C18
