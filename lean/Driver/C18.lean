import Driver.Sexp
import Pcore.Model.Reflect
/-! Driver op for C18:  `refl <go-type> <go-value>` (syntax in harness/c18/c18.go).  Structs are not modelled: the
    harness sends them as implementation-only `@refl` ops. -/
namespace C18
open Sx Pcore.Reflect

partial def tyOf : Sexp → Option GoTy
  | .atom "string" => some .string
  | .atom "bool" => some .bool
  | .atom "iface" => some .iface
  | .list [.atom "int", w] => w.nat?.map .int
  | .list [.atom "uint", w] => w.nat?.map .uint
  | .list [.atom "float", w] => w.nat?.map .float
  | .list [.atom "slice", e] => (tyOf e).map .slice
  | .list [.atom "ptr", e] => (tyOf e).map .ptr
  | .list [.atom "map", k, v] => do let k' ← tyOf k; let v' ← tyOf v; pure (.map k' v')
  | .list [.atom "array", n, e] => do let n' ← n.nat?; let e' ← tyOf e; pure (.array n' e')
  | _ => none

partial def valOf : GoTy → Sexp → Option GoVal
  | .int _, e => e.int?.map .int
  | .uint _, e => e.int?.map .int
  | .float _, e => e.nat?.map .flt
  | .string, e => e.str?.map .str
  | .bool, e => e.bool?.map .bool
  | .iface, .atom "nil" => some .nil
  | .iface, .list [.atom "i", t, v] => do let t' ← tyOf t; let v' ← valOf t' v; pure (.iface t' v')
  | .slice _, .atom "nil" => some .nil
  | .slice e, .list (.atom "s" :: xs) => (xs.mapM (valOf e)).map .slice
  | .array _ e, .list (.atom "a" :: xs) => (xs.mapM (valOf e)).map .arr
  | .map _ _, .atom "nil" => some .nil
  | .map k v, .list (.atom "m" :: es) =>
      (es.mapM fun (e : Sexp) => match e with
        | Sexp.list [a, b] => do let a' ← valOf k a; let b' ← valOf v b; pure (a', b')
        | _ => none).map .map
  | .ptr _, .atom "nil" => some .nil
  | .ptr e, .list [.atom "p", x] => (valOf e x).map .ptr
  | _, _ => none

def paren (xs : List String) : String := "(" ++ " ".intercalate xs ++ ")"

partial def tyStr : GoTy → String
  | .int w => s!"(int {w})" | .uint w => s!"(uint {w})" | .float w => s!"(float {w})"
  | .string => "string" | .bool => "bool" | .iface => "iface"
  | .slice e => paren ["slice", tyStr e] | .ptr e => paren ["ptr", tyStr e]
  | .map k v => paren ["map", tyStr k, tyStr v]
  | .array n e => paren ["array", toString n, tyStr e]

partial def goStr : GoVal → String
  | .int i => toString i | .flt b => toString b | .str s => hexOfString s | .bool b => boolStr b
  | .nil => "nil"
  | .slice es => paren ("s" :: es.map goStr)
  | .arr es => paren ("a" :: es.map goStr)
  | .map es => paren ("m" :: es.map fun kv => paren [goStr kv.1, goStr kv.2])
  | .ptr v => paren ["p", goStr v]
  | .iface t v => paren ["i", tyStr t, goStr v]

partial def valStr : Val → String
  | .int i => s!"(i {i})" | .flt b => s!"(f {b})" | .str s => s!"(s {hexOfString s})" | .bool b => s!"(b {boolStr b})"
  | .undef => "(u)"
  | .bin _ bs => "(x x" ++ hexOfBytes (bs.map fun i => UInt8.ofNat i.toNat) ++ ")"
  | .arr es => paren ("a" :: es.map valStr)
  | .hsh es => paren ("h" :: es.map fun kv => paren [valStr kv.1, valStr kv.2])

partial def ptyStr : Ty → String
  | .int lo hi => s!"(int {lo} {hi})" | .float w => s!"(float {w})" | .str => "str" | .bool => "bool"
  | .array e => paren ["array", ptyStr e] | .hash k v => paren ["hash", ptyStr k, ptyStr v]
  | .opt t => paren ["opt", ptyStr t] | .bin => "bin" | .any => "any"

/-- Go's float64 → float32 → float64 on bits (trusted: Lean's runtime uses the same IEEE conversion) -/
def r32 (b : Nat) : Nat := (Float.ofBits b.toUInt64).toFloat32.toFloat.toBits.toNat

/-- attribute name of a field: the tag `puppet:"name=>'x'"` or the Go name with its first letter in lower case -/
def attrName (goName : String) (tag : Option String) : Option String :=
  match tag with
  | none => match goName.toList with
    | c :: r => some (String.ofList (c.toLower :: r))
    | [] => none
  | some t =>
    let pre := "puppet:\"name=>'"
    let suf := "'\""
    if t.startsWith pre && t.endsWith suf && t.length > pre.length + suf.length then
      some (String.ofList ((t.toList.drop pre.length).take (t.length - pre.length - suf.length)))
    else none

def fieldOf : Sexp → Option Field
  | .list [.atom n, t] => do let ty ← tyOf t; let a ← attrName n none; pure ⟨a, ty⟩
  | .list [.atom n, t, tag] => do let ty ← tyOf t; let tg ← tag.str?; let a ← attrName n (some tg); pure ⟨a, ty⟩
  | _ => none

def zipVals : List Field → List Sexp → Option (List (Field × GoVal))
  | [], [] => some []
  | f :: fs, v :: vs => do let gv ← valOf f.ty v; let r ← zipVals fs vs; pure ((f, gv) :: r)
  | _, _ => none

def variantStr (name : String) (orig : List GoVal) : Option (List GoVal) → String
  | some back => s!" | {name}=ok back={paren ("st" :: back.map goStr)} eq={boolStr ((back.map goStr) == (orig.map goStr))}"
  | none => s!" | {name}=reported PCORE_ILLEGAL_ARGUMENTS"

def exec : List Sexp → String
  | [.atom "obj", .list (.atom "struct" :: fsx), .list (.atom "st" :: vsx)] =>
    match fsx.mapM fieldOf with
    | none => "bad-op"
    | some fs =>
      match zipVals fs vsx with
      | none => "bad-op"
      | some fvs =>
        if fs.isEmpty || !(fvs.all fun fv => flatField fv.1 && hasType fv.1.ty fv.2) then "bad-op" else
        let ih := initHash fvs
        let attrs := attrOrder fvs
        let orig := fvs.map (·.2)
        let posSkip := match attrs with
          | [fv] => (match fieldVal fv with | .hsh _ => true | _ => false)
          | _ => false
        let namedSkip := match attrs with
          | fv :: _ => inst (typeOf fv.1.ty) (.hsh ih)
          | [] => false
        valStr (.hsh ih)
          ++ (if posSkip then "" else variantStr "pos" orig (newPos r32 fvs))
          ++ (if namedSkip then "" else variantStr "named" orig (newNamed r32 fs ih))
  | [.atom "refl", t, v] =>
    match tyOf t with
    | none => "bad-op"
    | some ty =>
      match valOf ty v with
      | none => "bad-op"
      | some gv =>
        if !(Modelled ty && hasType ty gv) then "bad-op" else
        let w := wrap true ty gv
        let pt := typeOf ty
        let back := match reflectTo r32 ty w with
          | some b => s!"back={goStr b} eq={boolStr (goStr b == goStr gv)}"
          | none => "back=fault eq=f"
        s!"{valStr w} | {ptyStr pt} | inst={boolStr (inst pt w)} | {back}"
  | _ => "bad-op"

end C18
