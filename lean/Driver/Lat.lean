import Driver.Sexp
import Pcore.Model.Rx
import Pcore.Model.LatticeInst
import Pcore.Model.LatticeStrRaw
import Pcore.Model.TypesLat
import Driver.Syntax
/-!
  Shared driver code of the lattice properties C01 C02 C03 C04 C19: parser / printer of type and value terms (the
  syntax is specified in harness/lat/doc.go — the contract between the two sides) and the op table.
  `(alias T)` is read as `T` (the model sees the expansion of non-recursive aliases).
-/
namespace Lat
open Sx Pcore.Lat

/-- the concrete instance of the model's parameters used by the driver -/
def cfg : Cfg := { rxMatch := Pcore.Rx.rxMatch, lower := Pcore.Rx.lowerAscii }

/-- the code has the Struct-from-Hash rule switched on -/
def sfh : Bool := true

/-! ### floats: exact dyadics scaled by 2^1074 -/
def flOf : Sexp → Option Fl
  | .atom "inf" => some Fl.inf
  | .atom "-inf" => some (-Fl.inf)
  | .list [m, e] => do
      let m ← m.int?
      let e ← e.int?
      if e + 1074 < 0 then none else some (m * 2 ^ (e + 1074).toNat)
  | _ => none

/-- strip factors of two (fuel = bit length bound) -/
def stripTwos : Nat → Int → Int → Int × Int
  | 0, m, e => (m, e)
  | n + 1, m, e => if m % 2 == 0 && m != 0 then stripTwos n (m / 2) (e + 1) else (m, e)

def flStr (z : Fl) : String :=
  if z == 0 then "(0 0)"
  else if z ≥ Fl.inf then "inf"
  else if z ≤ -Fl.inf then "-inf"
  else
    let (m, e) := stripTwos 2300 z (-1074)
    s!"({m} {e})"

/-! ### terms -/
def rngOf (lo hi : Sexp) : Option Rng := do
  let l ← lo.int?
  let h ← hi.int?
  pure ⟨l, h⟩

/-- an instant travels as (seconds since 0001-01-01T00:00:00Z, nanoseconds 0..999999999); the model counts nanoseconds -/
def instantOf (s n : Sexp) : Option Int := do
  let s' ← s.int?
  let n' ← n.int?
  if n' < 0 || n' > 999999999 then none else some (s' * 1000000000 + n')

def instantStr (z : Int) : String := s!"{Int.ediv z 1000000000} {Int.emod z 1000000000}"

/-- `(txt <utf-8 bytes>)`: the type a type EXPRESSION denotes — `Context.ParseType` as the syntax model (C05) has it, then
    carried over to the lattice terms -/
def tyOfText (e : Sexp) : Option Ty :=
  e.bytes?.bind fun bs =>
    (Pcore.Syntax.parseType (Syn.mkEnv []) (Pcore.Syntax.decodeUtf8 bs)).bind Pcore.Syntax.Ty.toLat

mutual
partial def tyOf : Sexp → Option Ty
  | .list [.atom "txt", s] => tyOfText s
  | .atom "any" => some .any
  | .atom "unit" => some .unit
  | .atom "undef" => some .undef
  | .atom "default" => some .dflt
  | .atom "scalar" => some .scalar
  | .atom "sdata" => some .scalarData
  | .atom "numeric" => some .numeric
  | .atom "data" => some .data
  | .atom "rdata" => some .richData
  | .atom "str" => some .str
  | .atom "bin" => some .bin
  | .list [.atom "alias", t] => tyOf t
  | .list [.atom "int", lo, hi] => (rngOf lo hi).map .int
  | .list [.atom "flt", lo, hi] => do
      let l ← flOf lo
      let h ← flOf hi
      pure (.float l h)
  | .list [.atom "bool", .atom "n"] => some (.bool none)
  | .list [.atom "bool", b] => b.bool?.map fun x => .bool (some x)
  | .list [.atom "tspan", lo, hi] => (rngOf lo hi).map .tspan
  | .list [.atom "tstamp", s1, n1, s2, n2] => do
      let lo ← instantOf s1 n1
      let hi ← instantOf s2 n2
      pure (.tstamp ⟨lo, hi⟩)
  | .list [.atom "strsz", lo, hi] => (rngOf lo hi).map .strSz
  | .list [.atom "strraw", lo, hi] => (rngOf lo hi).map mkStrRaw  -- NewStringType(Integer[lo,hi], ""): clamp, then the default test
  | .list [.atom "strval", s] => s.str?.map .strVal
  | .list (.atom "enum" :: ci :: vs) => do
      let c ← ci.bool?
      let xs ← vs.mapM Sexp.str?
      pure (.enum xs c)
  | .list (.atom "enumraw" :: ci :: vs) => do
      -- NewEnumType(values as given, ci): lower-cased when case-insensitive, no values = the default Enum (`mkEnum`)
      let c ← ci.bool?
      let xs ← vs.mapM Sexp.str?
      pure (mkEnum cfg xs c)
  | .list (.atom "pat" :: rs) => (rs.mapM Sexp.str?).map .pattern
  | .list [.atom "rx", s] => s.str?.map .regexp
  | .list [.atom "coll", lo, hi] => (rngOf lo hi).map .coll
  | .list [.atom "arr", t, lo, hi] => do
      let e ← tyOf t
      let r ← rngOf lo hi
      pure (.array e r)
  | .list [.atom "hash", k, v, lo, hi] => do
      let k' ← tyOf k
      let v' ← tyOf v
      let r ← rngOf lo hi
      pure (.hash k' v' r)
  | .list [.atom "tup", .list ts, .atom "none"] => (ts.mapM tyOf).map fun xs => .tuple xs none
  | .list [.atom "tup", .list ts, .list [lo, hi]] => do
      let xs ← ts.mapM tyOf
      let r ← rngOf lo hi
      pure (.tuple xs (some r))
  | .list (.atom "struct" :: ms) =>
      (ms.mapM fun (m : Sexp) => match m with
        | .list [n, o, t] => do
            let n' ← n.str?
            let o' ← o.bool?
            let t' ← tyOf t
            pure ((n', o', t') : Member)
        | _ => none).map .struct
  | .list (.atom "var" :: ts) => (ts.mapM tyOf).map .variant
  | .list [.atom "opt", t] => (tyOf t).map .optional
  | .list [.atom "nu", t] => (tyOf t).map .notUndef
  | .list [.atom "type", t] => (tyOf t).map .typ
  | .list [.atom "sens", t] => (tyOf t).map .sensitive
  | .list [.atom "itr", t] => (tyOf t).map .iterator
  | .list [.atom "call", p, r, b] => do
      let p' ← optTyOf p
      let r' ← optTyOf r
      let b' ← optTyOf b
      pure (.callable p' r' b')
  | .list [.atom "rt", r, n, .atom "none"] => do
      let r' ← r.str?
      let n' ← n.str?
      pure (.runtime r' n' none)
  | .list [.atom "rt", r, n, .list [p]] => do
      let r' ← r.str?
      let n' ← n.str?
      let p' ← p.str?
      pure (.runtime r' n' (some p'))
  | .list [.atom "iter", t] => (tyOf t).map .iterable
  | .list [.atom "obj"] => some (.object none)
  | .list (.atom "obj" :: ns) => (ns.mapM Sexp.nat?).map fun p => .object (some p)
  | _ => none

/-- an optional part of a Callable: `none` or `(T)` -/
partial def optTyOf : Sexp → Option (Option Ty)
  | .atom "none" => some none
  | .list [t] => (tyOf t).map some
  | _ => none
end

def rngStr (r : Rng) : String := s!"{r.lo} {r.hi}"

partial def tyStr : Ty → String
  | .any => "any" | .unit => "unit" | .undef => "undef" | .dflt => "default" | .scalar => "scalar"
  | .scalarData => "sdata" | .numeric => "numeric" | .data => "data" | .richData => "rdata" | .str => "str" | .bin => "bin"
  | .int r => s!"(int {rngStr r})"
  | .float l h => s!"(flt {flStr l} {flStr h})"
  | .bool none => "(bool n)"
  | .bool (some b) => s!"(bool {boolStr b})"
  | .tspan r => s!"(tspan {rngStr r})"
  | .tstamp r => s!"(tstamp {instantStr r.lo} {instantStr r.hi})"
  | .strSz r => s!"(strsz {rngStr r})"
  | .strVal s => s!"(strval {hexOfString s})"
  | .enum vs ci => "(enum " ++ boolStr ci ++ String.join (vs.map fun v => " " ++ hexOfString v) ++ ")"
  | .pattern rs => "(pat" ++ String.join (rs.map fun v => " " ++ hexOfString v) ++ ")"
  | .regexp s => s!"(rx {hexOfString s})"
  | .coll r => s!"(coll {rngStr r})"
  | .array e r => s!"(arr {tyStr e} {rngStr r})"
  | .hash k v r => s!"(hash {tyStr k} {tyStr v} {rngStr r})"
  | .tuple ts g =>
      "(tup (" ++ " ".intercalate (ts.map tyStr) ++ ") " ++ (match g with | none => "none" | some r => s!"({rngStr r})") ++ ")"
  | .struct ms =>
      "(struct" ++ String.join (ms.map fun (n, o, t) => s!" ({hexOfString n} {boolStr o} {tyStr t})") ++ ")"
  | .variant ts => "(var" ++ String.join (ts.map fun t => " " ++ tyStr t) ++ ")"
  | .optional t => s!"(opt {tyStr t})"
  | .notUndef t => s!"(nu {tyStr t})"
  | .typ t => s!"(type {tyStr t})"
  | .sensitive t => s!"(sens {tyStr t})"
  | .iterator t => s!"(itr {tyStr t})"
  | .callable p r b =>
      let o := fun (x : Option Ty) => match x with | none => "none" | some t => s!"({tyStr t})"
      s!"(call {o p} {o r} {o b})"
  | .runtime r n none => s!"(rt {hexOfString r} {hexOfString n} none)"
  | .runtime r n (some p) => s!"(rt {hexOfString r} {hexOfString n} ({hexOfString p}))"
  | .iterable t => s!"(iter {tyStr t})"
  | .object none => "(obj)"
  | .object (some p) => "(obj" ++ String.join (p.map fun n => s!" {n}") ++ ")"

partial def valOf : Sexp → Option Val
  | .atom "undef" => some .undef
  | .atom "default" => some .dflt
  | .list [.atom "b", b] => b.bool?.map .bool
  | .list [.atom "i", n] => n.int?.map .int
  | .list [.atom "f", f] => (flOf f).map .float
  | .list [.atom "s", s] => s.str?.map .str
  | .list [.atom "rxv", s] => s.str?.map .regexp
  | .list [.atom "binv", s] => s.bytes?.map .binary
  | .list [.atom "ts", n] => n.int?.map .tspan
  | .list [.atom "tsv", s, n] => (instantOf s n).map .tstamp
  | .list (.atom "a" :: vs) => (vs.mapM valOf).map .array
  | .list (.atom "h" :: es) =>
      (es.mapM fun (e : Sexp) => match e with
        | .list [k, v] => do
            let k' ← valOf k
            let v' ← valOf v
            pure (k', v')
        | _ => none).map .hash
  | .list [.atom "sv", v] => (valOf v).map .sensitive
  | .list [.atom "t", t] => (tyOf t).map .typ
  | .list (.atom "o" :: ns) => if ns.isEmpty then none else (ns.mapM Sexp.nat?).map .obj
  | _ => none

def b2 (b : Bool) : String := boolStr b

/-- every pattern source of the term must be in the mini regexp language (otherwise the op is refused) -/
partial def rxOk : Ty → Bool
  | .pattern rs => rs.all fun r => (Pcore.Rx.parse r).isSome
  | .array e _ => rxOk e
  | .hash k v _ => rxOk k && rxOk v
  | .tuple ts _ => ts.all rxOk
  | .struct ms => ms.all fun m => rxOk m.2.2
  | .variant ts => ts.all rxOk
  | .optional t | .notUndef t | .typ t | .sensitive t | .iterable t | .iterator t => rxOk t
  | .callable p r b => (p.map rxOk).getD true && (r.map rxOk).getD true && (b.map rxOk).getD true
  | _ => true

def ty? (e : Sexp) : Option Ty := do
  let t ← tyOf e
  if rxOk t then some t else none

partial def valRxOk : Val → Bool
  | .array vs => vs.all valRxOk
  | .hash es => es.all fun e => valRxOk e.1 && valRxOk e.2
  | .sensitive v => valRxOk v
  | .typ t => rxOk t
  | _ => true

def val? (e : Sexp) : Option Val := do
  let v ← valOf e
  if valRxOk v then some v else none

/-- the op table (harness/lat/doc.go) -/
def exec : List Sexp → String
  | [.atom "asg", a, b] =>
    match ty? a, ty? b with
    | some a, some b => b2 (asg cfg sfh a b)
    | _, _ => "bad-op"
  | [.atom "inst", t, v] =>
    match ty? t, val? v with
    | some t, some v => b2 (inst cfg sfh t v)
    | _, _ => "bad-op"
  | [.atom "sound", a, b, v] =>
    match ty? a, ty? b, val? v with
    | some a, some b, some v => s!"{b2 (asg cfg sfh a b)} {b2 (inst cfg sfh b v)} {b2 (inst cfg sfh a v)}"
    | _, _, _ => "bad-op"
  | [.atom "eq", a, b] =>
    match ty? a, ty? b with
    | some a, some b => b2 (tyEq a b)
    | _, _ => "bad-op"
  | [.atom "trans", a, b, c] =>
    match ty? a, ty? b, ty? c with
    | some a, some b, some c => s!"{b2 (asg cfg sfh a b)} {b2 (asg cfg sfh b c)} {b2 (asg cfg sfh a c)}"
    | _, _, _ => "bad-op"
  | [.atom "imp", a, b, a2, b2'] =>
    match ty? a, ty? b, ty? a2, ty? b2' with
    | some a, some b, some a2, some b2' => s!"{b2 (asg cfg sfh a b)} {b2 (asg cfg sfh a2 b2')}"
    | _, _, _, _ => "bad-op"
  | [.atom "ptype", v] =>
    match val? v with
    | some v => tyStr (ptype cfg sfh v)
    | none => "bad-op"
  | [.atom "dtype", v] =>
    match val? v with
    | some v => tyStr (dtype cfg sfh v)
    | none => "bad-op"
  | [.atom "common", a, b] =>
    match ty? a, ty? b with
    | some a, some b => tyStr (commonType cfg sfh a b)
    | _, _ => "bad-op"
  | [.atom "gen", t] =>
    match ty? t with
    | some t => tyStr (generalize t)
    | none => "bad-op"
  | [.atom "infer", t, v] =>
    match ty? t, val? v with
    | some t, some v => s!"{b2 (inst cfg sfh t v)} {b2 (asg cfg sfh t (dtype cfg sfh v))}"
    | _, _ => "bad-op"
  | [.atom "desc", e, a] =>
    match ty? e, ty? a with
    | some e, some a => if descEmpty cfg sfh e a then "empty" else "nonempty"
    | _, _ => "bad-op"
  | [.atom "assert", t, v] =>
    match ty? t, val? v with
    | some t, some v => if assertOk cfg sfh t v then "ok" else "reported PCORE_TYPE_MISMATCH"
    | _, _ => "bad-op"
  | [.atom "rxmatch", src, s] =>
    match src.str?, s.str? with
    | some src, some s => if (Pcore.Rx.parse src).isSome then b2 (Pcore.Rx.rxMatch src s) else "bad-op"
    | _, _ => "bad-op"
  | _ => "bad-op"

/-- a `(txt …)` argument whose text is not a type expression of the modelled fragment (the implementation refuses it, or it
    lies outside the fragment): the op is answered `unbuildable` on both sides -/
def badText : Sexp → Bool
  | .list [.atom "txt", s] => (tyOfText s).isNone
  | _ => false

/-- restrict the shared table to the ops a property uses -/
def execOnly (ops : List String) : List Sexp → String
  | .atom op :: rest =>
    if !ops.contains op then "bad-op"
    else if rest.any badText then "unbuildable"
    else exec (.atom op :: rest)
  | _ => "bad-op"

end Lat
