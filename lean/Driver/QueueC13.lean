import Driver.Sexp
import Pcore.Model.ConcQueue
import Pcore.Generated.QueueSites
/-! Driver ops of C13 for the declare / resolve queue: `declq (pend N) (threads (th STEP*)…) (sched T*)` and `queuerace`
    — syntax and output in harness/c13/declq.go.  The model is configured from the regenerated table of sites. -/
namespace QueueC13
open Sx Pcore.ConcQueue

def evStr : Ev → String
  | .bind x => s!"b{x}"
  | .res x => s!"r{x}"

def ansStr : Ans → String
  | .declared x => s!"d{x}"
  | .resolved ev => "res(" ++ " ".intercalate (ev.map evStr) ++ ")"
  | .fault ev => "fault(" ++ " ".intercalate (ev.map evStr) ++ ")"

def opOf : Sexp → Option QOp
  | .atom "decl" => some .decl
  | .atom "resolve" => some .resolve
  | _ => none

def logsStr (ths : List Thread) : String :=
  let rec go (i : Nat) : List Thread → List String
    | [] => []
    | t :: r => s!"{i}:[{" ; ".intercalate (t.log.map ansStr)}]" :: go (i + 1) r
  " ".intercalate (go 0 ths)

/-- the queue left at the end and, per declared item, how often it was bound / resolved -/
def finalStr (sh : Shared) : String :=
  "q=(" ++ " ".intercalate ((qItems sh).map toString) ++ ")" ++
    String.join ((List.range sh.next).map fun x => s!" {x}={sh.bound.count x}/{sh.resolved.count x}")

def declqExec (pend : Sexp) (ths sch : List Sexp) : String :=
  match pend.nat?, ths.mapM (fun t => match t with
      | .list (.atom "th" :: ops) => ops.mapM opOf
      | _ => none), sch.mapM Sexp.nat? with
  | some n, some (p :: progs), some sched =>
    if n > 64 then "bad-op" else
    let c := execute (Cfg.ofTable Pcore.Generated.queueSites) n (p :: progs) sched
    logsStr c.th ++ " | " ++ finalStr c.sh
  | _, _, _ => "bad-op"

def kindStr : SiteKind → String
  | .append => "appends to" | .escape => "hands out" | .fresh => "re-allocates" | .reslice => "re-slices"
  | .read => "reads" | .write => "writes into" | .unknown => "uses (in a way the analysis does not understand)"

def rebindStr : Rebind → String
  | .na => "" | .none => " and leaves the guarded variable as it is (the live slice itself escapes the critical section)"
  | .fresh => " and re-points the guarded variable at a new array"
  | .freshIfNonEmpty => " and re-points the guarded variable at a new array when the slice is not empty"
  | .reslice => " and leaves a re-slicing of the SAME backing array in the guarded variable (the next append overwrites what the receiver is still reading)"
  | .unknown => " and re-assigns the guarded variable in a way the analysis does not understand"

/-- `queuerace`: `none` when every site of the guarded package-level slices follows the escape discipline, otherwise the
    offending site (the implementation side always answers `none`) -/
def queuerace : String :=
  match siteOffender Pcore.Generated.queueSites with
  | none => "none"
  | some s => s!"undisciplined: {s.fn} {kindStr s.kind} {s.var}{rebindStr s.rebind} holding [{" ".intercalate s.held}]"

def exec : List Sexp → Option String
  | [.atom "queuerace"] => some queuerace
  | [.atom "declq", .list [.atom "pend", n], .list (.atom "threads" :: ths), .list (.atom "sched" :: sch)] => some (declqExec n ths sch)
  | _ => none

end QueueC13
