import Driver.Lat
import Pcore.Model.DescribeSig
/-!
  Driver op of C19 for the STRUCTURE of the mismatch description (syntax in harness/c19/descs.go):

    descs E A          → empty | fault | <ITEM> … ;; <item> …    one ITEM per mismatch of px.VerifDescribe("x", E, A) (the structured result:
                                                               tm / pm carry the FULL expected and actual type terms), then one item
                                                               per line of px.DescribeMismatch("x", E, A) (tm / pm carry head names)
    descx E A K PATH   → the same line (K and PATH — the mismatch the generator planted — are read by the harness only)

    item ::= (tm PATH (HEAD*) HEAD) | (pm PATH t|f HEAD HEAD) | (sz PATH LO HI LO HI) | (cnt PATH LO HI LO HI)
           | (mk PATH xKEY) | (xk PATH xKEY) | (utr PATH xKEY) | (ub PATH) | (mrb PATH)
    PATH ::= (ELEM*)     ELEM ::= (s xKEY) | (e xKEY) | (k xKEY) | (p xKEY) | (r xKEY) | (b xKEY) | (i xKEY) | (v xKEY) | (g xKEY)

  Canonicalisation (both sides): a run of consecutive `xk` items with the same path is sorted by key (Go map order).
  A term with a user alias `(alias T)` is read as the one-member Variant `(var T)` — the model's alias marker — and answers with the
  structure only (payloads with the aliases expanded); a Struct member name with a quote or a line break answers `unsafe-key` (the harness reads the structure back from the
  printed text).
-/
namespace DescC19
open Sx Pcore.Lat Pcore.Desc

partial def hasAlias : Sexp → Bool
  | .atom _ => false
  | .list (.atom "alias" :: _) => true
  | .list xs => xs.any hasAlias

/-- `(alias T)` is read as the one-member Variant `(var T)`: the model's marker of a user alias (header of Pcore/Model/Describe.lean) -/
partial def aliasAsVar : Sexp → Sexp
  | .atom a => .atom a
  | .list [.atom "alias", t] => .list [.atom "var", aliasAsVar t]
  | .list xs => .list (xs.map aliasAsVar)

/-- payloads are printed with the aliases expanded (as the harness encoder prints live types) -/
partial def expandAlias : Ty → Ty
  | .variant [t] => expandAlias t
  | .array e r => .array (expandAlias e) r
  | .hash k v r => .hash (expandAlias k) (expandAlias v) r
  | .tuple ts g => .tuple (ts.map expandAlias) g
  | .struct ms => .struct (ms.map fun (n, o, t) => (n, o, expandAlias t))
  | .variant ts => .variant (ts.map expandAlias)
  | .optional t => .optional (expandAlias t)
  | .notUndef t => .notUndef (expandAlias t)
  | .typ t => .typ (expandAlias t)
  | .sensitive t => .sensitive (expandAlias t)
  | .iterable t => .iterable (expandAlias t)
  | .iterator t => .iterator (expandAlias t)
  | .callable p r b => .callable (p.map expandAlias) (r.map expandAlias) (b.map expandAlias)
  | t => t

def unsafeKey (s : String) : Bool := s.any fun c => c == '\'' || c == '\n' || c == '\r'

partial def tyUnsafe : Ty → Bool
  | .array e _ => tyUnsafe e
  | .hash k v _ => tyUnsafe k || tyUnsafe v
  | .tuple ts _ => ts.any tyUnsafe
  | .struct ms => ms.any fun m => unsafeKey m.1 || tyUnsafe m.2.2
  | .variant ts => ts.any tyUnsafe
  | .optional t | .notUndef t | .typ t | .sensitive t | .iterable t | .iterator t => tyUnsafe t
  | .callable p r b => (p.map tyUnsafe).getD false || (r.map tyUnsafe).getD false || (b.map tyUnsafe).getD false
  | _ => false

def pkTag : PK → String
  | .subject => "s" | .entry => "e" | .entryKey => "k" | .parameter => "p" | .ret => "r" | .block => "b"
  | .index => "i" | .variant => "v" | .signature => "g"

def peStr (e : PE) : String := s!"({pkTag e.kind} {hexOfString e.key})"
def pathStr (p : Path) : String := "(" ++ " ".intercalate (p.map peStr) ++ ")"
def rng2 (r : Rng) : String := s!"{r.lo} {r.hi}"

def itemStr : Mismatch → String
  | .unexpectedBlock p => s!"(ub {pathStr p})"
  | .missingRequiredBlock p => s!"(mrb {pathStr p})"
  | .missingKey p k => s!"(mk {pathStr p} {hexOfString k})"
  | .extraneousKey p k => s!"(xk {pathStr p} {hexOfString k})"
  | .unresolvedTypeReference p k => s!"(utr {pathStr p} {hexOfString k})"
  | .typeMismatch p e a => s!"(tm {pathStr p} ({" ".intercalate (expHeads e)}) {tyName a})"
  | .patternMismatch p e a => s!"(pm {pathStr p} {boolStr (patHead e).1} {(patHead e).2} {tyName a})"
  | .sizeMismatch p e a => s!"(sz {pathStr p} {rng2 e} {rng2 a})"
  | .countMismatch p e a => s!"(cnt {pathStr p} {rng2 e} {rng2 a})"

/-! the FULL payloads (structured observation through the hook px.VerifDescribe): type terms in the syntax of harness/lat/doc.go; the two
    members of RichData outside the term language are the atoms `typeset` / `deferred`; a Variant — given or built by a merge — is `(var …)` -/
def atomFull : Atom → String
  | .ty t => Lat.tyStr (expandAlias t)
  | .typeSet => "typeset"
  | .deferred => "deferred"

def expFull : Exp → String
  | .atom x => atomFull x
  | .merged ms => "(var" ++ String.join (ms.map fun x => " " ++ atomFull x) ++ ")"

def itemFull : Mismatch → String
  | .typeMismatch p e a => s!"(tm {pathStr p} {expFull e} {Lat.tyStr (expandAlias a)})"
  | .patternMismatch p e a => s!"(pm {pathStr p} {Lat.tyStr (expandAlias e)} {Lat.tyStr (expandAlias a)})"
  | m => itemStr m

def insertKey (x : Path × String) : List (Path × String) → List (Path × String)
  | [] => [x]
  | y :: ys => if x.2 < y.2 then x :: y :: ys else y :: insertKey x ys

/-- sort every maximal run of consecutive extraneous-key mismatches with the same path by key -/
partial def sortRuns : List Mismatch → List Mismatch
  | .extraneousKey p k :: rest =>
      let run := rest.takeWhile fun m => match m with | .extraneousKey q _ => q == p | _ => false
      let keys := run.filterMap fun m => match m with | .extraneousKey _ k' => some (p, k') | _ => none
      let sorted := (keys.foldl (fun acc x => insertKey x acc) [(p, k)])
      sorted.map (fun x => Mismatch.extraneousKey x.1 x.2) ++ sortRuns (rest.drop run.length)
  | m :: rest => m :: sortRuns rest
  | [] => []

/-- `<structure: items with full payloads> ;; <what the text keeps: items with head names>` -/
def render (withText : Bool) : Res → String
  | .fault _ => "fault"
  | .ok [] => "empty"
  | .ok ms =>
      " ".intercalate ((sortRuns ms).map itemFull) ++
        (if withText then " ;; " ++ " ".intercalate ((sortRuns ms).map itemStr) else "")

/-- a term with a user alias: only the structure is printed (the text names aliases, which the head-name projection does not model) -/
def descs (e a : Sexp) : String :=
  let al := hasAlias e || hasAlias a
  match Lat.ty? (aliasAsVar e), Lat.ty? (aliasAsVar a) with
  | some e, some a =>
      if tyUnsafe e || tyUnsafe a then "unsafe-key"
      else render (!al) (describe Lat.cfg Lat.sfh e a (subjectPath "x"))
  | _, _ => "bad-op"

/-! ### `sigd (SIG*) ARGS [BLOCK]` — px.DescribeSignatures(signatures, ARGS, block); BLOCK ::= n | a Callable term (call P R B), the signature of the
    lambda handed to the call (absent = n)
    SIG ::= ((T*) LO HI BLK) | nilparams     BLK ::= n | r | o   (no block type / a required block / an optional block)
    parameter names are "1" … "n" (CallableType.ParameterNames)
    → fault | empty | single ITEM | list (ITEM*) (ITEM*) …     (one group per signature that is listed) -/
def sigOf : Sexp → Option Sig
  | .atom "nilparams" => some { params := none, names := [], block := none }
  | .list [.list ts, lo, hi, .atom b] => do
      let tys ← ts.mapM Lat.ty?
      let r ← Lat.rngOf lo hi
      let b11 : Ty := .callable (some (.tuple [.unit] (some ⟨1, 1⟩))) none none     -- Callable[1, 1] as ParseType builds it: Tuple[Unit, 1, 1]
      let blk ← (match b with | "n" => some (none : Option Ty) | "r" => some (some b11) | "o" => some (some (.optional b11)) | _ => none)
      pure { params := some (tys, r), names := (List.range tys.length).map fun i => toString (i + 1), block := blk }
  | _ => none

def renderS : SRes → String
  | .fault _ => "fault"
  | .empty => "empty"
  | .single m => "single " ++ itemStr m
  | .listing per => "list" ++ String.join (per.map fun ms => " (" ++ " ".intercalate ((sortRuns ms).map itemStr) ++ ")")

def sigd (sigs args blk : Sexp) : String :=
  if hasAlias sigs || hasAlias args then "alias" else
  match sigs, (match blk with | .atom "n" => some (none : Option Ty) | b => (Lat.ty? b).map some) with
  | .list ss, some ab =>
    (match ss.mapM sigOf, Lat.ty? args with
     | some sgs, some a =>
        if tyUnsafe a || sgs.any (fun sg => match sg.params with | some (ts, _) => ts.any tyUnsafe | none => false) then "unsafe-key"
        else renderS (describeSignatures Lat.cfg Lat.sfh sgs a ab)
     | _, _ => "bad-op")
  | _, _ => "bad-op"

def exec : List Sexp → String
  | [.atom "sigd", sigs, args] => sigd sigs args (.atom "n")
  | [.atom "sigd", sigs, args, blk] => sigd sigs args blk
  | [.atom "descs", e, a] => descs e a
  | [.atom "descx", e, a, .atom _, .list _] => descs e a
  | _ => "bad-op"

end DescC19
