import Driver.Lat
/-! Driver ops of C02 (shared table in Driver/Lat.lean; syntax in harness/lat/doc.go). -/
namespace C02
def exec : List Sx.Sexp → String := Lat.execOnly ["inst", "rxmatch"]
end C02
