import Driver.Sexp
import Pcore.Model.Format
/-! Driver op for C20:  `fmt <ctx> <value>` (syntax in harness/c20/c20.go).

  The float digits are a parameter of the model (`FloatIO.sprintf`); the driver instantiates it with a sentinel
  and answers `out-of-model` whenever the sentinel reaches the output (the harness sends such ops implementation-only).
  `toInt` (int64(float64)) is computed from the IEEE bits; out of range / NaN gives -2^63 as on amd64. -/
namespace C20
open Sx Pcore.Format

def sentinel : Char := Char.ofNat 0xFFFF

def truncBits (bits : Nat) : Int :=
  let neg := bits / 2^63 % 2 = 1
  let e := bits / 2^52 % 2048
  let m := bits % 2^52
  let minInt : Int := -(2^63 : Int)
  if e = 2047 then minInt
  else if e = 0 then 0
  else
    let mant := m + 2^52
    let v : Nat := if e ≥ 1075 then mant * 2^(e - 1075) else mant / 2^(1075 - e)
    if v ≥ 2^63 then minInt else if neg then -(v : Int) else (v : Int)

def driverIO : FloatIO := { sprintf := fun _ _ => [sentinel], ofInt := fun _ => 0, toInt := truncBits }

partial def valOf : Sexp → Option Val
  | .list [.atom "i", n] => n.int?.map .int
  | .list [.atom "f", n] => n.nat?.map .float
  | .list [.atom "s", s] => s.str?.map fun x => .str x.toList
  | .list [.atom "b", b] => b.bool?.map .bool
  | .list [.atom "u"] => some .undef
  | .list [.atom "d"] => some .dflt
  | .list [.atom "x", s] => s.bytes?.map fun bs => .binary (bs.map UInt8.toNat) ((String.fromUTF8? (ByteArray.mk bs.toArray)).map String.toList)
  | .list [.atom "r", s] => s.str?.map fun x => .regexp x.toList
  | .list (.atom "a" :: es) => (es.mapM valOf).map .array
  | .list (.atom "h" :: es) =>
      (es.mapM fun (e : Sexp) => match e with
        | Sexp.list [k, v] => do let k' ← valOf k; let v' ← valOf v; pure (Entry.mk k' v')
        | _ => none).map .hash
  | _ => none

def keyOf : String → Option Key
  | "any" => some .any | "scalar" => some .scalar | "numeric" => some .numeric | "int" => some .int | "float" => some .float
  | "str" => some .str | "bool" => some .bool | "bin" => some .bin | "arr" => some .arr | "hash" => some .hash
  | "coll" => some .coll | "undef" => some .undef | "dflt" => some .dflt | "regexp" => some .regexp
  | "object" => some .obj | "type" => some .typ
  | _ => none

def kindKey (k : Kind) : Key := k.key

def strOpt : Sexp → Option (Option Str)
  | .atom "-" => some none
  | e => e.str?.map fun s => some s.toList

/-- result of building a format map: bad syntax, a reported error of NewFormatMap, or the map -/
inductive Built (α : Type) where
  | bad | err (c : Code) | ok (a : α)

instance {α} : Inhabited (Built α) := ⟨.bad⟩

mutual
partial def treeOf : Sexp → Built FTree
  | .list [d, sep, sep2, cf] =>
    match d.str?, strOpt sep, strOpt sep2 with
    | some d, some sep, some sep2 =>
      -- FormatFromHash builds the nested string_formats before it parses the format itself
      let cfB : Built (Option FMap) := match cf with
        | .atom "-" => .ok none
        | .list es => (match mapOf es with | .ok m => .ok (some m) | .err c => .err c | .bad => .bad)
        | _ => .bad
      match cfB with
      | .bad => .bad
      | .err c => .err c
      | .ok cf =>
        match parseFormat d.toList sep sep2 with
        | .ok f => .ok (.mk f cf)
        | .error c => .err c
    | _, _, _ => .bad
  | _ => .bad
partial def mapOf : List Sexp → Built FMap
  | [] => .ok []
  | .list [.atom k, t] :: rest =>
    match keyOf k with
    | none => .bad
    | some key =>
      match treeOf t with
      | .bad => .bad
      | .err c => .err c
      | .ok tr => (match mapOf rest with | .ok m => .ok ((key, tr) :: m) | .err c => .err c | .bad => .bad)
  | _ => .bad
end

def codeStr : Code → String
  | .unsupported => "PCORE_UNSUPPORTED_STRING_FORMAT"
  | .invalidSpec => "PCORE_INVALID_STRING_FORMAT_SPEC"
  | .invalidDelimiter => "PCORE_INVALID_STRING_FORMAT_DELIMITER"
  | .repeatedFlag => "PCORE_INVALID_STRING_FORMAT_REPEATED_FLAG"
  | .failure => "PCORE_FAILURE"
  | .notInteger => "PCORE_NOT_INTEGER"
  | .illegalArguments => "PCORE_ILLEGAL_ARGUMENTS"

def resStr : Res → String
  | .text s => if s.contains sentinel then "out-of-model" else "text " ++ hexOfString (String.ofList s)
  | .reported c => "reported " ++ codeStr c
  | .fault _ => "fault"

def oracleOf : Sexp → Option (List (Str × Str))
  | .list es => es.mapM fun (e : Sexp) => match e with
      | Sexp.list [k, v] => do let k' ← k.str?; let v' ← v.str?; pure (k'.toList, v'.toList)
      | _ => none
  | _ => none

/-- the FloatIO of a `fmtf` op: Sprintf answers from the oracle (the sentinel for a format that is not listed),
    float64(int64) as given -/
def oracleIO (ofint : Nat) (tbl : List (Str × Str)) : FloatIO :=
  { sprintf := fun fm _ => match tbl.find? (fun e => e.1 == fm) with | some e => e.2 | none => [sentinel],
    ofInt := fun _ => ofint, toInt := truncBits }

def execFmt (io : FloatIO) (ctx ve : Sexp) : String :=
    match valOf ve with
    | none => "bad-op"
    | some v =>
      match ctx with
      | .list [.atom "kind", d] =>
        (match d.str? with
         | none => "bad-op"
         | some d =>
           match newFormat d.toList with
           | .error c => "reported " ++ codeStr c
           | .ok f => resStr (format io [(kindKey v.kind, .mk f none)] v))
      | .list [.atom "self", d] =>
        (match d.str? with
         | none => "bad-op"
         | some d =>
           if v.isContainer then "out-of-model"   -- which children the value's own type accepts is a lattice question
           else match newFormat d.toList with
             | .error c => "reported " ++ codeStr c
             | .ok f => resStr (format io [(.any, .mk f none)] v))
      | .list [.atom "new", d] =>
        -- px.New(c, String, v, directive): newFormatContext3 with a String format = NewFormatContext(v.PType(), NewFormat(directive))
        (match d.str? with
         | none => "bad-op"
         | some d =>
           if v.isContainer then "out-of-model"   -- which children the value's own type accepts is a lattice question
           else match newFormat d.toList with
             | .error c => "reported " ++ codeStr c
             | .ok f => resStr (format io [(.any, .mk f none)] v))
      | .list (.atom "map" :: es) =>
        (match mapOf es with
         | .bad => "bad-op"
         | .err c => "reported " ++ codeStr c
         | .ok m => resStr (format io m v))
      | .list (.atom "mmap" :: es) =>
        -- a per-type format map given by the user: px.NewFormatContext3(v, hash) = mergeFormats(DefaultFormats, NewFormatMap(hash))
        (match mapOf es with
         | .bad => "bad-op"
         | .err c => "reported " ++ codeStr c
         | .ok m =>
           -- the cyclic default tables are unrolled to a depth; the op syntax admits at most 4 entries per map
           if mapWidth 8 m > 4 || mapDepth 8 m > 3 || !mapKeysDistinct 8 m then "out-of-model"
           else resStr (format io (contextMap m) v))
      | _ => "bad-op"

/-- `back <directive> <int>`: render, then read the text back with the Integer constructor and the letter's radix -/
def execBack (d : String) (i : Int) : String :=
  match newFormat d.toList with
  | .error c => "render reported " ++ codeStr c
  | .ok f =>
    match format driverIO [(.int, .mk f none)] (.int i) with
    | .text s =>
      if s.contains sentinel then "out-of-model"
      else match newInteger s (letterRadix f.letter) with
        | .int n => s!"int {n}"
        | .reported c => "reported " ++ codeStr c
    | r => "render " ++ resStr r

end C20
