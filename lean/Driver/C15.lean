import Driver.Sexp
import Pcore.Model.Files
import Pcore.Model.FilesFuel
import Pcore.Model.FilesCtor
/-!
Driver ops for C15 (syntax in harness/c15/c15.go):

  tree <mods> <files> <via> <lookups>    materialised tree + lookup sequence → one item per lookup, then the read counts
  tn <mod> (xSEG …)                      smartPath.TypedNames of a relative path (`mod` = x for the global loader)
  ep <mod> xNAME                         smartPath.EffectivePath of a name
  ctor <mod> (xPATHTYPE …)               newFileBasedLoader with these path types over types/probe.pp + types/Q/probe.pp
                                         (Q = mod, `nomod` for the empty name): `reported <CODE> - 0`, or `ok` and HasEntry
                                         of Probe, Q::Probe, Q::Q::Probe through the smart paths the CONSTRUCTOR built

The file list is sorted into `filepath.Walk` order (segment-wise, bytewise) before it reaches the model.
-/
namespace C15
open Sx Pcore.Files

/-- the least fuel a lookup sequence is run with; the driver takes `max minFuel (seqBound cfg {} names)`, and
    `C15_terminates_seq` (Props/C15.lean) shows that `seqBound` suffices: `diverges` is never printed for want of fuel -/
def minFuel : Nat := 5000

def strs? (e : Sexp) : Option (List String) :=
  match e with
  | .list xs => xs.mapM Sexp.str?
  | _ => none

def asciiPrintable (s : String) : Bool := s.toList.all fun c => 0x20 ≤ c.toNat && c.toNat ≤ 0x7e

/-- a name as text → segments; refused when a segment holds a `:` or a character outside printable ASCII -/
def name? (s : String) : Option Name :=
  let n := splitName s
  if asciiPrintable s && n.all (fun seg => !seg.toList.contains ':') then some n else none

def isUpper (c : Char) : Bool := 'A' ≤ c && c ≤ 'Z'
def isLowerC (c : Char) : Bool := 'a' ≤ c && c ≤ 'z'
def isDigit (c : Char) : Bool := '0' ≤ c && c ≤ '9'

/-- `[A-Z][A-Za-z0-9_]*` -/
def typeSeg (s : String) : Bool :=
  match s.toList with
  | [] => false
  | c :: cs => isUpper c && cs.all fun d => isUpper d || isLowerC d || isDigit d || d = '_'

/-- a name a definition file can carry: `Seg(::Seg)*` -/
def typeName? (s : String) : Option Name :=
  let n := s.splitOn "::"
  if n.all typeSeg then some n else none

/-- `[a-z][a-z0-9_]*` -/
def modName (s : String) : Bool :=
  match s.toList with
  | [] => false
  | c :: cs => isLowerC c && cs.all fun d => isLowerC d || isDigit d || d = '_'

/-- `[A-Za-z0-9_.]+`, not `.` or `..` -/
def fileSeg (s : String) : Bool :=
  s ≠ "" && s ≠ "." && s ≠ ".." && s.toList.all fun d => isUpper d || isLowerC d || isDigit d || d = '_' || d = '.'

def distinct (xs : List String) : Bool := xs.eraseDups.length = xs.length

def body? : Sexp → Option (Option Body)      -- none = bad-op, some none = bad-tree
  | .list [.atom "alias", n] => n.str?.map fun s => (typeName? s).map fun nm => .typ .alias nm []
  | .list [.atom "object", n] => n.str?.map fun s => (typeName? s).map fun nm => .typ .object nm []
  | .list [.atom "typeset", n, ts] => do
    let s ← n.str?
    let tl ← strs? ts
    pure (do
      let nm ← typeName? s
      if !tl.isEmpty && tl.all typeSeg && distinct (tl.map lowerS) then some (.typ .typeset nm tl) else none)
  | .list [.atom "bare"] => some (some .bare)
  | .list [.atom "empty"] => some (some .nodef)
  | .list [.atom "unreadable"] => some (some .unreadable)
  | .list [.atom "malformed", l] => l.nat?.bind fun n => if 1 ≤ n && n ≤ 1000 then some (some (.malformed n)) else none
  | .list [.atom "literal", l] => l.nat?.bind fun n => if 1 ≤ n && n ≤ 1000 then some (some (.malformed n)) else none
  | _ => none

def file? : Sexp → Option (Option (Path × Body))
  | .list [segs, b] => do
    let p ← strs? segs
    let ob ← body? b
    pure (ob.map fun bd => (p, bd))
  | _ => none

inductive Lookup where
  | load (n : Option Name)     -- none: a name outside the op alphabet → bad-tree
  | has (n : Option Name)
  | discover
  | define (l : Lid) (n : Option Name)   -- a definition made between lookups in file loader `l` (none: not a type name)

def lookup? : Sexp → Option Lookup
  | .list [.atom "load", n] => n.str?.map fun s => .load (name? s)
  | .list [.atom "has", n] => n.str?.map fun s => .has (name? s)
  | .list [.atom "discover"] => some .discover
  | .list [.atom "def", .atom "g", n] => n.str?.map fun s => .define .g (typeName? s)
  | .list [.atom "def", .list [.atom "m", m], n] => do
    let mod ← m.str?
    let s ← n.str?
    pure (.define (.m mod) (if asciiPrintable s then typeName? s else none))
  | _ => none

/-- the context's loader and the topology: `e` = the dependency loader of the flat topology (global loader first member) -/
def via? : Sexp → Option (Lid × Bool)
  | .atom "g" => some (.g, false)
  | .atom "d" => some (.d, false)
  | .atom "e" => some (.d, true)
  | .list [.atom "m", n] => n.str?.map fun m => (.m m, false)
  | .list [.atom "f", n] => n.str?.map fun m => (.m m, true)    -- a module's loader in the flat topology (top-level)
  | _ => none

def segLt : Path → Path → Bool
  | [], [] => false
  | [], _ :: _ => true
  | _ :: _, [] => false
  | a :: as, b :: bs => if a < b then true else if b < a then false else segLt as bs

def wellFormed (mods : List String) (files : List (Path × Body)) (via : Lid) (flat : Bool) : Bool :=
  mods.all modName && distinct mods &&
  (match via with
    | .m mod => mods.contains mod
    | .d => flat || !mods.isEmpty
    | .g => true) &&
  files.all (fun f => !f.1.isEmpty && f.1.all fileSeg &&
    f.1 ≠ ["env"] && f.1 ≠ ["modules"] &&
    !(match f.1 with
      | ["modules", m] => mods.contains m
      | _ => false)) &&
  -- no path is a prefix of (or equal to) another one
  (let ps := files.map (·.1)
   ps.all fun p => (ps.filter fun q => p.isPrefixOf q).length = 1)

def kindCh : Kind → String
  | .alias => "a" | .object => "o" | .typeset => "s" | .core => "?"

def errStr : Err → String
  | .reported code file line =>
    s!"reported {code} {match file with | some p => joinPath p | none => "-"} {line}"
  | .diverges => "diverges"

def sortStrs (xs : List String) : List String := xs.mergeSort (fun a b => !(b < a))

def outcomeStr (o : Outcome) (newReads : List Path) : String :=
  let base := match o with
    | .found d => s!"found {kindCh d.kind} {hexOfString (joinName d.name)}"
    | .notfound => "notfound"
    | .failed e => errStr e
  base ++ String.join ((sortStrs (newReads.map joinPath)).map fun r => " +" ++ r)

def runLookups (fuel : Nat) (cfg : Cfg) : St → List Lookup → Option (List String × St)
  | s, [] => some ([], s)
  | s, l :: ls => do
    let (item, s') ← (match l with
      | .load (some n) =>
        let (o, s') := loadS fuel cfg s n
        some (outcomeStr o (s'.reads.drop s.reads.length), s')
      | .has (some n) => some ("has " ++ boolStr (hasEntry cfg s cfg.via (keyOf n)), s)
      | .discover => some ("names " ++ ",".intercalate ((discover cfg s cfg.via).map joinName), s)
      | .define l (some n) =>
        match defineS s l n with
        | (none, s') => some ("defined", s')
        | (some e, s') => some (errStr e, s')
      | _ => none)
    let (items, s'') ← runLookups fuel cfg s' ls
    pure (item :: items, s'')

def readsStr (s : St) : String :=
  let ps := sortStrs (s.reads.map joinPath)
  String.join (ps.eraseDups.map fun p => s!" {p}={(ps.filter (· = p)).length}")

def execTree (modsE filesE viaE lookupsE : Sexp) : String :=
  match strs? modsE, filesE, via? viaE, lookupsE with
  | some mods, .list fes, some (via, flat), .list les =>
    match fes.mapM file?, les.mapM lookup? with
    | some ofiles, some lookups =>
      match ofiles.mapM id with
      | none => "bad-tree"
      | some files =>
        if !wellFormed mods files via flat then "bad-tree"
        else if lookups.any (fun l => match l with
            | .load none => true
            | .has none => true
            | .define _ none => true
            | .define (.m mod) _ => !mods.contains mod
            | _ => false) then "bad-tree"
        else
          let tree := files.mergeSort (fun a b => !(segLt b.1 a.1))
          let cfg : Cfg := { mods := mods, tree := tree, via := via, flat := flat }
          let names := lookups.filterMap fun l => match l with
            | .load (some n) => some n
            | _ => none
          match runLookups (max minFuel (seqBound cfg {} names)) cfg {} lookups with
          | none => "bad-tree"
          | some (items, s) => " ; ".intercalate items ++ " | reads" ++ readsStr s
    | _, _ => "bad-op"
  | _, _, _, _ => "bad-op"

def capSeg (s : String) : String :=
  match s.toList with
  | [] => s
  | c :: cs => String.ofList (c.toUpper :: cs)

def execCtor (mod : String) (pts : List String) : String :=
  let q := if mod = "" then "nomod" else mod
  match newLoaderPaths ["r"] mod pts with
  | .error e => errStr e
  | .ok sps =>
    let keys := sps.flatMap fun sp => fileKeys sp ["r", "types", "probe.pp"] ++ fileKeys sp ["r", "types", q, "probe.pp"]
    let has := fun (n : Name) => staticHas (keyOf n) || keys.contains (keyOf n)
    let cq := capSeg q
    s!"ok {boolStr (has ["Probe"])} {boolStr (has [cq, "Probe"])} {boolStr (has [cq, cq, "Probe"])}"

def spFor (mod : String) : SmartPath := if mod = "" then spOf .g else spOf (.m mod)

def exec : List Sexp → String
  | [.atom "tree", mods, files, via, lookups] => execTree mods files via lookups
  | [.atom "tn", m, segs] =>
    match m.str?, strs? segs with
    | some mod, some rel =>
      if (mod = "" || modName mod) && !rel.isEmpty && rel.all fileSeg
          && (match rel.getLast? with
              | some l => l.endsWith ".pp"
              | none => false) then
        " ".intercalate ((typedNames (spFor mod) rel).map fun n => hexOfString (joinName n))
      else "bad-tree"
    | _, _ => "bad-op"
  | [.atom "ctor", m, pts] =>
    match m.str?, strs? pts with
    | some mod, some ps => if mod = "" || modName mod then execCtor mod ps else "bad-tree"
    | _, _ => "bad-op"
  | [.atom "ep", m, n] =>
    match m.str?, n.str? with
    | some mod, some s =>
      match (if mod = "" || modName mod then name? s else none) with
      | none => "bad-tree"
      | some nm =>
        match effectivePath (spFor mod) nm with
        | .invalid => "invalid"
        | .none => "none"
        | .path p => "path " ++ joinPath p
    | _, _ => "bad-op"
  | _ => "bad-op"

end C15
