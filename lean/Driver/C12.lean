import Driver.Sexp
import Pcore.Model.LoaderSeq
import Pcore.Model.LoaderTS
import Pcore.Model.LoaderDep
import Pcore.Model.LoaderKey
import Pcore.Model.LoaderStatic
/-! Driver op for C12: `hist (tree NODE*) (steps STEP*)` — syntax and output format in harness/c12/c12.go. -/
namespace C12
open Sx Pcore.LoaderSeq

def otherAuthority : String := "http://example.com/other"

def nameOf : Sexp → Option Name
  | .list [.atom "n", .atom ns, x, .atom a] => do
    let nm ← x.str?
    let auth ← if a = "r" then some runtimeAuthority else if a = "o" then some otherAuthority else none
    pure { auth := auth, ns := ns, name := nm }
  | _ => none

def valOf : Sexp → Option V
  | .list [.atom "t", n] => n.nat?.map .ty
  | .list [.atom "s", n] => n.nat?.map .str
  | .list [.atom "al", x, n] => do
    let nm ← x.str?
    let k ← n.nat?
    pure (.al nm k)
  | _ => none

def valStr : V → String
  | .ty n => s!"(t {n})"
  | .str n => s!"(s {n})"
  | .al nm n => s!"(al {hexOfString nm} {n})"
  | .core nm => s!"(core {hexOfString nm})"
  | .tset nm ver => s!"(tset {hexOfString nm} {ver})"

/-- parents of the tree nodes; `(p P)` with -1 ≤ P < i, `(f P)` with 0 ≤ P < i; `(st)` (the static loader) as node 0 only;
    `(dep (xMOD L)*)` a dependency loader (no parent) -/
def treeOf (nodes : List Sexp) : Option (List (Option Nat)) :=
  let rec go (i : Nat) : List Sexp → Option (List (Option Nat))
    | [] => some []
    | .list [.atom "st"] :: rest => if i = 0 then (go 1 rest).map (none :: ·) else none
    | .list [.atom "stw"] :: rest => if i = 0 then (go 1 rest).map (none :: ·) else none
    | .list (.atom "dep" :: _) :: rest => (go (i + 1) rest).map (none :: ·)
    | .list [.atom kind, p] :: rest => do
      let pi ← p.int?
      if kind ≠ "p" ∧ kind ≠ "f" ∧ kind ≠ "ts" then none
      else if pi < -1 ∨ pi ≥ (i : Int) then none
      else if kind = "f" ∧ pi < 0 then none
      else
        let r ← go (i + 1) rest
        pure ((if pi < 0 then none else some pi.toNat) :: r)
    | _ => none
  go 0 nodes

/-- the discovery predicates as functions of the map key `authority/namespace/name` -/
def hasColons : List Char → Bool
  | ':' :: ':' :: _ => true
  | _ :: r => hasColons r
  | [] => false

def keyPred (p : String) (key : Key) : Bool :=
  let parts := (key.splitOn "/").reverse
  match p with
  | "qual" => hasColons (parts.headD "").toList
  | "type" => (parts.tail.headD "") == "type"
  | _ => true

/-- the fixed type set of every `(ts P)` node (harness/c12: `typeSetSrc`) -/
def theTypeSet : TypeSet := { name := "my", members := [("foo", .al "My::Foo" 1), ("bar", .al "My::Bar" 2)] }

def tsTable (nodes : List Sexp) : List (Option TypeSet) :=
  nodes.map fun nd => match nd with
    | .list [.atom "ts", _] => some theTypeSet
    | _ => none

/-- a type-set loader is a leaf, sits on a real node, and not directly on a static node 0 -/
def tsShapeOK (nodes : List Sexp) (ps : List (Option Nat)) (st : Bool) : Bool :=
  let tss := tsTable nodes
  (ps.zip tss).all fun (p, t) =>
    (match p with | some q => (tss.getD q none).isNone | none => true) &&
    (match t, p with
     | some _, none => false
     | some _, some q => !(st && q == 0)
     | none, _ => true)

/-- the module loaders of every `(dep (xMOD L)*)` node -/
def depTable (nodes : List Sexp) : Option (List (Option Mods)) :=
  nodes.mapM fun (nd : Sexp) => match nd with
    | .list (.atom "dep" :: ms) =>
      (ms.mapM fun (m : Sexp) => match m with
        | .list [x, l] => do
          let nm ← x.str?
          let l ← l.nat?
          pure (nm, l)
        | _ => none).map some
    | _ => some none

/-- a module loader wraps a `(p …)` or `(f …)` node declared before (its chain holds no dependency loader: `depShapeOK`);
    a line has dependency loaders or type-set loaders, not both -/
def depNodesOK (nodes : List Sexp) (ps : List (Option Nat)) (dps : List (Option Mods)) : Bool :=
  depShapeOK ps dps &&
  !((tsTable nodes).any Option.isSome && dps.any Option.isSome) &&
  dps.all fun d => match d with
    | none => true
    | some mods => mods.all fun m => match nodes.getD m.2 (.atom "") with
      | .list [.atom "p", _] | .list [.atom "f", _] => true
      | _ => false

/-- a name and its forms relative to the type set `My` (My::My::Foo, My::Foo, Foo) -/
def relForms : Nat → Name → List Name
  | 0, n => [n]
  | f + 1, n =>
    match (stripColons n.name).toList.map lowerChar with
    | 'm' :: 'y' :: ':' :: ':' :: _ => n :: relForms f { n with name := String.ofList ((stripColons n.name).toList.drop 4) }
    | _ => [n]

def hasStatic : List Sexp → Bool
  | .list [.atom "st"] :: _ => true
  | _ => false

/-- the core types the lines may name (the harness checks the static loader agrees) -/
def coreNames : List String := ["integer"]

/-- the names an operation mentions -/
def opNames : OpQ → List Name
  | .op (.load _ n) | .op (.define _ n _) | .op (.has _ n) | .op (.get _ n) | .reg n _ => [n]
  | .op (.discover _ _) | .rr _ => []
  | .addts _ nm _ ms => ⟨runtimeAuthority, "type", nm⟩ :: ms.map fun m => memberName nm m.1

/-- the entries of the static loader among the names of the line -/
def staticEnts (ops : List OpQ) : Ents :=
  let ks := (ops.flatMap opNames).filterMap fun n =>
      if n.auth = runtimeAuthority ∧ lower n.ns = "type" ∧ coreNames.contains (lower (stripColons n.name)) then some (canon n, lower (stripColons n.name)) else none
  (ks.eraseDups).map fun (k, nm) => (k, some (V.core nm))

/-- with a read-only static node 0 `(st)`: it may only be asked, never loaded through or defined in -/
def addressOK (st : Bool) : OpQ → Bool
  | .op (.load l _) | .op (.define l _ _) | .rr l | .addts l _ _ _ => !(st && l == 0)
  | _ => true

def isAddTs : OpQ → Bool
  | .addts _ _ _ _ => true
  | _ => false

/-- an identifier as the type-set grammar wants it for the set and its members: a capital letter, then letters (no digits:
    `(stw)` lines), members distinct up to letter case -/
def tsIdentOK (s : String) : Bool :=
  match s.toList with
  | c :: r => ('A' ≤ c && c ≤ 'Z') && r.all isLetter
  | [] => false

/-- `(stw)`: the static loader as a WRITABLE node 0.  The harness then gives every name of the line a suffix `0<n>` that no
    other line uses (what is written into the process-wide static loader stays there), so every name byte must sort above
    `0` for the key order to be the one of the names as written here; no type-set or dependency loader in such a line -/
def hasStaticW : List Sexp → Bool
  | .list [.atom "stw"] :: _ => true
  | _ => false

def stwSegOK : List Char → Bool
  | [] => false
  | c :: r => isLetter c && r.all fun d => isLetter d || d == '_'

/-- names of a `(stw)` line: `::`-separated identifiers without digits (harness: `stwName`), namespace bytes above `0` -/
def nameBytesOK (n : Name) : Bool :=
  (n.ns.toUTF8.toList.all fun b => b.toNat > 0x30) &&
  (splitColonsL [] (stripColons n.name).toList).all stwSegOK

def stepOf (nl : Nat) : Sexp → Option Op
  | .list [.atom "load", l, n] => do
    let l ← l.nat?; let n ← nameOf n
    if l < nl then pure (.load l n) else none
  | .list [.atom "has", l, n] => do
    let l ← l.nat?; let n ← nameOf n
    if l < nl then pure (.has l n) else none
  | .list [.atom "get", l, n] => do
    let l ← l.nat?; let n ← nameOf n
    if l < nl then pure (.get l n) else none
  | .list [.atom "def", l, n, v] => do
    let l ← l.nat?; let n ← nameOf n; let v ← valOf v
    if l < nl then pure (.define l n v) else none
  | .list [.atom "add", l, x, k] => do
    let l ← l.nat?; let nm ← x.str?; let k ← k.nat?
    if l < nl then pure (.define l { auth := runtimeAuthority, ns := "type", name := nm } (.al nm k)) else none
  | .list [.atom "disc", l, .atom p] => do
    let l ← l.nat?
    if l < nl ∧ (p = "all" ∨ p = "qual" ∨ p = "type") then pure (.discover l (keyPred p)) else none
  | _ => none

/-- the steps of a `hist` line: the operations above plus the global level -/
def stepOfQ (nl : Nat) : Sexp → Option OpQ
  | .list [.atom "reg", x, k] => do
    -- px.RegisterResolvableType(alias NAME = Integer[k,k]); resolveResolvables will define it under NewTypedName(NsType, NAME)
    let nm ← x.str?; let k ← k.nat?
    pure (.reg { auth := runtimeAuthority, ns := "type", name := nm } (.al nm k))
  | .list [.atom "rr", l] => do
    let l ← l.nat?
    if l < nl then pure (.rr l) else none
  | .list (.atom "addts" :: l :: x :: ver :: ms) => do
    -- px.AddTypes(ctx_l, TypeSet NAME version 1.0.VER {MEMBER = Integer[k,k] …})
    let l ← l.nat?; let nm ← x.str?; let ver ← ver.nat?
    let ms ← ms.mapM fun (m : Sexp) => match m with
      | .list [x, k] => do
        let mn ← x.str?; let k ← k.nat?
        pure (mn, k)
      | _ => none
    if l < nl ∧ ms ≠ [] ∧ tsIdentOK nm ∧ ms.all (fun m => tsIdentOK m.1) ∧ (ms.map fun m => lower m.1).Nodup then pure (.addts l nm ver ms) else none
  | e => (stepOf nl e).map .op

def ansStr : Ans → String
  | .found v => "found " ++ valStr v
  | .notfound => "notfound"
  | .ok => "ok"
  | .reported c => "reported " ++ c
  | .fault => "fault"
  | .bool b => boolStr b
  | .entry none => "absent"
  | .entry (some none) => "placeholder"
  | .entry (some (some v)) => "found " ++ valStr v
  | .keys ks => "[" ++ " ".intercalate (ks.map hexOfString) ++ "]"

def entsStr (es : Ents) : String :=
  let ks := sortKeys (es.map (·.1))
  " ".intercalate (ks.map fun k =>
    hexOfString k ++ "=" ++ (match lk k es with | some (some v) => valStr v | _ => "-"))

def dump (s : Sys) : String :=
  let rec go (i : Nat) : List Ents → String
    | [] => ""
    | e :: r => s!" {i}:\{{entsStr e}}" ++ go (i + 1) r
  go 0 s.es

/-! `tn (u xNS xNAME xAUTH) (ops OP*)` — a script of method calls on one typed name (harness/c12/key.go) -/

def kopOf : Sexp → Option KOp
  | .atom "key" => some .key
  | .atom "name" => some .name
  | .atom "qual" => some .qual
  | .atom "parts" => some .parts
  | .atom "child" => some .child
  | .atom "parent" => some .parent
  | .atom "fromkey" => some .fromkey
  | .atom "eq" => some .eq
  | _ => none

def hexChars (cs : List Char) : String := "x" ++ hexOfBytes (enc cs)

def koutStr : KOut → String
  | .key bs => "key x" ++ hexOfBytes bs
  | .name cs => "name " ++ hexChars cs
  | .bool b => boolStr b
  | .parts ps => "parts" ++ String.join (ps.map fun p => " " ++ hexChars p)
  | .moved => "moved"
  | .nil => "nil"
  | .reported c => "reported " ++ c
  | .fault => "fault"

def execTn : List Sexp → String
  | [.list [.atom "u", ns, nm, au], .list (.atom "ops" :: ops)] =>
    match ns.str?, nm.str?, au.str?, ops.mapM kopOf with
    | some ns, some nm, some au, some ops =>
      " ; ".intercalate ((runK (TN.mk' ns.toList nm.toList au.toList) ops).map koutStr)
    | _, _, _, _ => "bad-op"
  | _ => "bad-op"

/-- `lfor ((xMOD N)*) xNAME` — `dependencyLoader.LoaderFor(NAME)` over module loaders labelled N: the index built by
    `newDependencyLoader` (a later module of a name replaces an earlier one, the empty name is not indexed) -/
def execLfor : List Sexp → String
  | [.list ms, x] =>
    match (ms.mapM fun (m : Sexp) => match m with
        | .list [mx, l] => do
          let nm ← mx.str?; let l ← l.nat?
          pure (nm, l)
        | _ => none), x.str? with
    | some mods, some nm => match indexOf mods nm with
      | some l => s!"mod {l}"
      | none => "nil"
    | _, _ => "bad-op"
  | _ => "bad-op"

def exec : List Sexp → String
  | .atom "tn" :: rest => execTn rest
  | .atom "lfor" :: rest => execLfor rest
  | [.atom "hist", .list (.atom "tree" :: nodes), .list (.atom "steps" :: steps)] =>
    match treeOf nodes with
    | none => "bad-op"
    | some [] => "bad-op"
    | some ps =>
      match steps.mapM (stepOfQ ps.length) with
      | none => "bad-op"
      | some ops =>
        let st := hasStatic nodes
        let stw := hasStaticW nodes
        match depTable nodes with
        | none => "bad-op"
        | some dps =>
        let anyTS := (tsTable nodes).any Option.isSome
        if !(ops.all (addressOK st)) || !tsShapeOK nodes ps st || !depNodesOK nodes ps dps then "bad-op"
        else if stw && (anyTS || dps.any Option.isSome || !((ops.flatMap opNames).all nameBytesOK)) then "bad-op"
        else if (anyTS || stw) && ops.any isAddTs then "bad-op"
        else
          let s0 := if st then (Sys.init ps).setEnts 0 (staticEnts ops) else Sys.init ps
          -- every discovery predicate is restricted to the names of the line (with a type-set loader: also to their forms
          -- relative to the type set), as in the harness
          let univ := ((ops.flatMap opNames).flatMap fun n => if anyTS then relForms 8 n else [n]).map canon
          let ops := ops.map fun o => match o with
            | .op (.discover l p) => OpQ.op (.discover l (fun k => univ.contains k && p k))
            | o => o
          let (q, as) := runQ (tsTable nodes) dps { sys := s0, queue := [] } ops
          " ; ".intercalate (as.map ansStr) ++ " |" ++ dump q.sys
  | _ => "bad-op"

end C12
