import Driver.FormatBase
import Driver.FormatXDrv
/-! Driver of C20: the ops `fmt`, `fmtf`, `back`, `keysub` (Driver/FormatBase.lean, the model Pcore/Model/Format.lean) and `fmtx`
    (Driver/FormatXDrv.lean, the extended model Pcore/Model/FormatX.lean: every value kind). -/
namespace C20
open Sx Pcore.Format

def exec : List Sexp → String
  | [.atom "keysub", .atom a, .atom b] =>
    (match keyOf a, keyOf b with
     | some a, some b => boolStr (Key.sub a b)
     | _, _ => "bad-op")
  | [.atom "back", d, i] =>
    (match d.str?, i.int? with
     | some d, some i => execBack d i
     | _, _ => "bad-op")
  | [.atom "fmt", ctx, ve] => execFmt driverIO ctx ve
  | [.atom "fmtx", ctx, ve] => C20X.exec [.atom "fmtx", ctx, ve]
  | [.atom "fmtt", ctx, ve] => C20X.exec [.atom "fmtt", ctx, ve]
  | [.atom "keysubx", a, b] => C20X.exec [.atom "keysubx", a, b]
  | [.atom "span", fm, ns] => C20X.exec [.atom "span", fm, ns]
  | [.atom "fmtf", ctx, ve, ofint, oracle] =>
    match oracleOf oracle with
    | none => "bad-op"
    | some tbl =>
      match ofint with
      | .atom "-" => execFmt (oracleIO 0 tbl) ctx ve
      | e => match e.nat? with
        | some n => execFmt (oracleIO n tbl) ctx ve
        | none => "bad-op"
  | _ => "bad-op"

end C20
