import Driver.Lat
import Driver.DescC19
/-! Driver ops of C19: the shared lattice table (Driver/Lat.lean; syntax in harness/lat/doc.go) and the structure of the mismatch
    description (Driver/DescC19.lean; syntax in harness/c19/descs.go). -/
namespace C19
def exec : List Sx.Sexp → String
  | .atom "descs" :: rest => DescC19.exec (.atom "descs" :: rest)
  | .atom "descx" :: rest => DescC19.exec (.atom "descx" :: rest)
  | .atom "sigd" :: rest => DescC19.exec (.atom "sigd" :: rest)
  | xs => Lat.execOnly ["desc", "assert", "asg", "inst"] xs
end C19
