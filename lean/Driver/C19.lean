import Driver.Lat
/-! Driver ops of C19 (shared table in Driver/Lat.lean; syntax in harness/lat/doc.go). -/
namespace C19
def exec : List Sx.Sexp → String := Lat.execOnly ["desc", "assert", "asg", "inst"]
end C19
