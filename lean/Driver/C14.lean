import Driver.Sexp
import Pcore.Model.Tls
import Pcore.Model.TlsSmall
import Pcore.Model.TlsFacts
import Pcore.Model.GidFacts
import Pcore.Generated.GidFacts
/-!
Driver ops for C14 (syntax shared with harness/c14):

    prog <term>                 run `pcore.Do(term)` on a fresh goroutine, empty schedule (children run after the root ended)
    progs (d0 d1 …) <term>      the same with the scheduling oracle d0 d1 …  (see Model/Tls.lean `yield`)
    progi (d0 d1 …) <term>      leaf-level interleaving (Model/TlsSmall.lean `runI`): every goroutine is parked before each
                                leaf operation; choice d resumes runnable goroutine number d mod #runnable

    hi <minId> <op> <args…>     `op` (prog | progs | progi) run by goroutines whose runtime ids are >= minId (the harness first starts and
                                ends that many goroutines).  The model of `threadlocal.getg()` over the constants regenerated from
                                threadlocal/gid.go (`Model/GidFacts.lean`, `Generated/GidFacts.lean`) is asked for the table keys of the ids
                                minId … minId+255: when every key is the id (always, on a table that satisfies `C14_gid_facts_*`) the
                                answer is the one of `op`; otherwise `gid-cut <n> <key|panic>` names the first id whose key is not the id
    gidlive <minId> <k>         goroutine minId runs `pcore.Do` and starts k goroutines minId+1 … minId+k by `px.Fork`, one after the other;
                                all are alive together; then each looks at its current context: `own=<how many find their own>/<k>
                                live=<goroutine-local tables while all are alive>` (`GidFacts.liveSim` over the same keys)

    term ::= (obs) | (set k n) | (get k) | (del k) | (push n) | (pop) | (deftype a) | (load a) | (panic)
           | (doctx id term…) | (doparent id term…) | (do id term…) | (try id term…) | (doloader term…) | (fork term…) | (go term…) | (seq term…) | (recover term…)

The model variant run by `prog`/`progs` is `implVer`: selected by the regenerated shape table `Generated/CtxFacts.lean`
(`Model/TlsFacts.lean`); `progi` runs the small-step model of the code as it is now.

Output: `g0:N ev ev … | g1:P ev … ; cur=- live=0` — one block per goroutine in creation order (`N` normal, `P` panicked),
events `o<tag>[stack]` (`!` appended when CurrentContext() is not the context handed to the body, `o-` no current
context, `o?` a context without tag), `g<k>=<n|->`, `l<a>=<t|f>`, `R` (panic recovered); then the current context of the
root goroutine after `Do` returned and the number of goroutine-local tables still allocated.
-/
namespace C14
open Sx Pcore.Tls

def seqOf : List Prog → Prog
  | [] => .skip
  | [p] => p
  | p :: ps => .seq p (seqOf ps)

def okAtom (s : String) : Bool :=
  !s.isEmpty && s.length ≤ 8 && s.toList.all fun c => c.isAlphanum

partial def progOf : Sexp → Option Prog
  | .list [.atom "obs"] => some .obs
  | .list [.atom "panic"] => some .panic
  | .list [.atom "set", .atom k, n] => if okAtom k then n.nat?.map (.set k) else none
  | .list [.atom "get", .atom k] => if okAtom k then some (.get k) else none
  | .list [.atom "push", n] => n.nat?.map .push
  | .list [.atom "pop"] => some .pop
  | .list [.atom "del", .atom k] => if okAtom k then some (.del k) else none
  | .list [.atom "deftype", .atom a] => if okAtom a then some (.deftype a) else none
  | .list [.atom "load", .atom a] => if okAtom a then some (.load a) else none
  | .list (.atom "doctx" :: id :: ts) => do
      let i ← id.nat?
      if i ≥ 1000 then none
      let ps ← ts.mapM progOf
      pure (.doctx i (seqOf ps))
  | .list (.atom "do" :: id :: ts) => do
      let i ← id.nat?
      if i ≥ 1000 then none
      let ps ← ts.mapM progOf
      pure (.dodo i (seqOf ps))
  | .list (.atom "doparent" :: id :: ts) => do
      let i ← id.nat?
      if i ≥ 1000 then none
      let ps ← ts.mapM progOf
      pure (.doctx i (seqOf ps))
  | .list (.atom "try" :: id :: ts) => do
      let i ← id.nat?
      if i ≥ 1000 then none
      let ps ← ts.mapM progOf
      pure (.dotry i (seqOf ps))
  | .list (.atom "doloader" :: ts) => (ts.mapM progOf).map fun ps => .doloader (seqOf ps)
  | .list (.atom "fork" :: ts) => (ts.mapM progOf).map fun ps => .fork (seqOf ps)
  | .list (.atom "go" :: ts) => (ts.mapM progOf).map fun ps => .go (seqOf ps)
  | .list (.atom "seq" :: ts) => (ts.mapM progOf).map seqOf
  | .list (.atom "recover" :: ts) => (ts.mapM progOf).map fun ps => .recover (seqOf ps)
  | _ => none

def tagStr (cur : Option CtxId) (tag : Option Nat) : String :=
  match cur, tag with
  | none, _ => "-"
  | some _, none => "?"
  | some _, some n => toString n

def evStr : Ev → String
  | .obs cur lex tag st =>
    "o" ++ tagStr cur tag ++ "[" ++ ",".intercalate (st.map toString) ++ "]" ++ (if cur = some lex then "" else "!")
  | .get k v => "g" ++ k ++ "=" ++ (match v with | none => "-" | some n => toString n)
  | .load n b => "l" ++ n ++ "=" ++ boolStr b
  | .recovered => "R"
  | .done _ => ""

def outStr : Outcome → String
  | .normal => "N" | .panicked => "P" | .fuel => "F"

def goroutine (log : List (Gid × Ev)) (g : Gid) : String :=
  let evs := (log.filter (·.1 = g)).map (·.2)
  let o := match evs.filterMap (fun e => match e with | .done o => some o | _ => none) with
    | [o] => outStr o
    | _ => "?"
  let body := (evs.filter (fun e => match e with | .done _ => false | _ => true)).map evStr
  s!"g{g}:{o}" ++ String.join (body.map (" " ++ ·))

def render (w : World) : String :=
  if w.oof then "fuel" else
  let gs := (List.range w.nextGid).map (goroutine w.log)
  let cur := tlGet 0 ctxKey w
  let tag := cur.bind fun c => (w.ctxs c).tag
  " | ".intercalate gs ++ s!" ; cur={tagStr cur tag} live={live w}"

def schedOf : Sexp → Option (List Nat)
  | .list xs => xs.mapM Sexp.nat?
  | _ => none

def keyStr : Option Int → String
  | none => "panic"
  | some k => toString k

def gidOK (n : Nat) : Bool := 1 ≤ n && n ≤ 20000000

def execProg : List Sexp → String
  | [.atom "prog", t] =>
    match progOf t with
    | some p => render (run implVer [] p)
    | none => "bad-op"
  | [.atom "progs", s, t] =>
    match schedOf s, progOf t with
    | some sc, some p => render (run implVer sc p)
    | _, _ => "bad-op"
  | [.atom "progi", s, t] =>
    match schedOf s, progOf t with
    | some sc, some p => render (runI sc p).w
    | _, _ => "bad-op"
  | _ => "bad-op"

def exec : List Sexp → String
  | .atom "hi" :: m :: rest =>
    match m.nat? with
    | some minId =>
      if !gidOK minId then "bad-op" else
      match rest with
      | .atom "prog" :: _ | .atom "progs" :: _ | .atom "progi" :: _ =>
        -- a malformed inner op is malformed whatever the ids
        let inner := execProg rest
        if inner == "bad-op" then "bad-op" else
        match Pcore.GidFacts.firstInexact Pcore.Generated.gidFacts minId 256 with
        | none => inner
        | some n => s!"gid-cut {n} {keyStr (Pcore.GidFacts.keyOf Pcore.Generated.gidFacts n)}"
      | _ => "bad-op"
    | none => "bad-op"
  | [.atom "gidlive", m, k] =>
    match m.nat?, k.nat? with
    | some minId, some k =>
      if !gidOK minId || k < 1 || k > 256 then "bad-op" else
      let (own, live) := Pcore.GidFacts.liveSim Pcore.Generated.gidFacts minId k
      s!"own={own}/{k} live={live}"
    | _, _ => "bad-op"
  | args => execProg args

end C14
