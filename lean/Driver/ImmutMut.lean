import Driver.Sexp
import Pcore.Model.ImmutMutable
import Pcore.Generated.SliceIdioms
/-!
Driver op `C08 mut <step>*` (syntax: harness/c08/mutable.go): a MutableHashValue as one object, with the Hash methods it
inherits; printed: what every pool entry holds after the whole history (`M<id>` a builder, `@<id>` a `*Hash` that is
builder `<id>` itself — only on a tree without the repair 1d333d3).  Whether the four `return hv` answers are copies is read
off the regenerated idiom table (`mutFrozen`).
-/
namespace C08Mut
open Sx Pcore.Heap Pcore.Mut

partial def valOf : Sexp → Option Val
  | .list [.atom "i", n] => n.int?.map .int
  | .list [.atom "s", s] => s.str?.map .str
  | .list [.atom "u"] => some .undef
  | .list [.atom "e", k, v] => do let k' ← valOf k; let v' ← valOf v; pure (.ent k' v')
  | .list (.atom "a" :: es) => (es.mapM valOf).map .arr
  | .list (.atom "h" :: es) =>
      (es.mapM fun (e : Sexp) => match e with
        | Sexp.list [k, v] => do let k' ← valOf k; let v' ← valOf v; pure (Val.ent k' v')
        | _ => none).map .hsh
  | _ => none

def idx (e : Sexp) : Option Nat :=
  match e.int? with
  | some i => if i < 0 then some 1000000000 else some i.toNat
  | none => none

def opOf : Sexp → Option MOp
  | .list [.atom "mnew"] => some .mnew
  | .list [.atom "lit", v] => (valOf v).map .lit
  | .list [.atom "put", m, k, v] => do let m' ← idx m; let k' ← valOf k; let v' ← valOf v; pure (.put m' k' v')
  | .list [.atom "putall", m, s] => do let m' ← idx m; let s' ← idx s; pure (.putAll m' s')
  | .list [.atom "delete", r, k] => do let r' ← idx r; let k' ← valOf k; pure (.delete r' k')
  | .list [.atom "deleteall", r, s] => do let r' ← idx r; let s' ← idx s; pure (.deleteAll r' s')
  | .list [.atom "merge", r, s] => do let r' ← idx r; let s' ← idx s; pure (.merge r' s')
  | .list [.atom "unique", r] => (idx r).map .unique
  | .list [.atom "entries", r] => (idx r).map .entries
  | .list [.atom "keys", r] => (idx r).map .keys
  | .list [.atom "values", r] => (idx r).map .values
  | .list [.atom "slice", r, i, j] => do let r' ← idx r; let i' ← i.int?; let j' ← j.int?; pure (.slice r' i' j')
  | _ => none

def showEntry (objs : List (List Val)) : MEntry → String
  | .mark m => m
  | .obj o => s!"M{o}(h" ++ renderH (objs.getD o []) ++ ")"
  | .alias o => s!"@{o}(h" ++ renderH (objs.getD o []) ++ ")"
  | .val .arr xs => "(a" ++ renderL xs ++ ")"
  | .val _ es => "(h" ++ renderH es ++ ")"

def exec (steps : List Sexp) : String :=
  match steps.mapM opOf with
  | some ops =>
    let st := mrun (mutFrozen Pcore.Generated.sliceIdioms) ops
    " ".intercalate (st.pool.map (showEntry st.objs))
  | none => "bad-op"

end C08Mut
