import Driver.Syntax
/-! Driver ops for C06: `parse <xBYTES> (<xBADRX>*)`, `resolve <xBYTES> (<xBADRX>*) [((BITS xTEXT)*)]` (syntax in harness/c06,
    harness/syn). -/
namespace C06
open Sx

def exec : List Sexp → String
  | [.atom "parse", b, bad] => Syn.parseOp b bad
  | [.atom "resolve", b, bad] => Syn.resolveOp b bad none
  | [.atom "resolve", b, bad, fl] => Syn.resolveOp b bad (some fl)
  | _ => "bad-op"

end C06
