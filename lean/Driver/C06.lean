import Driver.Syntax
/-! Driver ops for C06: `parse <xBYTES> (<xBADRX>*)` (syntax in harness/c06, harness/syn). -/
namespace C06
open Sx

def exec : List Sexp → String
  | [.atom "parse", b, bad] => Syn.parseOp b bad
  | _ => "bad-op"

end C06
