import Driver.Sexp
import Driver.FormatBase
import Driver.Lat
import Pcore.Model.FormatX
import Pcore.Model.FormatMergeG
import Pcore.Model.FormatLat
import Pcore.Model.FormatSpan
/-! Driver ops of C20 for the extended model (syntax in harness/c20/c20.go):
    `fmtx <ctx> <value>` — every value kind with a ToString of its own, format maps keyed by the parameterless default types of all
    kinds (`XKey`); ctx `mmap` = the user's map merged with the defaults (`contextMapG xkeyOrd`);
    `keysubx A B` — `px.IsAssignable` on those 22 types;
    `fmtt (tmap|tmmap ((T xNAME) FMT)*) <value>` — format maps keyed by ARBITRARY types: T a type term of the lattice model
    (harness/lat/doc.go), NAME its `String()`; acceptance and the order of the merged map through `Lat.asg` / `Lat.ptype`. -/
namespace C20X
open Sx Pcore.Format C20

partial def valOf : Sexp → Option XVal
  | .list [.atom "i", n] => n.int?.map .int
  | .list [.atom "f", n] => n.nat?.map .float
  | .list [.atom "s", s] => s.str?.map fun x => .str x.toList
  | .list [.atom "b", b] => b.bool?.map .bool
  | .list [.atom "u"] => some .undef
  | .list [.atom "d"] => some .dflt
  | .list [.atom "x", s] => s.bytes?.map fun bs => .binary (bs.map UInt8.toNat) ((String.fromUTF8? (ByteArray.mk bs.toArray)).map String.toList)
  | .list [.atom "r", s] => s.str?.map fun x => .regexp x.toList
  | .list [.atom "v", s] => s.str?.map fun x => .semver x.toList
  | .list [.atom "w", s, n] => do let s' ← s.str?; let n' ← n.str?; pure (.semverRange s'.toList n'.toList)
  | .list [.atom "y", s] => s.str?.map fun x => .uri x.toList
  | .list [.atom "n", n] => n.int?.map .tspan
  | .list [.atom "m", s, ns, t] => do let _ ← s.int?; let _ ← ns.int?; let t' ← t.str?; pure (.tstamp t'.toList)
  | .list [.atom "z", v] => (valOf v).map .sensitive
  | .list (.atom "t" :: src :: name :: ps) => do
      let _ ← src.str?
      let n ← name.str?
      let ps' ← ps.mapM valOf
      pure (.typ n.toList ps')
  | .list [.atom "l", src, name, r] => do
      let _ ← src.str?
      let n ← name.str?
      let r' ← valOf r
      pure (.talias n.toList r')
  | .list (.atom "q" :: src :: name :: es) => do
      let _ ← src.str?
      let n ← name.str?
      -- the init hash as basicTypeToString switches on it: `attributes` / `functions` hold members
      let es' ← es.mapM fun (e : Sexp) => match e with
        | Sexp.list [k, v] => do
            let k' ← k.str?
            match isMemberKey k'.toList, valOf v with
            | true, some (XVal.hash ms) => pure (OEntry.members k'.toList ms)
            | true, _ => none
            | false, some v' => pure (OEntry.plain k'.toList v')
            | false, none => none
        | _ => none
      pure (.otype n.toList es')
  | .list (.atom "j" :: src :: dflt :: es) => do
      let _ ← src.str?
      let d ← dflt.bool?
      let es' ← es.mapM fun (e : Sexp) => match e with
        | Sexp.list [k, v] => do
            let k' ← k.str?
            match isMemberKey k'.toList, valOf v with
            | true, some (XVal.hash ms) => pure (OEntry.members k'.toList ms)
            | true, _ => none
            | false, some v' => pure (OEntry.plain k'.toList v')
            | false, none => none
        | _ => none
      pure (.otypeX d es')
  | .list (.atom "o" :: name :: es) => do
      let n ← name.str?
      let es' ← es.mapM fun (e : Sexp) => match e with
        | Sexp.list [k, v] => do let k' ← valOf k; let v' ← valOf v; pure (XEntry.mk k' v')
        | _ => none
      pure (.obj n.toList es')
  | .list (.atom "a" :: es) => (es.mapM valOf).map .array
  | .list (.atom "h" :: es) =>
      (es.mapM fun (e : Sexp) => match e with
        | Sexp.list [k, v] => do let k' ← valOf k; let v' ← valOf v; pure (XEntry.mk k' v')
        | _ => none).map .hash
  | _ => none

def keyOf (s : String) : Option XKey :=
  match C20.keyOf s with
  | some k => some (.base k)
  | none =>
    match s with
    | "semver" => some .semver | "semverrange" => some .semverRange | "uri" => some .uri
    | "timespan" => some .tspan | "timestamp" => some .tstamp | "sensitive" => some .sensitive
    | _ => none

mutual
partial def treeOf : Sexp → Built (GTree XKey)
  | .list [d, sep, sep2, cf] =>
    match d.str?, strOpt sep, strOpt sep2 with
    | some d, some sep, some sep2 =>
      let cfB : Built (Option (GMap XKey)) := match cf with
        | .atom "-" => .ok none
        | .list es => (match mapOf es with | .ok m => .ok (some m) | .err c => .err c | .bad => .bad)
        | _ => .bad
      match cfB with
      | .bad => .bad
      | .err c => .err c
      | .ok cf =>
        match parseFormat d.toList sep sep2 with
        | .ok f => .ok (.mk f cf)
        | .error c => .err c
    | _, _, _ => .bad
  | _ => .bad
partial def mapOf : List Sexp → Built (GMap XKey)
  | [] => .ok []
  | .list [.atom k, t] :: rest =>
    match keyOf k with
    | none => .bad
    | some key =>
      match treeOf t with
      | .bad => .bad
      | .err c => .err c
      | .ok tr => (match mapOf rest with | .ok m => .ok ((key, tr) :: m) | .err c => .err c | .bad => .bad)
  | _ => .bad
end

def execFmt (io : FloatIO) (ctx ve : Sexp) : String :=
    match valOf ve with
    | none => "bad-op"
    | some v =>
      -- `xkind` / `xmap`: the same contexts with the property `expanded` — whose effect is in the value (`otypeX`)
      let ctx := match ctx with
        | .list (.atom "xkind" :: r) => Sexp.list (.atom "kind" :: r)
        | .list (.atom "xmap" :: r) => Sexp.list (.atom "map" :: r)
        | c => c
      match ctx with
      | .list [.atom "kind", d] =>
        (match d.str? with
         | none => "bad-op"
         | some d =>
           match newFormat d.toList with
           | .error c => "reported " ++ codeStr c
           | .ok f => resStr (formatX kindKeys io [(v.kind.key, .mk f none)] v))
      | .list [.atom "self", d] =>
        (match d.str? with
         | none => "bad-op"
         | some d =>
           if v.isContainer || v.kind == .talias || v.kind == .otype then "out-of-model"   -- which children the value's own type accepts is a lattice question
           else match newFormat d.toList with
             | .error c => "reported " ++ codeStr c
             -- the value's own type accepts the value and nothing that is formatted below it (the parameters of a Type are
             -- an Array, their elements fall under the container formats)
             | .ok f => resStr (formatX kindKeys io [(v.kind.key, .mk f none)] v))
      | .list [.atom "new", d] =>
        -- px.New(c, String, v, directive): newFormatContext3 with a String format = NewFormatContext(v.PType(), NewFormat(directive))
        (match d.str? with
         | none => "bad-op"
         | some d =>
           if v.isContainer || v.kind == .talias || v.kind == .otype then "out-of-model"   -- which children the value's own type accepts is a lattice question
           else match newFormat d.toList with
             | .error c => "reported " ++ codeStr c
             -- the value's own type accepts the value and nothing that is formatted below it (the parameters of a Type are
             -- an Array, their elements fall under the container formats)
             | .ok f => resStr (formatX kindKeys io [(v.kind.key, .mk f none)] v))
      | .list (.atom "map" :: es) =>
        (match mapOf es with
         | .bad => "bad-op"
         | .err c => "reported " ++ codeStr c
         | .ok m => resStr (formatX kindKeys io m v))
      | .list (.atom "mmap" :: es) =>
        -- px.NewFormatContext3(v, hash) = mergeFormats(DefaultFormats, NewFormatMap(hash)); the cyclic default tables are unrolled
        (match mapOf es with
         | .bad => "bad-op"
         | .err c => "reported " ++ codeStr c
         | .ok m =>
           if mapDepthG 8 m > 3 || !keysDistinct xkeyOrd 8 m then "out-of-model"
           else resStr (formatX kindKeys io (contextMapG xkeyOrd .base m) v))
      | _ => "bad-op"

/-! ### maps keyed by arbitrary types -/

def lkeyOf : Sexp → Option LKey
  | .list [t, n] => do
      let ty ← Lat.tyOf t
      let name ← n.str?
      pure ⟨ty, name⟩
  | _ => none

mutual
partial def ttreeOf : Sexp → Built (GTree LKey)
  | .list [d, sep, sep2, cf] =>
    match d.str?, strOpt sep, strOpt sep2 with
    | some d, some sep, some sep2 =>
      let cfB : Built (Option (GMap LKey)) := match cf with
        | .atom "-" => .ok none
        | .list es => (match tmapOf es with | .ok m => .ok (some m) | .err c => .err c | .bad => .bad)
        | _ => .bad
      match cfB with
      | .bad => .bad
      | .err c => .err c
      | .ok cf =>
        match parseFormat d.toList sep sep2 with
        | .ok f => .ok (.mk f cf)
        | .error c => .err c
    | _, _, _ => .bad
  | _ => .bad
partial def tmapOf : List Sexp → Built (GMap LKey)
  | [] => .ok []
  | .list [k, t] :: rest =>
    match lkeyOf k with
    | none => .bad
    | some key =>
      match ttreeOf t with
      | .bad => .bad
      | .err c => .err c
      | .ok tr => (match tmapOf rest with | .ok m => .ok ((key, tr) :: m) | .err c => .err c | .bad => .bad)
  | _ => .bad
end

def execFmtT (io : FloatIO) (ctx ve : Sexp) : String :=
    match valOf ve with
    | none => "bad-op"
    | some v =>
      -- a value kind the lattice model has no value of (Float, SemVer, URI, Timestamp, Type values, object instances)
      if (XVal.toLat v).isNone then "out-of-model"
      else match ctx with
      | .list (.atom "tmap" :: es) =>
        (match tmapOf es with
         | .bad => "bad-op"
         | .err c => "reported " ++ codeStr c
         | .ok m => resStr (formatLat Lat.cfg Lat.sfh io m v))
      | .list (.atom "tmmap" :: es) =>
        (match tmapOf es with
         | .bad => "bad-op"
         | .err c => "reported " ++ codeStr c
         | .ok m =>
           if mapDepthG 8 m > 3 || !keysDistinct (latOrd Lat.cfg Lat.sfh) 8 m then "out-of-model"
           else resStr (formatLatMerged Lat.cfg Lat.sfh io m v))
      | _ => "bad-op"

/-- `span xFORMAT NS`: `Timespan(NS).Format(FORMAT)` -/
def execSpan (fm : String) (ns : Int) : String :=
  match spanFormat fm.toList ns with
  | .text s => "text " ++ hexOfString (String.ofList s)
  | .badSpec => "reported PCORE_TIMESPAN_BAD_FORMAT_SPEC"
  | .fault => "fault"

def exec : List Sexp → String
  | [.atom "span", fm, ns] =>
    (match fm.str?, ns.int? with
     | some fm, some ns => execSpan fm ns
     | _, _ => "bad-op")
  | [.atom "fmtx", ctx, ve] => execFmt driverIO ctx ve
  | [.atom "fmtt", ctx, ve] => execFmtT driverIO ctx ve
  | [.atom "keysubx", .atom a, .atom b] =>
    (match keyOf a, keyOf b with
     | some a, some b => boolStr (XKey.sub a b)
     | _, _ => "bad-op")
  | _ => "bad-op"

end C20X
