import Driver.Lat
/-! Driver ops of C04 (shared table in Driver/Lat.lean; syntax in harness/lat/doc.go). -/
namespace C04
def exec : List Sx.Sexp → String := Lat.execOnly ["ptype", "dtype", "common", "gen", "infer", "asg", "inst"]
end C04
