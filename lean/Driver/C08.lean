import Driver.Sexp
import Pcore.Model.SliceHeap
import Pcore.Generated.SliceIdioms
import Pcore.Model.Caches
import Pcore.Generated.CacheFacts
import Driver.ImmutRes
import Driver.ImmutMut
/-!
Driver op for C08:  `hist <step>*` (syntax in harness/c08/c08.go).  The history is run on the IMPLEMENTATION-LAYER
model (`runHeap`) with the idiom table regenerated from the Go source and Go 1.23's growth policy; the line printed
is the content of every pool entry at the end — byte-identical with what the harness reads off the real values.
-/
namespace C08
open Sx Pcore.Heap

/-! ### Go 1.23 `growslice` (runtime/slice.go `nextslicecap`, runtime/msize.go `roundupsize`, sizeclasses.go) -/

def sizeClasses : List Nat := [8, 16, 24, 32, 48, 64, 80, 96, 112, 128, 144, 160, 176, 192, 208, 224, 240, 256, 288, 320,
  352, 384, 416, 448, 480, 512, 576, 640, 704, 768, 896, 1024, 1152, 1280, 1408, 1536, 1792, 2048, 2304, 2688, 3072, 3200,
  3456, 4096, 4864, 5376, 6144, 6528, 6784, 6912, 8192, 9472, 9728, 10240, 10880, 12288, 13568, 14336, 16384, 18432, 19072,
  20480, 21760, 24576, 27264, 28672, 32768]

/-- pointer-carrying element types (`px.Value`, `*HashEntry`): objects over 512 bytes get an 8-byte malloc header -/
def roundUpSize (size : Nat) : Nat :=
  if size ≤ 32768 - 8 then
    let req := if size > 512 then size + 8 else size
    match sizeClasses.find? (fun c => req ≤ c) with
    | some c => c - (req - size)
    | none => size
  else (size + 8191) / 8192 * 8192

def nextCapLoop : Nat → Nat → Nat → Nat
  | 0, c, _ => c
  | fuel + 1, c, need => let c' := c + (c + 768) / 4; if c' ≥ need then c' else nextCapLoop fuel c' need

def nextSliceCap (needed oldCap : Nat) : Nat :=
  if needed > 2 * oldCap then needed
  else if oldCap < 256 then 2 * oldCap
  else nextCapLoop 64 oldCap needed

def goGrow (esz oldCap needed : Nat) : Nat := roundUpSize (nextSliceCap needed oldCap * esz) / esz

/-- capacity after appending one element at a time to a slice of capacity `c` until it holds `n` -/
def iterGrow (esz : Nat) : Nat → Nat → Nat → Nat
  | 0, c, _ => c
  | fuel + 1, c, n => if n ≤ c then c else iterGrow esz fuel (goGrow esz c (c + 1)) n

/-- element size by site: array cells are interfaces (16 bytes), hash entries pointers (8 bytes) -/
def eszOf (site : String) : Nat :=
  if site.startsWith "Hash.Map/" || site.startsWith "Hash.Keys" || site.startsWith "Hash.Values" || site.startsWith "Hash.Flatten"
  then 16 else if site.startsWith "Hash." || site.startsWith "MutableHashValue." || site.startsWith "BuildHash" ||
    site.startsWith "WrapHash" || site.startsWith "NewMutableHash" then 8 else 16

/-- spare cells of freshly built results, as the current Go code allocates them (only observable when some idiom
    writes in place, i.e. on a tree where the obligation `C08_idioms_safe` is already broken) -/
def goSpare (site : String) (hint n : Nat) : Nat :=
  let esz := eszOf site
  if site == "BuildArray/r0" || site == "BuildHash/r0" then iterGrow esz 64 hint n - n          -- make(0, cap) + append each
  else if site == "Array.Select/r0" || site == "Array.Reject/r0" || site == "Array.Delete/r0" || site == "Array.DeleteAll/r0"
    then iterGrow esz 64 8 n - n                                                                   -- px.Select: make(0, 8)
  else if site == "Array.Flatten/r0" then iterGrow esz 64 (2 * hint) n - n                        -- make(0, 2·len)
  else if site == "Hash.Flatten/r0" then iterGrow esz 64 (4 * hint) n - n
  else if site == "Array.Unique/r2" then hint - n                                                  -- make(0, len)
  else if site == "Hash.Select/r0" || site == "Hash.Reject/r0" || site == "Hash.SelectPairs/r0" || site == "Hash.RejectPairs/r0"
    then iterGrow esz 64 0 n - n                                                                   -- make(0)
  else 0

def goPolicy : Policy where
  grow := fun c need => goGrow 16 c need
  spare := goSpare

/-! ### parsing -/

partial def valOf : Sexp → Option Val
  | .list [.atom "i", n] => n.int?.map .int
  | .list [.atom "s", s] => s.str?.map .str
  | .list [.atom "u"] => some .undef
  | .list [.atom "e", k, v] => do let k' ← valOf k; let v' ← valOf v; pure (.ent k' v')
  | .list (.atom "a" :: es) => (es.mapM valOf).map .arr
  | .list (.atom "h" :: es) =>
      (es.mapM fun (e : Sexp) => match e with
        | Sexp.list [k, v] => do let k' ← valOf k; let v' ← valOf v; pure (Val.ent k' v')
        | _ => none).map .hsh
  | _ => none

def elemOf : Sexp → Option Elem
  | .list [.atom "v", n] => n.nat?.map .ref
  | e => (valOf e).map .lit

def fnOf : Sexp → Option Fn
  | .atom "id" => some .id | .atom "inc" => some .inc | .atom "wrap" => some .wrap | .atom "k1" => some .k1
  | _ => none

def predOf : Sexp → Option Pred
  | .atom "all" => some .all | .atom "none" => some .none | .atom "isint" => some .isint | .atom "eq1" => some .eq1
  | .atom "iscoll" => some .iscoll
  | _ => none

/-- a pool index; the harness treats a negative or dangling index as "no such value" -/
def idxOfSexp (e : Sexp) : Option Nat :=
  match e.int? with
  | some i => if i < 0 then some 1000000000 else some i.toNat
  | none => none

def opOf : Sexp → Option Op
  | .list [.atom "lit", v] => (valOf v).map .lit
  | .list [.atom "parse", v] => (valOf v).map .parse
  | .list [.atom "coll", c, v] => do let c' ← c.int?; let v' ← valOf v; pure (.coll c' v')
  | .list [.atom "mnew"] => some .mnew
  | .list [.atom "tree", v] => (valOf v).map .tree
  | .list [.atom "get", r, x] => do let r' ← idxOfSexp r; let x' ← elemOf x; pure (.get r' x')
  | .list [.atom "add", r, x] => do let r' ← idxOfSexp r; let x' ← elemOf x; pure (.add r' x')
  | .list [.atom "delete", r, x] => do let r' ← idxOfSexp r; let x' ← elemOf x; pure (.delete r' x')
  | .list [.atom "addall", r, s] => do let r' ← idxOfSexp r; let s' ← idxOfSexp s; pure (.addAll r' s')
  | .list [.atom "deleteall", r, s] => do let r' ← idxOfSexp r; let s' ← idxOfSexp s; pure (.deleteAll r' s')
  | .list [.atom "merge", r, s] => do let r' ← idxOfSexp r; let s' ← idxOfSexp s; pure (.merge r' s')
  | .list [.atom "mputall", r, s] => do let r' ← idxOfSexp r; let s' ← idxOfSexp s; pure (.mputAll r' s')
  | .list [.atom "equals", r, s] => do let r' ← idxOfSexp r; let s' ← idxOfSexp s; pure (.obs r' (some s'))
  | .list [.atom "mput", r, k, v] => do let r' ← idxOfSexp r; let k' ← elemOf k; let v' ← elemOf v; pure (.mput r' k' v')
  | .list [.atom "slice", r, i, j] => do let r' ← idxOfSexp r; let i' ← i.int?; let j' ← j.int?; pure (.slice r' i' j')
  | .list [.atom "chunk", r, n, k] => do let r' ← idxOfSexp r; let n' ← n.int?; let k' ← k.int?; pure (.chunk r' n' k')
  | .list [.atom "asarray", r] => (idxOfSexp r).map .asArray
  | .list [.atom "at", r, i] => do let r' ← idxOfSexp r; let i' ← i.int?; pure (.at r' i')
  | .list [.atom "map", r, f] => do let r' ← idxOfSexp r; let f' ← fnOf f; pure (.map r' f')
  | .list [.atom "mapvalues", r, f] => do let r' ← idxOfSexp r; let f' ← fnOf f; pure (.mapValues r' f')
  | .list [.atom "select", r, p] => do let r' ← idxOfSexp r; let p' ← predOf p; pure (.select r' p')
  | .list [.atom "reject", r, p] => do let r' ← idxOfSexp r; let p' ← predOf p; pure (.reject r' p')
  | .list [.atom "selectpairs", r, p] => do let r' ← idxOfSexp r; let p' ← predOf p; pure (.selectPairs r' p')
  | .list [.atom "rejectpairs", r, p] => do let r' ← idxOfSexp r; let p' ← predOf p; pure (.rejectPairs r' p')
  | .list [.atom "sort", r] => (idxOfSexp r).map .sort
  | .list [.atom "flatten", r] => (idxOfSexp r).map .flatten
  | .list [.atom "unique", r] => (idxOfSexp r).map .unique
  | .list [.atom "keys", r] => (idxOfSexp r).map .keys
  | .list [.atom "values", r] => (idxOfSexp r).map .values
  | .list [.atom "entries", r] => (idxOfSexp r).map .entries
  | .list [.atom o, r] =>
    if o == "ser" || o == "deser" then (idxOfSexp r).map .ser
    else if o == "resolve" then (idxOfSexp r).map .resolve
    else if o == "ptype" || o == "dtype" || o == "tostring" || o == "tokey" || o == "walk" then
      (idxOfSexp r).map fun r' => .obs r' none
    else none
  | _ => none

def entryStr (h : Heap) : HEntry → String
  | .mark m => m
  | .val .arr s => "(a" ++ renderL (h.read s) ++ ")"
  | .val _ s => "(h" ++ renderH (h.read s) ++ ")"

def showState (st : HState) : String := " ".intercalate (st.pool.map (entryStr st.heap))

/-- storage shape (see harness/c08 `shape`): which pool values share a backing array and at which relative offset -/
def liveSlices (st : HState) : List (Option Slice) :=
  (List.range st.pool.length).map fun i =>
    if st.dead.contains i then none else
    match st.pool[i]? with
    | some (.val _ s) => if s.len == 0 then none else some s
    | _ => none

def minOff (sls : List (Option Slice)) (a : Nat) : Nat :=
  sls.foldl (fun m o => match o with
    | some s => if s.arr == a then (match m with | none => some s.off | some x => some (min x s.off)) else m
    | none => m) none |>.getD 0

def showShape (st : HState) : String :=
  let sls := liveSlices st
  let rec go (i : Nat) (es : List HEntry) (ids : List Nat) (acc : List String) : List String :=
    match es with
    | [] => acc.reverse
    | e :: rest =>
      match e with
      | .mark _ => go (i + 1) rest ids ("-" :: acc)
      | .val _ s =>
        if st.dead.contains i then go (i + 1) rest ids ("x" :: acc)
        else if s.len == 0 then go (i + 1) rest ids ("e" :: acc)
        else
          let (id, ids') := match ids.findIdx? (· == s.arr) with
            | some k => (k, ids)
            | none => (ids.length, ids ++ [s.arr])
          go (i + 1) rest ids' (s!"{id}.{s.off - minOff sls s.arr}" :: acc)
  " ".intercalate (go 0 st.pool [] [])

/-- are all caches coherent when every cache of every value is asked for before every step (what the harness's
    snapshots do)?  `stale` reproduces e.g. a `PutAll` that does not reset a cache. -/
def cachesOK (st : CState) : Bool :=
  (List.range st.hs.pool.length).all fun i =>
    match st.hs.slice? i, st.obj[i]? with
    | some (_, sl), some o =>
      [CacheField.reduced, .detailed, .index].all fun fld =>
        match (st.caches o).get fld with
        | some snap => renderL snap == renderL (st.hs.heap.read sl)
        | none => true
    | _, _ => true

def usesAt : Op → Bool
  | .at _ _ => true
  | .get _ _ => true
  | _ => false

def exec : List Sexp → String
  | .atom "hist" :: steps =>
    match steps.mapM opOf with
    | some ops =>
      let cst := runC goPolicy Pcore.Generated.sliceIdioms Pcore.Generated.cacheFacts allFills ops
      let cst := cst.fills (allFills cst.hs.pool.length)
      let st := cst.hs
      showState st ++ " | shape " ++ (if ops.any usesAt then "n/a" else showShape st) ++
        " | caches " ++ (if cachesOK cst then "ok" else "stale")
    | none => "bad-op"
  | .atom "mut" :: steps => C08Mut.exec steps        -- a MutableHashValue as an object (Driver/ImmutMut.lean)
  | .atom "res" :: args => C08Res.exec args          -- the resolving operations (Driver/ImmutRes.lean)
  | _ => "bad-op"

end C08
