import Driver.Sexp
import Pcore.Model.Ser
import Pcore.Model.SerSpec
import Pcore.Generated.SerArms
/-! Driver op for C10:  `ser <opts> <caps> <val>` (syntax in harness/c10/c10.go). -/
namespace C10
open Sx Pcore.Ser

def kindOf : String → Option Kind
  | "rx" => some .rx | "sv" => some .sv | "svr" => some .svr | "ts" => some .ts
  | "tm" => some .tm | "uri" => some .uri | "ty" => some .ty | "td" => some .td | _ => none

def kindStr : Kind → String
  | .rx => "rx" | .sv => "sv" | .svr => "svr" | .ts => "ts" | .tm => "tm" | .uri => "uri" | .ty => "ty" | .td => "td"

/-- parsing state: objects defined so far (pre-order) and ids of the containers still open -/
structure PS where
  defined : List (Nat × V)
  opened : List Nat

def freshId (ps : PS) (e : Sexp) : Option Nat := do
  let n ← e.nat?
  if (ps.defined.lookup n).isSome || ps.opened.contains n then none else some n

mutual
partial def parseV (ps : PS) : Sexp → Option (V × PS)
  | .list [.atom "u"] => some (.undef, ps)
  | .list [.atom "df"] => some (.dflt, ps)
  | .list [.atom "b", b] => b.bool?.map fun x => (.bool x, ps)
  | .list [.atom "i", n] => n.int?.map fun x => (.int x, ps)
  | .list [.atom "f", n] => n.nat?.map fun x => (.flt x, ps)
  | .list [.atom "s", s] => s.str?.map fun x => (.str x, ps)
  | .list [.atom "x", i, bs] => do
    let id ← freshId ps i
    let b ← bs.bytes?
    let v := V.bin id b
    some (v, { ps with defined := (id, v) :: ps.defined })
  | .list [.atom "l", i, .atom k, enc, disp] => do
    let id ← freshId ps i
    let kd ← kindOf k
    let e ← enc.str?
    let d ← disp.str?
    if !canonLeaf kd e then none      -- e.g. a Timespan payload that is not the default format of a duration
    let v := V.leaf id kd e d
    some (v, { ps with defined := (id, v) :: ps.defined })
  | .list [.atom "sn", i, x] => do
    let id ← freshId ps i
    let (w, ps1) ← parseV { ps with opened := id :: ps.opened } x
    let v := V.sens id w
    some (v, { defined := (id, v) :: ps1.defined, opened := ps.opened })
  | .list (.atom "a" :: i :: xs) => do
    let id ← freshId ps i
    let (ws, ps1) ← parseVs { ps with opened := id :: ps.opened } xs
    let v := V.arr id ws
    some (v, { defined := (id, v) :: ps1.defined, opened := ps.opened })
  | .list (.atom "h" :: i :: xs) => do
    let id ← freshId ps i
    let (ws, ps1) ← parsePairs { ps with opened := id :: ps.opened } xs
    let v := V.hash id ws
    some (v, { defined := (id, v) :: ps1.defined, opened := ps.opened })
  | .list (.atom "o" :: i :: tn :: disp :: xs) => do
    let id ← freshId ps i
    let t ← tn.str?
    let d ← disp.str?
    let (ws, ps1) ← parseAttrs { ps with opened := id :: ps.opened } xs
    let v := V.obj id t d ws
    some (v, { defined := (id, v) :: ps1.defined, opened := ps.opened })
  | .list [.atom "tdef", i, _text, disp, init] => do
    -- a type definition no loader knows: an instance of Pcore::ObjectType whose init hash is given (own identities)
    let id ← freshId ps i
    let d ← disp.str?
    let (h, _) ← parseV { defined := [], opened := [] } init
    match h with
    | .hash _ es =>
      let as ← es.mapM fun (kv : V × V) => match kv.1 with
        | .str k => some (k, kv.2)
        | _ => none
      let v := V.obj id "Pcore::ObjectType" d as
      some (v, { ps with defined := (id, v) :: ps.defined })
    | _ => none
  | .list [.atom "=", i] => do
    let n ← i.nat?
    let v ← ps.defined.lookup n
    some (v, ps)
  | _ => none
partial def parseAttrs (ps : PS) : List Sexp → Option (List (String × V) × PS)
  | [] => some ([], ps)
  | .list [k, v] :: xs => do
    let k' ← k.str?
    let (v', ps1) ← parseV ps v
    let (as, ps2) ← parseAttrs ps1 xs
    some ((k', v') :: as, ps2)
  | _ => none
partial def parseVs (ps : PS) : List Sexp → Option (List V × PS)
  | [] => some ([], ps)
  | x :: xs => do
    let (v, ps1) ← parseV ps x
    let (vs, ps2) ← parseVs ps1 xs
    some (v :: vs, ps2)
partial def parsePairs (ps : PS) : List Sexp → Option (List (V × V) × PS)
  | [] => some ([], ps)
  | .list [k, v] :: xs => do
    let (k', ps1) ← parseV ps k
    let (v', ps2) ← parseV ps1 v
    let (es, ps3) ← parsePairs ps2 xs
    some ((k', v') :: es, ps3)
  | _ => none
end

def optsOf : Sexp → Option Opts
  | .list [.atom "o", r, l, d] => do
    let rich ← r.bool?
    let lref ← l.bool?
    let dd ← d.nat?
    if dd > 2 then none else some { rich := rich, localRef := lref, dedup := dd }
  | _ => none

def capsOf : Sexp → Option Caps
  | .list [.atom "c", b, x, t] => do
    let bin ← b.bool?
    let cplx ← x.bool?
    let thr ← t.nat?
    some { bin := bin, cplx := cplx, thr := thr }
  | _ => none

def scStr : Sc → String
  | .undef => "(u)" | .bool b => s!"(b {boolStr b})" | .int i => s!"(i {i})" | .flt f => s!"(f {f})"
  | .str s => s!"(s {hexOfString s})" | .bin bs => "(x x" ++ hexOfBytes bs ++ ")"

partial def evStr : Ev → String
  | .add d => scStr d
  | .ref n => s!"(r {n})"
  | .arr es => "(a" ++ String.join (es.map fun e => " " ++ evStr e) ++ ")"
  | .hsh es => "(h" ++ String.join (es.map fun e => " " ++ evStr e) ++ ")"

/-- print a value with identities renumbered by first occurrence (pre-order); `m` maps model ids to printed ids.
    Inside a type definition (`anon`) nothing is printed with an identity (`-`): the Go side prints a type from an
    init hash that is rebuilt on every call. -/
partial def valStr (anon : Bool) (m : List (Nat × Nat)) : V → String × List (Nat × Nat)
  | .undef => ("(u)", m) | .dflt => ("(df)", m)
  | .bool b => (s!"(b {boolStr b})", m) | .int i => (s!"(i {i})", m) | .flt f => (s!"(f {f})", m)
  | .str s => (s!"(s {hexOfString s})", m)
  | .bin _ bs => ("(x x" ++ hexOfBytes bs ++ ")", m)
  | .leaf id k enc _ =>
    if k.byContent || anon then (s!"(l - {kindStr k} {hexOfString enc})", m)
    else match m.lookup id with
      | some n => (s!"(= {n})", m)
      | none => (s!"(l {m.length} {kindStr k} {hexOfString enc})", (id, m.length) :: m)
  | .sens id v =>
    match (if anon then none else m.lookup id) with
    | some n => (s!"(= {n})", m)
    | none =>
      let (s, m1) := valStr anon (if anon then m else (id, m.length) :: m) v
      (s!"(sn {if anon then "-" else toString m.length} {s})", m1)
  | .arr id vs =>
    match (if anon then none else m.lookup id) with
    | some n => (s!"(= {n})", m)
    | none =>
      let (s, m1) := vs.foldl (fun (acc : String × List (Nat × Nat)) v =>
        let (t, m') := valStr anon acc.2 v; (acc.1 ++ " " ++ t, m')) ("", if anon then m else (id, m.length) :: m)
      (s!"(a {if anon then "-" else toString m.length}{s})", m1)
  | .hash id es =>
    match (if anon then none else m.lookup id) with
    | some n => (s!"(= {n})", m)
    | none =>
      let (s, m1) := es.foldl (fun (acc : String × List (Nat × Nat)) (kv : V × V) =>
        let (t1, m') := valStr anon acc.2 kv.1
        let (t2, m'') := valStr anon m' kv.2
        (acc.1 ++ " (" ++ t1 ++ " " ++ t2 ++ ")", m'')) ("", if anon then m else (id, m.length) :: m)
      (s!"(h {if anon then "-" else toString m.length}{s})", m1)
  | .obj id tn _ as =>
    let isType := tn == "Pcore::ObjectType"     -- a type: printed without identity, like every type
    match (if anon || isType then none else m.lookup id) with
    | some n => (s!"(= {n})", m)
    | none =>
      let (s, m1) := as.foldl (fun (acc : String × List (Nat × Nat)) (kv : String × V) =>
        let (t, m') := valStr (anon || isType) acc.2 kv.2
        (acc.1 ++ " (" ++ hexOfString kv.1 ++ " " ++ t ++ ")", m')) ("", if anon || isType then m else (id, m.length) :: m)
      (s!"(o {if anon || isType then "-" else toString m.length} {hexOfString tn}{s})", m1)

def exec : List Sexp → String
  | [.atom "span", src] =>
    match src.str? with
    | none => "bad-op"
    | some s =>
      match parseSpan s with
      | some ns => hexOfString (printSpan ns)
      | none => "err"
  | [.atom "ser", o, c, v] =>
    match optsOf o, capsOf c, parseV { defined := [], opened := [] } v with
    | some opts, some caps, some (val, _) =>
      if !val.dispOk (mkCfg opts caps) then "unmodelled"
      else if !sharedB (mkCfg opts caps) val then "incoherent-sharing"     -- hypothesis `Shared` of the theorems
      else
        -- the emit discipline is the one regenerated from serializer.go (fact family serarms)
        let ev := serializeE (emitOf Pcore.Generated.serArms) opts caps val
        let back := match deserialize ev with
          | .ok r => (valStr false [] r).1
          | .error _ => "err"
        evStr ev ++ " | " ++ back
    | _, _, _ => "bad-op"
  | _ => "bad-op"

end C10
