import Driver.Syntax
/-!
Driver ops for C05 (syntax in harness/c05):
  quote <xS> | rxquote <xS> | rt-str <xS> | rt-rx <xS> <compiles t|f> (<xBADRX>*) | rt-int <N>
-/
namespace C05
open Sx Pcore.Syntax Syn

def strArg (e : Sexp) : Option Str := e.str?.map String.toList

/-- does the text parse back to exactly this expression? -/
def parsesTo (env : Env) (text : Str) (want : Expr → Bool) : Bool :=
  match parse env (syms text) with
  | .value e => want e
  | _ => false

def isStr (s : Str) : Expr → Bool
  | .str t => t == s
  | _ => false

def isRx (s : Str) : Expr → Bool
  | .regexp t => t == s
  | _ => false

def isInt (i : Int) : Expr → Bool
  | .int j => i == j
  | _ => false

def exec : List Sexp → String
  | [.atom "quote", s] =>
    match strArg s with
    | some x => strHex (puppetQuote x)
    | none => "bad-op"
  | [.atom "rxquote", s] =>
    match strArg s with
    | some x => strHex (regexpQuote x)
    | none => "bad-op"
  | [.atom "rt-str", s] =>
    match strArg s with
    | some x =>
      let text := puppetQuote x
      strHex text ++ " rt=" ++ boolStr (parsesTo (mkEnv []) text (isStr x))
    | none => "bad-op"
  | [.atom "rt-rx", s, ok, bad] =>
    match strArg s, ok.bool?, badList bad with
    | some x, some compiles, some bl =>
      if !compiles then "invalid"
      else
        let text := regexpQuote x
        strHex text ++ " rt=" ++ boolStr (parsesTo (mkEnv bl) text (isRx x))
    | _, _, _ => "bad-op"
  | [.atom "rt-int", n] =>
    match n.int? with
    | some i =>
      let text := intText i
      strHex text ++ " rt=" ++ boolStr (parsesTo (mkEnv []) text (isInt i))
    | none => "bad-op"
  | _ => "bad-op"

end C05
