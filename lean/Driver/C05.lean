import Driver.Syntax
import Pcore.Model.Types
import Pcore.Model.TypedVal
/-!
Driver ops for C05 (syntax in harness/c05):
  quote <xS> | rxquote <xS> | rt-str <xS> | rt-rx <xS> <compiles t|f> (<xBADRX>*) | rt-int <N>
-/
namespace C05
open Sx Pcore.Syntax Syn

def strArg (e : Sexp) : Option Str := e.str?.map String.toList

/-- does the text parse back to exactly this expression? -/
def parsesTo (env : Env) (text : Str) (want : Expr → Bool) : Bool :=
  match parse env (syms text) with
  | .value e => want e
  | _ => false

def isStr (s : Str) : Expr → Bool
  | .str t => t == s
  | _ => false

def isRx (s : Str) : Expr → Bool
  | .regexp t => t == s
  | _ => false

def isInt (i : Int) : Expr → Bool
  | .int j => i == j
  | _ => false

/-- values of the modelled fragment: u | d | (b _) | (i _) | (f BITS xTEXT) | (s _) | (r _) | (a v*) | (h (k v)*) -/
partial def valOf : Sexp → Option Val
  | .atom "u" => some .undef
  | .atom "d" => some .dflt
  | .list [.atom "b", b] => b.bool?.map .bool
  | .list [.atom "i", n] => n.int?.map .int
  | .list [.atom "f", n, t] => do let b ← n.nat?; let x ← strArg t; pure (.float b x)
  | .list [.atom "s", s] => (strArg s).map .str
  | .list [.atom "r", s] => (strArg s).map .regexp
  | .list [.atom "ty", t] =>
      -- a type held by the value, as it is written: the model's own text of the type the given text denotes
      (t.bytes?.bind fun bs => parseType (mkEnv []) (decodeUtf8 bs)).map tyExpr
  | .list (.atom "a" :: es) => (es.mapM valOf).map .arr
  | .list (.atom "h" :: es) =>
      (es.mapM fun (e : Sexp) => match e with
        | Sexp.list [k, v] => do let k' ← valOf k; let v' ← valOf v; pure (k', v')
        | _ => none).map .hash
  | _ => none

/-- values that may hold types: the syntax of `valOf` plus `(ty xTEXT)` = the type the text denotes (`Context.ParseType`) -/
partial def tvalOf (env : Env) : Sexp → Option TVal
  | .atom "u" => some .undef
  | .atom "d" => some .dflt
  | .list [.atom "b", b] => b.bool?.map .bool
  | .list [.atom "i", n] => n.int?.map .int
  | .list [.atom "f", n, t] => do let b ← n.nat?; let x ← strArg t; pure (.float b x)
  | .list [.atom "s", s] => (strArg s).map .str
  | .list [.atom "r", s] => (strArg s).map .regexp
  | .list [.atom "ty", t] => (t.bytes?.bind fun bs => parseType env (decodeUtf8 bs)).map .ty
  | .list (.atom "a" :: es) => (es.mapM (tvalOf env)).map .arr
  | .list (.atom "h" :: es) =>
      (es.mapM fun (e : Sexp) => match e with
        | Sexp.list [k, v] => do let k' ← tvalOf env k; let v' ← tvalOf env v; pure (k', v')
        | _ => none).map .hash
  | _ => none

/-- the float leaves of a value with their texts (they are the formatter oracle for `resolveV`) -/
partial def floatLeaves : Sexp → List (Nat × Str)
  | .list [.atom "f", n, t] =>
    match n.nat?, strArg t with
    | some b, some x => [(b, x)]
    | _, _ => []
  | .list xs => xs.flatMap floatLeaves
  | _ => []

def exec : List Sexp → String
  | [.atom "quote", s] =>
    match strArg s with
    | some x => strHex (puppetQuote x)
    | none => "bad-op"
  | [.atom "rxquote", s] =>
    match strArg s with
    | some x => strHex (regexpQuote x)
    | none => "bad-op"
  | [.atom "rt-str", s] =>
    match strArg s with
    | some x =>
      let text := puppetQuote x
      strHex text ++ " rt=" ++ boolStr (parsesTo (mkEnv []) text (isStr x))
    | none => "bad-op"
  | [.atom "rt-rx", s, ok, bad] =>
    match strArg s, ok.bool?, badList bad with
    | some x, some compiles, some bl =>
      if !compiles then "invalid"
      else
        let text := regexpQuote x
        strHex text ++ " rt=" ++ boolStr (parsesTo (mkEnv bl) text (isRx x))
    | _, _, _ => "bad-op"
  | [.atom "rt-val", v, bad] =>
    match valOf v, badList bad with
    | some x, some bl =>
      let text := printVal x
      strHex text ++ " rt=" ++ boolStr (parsesTo (mkEnv bl) text (fun e => Expr.beq e (exprOf x)))
    | _, _ => "bad-op"
  | [.atom "rt-objlit", name, ih, bad] =>
    -- the written form of an object instance: type name + init hash → text, and what that text parses to
    match strArg name, valOf ih, badList bad with
    | some n, some (.hash es), some bl =>
      let text := printVal (.obj n es)
      strHex text ++ " " ++ outcomeStr (parse (mkEnv bl) (syms text))
    | _, _, _ => "bad-op"
  | [.atom "rt-tval", v, bad, fl] =>
    -- a value that holds types: print, parse, resolve the type expressions (`types.ResolveDeferred`), compare
    match badList bad, floatTable fl with
    | some bl, some ft =>
      let env := mkEnvF bl (ft ++ floatLeaves v)
      match tvalOf env v with
      | none => "unmodelled"
      | some x =>
        let text := printTVal x
        let ok := match parseTVal env (syms text) with
          | some y => TVal.eqGo y x && TVal.eqGo x y
          | none => false
        strHex text ++ " rt=" ++ boolStr ok
    | _, _ => "bad-op"
  | .atom "rt-type" :: tx :: bad :: rest =>
    -- optional third argument: the float-text oracle `((BITS xTEXT) …)` for the bounds of Float types
    let fl : Option (List (Nat × Str)) :=
      match rest with
      | [] => some []
      | [f] => floatTable f
      | _ => none
    match tx.bytes?, badList bad, fl with
    | some bs, some bl, some ft =>
      let env := mkEnvF bl ft
      match parseType env (decodeUtf8 bs) with
      | none => "unmodelled"
      | some t =>
        let s := printTy t
        let ok := match parseType env (syms s) with
          | some t2 => Ty.eqGo t2 t && Ty.eqGo t t2 && printTy t2 == s
          | none => false
        strHex s ++ " rt=" ++ boolStr ok
    | _, _, _ => "bad-op"
  | [.atom "rt-api", ctor] =>
    -- a type built through the Go constructors: NewArrayType / NewHashType / NewCollectionType / NewStringType
    let env := mkEnv []
    let name (e : Sexp) : Option Ty := (strArg e).bind fun n => resolveName env n
    let built : Option Ty :=
      match ctor with
      | .list [.atom "array", e, lo, hi] => do
        let t ← name e; let a ← lo.int?; let b ← hi.int?
        pure (.array t a b)
      | .list [.atom "hash", k, v, lo, hi] => do
        let tk ← name k; let tv ← name v; let a ← lo.int?; let b ← hi.int?
        pure (.hash tk tv a b)
      | .list [.atom "collection", lo, hi] => do
        let a ← lo.int?; let b ← hi.int?
        pure (.collection a b)
      | .list [.atom "string", lo, hi] => do
        let a ← lo.int?; let b ← hi.int?
        newStr a b
      | _ => none
    match built with
    | none => "bad-op"
    | some t =>
      let s := printTy t
      let ok := match parseType env (syms s) with
        | some t2 => Ty.eqGo t2 t && Ty.eqGo t t2 && printTy t2 == s
        | none => false
      strHex s ++ " rt=" ++ boolStr ok
  | [.atom "rt-int", n] =>
    match n.int? with
    | some i =>
      let text := intText i
      strHex text ++ " rt=" ++ boolStr (parsesTo (mkEnv []) text (isInt i))
    | none => "bad-op"
  | _ => "bad-op"

end C05
