/-
  S-expression syntax shared by the Go harness (harness/sx) and the Lean driver.

    sexp  ::= atom | '(' sexp* ')'
    atom  ::= any run of characters other than blank, '(' and ')'

  Conventions used by every property's op lines:
    * integers are decimal atoms (`-12`)
    * strings/byte strings travel hex-encoded with an `x` prefix: `x` = "", `x6162` = "ab"
    * booleans are `t` / `f`
  Core-only (no Mathlib): this file is linked into the compiled driver.
-/
namespace Sx

inductive Sexp where
  | atom (s : String)
  | list (xs : List Sexp)
  deriving Inhabited, Repr

/-- tokens: "(" ")" or an atom -/
def tokenize (s : String) : List String := Id.run do
  let mut toks : Array String := #[]
  let mut cur : String := ""
  for c in s.toList do
    if c = '(' || c = ')' then
      if cur ≠ "" then toks := toks.push cur; cur := ""
      toks := toks.push (String.singleton c)
    else if c = ' ' || c = '\t' || c = '\n' || c = '\r' then
      if cur ≠ "" then toks := toks.push cur; cur := ""
    else
      cur := cur.push c
  if cur ≠ "" then toks := toks.push cur
  return toks.toList

/-- parse a token list into a sequence of s-expressions (stack machine, total) -/
def parseToks (toks : List String) : Option (List Sexp) := Id.run do
  let mut stack : List (List Sexp) := []      -- reversed partial lists
  let mut cur : List Sexp := []               -- reversed
  for t in toks do
    if t = "(" then
      stack := cur :: stack
      cur := []
    else if t = ")" then
      match stack with
      | [] => return none
      | top :: rest =>
        cur := Sexp.list cur.reverse :: top
        stack := rest
    else
      cur := Sexp.atom t :: cur
  if stack.isEmpty then return some cur.reverse else return none

def parseAll (s : String) : Option (List Sexp) := parseToks (tokenize s)

partial def Sexp.toString : Sexp → String
  | .atom s => s
  | .list xs => "(" ++ " ".intercalate (xs.map Sexp.toString) ++ ")"

instance : ToString Sexp := ⟨Sexp.toString⟩

def hexVal (c : Char) : Option Nat :=
  if '0' ≤ c ∧ c ≤ '9' then some (c.toNat - '0'.toNat)
  else if 'a' ≤ c ∧ c ≤ 'f' then some (c.toNat - 'a'.toNat + 10)
  else if 'A' ≤ c ∧ c ≤ 'F' then some (c.toNat - 'A'.toNat + 10)
  else none

def hexBytes : List Char → Option (List UInt8)
  | [] => some []
  | [_] => none
  | a :: b :: rest => do
    let x ← hexVal a
    let y ← hexVal b
    let r ← hexBytes rest
    pure (UInt8.ofNat (x * 16 + y) :: r)

/-- `x6162` → bytes -/
def Sexp.bytes? : Sexp → Option (List UInt8)
  | .atom s =>
    match s.toList with
    | 'x' :: rest => hexBytes rest
    | _ => none
  | _ => none

/-- `x6162` → "ab" (must be valid UTF-8) -/
def Sexp.str? (e : Sexp) : Option String := do
  let bs ← e.bytes?
  String.fromUTF8? (ByteArray.mk bs.toArray)

def Sexp.int? : Sexp → Option Int
  | .atom s => s.toInt?
  | _ => none

def Sexp.nat? : Sexp → Option Nat
  | .atom s => s.toNat?
  | _ => none

def Sexp.bool? : Sexp → Option Bool
  | .atom "t" => some true
  | .atom "f" => some false
  | _ => none

def hexDigit (n : Nat) : Char :=
  if n < 10 then Char.ofNat ('0'.toNat + n) else Char.ofNat ('a'.toNat + n - 10)

def hexOfBytes (bs : List UInt8) : String :=
  String.ofList (bs.flatMap fun b => [hexDigit (b.toNat / 16), hexDigit (b.toNat % 16)])

def hexOfString (s : String) : String := "x" ++ hexOfBytes s.toUTF8.toList

def boolStr (b : Bool) : String := if b then "t" else "f"

end Sx
