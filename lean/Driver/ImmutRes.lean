import Driver.Sexp
import Pcore.Model.ImmutResolve
import Pcore.Generated.FieldWrites
/-!
Driver op `C08 res <rval> <scope> <scope>*` (syntax and well-formedness: harness/c08/resolve.go).  The resolutions are run
IN SEQUENCE on the implementation-layer model `resolveSeq`, with the field writes the regenerated table
`Generated.fieldWrites` attributes to the resolving methods; printed: every answer, then the value as it is after all
resolutions and the scopes — byte-identical with what the harness reads off the real objects.
-/
namespace C08Res
open Sx Pcore.Immut

def typeNames : List String := ["Integer", "String", "Any", "Boolean", "Nope"]

def nameOK (n : String) : Bool := (varName? n).isSome || n == "verif_list" || n == "verif_first" || n == "nofunc"

def paramNames : List String := ["Array", "Optional", "Type", "NotUndef", "Tuple"]

partial def rvOf : Sexp → Option RV
  | .list [.atom "i", n] => n.int?.map .int
  | .list [.atom "s", s] => s.str?.map .str
  | .list [.atom "u"] => some .undef
  | .list (.atom "a" :: es) => (es.mapM rvOf).map .arr
  | .list (.atom "h" :: es) =>
      (es.mapM fun (e : Sexp) => match e with
        | Sexp.list [k, v] => do let k' ← rvOf k; let v' ← rvOf v; pure (RV.ent k' v')
        | _ => none).map .hsh
  | .list (.atom "d" :: .atom n :: as) => do
      let n' ← (Sexp.atom n).str?
      let as' ← as.mapM rvOf
      pure (.dfr n' as')
  | .list (.atom "dt" :: .atom n :: ps) => do
      let n' ← (Sexp.atom n).str?
      let ps' ← ps.mapM rvOf
      pure (.dty n' ps' none)
  | _ => none

mutual
/-- a parameter of a DeferredType that resolves to a TYPE or raises: a DeferredType, `verif_first(<such>, …)`, a variable
    (the parameters are resolved in the empty scope: UNKNOWN_VARIABLE), the unknown function -/
partial def typeParam : RV → Bool
  | .dty n ps m => inDomain (.dty n ps m)
  | .dfr n as =>
    if n == "verif_first" then (match as with | a :: rest => typeParam a && rest.all inDomain | [] => false)
    else ((varName? n).isSome || n == "nofunc") && as.all inDomain
  | _ => false
/-- the names this op covers: variables, the function the harness registers, one unknown function; five type names
    (any other Deferred name may be a real function of pcore, e.g. `new`); no hash entry outside a hash -/
partial def inDomain : RV → Bool
  | .arr xs => xs.all inDomain
  | .hsh es => es.all fun e => match e with | .ent k v => inDomain k && inDomain v | _ => false
  | .ent _ _ => false
  | .dfr n as => nameOK n && as.all inDomain
  | .dty n [] _ => typeNames.contains n
  | .dty n ps _ => paramNames.contains n && (n == "Tuple" && ps.length ≤ 3 || ps.length == 1) && ps.all typeParam
  | _ => true
end

def isScalar : RV → Bool
  | .int _ => true
  | .str _ => true
  | _ => false

/-- every hash inside the value has scalar, pairwise different keys -/
partial def scalarKeys : RV → Bool
  | .arr xs => xs.all scalarKeys
  | .dfr _ as => as.all scalarKeys
  | .dty _ ps _ => ps.all scalarKeys
  | .hsh es =>
    let ks := es.map fun e => match e with | .ent k _ => k | x => x
    ks.all isScalar && (es.all fun e => match e with | .ent _ v => scalarKeys v | _ => false) &&
      !(Pcore.Heap.hasDupStr (ks.map RV.render))
  | _ => true

def isScope : RV → Bool
  | .hsh es => scalarKeys (.hsh es) && es.all fun e => match e with | .ent (.str _) _ => true | _ => false
  | _ => false

def exec : List Sexp → String
  | v :: s :: ss =>
    match rvOf v, (s :: ss).mapM rvOf with
    | some v', some scs =>
      if !(inDomain v' && scs.all fun sc => isScope sc && inDomain sc) then "~" else
      let scl := scs.map fun sc => match sc with | .hsh es => es | _ => []
      let r := resolveSeq (Writes.ofTable Pcore.Generated.fieldWrites) v' scl
      " ; ".intercalate (r.2.map answerText) ++ " | v " ++ r.1.render ++
        String.join (scs.map fun sc => " | s " ++ sc.render)
    | _, _ => "bad-op"
  | _ => "bad-op"

end C08Res
