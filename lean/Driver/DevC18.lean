import Driver.Sexp
import Pcore.Model.ReflectN
/-! Driver ops for C18 (syntax in harness/c18/c18.go):
      `refl <go-type> <go-value>`      wrap / derived type / IsInstance / ReflectTo
      `obj <struct-type> <go-value>`   struct → object type → init hash → px.New (positional / named) → ReflectTo
    Struct types are registered by the harness under the names T::S1, T::S2 … innermost first (`regOrder` computes the same
    numbering from the type term). -/
namespace DevC18
open Sx Pcore.ReflectN

/-! tag `puppet:"name=>'x', value=>LIT"` (either item optional, separated by `, `).
    LIT ::= -?DIGITS | -?DIGITS.DIGITS | 'chars' | true | false | undef | [LIT,…] | {'key'=>LIT,…}   (no blanks inside) -/

def digitsVal (ds : List Char) : Nat := ds.foldl (fun n c => 10 * n + (c.toNat - '0'.toNat)) 0

/-- the float64 nearest to the decimal (correctly rounded, as strconv.ParseFloat), as IEEE bits -/
def floatBits (neg : Bool) (ip fp : List Char) : Nat :=
  let f := Float.ofScientific (digitsVal (ip ++ fp)) true fp.length
  (if neg then -f else f).toBits.toNat

mutual
partial def litP : List Char → Option (Lit × List Char)
  | '\'' :: r =>
      let body := r.takeWhile (· != '\'')
      match r.dropWhile (· != '\'') with
      | '\'' :: rest => some (.str (String.ofList body), rest)
      | _ => none
  | '[' :: ']' :: r => some (.anil, r)
  | '[' :: r => arrP r
  | '{' :: '}' :: r => some (.hnil, r)
  | '{' :: r => hshP r
  | 't' :: 'r' :: 'u' :: 'e' :: r => some (.bool true, r)
  | 'f' :: 'a' :: 'l' :: 's' :: 'e' :: r => some (.bool false, r)
  | 'u' :: 'n' :: 'd' :: 'e' :: 'f' :: r => some (.undef, r)
  | cs =>
      let (neg, r) := match cs with
        | '-' :: r => (true, r)
        | _ => (false, cs)
      let ip := r.takeWhile Char.isDigit
      if ip.isEmpty then none else
      match r.dropWhile Char.isDigit with
      | '.' :: r2 =>
          let fp := r2.takeWhile Char.isDigit
          if fp.isEmpty then none else some (.flt (floatBits neg ip fp), r2.dropWhile Char.isDigit)
      | rest => some (.int (if neg then -(digitsVal ip : Int) else digitsVal ip), rest)
/-- after `[`: LIT (`,` LIT)* `]` -/
partial def arrP (cs : List Char) : Option (Lit × List Char) := do
  let (h, r) ← litP cs
  match r with
  | ',' :: r2 => let (t, r3) ← arrP r2; pure (.acons h t, r3)
  | ']' :: r2 => pure (.acons h .anil, r2)
  | _ => none
/-- after `{`: 'key'=>LIT (`,` 'key'=>LIT)* `}` -/
partial def hshP (cs : List Char) : Option (Lit × List Char) := do
  let (k, r) ← litP cs
  match k, r with
  | .str _, '=' :: '>' :: r1 =>
      let (v, r2) ← litP r1
      match r2 with
      | ',' :: r3 => let (t, r4) ← hshP r3; pure (.hcons k v t, r4)
      | '}' :: r3 => pure (.hcons k v .hnil, r3)
      | _ => none
  | _, _ => none
end

/-- a type in a tag: Integer | Integer[lo,hi] | Float | String | Boolean | Any | Optional[T] | Array[T] | Hash[K,V] -/
partial def ttyP : List Char → Option (TTy × List Char)
  | cs =>
    let name := cs.takeWhile Char.isAlpha
    let r := cs.dropWhile Char.isAlpha
    let intP (cs : List Char) : Option (Int × List Char) :=
      let (neg, r) := match cs with
        | '-' :: r => (true, r)
        | _ => (false, cs)
      let ds := r.takeWhile Char.isDigit
      if ds.isEmpty then none else some ((if neg then -(digitsVal ds : Int) else digitsVal ds), r.dropWhile Char.isDigit)
    match String.ofList name, r with
    | "Integer", '[' :: r1 => do
        let (lo, r2) ← intP r1
        match r2 with
        | ',' :: r3 => do
            let (hi, r4) ← intP r3
            match r4 with
            | ']' :: r5 => pure (.int lo hi, r5)
            | _ => none
        | _ => none
    | "Integer", r => some (.int minI64 maxI64, r)
    | "Float", r => some (.float, r)
    | "String", r => some (.str, r)
    | "Boolean", r => some (.bool, r)
    | "Any", r => some (.any, r)
    | "Optional", '[' :: r1 => do
        let (t, r2) ← ttyP r1
        match r2 with
        | ']' :: r3 => pure (.opt t, r3)
        | _ => none
    | "Array", '[' :: r1 => do
        let (t, r2) ← ttyP r1
        match r2 with
        | ']' :: r3 => pure (.array t, r3)
        | _ => none
    | "Hash", '[' :: r1 => do
        let (k, r2) ← ttyP r1
        match r2 with
        | ',' :: r3 => do
            let (v, r4) ← ttyP r3
            match r4 with
            | ']' :: r5 => pure (.hash k v, r5)
            | _ => none
        | _ => none
    | _, _ => none

def ttyOf (s : String) : Option TTy :=
  match ttyP s.toList with
  | some (t, []) => some t
  | _ => none

def kindOf (s : String) : Option Kind :=
  if s == "constant" then some .constant else if s == "derived" then some .derived
  else if s == "given_or_derived" then some .givenOrDerived else if s == "reference" then some .reference else none

def litOf (s : String) : Option Lit :=
  match litP s.toList with
  | some (l, []) => some l
  | _ => none

def tagItems (t : String) : Option FTag :=
  let pre := "puppet:\""
  let suf := "\""
  if !(t.startsWith pre && t.endsWith suf && t.length ≥ pre.length + suf.length) then none else
  let body := String.ofList ((t.toList.drop pre.length).take (t.length - pre.length - suf.length))
  (body.splitOn ", ").foldlM (fun (acc : FTag) item =>
    if item.startsWith "name=>" then
      match litOf (item.drop 6).toString with
      | some (.str n) => some { acc with attr := some n }
      | _ => none
    else if item.startsWith "value=>" then
      (litOf (item.drop 7).toString).map fun d => { acc with dflt := some d }
    else if item.startsWith "type=>" then
      (ttyOf (item.drop 6).toString).map fun t => { acc with typ := some t }
    else if item.startsWith "kind=>" then
      (kindOf (item.drop 6).toString).map fun k => { acc with kind := k }
    else none) {}

def goNameOK (n : String) : Bool :=
  match n.toList with
  | c :: _ => c.isUpper
  | [] => false

mutual
partial def tyOf : Sexp → Option GoTy
  | .atom "string" => some .string
  | .atom "bool" => some .bool
  | .atom "iface" => some .iface
  | .list [.atom "int", w] => w.nat?.map .int
  | .list [.atom "uint", w] => w.nat?.map .uint
  | .list [.atom "float", w] => w.nat?.map .float
  | .list [.atom "slice", e] => (tyOf e).map .slice
  | .list [.atom "ptr", e] => (tyOf e).map .ptr
  | .list [.atom "map", k, v] => do let k' ← tyOf k; let v' ← tyOf v; pure (.map k' v')
  | .list [.atom "array", n, e] => do let n' ← n.nat?; let e' ← tyOf e; pure (.array n' e')
  | .list (.atom "struct" :: fs) => fieldsOf fs
  | _ => none
/-- `(Name T)`, `(Name T xTAG)`; an embedded field is `(emb Name T)` / `(emb Name T xTAG)` -/
partial def fieldsOf : List Sexp → Option GoTy
  | [] => some .snil
  | f :: r => do
      let (anon, n, t, tag) ← (match f with
        | .list [.atom "emb", .atom n, t] => some (true, n, t, none)
        | .list [.atom "emb", .atom n, t, tag] => some (true, n, t, some tag)
        | .list [.atom n, t] => some (false, n, t, none)
        | .list [.atom n, t, tag] => some (false, n, t, some tag)
        | _ => none)
      if !goNameOK n then none
      let ft ← tyOf t
      let tg ← (match tag with
        | none => some ({} : FTag)
        | some x => x.str?.bind tagItems)
      let rest ← fieldsOf r
      pure (.scons n { tg with anon := anon } ft rest)
end

partial def valOf : GoTy → Sexp → Option GoVal
  | .int _, e => e.int?.map .int
  | .uint _, e => e.int?.map .int
  | .float _, e => e.nat?.map .flt
  | .string, e => e.str?.map .str
  | .bool, e => e.bool?.map .bool
  | .iface, .atom "nil" => some .nil
  | .iface, .list [.atom "i", t, v] => do let t' ← tyOf t; let v' ← valOf t' v; pure (.iface t' v')
  | .slice _, .atom "nil" => some .nil
  | .slice e, .list (.atom "s" :: xs) => (xs.mapM (valOf e)).map .slice
  | .array _ e, .list (.atom "a" :: xs) => (xs.mapM (valOf e)).map .arr
  | .map _ _, .atom "nil" => some .nil
  | .map k v, .list (.atom "m" :: es) =>
      (es.mapM fun (e : Sexp) => match e with
        | Sexp.list [a, b] => do let a' ← valOf k a; let b' ← valOf v b; pure (a', b')
        | _ => none).map .map
  | .ptr _, .atom "nil" => some .nil
  | .ptr e, .list [.atom "p", x] => (valOf e x).map .ptr
  | .snil, .list [.atom "st"] => some (.st [])
  | .scons _ _ ft rest, .list (.atom "st" :: x :: xs) => do
      let v ← valOf ft x
      match ← valOf rest (.list (.atom "st" :: xs)) with
      | .st vs => pure (.st (v :: vs))
      | _ => none
  | _, _ => none

def paren (xs : List String) : String := "(" ++ " ".intercalate xs ++ ")"

def objName (names : List GoTy) (S : GoTy) : String :=
  match names.idxOf? S with
  | some i => s!"T::S{i + 1}"
  | none => "T::?"

partial def tyStr : GoTy → String
  | .int w => s!"(int {w})" | .uint w => s!"(uint {w})" | .float w => s!"(float {w})"
  | .string => "string" | .bool => "bool" | .iface => "iface"
  | .slice e => paren ["slice", tyStr e] | .ptr e => paren ["ptr", tyStr e]
  | .map k v => paren ["map", tyStr k, tyStr v]
  | .array n e => paren ["array", toString n, tyStr e]
  | .snil => "(struct)"
  | .scons n _ ft rest => paren ["struct…", n, tyStr ft, tyStr rest]   -- only inside an interface{} value: not generated

partial def goStr : GoVal → String
  | .int i => toString i | .flt b => toString b | .str s => hexOfString s | .bool b => boolStr b
  | .nil => "nil"
  | .slice es => paren ("s" :: es.map goStr)
  | .arr es => paren ("a" :: es.map goStr)
  | .map es => paren ("m" :: es.map fun kv => paren [goStr kv.1, goStr kv.2])
  | .ptr v => paren ["p", goStr v]
  | .iface t v => paren ["i", tyStr t, goStr v]
  | .st vs => paren ("st" :: vs.map goStr)

partial def valStr (names : List GoTy) : Val → String
  | .int i => s!"(i {i})" | .flt b => s!"(f {b})" | .str s => s!"(s {hexOfString s})" | .bool b => s!"(b {boolStr b})"
  | .undef => "(u)"
  | .bin _ bs => "(x x" ++ hexOfBytes (bs.map fun i => UInt8.ofNat i.toNat) ++ ")"
  | .arr es => paren ("a" :: es.map (valStr names))
  | .hsh es => paren ("h" :: es.map fun kv => paren [valStr names kv.1, valStr names kv.2])
  | .obj S _ g => paren ["o", objName names S, valStr names (.hsh (initHash (objFVs S g)))]
  | .rt t g => paren ["rt", tyStr t, goStr g]

partial def ptyStr (names : List GoTy) : Ty → String
  | .int lo hi => s!"(int {lo} {hi})" | .float w => s!"(float {w})" | .str => "str" | .bool => "bool"
  | .array e => paren ["array", ptyStr names e] | .hash k v => paren ["hash", ptyStr names k, ptyStr names v]
  | .opt t => paren ["opt", ptyStr names t] | .bin => "bin" | .any => "any"
  | .obj S => paren ["obj", objName names S]

/-- Go's float64 → float32 → float64 on bits (trusted: Lean's runtime uses the same IEEE conversion) -/
def r32 (b : Nat) : Nat := (Float.ofBits b.toUInt64).toFloat32.toFloat.toBits.toNat

def variantStr (name : String) (orig : GoVal) : Option GoVal → String
  | some back => s!" | {name}=ok back={goStr back} eq={boolStr (goEq back orig)}"
  | none => s!" | {name}=reported PCORE_ILLEGAL_ARGUMENTS"

def isHsh : Val → Bool | .hsh _ => true | _ => false

def singleHash : List Val → Bool
  | [w] => isHsh w
  | _ => false

/-- inside the model: modelled shape, well-typed value, every struct type derivable -/
def inModel (ty : GoTy) (gv : GoVal) : Bool :=
  Modelled ty && hasType ty gv && (structsIn ty).all shapeOK &&
  ((firstErr ty).isSome || (structsIn ty).all structWF)

def exec : List Sexp → String
  | [.atom "obj", t, v] =>
    match tyOf t with
    | none => "bad-op"
    | some S =>
      match valOf S v with
      | none => "bad-op"
      | some gv =>
        if !(isStruct S && S != .snil && inModel S gv) then "bad-op" else
        if let some e := firstErr S then s!"register=reported {e}" else
        let names := regOrder S
        let fvs := objFVs S gv
        let ih := initHash fvs
        let full := fullHash fvs
        let attrs := attrOrder (·.1) fvs
        let afs := attrs.map (·.1)
        let pos := attrs.map fieldVal
        let trim := trimDefaults afs pos
        let ambiguous (h : List (Val × Val)) := match attrs with
          | fv :: _ => inst fv.1.aty (.hsh h)
          | [] => false
        valStr names (.hsh ih)
          ++ (if singleHash pos then "" else variantStr "pos" gv (newPosS r32 S pos))
          ++ (if trim.length < pos.length && !singleHash trim then variantStr "postrim" gv (newPosS r32 S trim) else "")
          ++ (if ambiguous ih then "" else variantStr "named" gv (newNamedS r32 S ih))
          ++ (if ih.length != full.length && !ambiguous full then variantStr "full" gv (newNamedS r32 S full) else "")
  | [.atom "refl", t, v] =>
    match tyOf t with
    | none => "bad-op"
    | some ty =>
      match valOf ty v with
      | none => "bad-op"
      | some gv =>
        if !inModel ty gv then "bad-op" else
        if let some e := firstErr ty then s!"register=reported {e}" else
        let names := regOrder ty
        let w := wrap true ty gv
        let pt := typeOf ty
        let back := match reflectTo r32 ty w with
          | some b => s!"back={goStr b} eq={boolStr (goEq b gv)}"
          | none => "back=fault eq=f"
        let anc := match ancestors ty with
          | [] => ""
          | ps => " | anc=" ++ String.join (ps.map fun P => boolStr (inst (typeOf P) w))
        s!"{valStr names w} | {ptyStr names pt} | inst={boolStr (inst pt w)}{anc} | {back}"
  | _ => "bad-op"

end DevC18
