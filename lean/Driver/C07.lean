import Driver.Sexp
import Pcore.Model.ValueEq
import Pcore.Model.ValueEqCache
/-! Driver ops for C07: `eq x y`, `eq3 x y z`, `key x`, `get H k`, `unique xs`.  Value and type syntax: harness/c07/c07.go (first round),
    kinds.go (uri ver vmin vr tn df par), objects.go (obj), typekinds.go (the type kinds of the extension round).  `get` is answered
    through the index model (`Model/ValueEqCache.lean`), once before and once after forcing the index. -/
namespace C07
open Sx Pcore.ValueEq

def intOk (i : Int) : Bool := minInt ≤ i && i ≤ maxInt
def u64Ok (n : Nat) : Bool := n < 18446744073709551616

/-- a version `(MAJ MIN PAT xPRE xBUILD)`: the arguments of `semver.NewVersion3` -/
def verOf : List Sexp → Option Ver
  | [ma, mi, pa, pre, bld] => do
      let a ← ma.int?; let b ← mi.int?; let c ← pa.int?
      let p ← pre.bytes?; let q ← bld.bytes?
      if intOk a && intOk b && intOk c then newVersion3 a b c p q else none
  | _ => none

def boundOf : Sexp → Option Bound
  | .list (.atom "eq" :: v) => (verOf v).map fun v => ⟨.eq, v⟩
  | .list (.atom "ge" :: v) => (verOf v).map fun v => ⟨.ge, v⟩
  | .list (.atom "gt" :: v) => (verOf v).map fun v => ⟨.gt, v⟩
  | .list (.atom "le" :: v) => (verOf v).map fun v => ⟨.le, v⟩
  | .list (.atom "lt" :: v) => (verOf v).map fun v => ⟨.lt, v⟩
  | _ => none

def arangeOf : Sexp → Option ARange
  | .list [.atom "se", a, b] => do let x ← boundOf a; let y ← boundOf b; pure (.se x y)
  | e => (boundOf e).map .simple

partial def tyOf : Sexp → Option Ty
  | .atom "any" => some .any
  | .atom "undef" => some .undef
  | .atom "str" => some .str
  | .atom "dflt" => some (.nul .dflt) | .atom "unit" => some (.nul .unit) | .atom "scalar" => some (.nul .scalar)
  | .atom "scalardata" => some (.nul .scalarData) | .atom "numeric" => some (.nul .numeric) | .atom "binary" => some (.nul .binary)
  | .atom "data" => some (.nul .data) | .atom "richdata" => some (.nul .richData) | .atom "semverrange" => some (.nul .semverRange)
  | .list [.atom "bool", .atom "n"] => some (.bool none)
  | .list [.atom "bool", b] => b.bool?.map fun b => .bool (some b)
  | .list [.atom "coll", lo, hi] => do
      let l ← lo.int?; let h ← hi.int?
      if intOk l && intOk h && l ≤ h then some (.coll l h) else none
  | .list [.atom "notundef", t] => (tyOf t).map (.un .notUndef)
  | .list [.atom "sensitive", t] => (tyOf t).map (.un .sensitive)
  | .list [.atom "iterable", t] => (tyOf t).map (.un .iterable)
  | .list [.atom "iterator", t] => (tyOf t).map (.un .iterator)
  | .list [.atom "strs", lo, hi] => do
      let l ← lo.int?; let h ← hi.int?
      if intOk l && intOk h && l ≤ h then some (mkStr l h []) else none
  | .list [.atom "strv", v] => do let v ← v.bytes?; if v.isEmpty then none else some (mkStr 0 maxInt v)
  | .list [.atom "rx", p] => p.bytes?.map .rx
  | .list (.atom "pat" :: ps) => (ps.mapM (fun (e : Sexp) => e.bytes?)).map .pattern
  | .list [.atom "tref", s] => s.bytes?.map .tref
  | .atom "semver" => some (.semverT [0x2a] matchAllR)          -- `DefaultSemVerType()`: the range `*`
  | .list [.atom "hash", k, v, lo, hi] => do
      let k ← tyOf k; let v ← tyOf v; let l ← lo.int?; let h ← hi.int?
      if intOk l && intOk h && l ≤ h then some (.hash k v l h) else none
  | .list [.atom "like", t, n] => do let t ← tyOf t; let n ← n.bytes?; pure (.like t n)
  | .atom "callable" => some (.callable false [] false .any false .any)
  | .atom "init" => some (.init false .any)
  | .list [.atom "init", t] => (tyOf t).map (.init true)
  -- (callablex n|(T*) n|R n|B): parameter Tuple, return type, block type, each absent (n) or given
  | .list [.atom "callablex", ps, r, b] => do
      let (h, ts) ← (match ps with
        | .atom "n" => some (false, [])
        | .list ts => (ts.mapM tyOf).map fun ts => (true, ts)
        | _ => none)
      let (hr, rt) ← (match r with | .atom "n" => some (false, Ty.any) | e => (tyOf e).map fun t => (true, t))
      let (hb, bt) ← (match b with | .atom "n" => some (false, Ty.any) | e => (tyOf e).map fun t => (true, t))
      some (.callable h ts hr rt hb bt)
  -- (struct (xNAME s|r|o T)*): a member given by a plain string key (s), a String['name'] / NotUndef['name'] key (r), an
  -- Optional['name'] key (o); names are not empty
  | .list (.atom "struct" :: es) => do
      let es ← es.mapM (fun (e : Sexp) => match e with
        | Sexp.list [n, .atom k, t] => do
            let n ← n.bytes?; let t ← tyOf t
            let kind ← (if k == "s" then some 0 else if k == "r" then some 1 else if k == "o" then some 2 else none)
            if n.isEmpty then none else some (mkStructElem n kind t)
        | _ => none)
      some (.struct es)
  | .list [.atom "runtime", rt, n, .atom "n"] => do let rt ← rt.bytes?; let n ← n.bytes?; pure (.runtime rt n none)
  | .list [.atom "runtime", rt, n, p] => do let rt ← rt.bytes?; let n ← n.bytes?; let p ← p.bytes?; pure (.runtime rt n (some p))
  | .list (.atom "callable" :: ts) => (ts.mapM tyOf).map fun ts => .callable true ts false .any false .any
  | .list (.atom "semver" :: orig :: rs) => do
      let o ← orig.bytes?; let rs ← rs.mapM arangeOf
      if rs.isEmpty then none else some (.semverT o rs)
  | .list [.atom "int", lo, hi] => do
      let l ← lo.int?; let h ← hi.int?
      if intOk l && intOk h && l ≤ h then some (.int l h) else none
  | .list [.atom "flt", lo, hi] => do
      let l ← lo.nat?; let h ← hi.nat?
      if u64Ok l && u64Ok h then some (.flt l h) else none
  | .list (.atom "enum" :: ci :: vals) => do
      let c ← ci.bool?
      let vs ← vals.mapM (·.bytes?)
      some (mkEnum c vs)
  | .list [.atom "arr", e, lo, hi] => do
      let t ← tyOf e; let l ← lo.int?; let h ← hi.int?
      if intOk l && intOk h && l ≤ h then some (.arr t l h) else none
  | .list (.atom "var" :: ts) => (ts.mapM tyOf).map mkVar
  | .list [.atom "tup", .list ts] => (ts.mapM tyOf).map fun ts => mkTup ts none
  | .list [.atom "tup", .list ts, lo, hi] => do
      let ts ← ts.mapM tyOf; let l ← lo.int?; let h ← hi.int?
      if intOk l && intOk h && l ≤ h then some (mkTup ts (some (l, h))) else none
  | .list [.atom "opt", t] => (tyOf t).map .opt
  | .list [.atom "typ", t] => (tyOf t).map .typ
  | _ => none

/-- `(ot xNAME incl (xATTR*) (pos*))`: the descriptor of an Object type of the harness's catalogue -/
def otypeOf : Sexp → Option OType
  | .list [.atom "ot", n, i, .list ns, .list ps] => do
      let n ← n.bytes?; let i ← i.bool?
      let ns ← ns.mapM (fun (e : Sexp) => e.bytes?)
      let ps ← ps.mapM (fun (e : Sexp) => e.nat?)
      if ps.all (· < ns.length) then some { name := n, incl := i, names := ns, eqPos := ps } else none
  | _ => none

partial def valOf : Sexp → Option Val
  | .list [.atom "u"] => some .undef
  | .list [.atom "d"] => some .dflt
  | .list [.atom "b", b] => b.bool?.map .bool
  | .list [.atom "i", n] => do let i ← n.int?; if intOk i then some (.int i) else none
  | .list [.atom "f", n] => do let b ← n.nat?; if u64Ok b then some (.float b) else none
  | .list [.atom "s", s] => s.bytes?.map .str
  | .list [.atom "r", s] => s.bytes?.map .regexp
  | .list [.atom "x", s] => s.bytes?.map .binary
  | .list (.atom "a" :: es) => (es.mapM valOf).map .array
  | .list (.atom "h" :: es) =>
      (es.mapM fun (e : Sexp) => match e with
        | Sexp.list [k, v] => do let k' ← valOf k; let v' ← valOf v; pure (k', v')
        | _ => none).map .hash
  | .list (.atom "mh" :: es) =>
      -- NewMutableHash + Put of every pair: a MutableHashValue is the Hash of its entries
      (es.mapM fun (e : Sexp) => match e with
        | Sexp.list [k, v] => do let k' ← valOf k; let v' ← valOf v; pure (k', v')
        | _ => none).map fun (kvs : List (Val × Val)) => Val.hash (kvs.foldl (fun (acc : List (Val × Val)) (kv : Val × Val) => hashPut acc kv.1 kv.2) [])
  | .list [.atom "e", k, v] => do let k' ← valOf k; let v' ← valOf v; pure (.entry k' v')
  | .list [.atom "sens", v] => (valOf v).map .sensitive
  | .list [.atom "t", t] => (tyOf t).map .typ
  | .list [.atom "ts", n] => do let i ← n.int?; if intOk i then some (.timespan i) else none
  | .list [.atom "tm", s, n] => do
      let a ← s.int?; let b ← n.int?
      -- time.Unix normalises other nanosecond values; the harness only sends normalised ones
      if intOk a && 0 ≤ b && b < 1000000000 then some (.timestamp a b) else none
  | .list [.atom "uri", s] => s.bytes?.map .uri
  | .list (.atom "ver" :: v) => (verOf v).map .semver
  | .list [.atom "vmin"] => some (.semver verMin)
  | .list (.atom "vr" :: orig :: rs) => do
      let o ← orig.bytes?; let rs ← rs.mapM arangeOf
      if rs.isEmpty then none else some (.vrange o rs)
  | .list [.atom "tn", a, n, m] => do let a ← a.bytes?; let n ← n.bytes?; let m ← m.bytes?; pure (mkTname a n m)
  | .list (.atom "df" :: n :: as) => do let n ← n.bytes?; let as ← as.mapM valOf; pure (.deferred n as)
  | .list (.atom "obj" :: t :: k :: vs) => do
      -- K = how many values the constructor was given (the others are the attribute defaults, listed all the same)
      let t ← otypeOf t; let k ← k.nat?; let vs ← vs.mapM valOf
      if vs.length == t.names.length && k ≤ vs.length then some (.obj t vs) else none
  | .list [.atom "par", n, t, .atom "n", c] => do
      let n ← n.bytes?; let t ← tyOf t; let c ← c.bool?; pure (.param n t false .undef c)
  | .list [.atom "par", n, t, .list [.atom "v", v], c] => do
      let n ← n.bytes?; let t ← tyOf t; let v ← valOf v; let c ← c.bool?; pure (.param n t true v c)
  | _ => none

def hexB (bs : Bytes) : String := "x" ++ hexOfBytes bs

partial def tyStr : Ty → String
  | .any => "any" | .undef => "undef" | .str => "str"
  | .int lo hi => s!"(int {lo} {hi})"
  | .flt lo hi => s!"(flt {lo} {hi})"
  | .enum ci vs => "(enum " ++ boolStr ci ++ String.join (vs.map fun v => " " ++ hexB v) ++ ")"
  | .arr e lo hi => s!"(arr {tyStr e} {lo} {hi})"
  | .var ts => "(var" ++ String.join (ts.map fun t => " " ++ tyStr t) ++ ")"
  | .tup ts sz => "(tup (" ++ " ".intercalate (ts.map tyStr) ++ ")" ++
      (match sz with | some (l, h) => s!" {l} {h}" | none => "") ++ ")"
  | .opt t => "(opt " ++ tyStr t ++ ")"
  | .typ t => "(typ " ++ tyStr t ++ ")"
  | .nul .dflt => "dflt" | .nul .unit => "unit" | .nul .scalar => "scalar" | .nul .scalarData => "scalardata"
  | .nul .numeric => "numeric" | .nul .binary => "binary" | .nul .data => "data" | .nul .richData => "richdata"
  | .nul .semverRange => "semverrange"
  | .bool none => "(bool n)" | .bool (some b) => "(bool " ++ boolStr b ++ ")"
  | .coll lo hi => s!"(coll {lo} {hi})"
  | .un .notUndef t => "(notundef " ++ tyStr t ++ ")" | .un .sensitive t => "(sensitive " ++ tyStr t ++ ")"
  | .un .iterable t => "(iterable " ++ tyStr t ++ ")" | .un .iterator t => "(iterator " ++ tyStr t ++ ")"
  | .strSize lo hi => s!"(strs {lo} {hi})"
  | .strVal v => "(strv " ++ hexB v ++ ")"
  | .rx p => "(rx " ++ hexB p ++ ")"
  | .pattern ps => "(pat" ++ String.join (ps.map fun p => " " ++ hexB p) ++ ")"
  | .tref s => "(tref " ++ hexB s ++ ")"
  | .hash k v lo hi => s!"(hash {tyStr k} {tyStr v} {lo} {hi})"
  | .like t n => "(like " ++ tyStr t ++ " " ++ hexB n ++ ")"
  | .runtime rt n none => "(runtime " ++ hexB rt ++ " " ++ hexB n ++ " n)"
  | .runtime rt n (some p) => "(runtime " ++ hexB rt ++ " " ++ hexB n ++ " " ++ hexB p ++ ")"
  | .init false _ => "init"
  | .init true t => "(init " ++ tyStr t ++ ")"
  | .struct es => "(struct" ++ String.join (es.map fun (n, o, v) => " (" ++ hexB n ++ " " ++ (if o then "o" else "r") ++ " " ++ tyStr v ++ ")") ++ ")"
  | .callable false _ false _ false _ => "callable"
  | .callable true ts false _ false _ => "(callable" ++ String.join (ts.map fun t => " " ++ tyStr t) ++ ")"
  | .callable h ts hr r hb b => "(callablex " ++ (if h then "(" ++ " ".intercalate (ts.map tyStr) ++ ")" else "n") ++ " " ++
      (if hr then tyStr r else "n") ++ " " ++ (if hb then tyStr b else "n") ++ ")"
  | .semverT o rs => if rangesEq rs matchAllR then "semver" else "(semver " ++ hexB (rangeStr o rs) ++ " " ++ hexB (normStr rs) ++ ")"

partial def valStr : Val → String
  | .undef => "(u)" | .dflt => "(d)"
  | .bool b => "(b " ++ boolStr b ++ ")"
  | .int i => s!"(i {i})"
  | .float b => s!"(f {b})"
  | .str s => "(s " ++ hexB s ++ ")"
  | .regexp s => "(r " ++ hexB s ++ ")"
  | .binary s => "(x " ++ hexB s ++ ")"
  | .array vs => "(a" ++ String.join (vs.map fun v => " " ++ valStr v) ++ ")"
  | .hash es => "(h" ++ String.join (es.map fun (k, v) => " (" ++ valStr k ++ " " ++ valStr v ++ ")") ++ ")"
  | .entry k v => "(e " ++ valStr k ++ " " ++ valStr v ++ ")"
  | .sensitive v => "(sens " ++ valStr v ++ ")"
  | .typ t => "(t " ++ tyStr t ++ ")"
  | .timespan n => s!"(ts {n})"
  | .timestamp a b => s!"(tm {a} {b})"
  | .uri s => "(uri " ++ hexB s ++ ")"
  | .semver v => s!"(ver {v.major} {v.minor} {v.patch} " ++ (match v.pre with | none => "n" | some _ => hexB (preStr v)) ++ " " ++
      hexB (buildStr v) ++ ")"
  | .vrange o rs => "(vr " ++ hexB (rangeStr o rs) ++ " " ++ hexB (normStr rs) ++ ")"
  | .tname a n m => "(tn " ++ hexB a ++ " " ++ hexB n ++ " " ++ hexB m ++ ")"
  | .deferred n as => "(df " ++ hexB n ++ String.join (as.map fun v => " " ++ valStr v) ++ ")"
  | .obj t vs => "(obj " ++ hexB t.name ++ String.join (vs.map fun v => " " ++ valStr v) ++ ")"
  | .param n t h v c => "(par " ++ hexB n ++ " " ++ tyStr t ++ " " ++ (if h then "(v " ++ valStr v ++ ")" else "n") ++ " " ++
      boolStr c ++ ")"

def invalidKey : String := "reported PCORE_INVALID_MAP_KEY"

def exec : List Sexp → String
  | [.atom "eq", x, y] =>
    match valOf x, valOf y with
    | some a, some b =>
      if !(hashKeysKeyable a && hashKeysKeyable b) then "unkeyable"
      else boolStr (veq a b) ++ " " ++ boolStr (veq b a)
    | _, _ => "bad-op"
  | [.atom "eq3", x, y, z] =>
    match valOf x, valOf y, valOf z with
    | some a, some b, some c =>
      if !(hashKeysKeyable a && hashKeysKeyable b && hashKeysKeyable c) then "unkeyable"
      else boolStr (veq a b) ++ " " ++ boolStr (veq b c) ++ " " ++ boolStr (veq a c)
    | _, _, _ => "bad-op"
  | [.atom "key", x] =>
    match valOf x with
    | some a => match key a with | some bs => hexB bs | none => invalidKey
    | none => "bad-op"
  | [.atom "get", h, k] =>
    match valOf h, valOf k with
    | some (.hash es), some kv =>
      -- `hv.get(px.ToKey(key))`: the argument is keyed first, then the index is built from every entry key
      if !(keyable kv && es.all fun e => keyable e.1) then invalidKey
      -- through the index model (`valueIndex`, asked once before and once after the index was forced: the two answers are printed
      -- only when they agree — they always do: C07_get_cache_independent)
      else
        let h : CHash := { entries := es }
        let a1 := (h.get kv).2
        let a2 := (h.force.get kv).2
        match a1, a2 with
        | some v, some w => if valStr v == valStr w then "some " ++ valStr v else "cache-dependent"
        | none, none => "none"
        | _, _ => "cache-dependent"
    | _, _ => "bad-op"
  | [.atom "unique", xs] =>
    match valOf xs with
    | some (.array vs) =>
      if vs.length ≥ 2 && !(vs.all keyable) then invalidKey
      else valStr (.array (unique vs))
    | _ => "bad-op"
  | _ => "bad-op"

end C07
