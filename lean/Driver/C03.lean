import Driver.Lat
/-! Driver ops of C03 (shared table in Driver/Lat.lean; syntax in harness/lat/doc.go). -/
namespace C03
def exec : List Sx.Sexp → String := Lat.execOnly ["eq", "asg", "trans", "imp"]
end C03
