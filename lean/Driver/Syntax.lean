import Driver.Sexp
import Pcore.Model.Resolve
import Pcore.Model.Utf8
import Pcore.Generated.UnicodeLetter
/-!
Shared by the C05 and C06 drivers: op-line arguments → model inputs, model results → canonical text
(twin of harness/syn/syn.go).
-/
namespace Syn
open Sx Pcore.Syntax

/-- `unicode.IsLetter` from the regenerated standard-library table -/
def isLetter (c : Char) : Bool :=
  let n := c.toNat
  if n < 0x80 then isUpper c || isLower c
  else Pcore.Generated.letterRanges.any fun (lo, hi, st) => lo ≤ n && n ≤ hi && (n - lo) % st == 0

def strHex (s : Str) : String := hexOfString (String.ofList s)

/-- the oracle list of an op line: sources that `regexp.Compile` rejects -/
def badList : Sexp → Option (List Str)
  | .list xs => xs.mapM fun x => (x.str?).map String.toList
  | _ => none

/-- type names that the contexts of the harness do NOT define (harness contract: the generators use these and only these
    as unknown names; every other non-core name may be loadable — `My::Pt`, `Pcore::AnyType`, `Deferred` … — and is answered
    `unmodelled`) -/
def unknownNames : List Str :=
  ["Foo", "Bar", "My::Thing", "My::Other", "Catalogentry", "Foo::Bar"].map String.toList

def mkEnv (bad : List Str) : Env :=
  { isLetter := isLetter, rxOK := fun s => !bad.contains s, pf := parseFloat, unknown := fun n => unknownNames.contains n }

/-- the float-text oracle of an op line: `((BITS xTEXT) …)` — what the implementation prints for the float with these bits -/
def floatTable : Sexp → Option (List (Nat × Str))
  | .list xs => xs.mapM fun x =>
      match x with
      | .list [b, t] => do let n ← b.nat?; let s ← t.str?; pure (n, s.toList)
      | _ => none
  | _ => none

def mkEnvF (bad : List Str) (fl : List (Nat × Str)) : Env :=
  { mkEnv bad with ff := fun b => ((fl.find? fun p => p.1 == b).map (·.2)).getD [] }

/-- the name of a Deferred call is compared only when it is a plain word (see harness/syn Enc) -/
def showName : Option Str → String
  | none => "?"
  | some s =>
    match s with
    | [] => "?"
    | c :: _ =>
      if (isUpper c || isLower c || c = '_' || c = '$') && s.all (fun x => isWord x || x = ':' || x = '$')
      then strHex s else "?"

def kindStr : NKind → String
  | .alias => "alias" | .object => "object" | .typeset => "typeset"

partial def enc : Expr → String
  | .undef => "u"
  | .dflt => "d"
  | .bool b => "(b " ++ boolStr b ++ ")"
  | .int i => s!"(i {i})"
  | .float b => s!"(f {b})"
  | .str s => "(s " ++ strHex s ++ ")"
  | .regexp s => "(r " ++ strHex s ++ ")"
  | .entry k v => "(e " ++ enc k ++ " " ++ enc v ++ ")"
  | .hash es => "(h" ++ String.join (es.map fun (k, v) => " (" ++ enc k ++ " " ++ enc v ++ ")") ++ ")"
  | .arr es => "(a" ++ String.join (es.map fun e => " " ++ enc e) ++ ")"
  | .dtype n ps => "(t " ++ strHex n ++ String.join ((ps.getD []).map fun e => " " ++ enc e) ++ ")"
  | .call n as => "(c " ++ showName n ++ String.join (as.map fun e => " " ++ enc e) ++ ")"
  | .named k n => "(n " ++ kindStr k ++ " " ++ strHex n ++ ")"

def outcomeStr : Outcome → String
  | .value e => "value " ++ enc e
  | .parseError l c => s!"parse-error {l} {c}"
  | .fault => "fault"
  | .nofuel => "nofuel"

/-- op `parse <xBYTES> (<xBADRX>*)` -/
def parseOp (b bad : Sexp) : String :=
  match b.bytes?, badList bad with
  | some bs, some bl => outcomeStr (parse (mkEnv bl) (decodeUtf8 bs))
  | _, _ => "bad-op"

/-- op `resolve <xBYTES> (<xBADRX>*) [((BITS xTEXT)*)]`: `Context.ParseType` — the resulting type's text, the reported issue
    code, the parse error, or `outside` (the expression mentions something outside the model) -/
def resolveOp (b bad : Sexp) (fl : Option Sexp) : String :=
  let ft : Option (List (Nat × Str)) :=
    match fl with
    | none => some []
    | some f => floatTable f
  match b.bytes?, badList bad, ft with
  | some bs, some bl, some ft =>
    match parseTypeR (mkEnvF bl ft) (decodeUtf8 bs) with
    | .type t => "type " ++ strHex (printTy t)
    | .reported c => "reported " ++ c.name
    | .parseError l c => s!"parse-error {l} {c}"
    | .outside => "outside"
    | .fault => "fault"
  | _, _, _ => "bad-op"

end Syn
