import Pcore.Model.HashPool
/-!
# Facts regenerated from types/hashtype.go, and the Hash model driven by them

`/verif/extract` (family `hashops`) rewrites `Pcore/Generated/HashOps.lean` on every check run: a literal
`HashFacts`.  What the facts mean lives here:

* `HashOK` — the decidable side condition: every composite literal of type `Hash` in package types sets at most
  `entries` (a new hash never carries an index over); `.index` is assigned only by `valueIndex` (the map it
  just built) and by `MutableHashValue.PutAll` (nil); `.entries` only by `BuildHash` (the callback's result)
  and `PutAll` (the merged entries); nothing is ever assigned through `X.entries[i]`; `valueIndex`,
  `mergeEntries` (copy of the receiver's entries, then replace-or-append through the receiver's index),
  `Delete`, `DeleteAll`, `get`/`get2` and the `Get*` wrappers, `IncludesKey*`, `Keys`/`Values`/`Len`/`At`/`Each*`,
  `Merge`, `WrapHash`/`BuildHash`/`NewMutableHash`, `Put`/`PutAll` have the shapes the model mirrors.
* `stepHImplT facts` — the pool machine **driven by the facts**: the loop of `mergeEntries` and whether `PutAll`
  resets the index are taken from the table (the driver runs these).
* `stepHImplT_eq` (Proofs) — for ANY table with `HashOK`, `stepHImplT facts = stepHImpl`.
Core Lean only.
-/
namespace Pcore.Coll

inductive FieldWrite where
  | nil | built | merged | callback
  | unknown (src : String)
  deriving DecidableEq, Repr

inductive IndexShape where
  | lazyLastWins
  | unknown (src : String)
  deriving DecidableEq, Repr

inductive MergeLoop where
  | replaceOrAppend           -- if idx, ok := index[ToKey(entry.key)]; ok { all[idx] = entry } else { all = append(all, entry) }
  | alwaysAppend              -- all = append(all, entry)
  | unknown (src : String)
  deriving DecidableEq, Repr

inductive DeleteShape where
  | cutAtIndex
  | unknown (src : String)
  deriving DecidableEq, Repr

inductive DeleteAllShape where
  | markThenFilter
  | unknown (src : String)
  deriving DecidableEq, Repr

structure HashFacts where
  literals : List (String × List String)
  fieldWrites : List (String × String × FieldWrite)
  entryElementWrites : List String
  valueIndex : IndexShape
  mergeCopiesReceiver : Bool
  mergeLoop : MergeLoop
  delete : DeleteShape
  deleteAll : DeleteAllShape
  getViaIndex : Bool
  includesViaIndex : Bool
  viewsReadEntries : Bool
  mergeWrapsMerged : Bool
  wrapSetsEntriesOnly : Bool
  putIsPutAllOfSingleton : Bool
  putAllResetsIndex : Bool

def HashFacts.allowedWrites : List (String × String × FieldWrite) :=
  [("BuildHash", "entries", .callback), ("Hash.valueIndex", "index", .built),
   ("MutableHashValue.PutAll", "entries", .merged), ("MutableHashValue.PutAll", "index", .nil)]

def HashOK (f : HashFacts) : Bool :=
  f.literals.all (fun l => l.2.all (· == "entries")) && !f.literals.isEmpty &&
  f.fieldWrites.all (HashFacts.allowedWrites.contains ·) && HashFacts.allowedWrites.all (f.fieldWrites.contains ·) &&
  f.entryElementWrites.isEmpty &&
  f.valueIndex = .lazyLastWins && f.mergeCopiesReceiver && f.mergeLoop = .replaceOrAppend &&
  f.delete = .cutAtIndex && f.deleteAll = .markThenFilter && f.getViaIndex && f.includesViaIndex &&
  f.viewsReadEntries && f.mergeWrapsMerged && f.wrapSetsEntriesOnly && f.putIsPutAllOfSingleton && f.putAllResetsIndex

variable {α β κ : Type} [DecidableEq κ]

namespace Hash

def mergeLoopT (ml : MergeLoop) (key : α → κ) (ix : List (κ × Nat)) (all es : List (α × β)) : Option (List (α × β)) :=
  match ml with
  | .alwaysAppend => some (all ++ es)
  | _ => mergeLoop key ix all es

def mergeEntriesT (f : HashFacts) (key : α → κ) (h : Hash α β κ) (other : List (α × β)) :
    Hash α β κ × Option (List (α × β)) :=
  let r := h.valueIndex key
  (r.1, mergeLoopT f.mergeLoop key r.2 h.entries other)

def mergeT (f : HashFacts) (key : α → κ) (h : Hash α β κ) (other : List (α × β)) : Hash α β κ × Option (Hash α β κ) :=
  let r := h.mergeEntriesT f key other
  (r.1, r.2.map wrap)

/-- `PutAll`: the merged entries; the index is dropped — or, were the reset missing, the stale one is kept -/
def putAllT (f : HashFacts) (key : α → κ) (h : Hash α β κ) (other : List (α × β)) : Option (Hash α β κ) :=
  let r := h.mergeEntriesT f key other
  r.2.map fun es => ⟨es, if f.putAllResetsIndex then none else r.1.index⟩

end Hash

def stepHImplT (f : HashFacts) (key : α → κ) (pool : List (Hash α β κ)) (op : HOp α β) : List (Hash α β κ) × HObs α β :=
  match op with
  | .put i e =>
    match pool[i]? with
    | some h =>
      match h.mergeT f key [e] with
      | (h', some n) => (pool.set i h' ++ [n], .made)
      | (h', none) => (pool.set i h', .fault)
    | none => (pool, .badRef)
  | .merge i j =>
    match pool[i]?, pool[j]? with
    | some h, some o =>
      match h.mergeT f key o.entries with
      | (h', some n) => (pool.set i h' ++ [n], .made)
      | (h', none) => (pool.set i h', .fault)
    | _, _ => (pool, .badRef)
  | .mput i e =>
    match pool[i]? with
    | some h =>
      match h.putAllT f key [e] with
      | some n => (pool.set i n, .made)
      | none => (pool, .fault)
    | none => (pool, .badRef)
  | .mputAll i j =>
    match pool[i]?, pool[j]? with
    | some h, some o =>
      match h.putAllT f key o.entries with
      | some n => (pool.set i n, .made)
      | none => (pool, .fault)
    | _, _ => (pool, .badRef)
  | op => stepHImpl key pool op

def runHImplT (f : HashFacts) (key : α → κ) (pool : List (Hash α β κ)) : List (HOp α β) → List (HObs α β) × List (Hash α β κ)
  | [] => ([], pool)
  | op :: ops =>
    let r := stepHImplT f key pool op
    let t := runHImplT f key r.1 ops
    (r.2 :: t.1, t.2)

end Pcore.Coll
