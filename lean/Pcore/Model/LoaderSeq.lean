import Pcore.Model.UnicodeCase
import Pcore.Generated.UnicodeCase
/-!
# Sequential model of pcore's loaders (property C12; the atomic steps of C13 reuse these definitions)

Mirrors the code AS IT IS NOW (after the `fix:` commits in /repo).  Core Lean only.

| Go                                                              | Lean                         |
|-----------------------------------------------------------------|------------------------------|
| `types/typedname.go` `newTypedName2` (strip a leading `::`), `MapKey` (lower-cased `authority/namespace/name`) | `stripColons`, `canon` |
| `loader/loader.go` `basicLoader.namedEntries` (map key → entry; entry with nil value = cached miss) | `Ents`, `lk`, `put` |
| `loader/loader.go` `basicLoader.GetEntry`                       | `lk k (ents …)`, `Op.get`    |
| `loader/loader.go` `basicLoader.SetEntry`                       | `setEntry`                   |
| `loader/loader.go` `parentedLoader.LoadEntry` (parent first; own when the parent's is nil or a placeholder) | `loadEntryC` |
| `loader/loader.go` `basicLoader.HasEntry`, `parentedLoader.HasEntry` | `ownHas`, `hasC`        |
| `loader/loader.go` `basicLoader.Discover`, `parentedLoader.Discover` | `discC`                 |
| `loader/loader.go` `load` (= `px.Load`): authority test, `LoadEntry`, placeholder into the ADDRESSED loader on nil | `load` |
| `loader/loader.go` `parentedLoader.NameAuthority` → … → `basicLoader.NameAuthority` | `runtimeAuthority` |
| `internal/context.go` `pxContext.Fork` (`px.NewParentedLoader(clone.loader)`) | a node of `Sys.ps` like any other parented loader |
| `px/context.go` `AddTypes` for an already resolved alias type   | `Op.define l ⟨runtime, "type", t.Name()⟩ t` (the driver does this mapping) |

Representation.  The shape of the hierarchy never changes, so it is kept apart from the mutable part:
`Sys.ps[i]` is the parent of loader `i` (`none` = the static loader), `Sys.es[i]` the entry map of loader `i` as an
association list in insertion order (a Go map has no order; the only place where the order could show is `Discover`,
which sorts).  `chain ps l = [l, parent l, …, root]`.

The static loader (ancestor of every root) answers nil / false / nothing for every name that is not a core type and is
never written through the modelled operations.  A tree either leaves it out (roots `(p -1)`; the harness then rejects lines
that use the name of a core type) or has it as node 0 (`(st)`: a `basicLoader` without parent — in the model a loader like
any other — preloaded with the core types among the names of the line; only has / get / discover may address it).
Every discovery predicate is restricted to the names of the line.

Quirks reproduced: a miss through `load` leaves a placeholder in the addressed loader only (never in an ancestor);
`Discover` skips own names by membership in the parent's ANSWER (it does not ask the parent again);
`SetEntry` of a placeholder over a bound value keeps the value (`nv == nil`); `SetEntry` over a placeholder re-points
the map slot to the NEW entry (it does not write into the old one); a redefinition error is `…_REDEFINE_TYPE` only when
both values are types; `load` compares the authority exactly whereas the map key folds its case; `Discover` answers
names re-made from the lower-cased map keys.
Lower-casing is Go's: `strings.ToLower` = `unicode.ToLower` rune by rune (`Model/UnicodeCase.lean` over the table
`Pcore.Generated.caseRanges`, regenerated from `$GOROOT/src/unicode/tables.go` on every check run), for valid UTF-8 — a name
that is not valid UTF-8 is outside the model (`bad-op` on both sides).  Note that the BYTE length of a name may change under
it (`K` U+212A → `k`, `Ⱥ` U+023A → `ⱥ` U+2C65): see `Model/LoaderKey.lean` for the places where typedname.go computes with
byte offsets.
-/
namespace Pcore.LoaderSeq

/-- what a loader entry holds: `ty n` = the type `Integer[n,n]`, `str n` = a String value (not a type, has `Equals`),
    `al name n` = the alias type `name = Integer[n,n]`, `tset name ver` = a TypeSet.  Go's `ov == nv || ov.Equals(nv)` is
    structural equality here. -/
inductive V where
  | ty (n : Nat)
  | str (n : Nat)
  | al (name : String) (n : Nat)
  | core (name : String)            -- a core type held by the static loader (lower-cased name)
  | tset (name : String) (ver : Nat) -- a type set `name`, version `1.0.ver`: `typeSet.Equals` compares name, authority, pcore
                                     -- uri / version and version — NOT the members
  deriving DecidableEq, Repr, Inhabited

/-- `_, ok := v.(px.Type)` -/
def V.isType : V → Bool
  | .str _ => false
  | _ => true

abbrev Key := String
/-- `namedEntries`: `none` = entry with nil value (cached miss) -/
abbrev Ents := List (Key × Option V)

/-- a typed name as the caller gives it -/
structure Name where
  auth : String
  ns : String
  name : String
  deriving DecidableEq, Repr, Inhabited

def runtimeAuthority : String := "http://puppet.com/2016.1/runtime"

/-- `unicode.ToLower` -/
def lowerChar (c : Char) : Char := Pcore.UnicodeCase.toLower Pcore.Generated.caseRanges c

/-- `strings.ToLower` (of valid UTF-8) -/
def lower (s : String) : String := String.ofList (s.toList.map lowerChar)

def stripColonsL : List Char → List Char
  | ':' :: ':' :: r => r
  | cs => cs

/-- `strings.TrimPrefix(name, "::")` -/
def stripColons (s : String) : String := String.ofList (stripColonsL s.toList)

/-- `typedName.MapKey` -/
def canon (n : Name) : Key := lower (n.auth ++ "/" ++ n.ns ++ "/" ++ stripColons n.name)

/-! ### one entry map -/

/-- `e, ok := namedEntries[k]` -/
def lk (k : Key) : Ents → Option (Option V)
  | [] => none
  | (k', e) :: r => if k' = k then some e else lk k r

/-- `namedEntries[k] = entry` -/
def put (k : Key) (e : Option V) : Ents → Ents
  | [] => [(k, e)]
  | (k', e') :: r => if k' = k then (k, e) :: r else (k', e') :: put k e r

inductive SetRes where
  | stored          -- the map slot now holds the new entry
  | kept            -- the old entry stays (same/equal value, or a placeholder offered over a value)
  | redefineType    -- panic AttemptToRedefineType
  | redefine        -- panic AttemptToRedefine
  deriving DecidableEq, Repr

/-- `basicLoader.SetEntry` (one critical section under `lock.Lock`) -/
def setEntry (es : Ents) (k : Key) (nv : Option V) : Ents × SetRes :=
  match lk k es with
  | some none => (put k nv es, .stored)                 -- old is a placeholder: replace the map entry
  | some (some ov) =>
    match nv with
    | none => (es, .kept)                               -- nv == nil
    | some v =>
      if ov = v then (es, .kept)                        -- ov == nv || ov.Equals(nv)
      else if ov.isType && v.isType then (es, .redefineType)
      else (es, .redefine)
  | none => (put k nv es, .stored)

/-! ### the hierarchy -/

structure Sys where
  ps : List (Option Nat)
  es : List Ents
  deriving Repr, Inhabited

def Sys.ents (s : Sys) (l : Nat) : Ents := s.es.getD l []
def Sys.setEnts (s : Sys) (l : Nat) (e : Ents) : Sys := { s with es := s.es.set l e }

def chainAux (ps : List (Option Nat)) : Nat → Nat → List Nat
  | 0, _ => []
  | fuel + 1, l => l :: (match ps.getD l none with
                         | some p => chainAux ps fuel p
                         | none => [])

/-- `[l, parent l, …, root]` (parents have smaller ids, so `l+1` steps are enough) -/
def chain (ps : List (Option Nat)) (l : Nat) : List Nat := chainAux ps (l + 1) l

/-- `parentedLoader.LoadEntry` along the chain; the static loader at its end answers nil -/
def loadEntryC (es : List Ents) : List Nat → Key → Option (Option V)
  | [], _ => none
  | l :: anc, k =>
    match loadEntryC es anc k with
    | some (some v) => some (some v)
    | _ => lk k (es.getD l [])                           -- entry == nil || entry.Value() == nil → own

/-- `basicLoader.HasEntry`: found && e.Value() != nil -/
def ownHas (es : List Ents) (l : Nat) (k : Key) : Bool :=
  match lk k (es.getD l []) with
  | some (some _) => true
  | _ => false

/-- `parentedLoader.HasEntry`: parent || own -/
def hasC (es : List Ents) : List Nat → Key → Bool
  | [], _ => false
  | l :: anc, k => hasC es anc k || ownHas es l k

/-- key order of `sort.Slice(found, MapKey(i) < MapKey(j))`: Go compares strings bytewise, which for UTF-8 is the
    lexicographic order of the code points -/
def leCodes : List Nat → List Nat → Bool
  | [], _ => true
  | _ :: _, [] => false
  | a :: as, b :: bs => a < b || (a == b && leCodes as bs)

def keyLe (a b : Key) : Bool := leCodes (a.toList.map Char.toNat) (b.toList.map Char.toNat)

def insertKey (k : Key) : List Key → List Key
  | [] => [k]
  | a :: r => if keyLe k a then k :: a :: r else a :: insertKey k r

/-- `sort.Slice` (an insertion sort: the lists are short, and structural recursion keeps the definition evaluable by
    the kernel; with distinct keys every correct sort gives the same list) -/
def sortKeys : List Key → List Key
  | [] => []
  | k :: r => insertKey k (sortKeys r)

/-- the keys a loader adds to what its parent discovered (`found`): value non-nil, not already in the parent's answer
    (`inParent[k]`), predicate -/
def ownAdded (es : List Ents) (l : Nat) (found : List Key) (p : Key → Bool) : List Key :=
  (es.getD l []).filterMap fun (k, e) => if e.isSome && !found.contains k && p k then some k else none

/-- `parentedLoader.Discover` along the chain -/
def discC (es : List Ents) (p : Key → Bool) : List Nat → List Key
  | [] => []
  | l :: anc =>
    let found := discC es p anc
    let added := ownAdded es l found p
    if added.isEmpty then found else sortKeys (found ++ added)

/-! ### operations -/

inductive Op where
  | load (l : Nat) (n : Name)
  | define (l : Nat) (n : Name) (v : V)
  | has (l : Nat) (n : Name)
  | get (l : Nat) (n : Name)
  | discover (l : Nat) (p : Key → Bool)

inductive Ans where
  | found (v : V)
  | notfound
  | ok
  | reported (code : String)
  | fault
  | bool (b : Bool)
  | entry (e : Option (Option V))
  | keys (ks : List Key)
  deriving DecidableEq, Repr

/-- `px.Load(c, name)` with `c.Loader()` = loader `l` -/
def load (s : Sys) (l : Nat) (n : Name) : Sys × Ans :=
  if n.auth ≠ runtimeAuthority then (s, .notfound)
  else
    match loadEntryC s.es (chain s.ps l) (canon n) with
    | none => (s.setEnts l (setEntry (s.ents l) (canon n) none).1, .notfound)
    | some none => (s, .notfound)
    | some (some v) => (s, .found v)

/-- `loader.SetEntry(name, px.NewLoaderEntry(v, nil))` -/
def define (s : Sys) (l : Nat) (n : Name) (v : V) : Sys × Ans :=
  match setEntry (s.ents l) (canon n) (some v) with
  | (es', .stored) => (s.setEnts l es', .ok)
  | (_, .kept) => (s, .ok)
  | (_, .redefineType) => (s, .reported "PCORE_ATTEMPT_TO_REDEFINE_TYPE")
  | (_, .redefine) => (s, .reported "PCORE_ATTEMPT_TO_REDEFINE")

def step (s : Sys) : Op → Sys × Ans
  | .load l n => load s l n
  | .define l n v => define s l n v
  | .has l n => (s, .bool (hasC s.es (chain s.ps l) (canon n)))
  | .get l n => (s, .entry (lk (canon n) (s.ents l)))
  | .discover l p => (s, .keys (discC s.es p (chain s.ps l)))

def run (s : Sys) : List Op → Sys × List Ans
  | [] => (s, [])
  | op :: ops =>
    let (s1, a) := step s op
    let (s2, as) := run s1 ops
    (s2, a :: as)

/-- a hierarchy with the given parents and empty loaders -/
def Sys.init (ps : List (Option Nat)) : Sys := { ps := ps, es := ps.map fun _ => [] }

/-! ### specification (written from the property text, not from the code) -/

/-- the loader's own binding: a non-placeholder own entry -/
def bound (s : Sys) (l : Nat) (k : Key) : Option V := (lk k (s.ents l)).join

/-- the binding of the outermost ancestor that has one, otherwise the loader's own, otherwise nothing -/
def resolve (s : Sys) (l : Nat) (k : Key) : Option V :=
  (chain s.ps l).reverse.findSome? fun a => bound s a k

/-- what a lookup answers for a resolution -/
def ansOf : Option V → Ans
  | some v => .found v
  | none => .notfound

end Pcore.LoaderSeq
