import Pcore.Model.Num
/-!
# IEEE-754 binary64 values as bit patterns (property C16: the numeric constructors)

Core Lean only.  A Go `float64` is carried as its 64 bits (`math.Float64bits`), a `Nat` below 2^64; nothing about Lean's
opaque `Float` is used.  What the constructors of Integer / Float / Numeric / Boolean do with a float, and nothing else:

| Go                                                        | Lean                  |
|-----------------------------------------------------------|-----------------------|
| `a <= b` on float64 (false when either is NaN)            | `F64.le`              |
| `f < 0`, `f == 0.0`                                       | `F64.ltZero`, `F64.isZero` |
| `floatValue.Abs` (`if f < 0 { return -f }; return f`)     | `F64.abs`             |
| `float64(int64)` (round to nearest, ties to even)         | `F64.ofInt` (the exact rounding of Model/Num.lean `decToBits`) |
| `int64(float64)` (truncation; out of range / NaN: amd64's CVTTSD2SQ answers MinInt64) | `F64.toInt64` |
| `FloatType.bounds` + `FloatType.IsInstance`               | `F64.effLo`, `F64.effHi`, `F64.inRange` |
| `f * 1e9`, `f / 1e9` (the Timespan conversions)           | `F64.scale10 · 9`, `F64.scale10 · (-9)` (exact product, rounded by `decToBits`) |

The order is computed on `key`: a finite double is an integer multiple of 2^-1074 and is represented by that integer; the
infinities are the sentinels `±infKey` beyond every finite double; NaN has no key (the same representation as `Fl` of the
lattice model, Model/Lattice.lean).
-/
namespace Pcore.Dispatch.F64

def expOf (b : Nat) : Nat := b / 2 ^ 52 % 2048
def manOf (b : Nat) : Nat := b % 2 ^ 52
def negOf (b : Nat) : Bool := b / 2 ^ 63 % 2 == 1

def isNaN (b : Nat) : Bool := expOf b == 2047 && manOf b != 0

def infKey : Int := ((2 ^ 2200 : Nat) : Int)
/-- `math.MaxFloat64` = (2^53 - 1)·2^971, scaled by 2^1074 -/
def maxFiniteKey : Int := (((2 ^ 53 - 1) * 2 ^ 2045 : Nat) : Int)

/-- |f| scaled by 2^1074 for a finite `f` -/
def mag (b : Nat) : Nat := if expOf b = 0 then manOf b else (2 ^ 52 + manOf b) * 2 ^ (expOf b - 1)

/-- the value of a double, scaled by 2^1074; `none` = NaN -/
def key (b : Nat) : Option Int :=
  if isNaN b then none
  else
    let m : Int := if expOf b = 2047 then infKey else (mag b : Int)
    some (if negOf b then -m else m)

/-- `a <= b` -/
def le (a b : Nat) : Bool :=
  match key a, key b with
  | some x, some y => decide (x ≤ y)
  | _, _ => false

/-- `f < 0` -/
def ltZero (b : Nat) : Bool :=
  match key b with
  | some x => decide (x < 0)
  | none => false

/-- `f == 0.0` (true for -0.0, false for NaN) -/
def isZero (b : Nat) : Bool :=
  match key b with
  | some x => decide (x = 0)
  | none => false

/-- `floatValue.Abs`: a negative number loses its sign bit; -0.0 and NaN are returned as they are -/
def abs (b : Nat) : Nat := if ltZero b then b - 2 ^ 63 else b

def minInt : Int := -9223372036854775808
def maxInt : Int := 9223372036854775807

/-- `float64(n)` for an int64 `n` -/
def ofInt (n : Int) : Nat :=
  match Pcore.Syntax.decToBits ⟨decide (n < 0), n.natAbs, 0⟩ with
  | some b => b
  | none => 0                 -- unreachable: |n| ≤ 2^63 is far below the overflow threshold

/-- `int64(f)`: truncation toward zero; NaN, the infinities and everything outside int64 give MinInt64 (what the amd64
    conversion instruction answers; the Go specification leaves the result implementation-defined) -/
def toInt64 (b : Nat) : Int :=
  match key b with
  | none => minInt
  | some k =>
    let t := k.tdiv ((2 ^ 1074 : Nat) : Int)
    if minInt ≤ t && t ≤ maxInt then t else minInt

/-- `FloatType.bounds`: a bound left at its default (∓MaxFloat64) is no bound at all -/
def effLo (x : Int) : Int := if x ≤ -maxFiniteKey then -infKey else x
def effHi (x : Int) : Int := if maxFiniteKey ≤ x then infKey else x

/-- `FloatType.IsInstance` for a type with the stored bounds `lo`, `hi` (keys) -/
def inRange (lo hi : Int) (b : Nat) : Bool :=
  match key b with
  | some k => decide (effLo lo ≤ k) && decide (k ≤ effHi hi)
  | none => false

/-- the correctly rounded `f * 10^e10` (`e10` may be negative: a division by a power of ten) of a double.  A finite double
    is `m·2^sh` with `m < 2^53`: for `sh ≥ 0` the integer `m·2^sh`, otherwise the decimal `m·5^(-sh) · 10^sh` — which the
    exact reader of Model/Num.lean rounds.  `none` = NaN or ±Inf in, or the product overflows (Go: ±Inf) -/
def scale10 (b : Nat) (e10 : Int) : Option Nat :=
  if expOf b = 2047 then none
  else
    let m : Nat := if expOf b = 0 then manOf b else 2 ^ 52 + manOf b
    let sh : Int := (if expOf b = 0 then (0 : Int) else (expOf b : Int) - 1) - 1074
    if sh ≥ 0 then Pcore.Syntax.decToBits ⟨negOf b, m * 2 ^ sh.toNat, e10⟩
    else Pcore.Syntax.decToBits ⟨negOf b, m * 5 ^ (-sh).toNat, e10 + sh⟩

/-- int64 arithmetic wraps -/
def wrap64 (x : Int) : Int := (x + 9223372036854775808) % 18446744073709551616 - 9223372036854775808

/-- `time.Duration(f * NsecsPerSec)`: the float64 product, then `int64(·)` -/
def floatSecondsToNs (b : Nat) : Int :=
  match key b with
  | none => minInt
  | some k =>
    if k = infKey || k = -infKey then minInt
    else match scale10 b 9 with
      | some p => toInt64 p
      | none => minInt                   -- the product overflowed to ±Inf

/-- `Timespan.Int()` = `totalSeconds()`: int64 division truncates -/
def spanSeconds (ns : Int) : Int := ns.tdiv 1000000000

/-- `Timespan.Float()`: `float64(ns) / float64(NsecsPerSec)` -/
def spanFloat (ns : Int) : Nat :=
  match scale10 (ofInt ns) (-9) with
  | some q => q
  | none => 0                            -- unreachable: the quotient of a finite number cannot overflow

def one : Nat := 0x3FF0000000000000
def zero : Nat := 0

end Pcore.Dispatch.F64
