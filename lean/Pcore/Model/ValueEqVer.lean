/-!
# Model of the leaf payloads of the SemVer, SemVerRange, URI and TypedName values (property C07)  — core Lean only

Mirrors, function by function (github.com/lyraproj/semver is the library /repo's `types.SemVer` / `types.SemVerRange` wrap):

| Go                                                                              | Lean                              |
|---------------------------------------------------------------------------------|-----------------------------------|
| `fmt` verb `%d` of an `int`                                                      | `natStr`, `intStr`, `decDigits`   |
| `strconv.ParseInt(s, 10, 64)` (optional sign, decimal digits, int64 range)       | `parseInt64`, `digitsVal`         |
| `strings.Split(s, ".")`                                                          | `splitOn`                         |
| `semver/version.go  vPRPartsPattern / vPartsPattern` (the two anchored regexps)  | `preOk`, `buildOk`                |
| `semver/version.go  mungePart`, `splitParts`, `NewVersion3`                      | `mungePart`, `splitParts`, `newVersion3` |
| `semver/version.go  version.Equals`, `tripletEquals`, `equalSegments`            | `verEq`, `equalSegs`, `equalBuild` |
| `semver/version.go  version.ToString`, `writeParts`                              | `verStr`, `joinB`, `segStr`       |
| `semver/version.go  Min` (pre-release `[]`, not nil: prints `0.0.0-`)            | `verMin`                          |
| `semver/versionrange.go  eqRange/gtEqRange/gtRange/ltEqRange/ltRange/startEndRange .equals / .ToString` | `Bound`, `ARange`, `boundEq`, `arEq`, `boundStr`, `arStr` |
| `semver/versionrange.go  versionRange.Equals`, `ToNormalizedString`, `ToString`  | `rangesEq`, `normStr`, `rangeStr` |
| `types/typedname.go  newTypedName2` (`strings.TrimPrefix(name, "::")`), `MapKey` | `trimColons`, `mapKey`            |

Not modelled: `semver.ParseVersionRange` (the range grammar) and `newVersionRange` (merging of overlapping ranges): an op line
states the ORIGINAL string and the list of ranges it parses to; the harness checks on every run that the implementation's
`NormalizedString()` is the harness's own print of the stated list.
`strings.ToLower` is modelled for ASCII only (the generators keep to ASCII).
-/
namespace Pcore.ValueEq

abbrev Bytes := List UInt8

/-! ## decimal integers -/

/-- the decimal digits of `n`, most significant first (`fuel` only makes the recursion structural) -/
def decDigits : Nat → Nat → Bytes
  | 0, n => [UInt8.ofNat (48 + n % 10)]
  | f + 1, n => if n < 10 then [UInt8.ofNat (48 + n)] else decDigits f (n / 10) ++ [UInt8.ofNat (48 + n % 10)]

/-- `%d` of a non-negative int -/
def natStr (n : Nat) : Bytes := decDigits n n

/-- `%d` of an int -/
def intStr (i : Int) : Bytes := if i < 0 then 0x2d :: natStr i.natAbs else natStr i.natAbs

def isDigit (c : UInt8) : Bool := 0x30 ≤ c && c ≤ 0x39

/-- the value of a non-empty string of decimal digits (`strconv.ParseUint` without its range check), by accumulation -/
def digitsAcc : Nat → Bytes → Option Nat
  | acc, [] => some acc
  | acc, c :: cs => if isDigit c then digitsAcc (acc * 10 + (c.toNat - 48)) cs else none

def digitsVal : Bytes → Option Nat
  | [] => none
  | cs => digitsAcc 0 cs

/-- `strconv.ParseInt(s, 10, 64)`; `none` = any error (syntax or range) -/
def parseInt64 : Bytes → Option Int
  | [] => none
  | c :: r =>
    if c = 0x2b then
      match digitsVal r with
      | some n => if n < 9223372036854775808 then some (n : Int) else none
      | none => none
    else if c = 0x2d then
      match digitsVal r with
      | some n => if n ≤ 9223372036854775808 then some (-(n : Int)) else none
      | none => none
    else
      match digitsVal (c :: r) with
      | some n => if n < 9223372036854775808 then some (n : Int) else none
      | none => none

/-! ## versions -/

/-- a pre-release part: an `int` when `strconv.ParseInt` accepts it, else the string -/
inductive Seg where
  | num (i : Int)
  | txt (s : Bytes)
  deriving DecidableEq, Inhabited

structure Ver where
  major : Nat
  minor : Nat
  patch : Nat
  pre : Option (List Seg)      -- `nil` = stable
  build : Option (List Bytes)
  deriving DecidableEq, Inhabited

/-- `strings.Split(s, string(c))` for a one-byte separator -/
def splitOn (c : UInt8) : Bytes → List Bytes
  | [] => [[]]
  | b :: bs =>
    if b = c then [] :: splitOn c bs
    else match splitOn c bs with
      | p :: ps => (b :: p) :: ps
      | [] => [[b]]

def isLetter (c : UInt8) : Bool := (0x41 ≤ c && c ≤ 0x5a) || (0x61 ≤ c && c ≤ 0x7a)

/-- `[0-9A-Za-z-]` -/
def isPartChar (c : UInt8) : Bool := isDigit c || isLetter c || c == 0x2d

/-- `[0-9A-Za-z-]+` -/
def partOk (p : Bytes) : Bool := !p.isEmpty && p.all isPartChar

/-- `0|[1-9][0-9]*|[0-9]*[A-Za-z-]+[0-9A-Za-z-]*` -/
def prPartOk (p : Bytes) : Bool :=
  partOk p && (p == [0x30] || (p.all isDigit && p.head? != some 0x30) || !p.all isDigit)

/-- `vPartsPattern.MatchString` -/
def buildOk (s : Bytes) : Bool := (splitOn 0x2e s).all partOk
/-- `vPRPartsPattern.MatchString` -/
def preOk (s : Bytes) : Bool := (splitOn 0x2e s).all prPartOk

def mungePart (p : Bytes) : Seg :=
  match parseInt64 p with
  | some i => .num i
  | none => .txt p

/-- `NewVersion3`; `none` = an error is returned -/
def newVersion3 (major minor patch : Int) (pre build : Bytes) : Option Ver :=
  if major < 0 ∨ minor < 0 ∨ patch < 0 then none
  else if !pre.isEmpty && !preOk pre then none
  else if !build.isEmpty && !buildOk build then none
  else some {
    major := major.toNat, minor := minor.toNat, patch := patch.toNat,
    pre := if pre.isEmpty then none else some ((splitOn 0x2e pre).map mungePart),
    build := if build.isEmpty then none else some (splitOn 0x2e build) }

/-- `semver.Min`: the pre-release list is empty but not nil -/
def verMin : Ver := { major := 0, minor := 0, patch := 0, pre := some [], build := none }

/-- `a[idx] != b[idx]` on `interface{}` holding an `int` or a `string` -/
def segEq : Seg → Seg → Bool
  | .num a, .num b => a == b
  | .txt a, .txt b => a == b
  | _, _ => false

def segsEq : List Seg → List Seg → Bool
  | [], [] => true
  | a :: as, b :: bs => segEq a b && segsEq as bs
  | _, _ => false

def partsEq : List Bytes → List Bytes → Bool
  | [], [] => true
  | a :: as, b :: bs => a == b && partsEq as bs
  | _, _ => false

/-- `equalSegments` on the pre-release parts -/
def equalSegs : Option (List Seg) → Option (List Seg) → Bool
  | none, none => true
  | some a, some b => segsEq a b
  | _, _ => false

/-- `equalSegments` on the build parts -/
def equalBuild : Option (List Bytes) → Option (List Bytes) → Bool
  | none, none => true
  | some a, some b => partsEq a b
  | _, _ => false

/-- `version.Equals` -/
def verEq (a b : Ver) : Bool :=
  (a.major == b.major && a.minor == b.minor && a.patch == b.patch) && equalSegs a.pre b.pre && equalBuild a.build b.build

/-- `%v` of a part -/
def segStr : Seg → Bytes
  | .num i => intStr i
  | .txt s => s

/-- `writeParts`: the parts separated by `c` -/
def joinB (c : UInt8) : List Bytes → Bytes
  | [] => []
  | [p] => p
  | p :: q :: ps => p ++ c :: joinB c (q :: ps)

def preStr (v : Ver) : Bytes :=
  match v.pre with
  | none => []
  | some ps => joinB 0x2e (ps.map segStr)

def buildStr (v : Ver) : Bytes :=
  match v.build with
  | none => []
  | some ps => joinB 0x2e ps

/-- `version.ToString` -/
def verStr (v : Ver) : Bytes :=
  natStr v.major ++ 0x2e :: (natStr v.minor ++ 0x2e :: (natStr v.patch ++
    ((match v.pre with | none => [] | some ps => 0x2d :: joinB 0x2e (ps.map segStr)) ++
     (match v.build with | none => [] | some ps => 0x2b :: joinB 0x2e ps))))

/-! ## version ranges -/

inductive BOp where
  | eq | ge | gt | le | lt
  deriving DecidableEq, Inhabited

structure Bound where
  op : BOp
  v : Ver
  deriving DecidableEq, Inhabited

/-- one `abstractRange`: a simple comparison, or a `startEndRange` of two -/
inductive ARange where
  | simple (b : Bound)
  | se (s e : Bound)
  deriving DecidableEq, Inhabited

/-- `xxRange.equals`: the same Go type and `Version.Equals` -/
def boundEq (a b : Bound) : Bool := a.op == b.op && verEq a.v b.v

def arEq : ARange → ARange → Bool
  | .simple a, .simple b => boundEq a b
  | .se a b, .se c d => boundEq a c && boundEq b d
  | _, _ => false

/-- `versionRange.Equals` -/
def rangesEq : List ARange → List ARange → Bool
  | [], [] => true
  | a :: as, b :: bs => arEq a b && rangesEq as bs
  | _, _ => false

def opStr : BOp → Bytes
  | .eq => [] | .ge => [0x3e, 0x3d] | .gt => [0x3e] | .le => [0x3c, 0x3d] | .lt => [0x3c]

def boundStr (b : Bound) : Bytes := opStr b.op ++ verStr b.v

def arStr : ARange → Bytes
  | .simple b => boundStr b
  | .se s e => boundStr s ++ 0x20 :: boundStr e

/-- `ToNormalizedString`: the ranges separated by ` || ` -/
def normStr : List ARange → Bytes
  | [] => []
  | [r] => arStr r
  | r :: q :: rs => arStr r ++ [0x20, 0x7c, 0x7c, 0x20] ++ normStr (q :: rs)

/-- `versionRange.ToString`: the original string when there is one -/
def rangeStr (orig : Bytes) (rs : List ARange) : Bytes := if orig.isEmpty then normStr rs else orig

/-! ## typed names -/

def lowerByte (b : UInt8) : UInt8 := if 0x41 ≤ b ∧ b ≤ 0x5a then b + 0x20 else b

/-- `strings.TrimPrefix(name, "::")` -/
def trimColons (s : Bytes) : Bytes :=
  match s with
  | a :: b :: r => if a = 0x3a ∧ b = 0x3a then r else s
  | _ => s

/-- `typedName.MapKey`: `strings.ToLower(authority + "/" + namespace + "/" + name)` (ASCII) -/
def mapKey (auth ns name : Bytes) : Bytes := (auth ++ 0x2f :: (ns ++ 0x2f :: name)).map lowerByte

end Pcore.ValueEq
