import Pcore.Model.HashImpl
import Pcore.Model.CollSpec
/-!
# A history over a pool of `types.Hash` values, executed by the implementation model

The same steps `HOp` as the specification machine `stepHSpec` (Model/CollSpec.lean), executed with the
operations of `Pcore.Model.HashImpl`: every operation that consults the index stores the receiver back
into the pool with its index cached, results are appended.  Core Lean only.
-/
namespace Pcore.Coll
variable {α β κ : Type} [DecidableEq κ]

def stepHImpl (key : α → κ) (pool : List (Hash α β κ)) : HOp α β → List (Hash α β κ) × HObs α β
  | .lit es => (pool ++ [Hash.wrap es], .made)
  | .put i e =>
    match pool[i]? with
    | some h =>
      match h.merge key [e] with
      | (h', some n) => (pool.set i h' ++ [n], .made)
      | (h', none) => (pool.set i h', .fault)
    | none => (pool, .badRef)
  | .merge i j =>
    match pool[i]?, pool[j]? with
    | some h, some o =>
      match h.merge key o.entries with
      | (h', some n) => (pool.set i h' ++ [n], .made)
      | (h', none) => (pool.set i h', .fault)
    | _, _ => (pool, .badRef)
  | .delete i k =>
    match pool[i]? with
    | some h =>
      match h.delete key k with
      | (h', some n) => (pool.set i h' ++ [n], .made)
      | (h', none) => (pool.set i h', .fault)
    | none => (pool, .badRef)
  | .deleteAll i ks =>
    match pool[i]? with
    | some h =>
      match h.deleteAll key ks with
      | (h', n) => (pool.set i h' ++ [n], .made)
    | none => (pool, .badRef)
  | .get i k =>
    match pool[i]? with
    | some h =>
      match h.get key (key k) with
      | (h', some v) => (pool.set i h', .got v)
      | (h', none) => (pool.set i h', .fault)
    | none => (pool, .badRef)
  | .includes i k =>
    match pool[i]? with
    | some h =>
      match h.includesKey key (key k) with
      | (h', b) => (pool.set i h', .has b)
    | none => (pool, .badRef)
  | .view i =>
    match pool[i]? with
    | some h => (pool, .entries h.entries)
    | none => (pool, .badRef)
  | .mput i e =>
    match pool[i]? with
    | some h =>
      match h.putM key e.1 e.2 with
      | some n => (pool.set i n, .made)
      | none => (pool, .fault)
    | none => (pool, .badRef)
  | .mputAll i j =>
    match pool[i]?, pool[j]? with
    | some h, some o =>
      match h.putAll key o.entries with
      | some n => (pool.set i n, .made)
      | none => (pool, .fault)
    | _, _ => (pool, .badRef)
  | .slice i x y =>
    match pool[i]? with
    | some h =>
      match h.slice x y with
      | some n => (pool ++ [n], .made)
      | none => (pool, .badBounds)
    | none => (pool, .badRef)
  | .select i ks =>
    match pool[i]? with
    | some h => (pool ++ [h.selectPairs (fun e => (ks.map key).contains (key e.1))], .made)
    | none => (pool, .badRef)
  | .reject i ks =>
    match pool[i]? with
    | some h => (pool ++ [h.rejectPairs (fun e => (ks.map key).contains (key e.1))], .made)
    | none => (pool, .badRef)
  | .sort i le =>
    match pool[i]? with
    | some h => (pool ++ [h.sort le], .made)
    | none => (pool, .badRef)
  | .eachSlice i n =>
    match pool[i]? with
    | some h =>
      match h.eachSlice n with
      | some cs => (pool, .chunks cs)
      | none => (pool, .illegal)
    | none => (pool, .badRef)

def runHImpl (key : α → κ) (pool : List (Hash α β κ)) : List (HOp α β) → List (HObs α β) × List (Hash α β κ)
  | [] => ([], pool)
  | op :: ops =>
    let r := stepHImpl key pool op
    let t := runHImpl key r.1 ops
    (r.2 :: t.1, t.2)

end Pcore.Coll
