import Pcore.Model.ConcQueueSites
/-!
# The declare / resolve queue under concurrency (property C13)

Go `init()` functions and later callers DECLARE resolvable types (`px.NewObjectType`, `px.NewGoType`,
`px.RegisterResolvableType` …); whoever next enters a root `pcore.Do` / `RootContext` — or calls `px.ResolveResolvables`
— takes the whole list over, binds every type to its name and then resolves every type.  The list is a package-level Go
slice guarded by a mutex; it is POPPED under the lock and CONSUMED outside.  This file models that protocol with the Go
slice semantics made explicit (backing arrays live in a heap; a slice is (array, length); `append` writes in place while
the capacity lasts and moves to a bigger array otherwise), so that the variant that keeps the backing array can be
expressed — and refuted — in the same model.  Core Lean only.

| Go                                                                                   | Lean                                   |
|----------------------------------------------------------------------------------------|----------------------------------------|
| `types/types.go` `var resolvableTypes = make([]px.ResolvableType, 0, 16)`              | `Shared.init`: array 0 of `cap0` slots, `q = (0, 0)` |
| `registerResolvableType`: Lock; `resolvableTypes = append(resolvableTypes, tp)`; Unlock | `appendQ`, the step of `.decl` (one critical section) |
| `PopDeclaredTypes`: Lock; `types = resolvableTypes`; `if len(types) > 0 { resolvableTypes = make(…, 0, 16) }`; Unlock | `popQ` with `Variant.fresh`, first step of `.resolve` |
| — the same with `resolvableTypes = resolvableTypes[:0]` (refuted variant)              | `popQ` with `Variant.reslice`          |
| — the same with no assignment at all (refuted variant)                                 | `popQ` with `Variant.keep`             |
| `internal/context.go` `resolveResolvables`: `for _, rt := range ts` — the element is read (no lock), then `l.SetEntry(NewTypedName(NsType, rt.Name()), NewLoaderEntry(rt, nil))` | `PC.bindRead` (read of slot i), `PC.bindSet` (the loader's critical section) |
| `resolveTypes(c, ts...)`: `for _, rt := range types` — the element is read, then `rt.Resolve(c)` | `PC.resRead`, `PC.resCall`   |
| reading a nil element (`rt.Name()` on a nil interface)                                 | answer `.fault`                        |

The capacity of a slice is the length of its array (every slice here starts at offset 0).  `Cfg.grow` is the growth
policy of `append` (a parameter: the theorems hold for every policy and every initial capacity; the driver uses Go's
doubling below 256 elements).  Items are numbered in the order of their declaration.

Ghost data (never printed, never read by a step): the PCs of a `resolve` carry `b`, the content of the popped slice at
the time of the pop; `Shared.fin` lists the items of completed `resolve` operations.

`isYield` marks the continuations at which the deterministic scheduler of harness/c13 (declq.go) parks a goroutine:
"op" (before every step), "declq.bind" (entry of the loader's SetEntry, i.e. AFTER the element was read) and
"declq.resolve" (entry of the type's Resolve).  The step relation used by the theorems is finer (every atomic step).

Not modelled: what `Resolve` does inside (lookups of parent / attribute types through the context's loader), the
mappings, constructor and function queues (same protocol, popped by the same `resolveResolvables`; their sites are in the
regenerated table `Generated/QueueSites.lean` and must satisfy the same discipline).
-/
namespace Pcore.ConcQueue

abbrev Item := Nat

structure Slice where
  arr : Nat
  len : Nat
  deriving DecidableEq, Repr, Inhabited

structure Cfg where
  variant : Variant
  cap0 : Nat
  grow : Nat → Nat

inductive Ev where
  | bind (x : Item)
  | res (x : Item)
  deriving DecidableEq, Repr, Inhabited

inductive Ans where
  | declared (x : Item)
  | resolved (ev : List Ev)
  | fault (ev : List Ev)
  deriving DecidableEq, Repr, Inhabited

inductive QOp where
  | decl
  | resolve
  deriving DecidableEq, Repr, Inhabited

inductive PC where
  | idle
  | bindRead (s : Slice) (b : List Item) (i : Nat) (ev : List Ev)
  | bindSet (s : Slice) (b : List Item) (i : Nat) (x : Item) (ev : List Ev)      -- parked at "declq.bind"
  | resRead (s : Slice) (b : List Item) (i : Nat) (ev : List Ev)
  | resCall (s : Slice) (b : List Item) (i : Nat) (x : Item) (ev : List Ev)      -- parked at "declq.resolve"
  deriving DecidableEq, Repr, Inhabited

structure Shared where
  heap : List (List (Option Item))          -- backing arrays; an array never changes its length
  q : Slice                                 -- the guarded variable `resolvableTypes`
  next : Nat                                -- items declared so far
  bound : List Item                         -- one element per `SetEntry` of a declared type
  resolved : List Item                      -- one element per `Resolve` call
  fin : List Item                           -- ghost: the items of completed `resolve` operations
  deriving DecidableEq, Repr, Inhabited

structure Thread where
  pc : PC
  ops : List QOp
  log : List Ans
  deriving DecidableEq, Repr, Inhabited

structure Config where
  sh : Shared
  th : List Thread
  deriving DecidableEq, Repr, Inhabited

/-- the elements a slice shows -/
def readSlice (heap : List (List (Option Item))) (s : Slice) : List (Option Item) := (heap.getD s.arr []).take s.len

def slotAt (heap : List (List (Option Item))) (s : Slice) (i : Nat) : Option Item := (heap.getD s.arr []).getD i none

/-- the declared items the queue holds -/
def qItems (sh : Shared) : List Item := (readSlice sh.heap sh.q).filterMap id

/-- `resolvableTypes = append(resolvableTypes, x)` -/
def appendQ (cfg : Cfg) (sh : Shared) (x : Item) : Shared :=
  let a := sh.heap.getD sh.q.arr []
  if sh.q.len < a.length then
    { sh with heap := sh.heap.set sh.q.arr (a.set sh.q.len (some x)), q := { arr := sh.q.arr, len := sh.q.len + 1 } }
  else
    { sh with heap := sh.heap ++ [a.take sh.q.len ++ [some x] ++ List.replicate (max (cfg.grow a.length) (sh.q.len + 1) - (sh.q.len + 1)) none],
              q := { arr := sh.heap.length, len := sh.q.len + 1 } }

/-- the critical section of `registerResolvableType` -/
def declare (cfg : Cfg) (sh : Shared) : Shared :=
  { appendQ cfg sh sh.next with next := sh.next + 1 }

/-- the critical section of `PopDeclaredTypes`: the slice handed out, and what is left in the guarded variable -/
def popQ (cfg : Cfg) (sh : Shared) : Shared × Slice :=
  match cfg.variant with
  | .fresh =>
    if sh.q.len > 0 then ({ sh with heap := sh.heap ++ [List.replicate cfg.cap0 none], q := { arr := sh.heap.length, len := 0 } }, sh.q)
    else (sh, sh.q)
  | .reslice => ({ sh with q := { arr := sh.q.arr, len := 0 } }, sh.q)
  | .keep => (sh, sh.q)

/-- one atomic step of one thread -/
def stepThread (cfg : Cfg) (sh : Shared) (t : Thread) : Shared × Thread :=
  match t.pc with
  | .idle =>
    match t.ops with
    | [] => (sh, t)
    | .decl :: rest => (declare cfg sh, { pc := .idle, ops := rest, log := t.log ++ [.declared sh.next] })
    | .resolve :: rest => ((popQ cfg sh).1, { pc := .bindRead (popQ cfg sh).2 (qItems sh) 0 [], ops := rest, log := t.log })
  | .bindRead s b i ev =>
    if i < s.len then
      match slotAt sh.heap s i with
      | some x => (sh, { pc := .bindSet s b i x ev, ops := t.ops, log := t.log })
      | none => (sh, { pc := .idle, ops := t.ops, log := t.log ++ [.fault ev] })
    else (sh, { pc := .resRead s b 0 ev, ops := t.ops, log := t.log })
  | .bindSet s b i x ev =>
    ({ sh with bound := sh.bound ++ [x] }, { pc := .bindRead s b (i + 1) (ev ++ [.bind x]), ops := t.ops, log := t.log })
  | .resRead s b i ev =>
    if i < s.len then
      match slotAt sh.heap s i with
      | some x => (sh, { pc := .resCall s b i x ev, ops := t.ops, log := t.log })
      | none => (sh, { pc := .idle, ops := t.ops, log := t.log ++ [.fault ev] })
    else ({ sh with fin := sh.fin ++ b }, { pc := .idle, ops := t.ops, log := t.log ++ [.resolved ev] })
  | .resCall s b i x ev =>
    ({ sh with resolved := sh.resolved ++ [x] }, { pc := .resRead s b (i + 1) (ev ++ [.res x]), ops := t.ops, log := t.log })

/-- thread `i` takes one step (nothing happens when there is no such thread) -/
def stepAt (cfg : Cfg) (c : Config) (i : Nat) : Config :=
  match c.th[i]? with
  | none => c
  | some t => { sh := (stepThread cfg c.sh t).1, th := c.th.set i (stepThread cfg c.sh t).2 }

/-- reachability under every interleaving -/
inductive Reachable (cfg : Cfg) (c0 : Config) : Config → Prop where
  | init : Reachable cfg c0 c0
  | step {c : Config} (i : Nat) : Reachable cfg c0 c → Reachable cfg c0 (stepAt cfg c i)

def Shared.init (cfg : Cfg) : Shared :=
  { heap := [List.replicate cfg.cap0 none], q := { arr := 0, len := 0 }, next := 0, bound := [], resolved := [], fin := [] }

def declareN (cfg : Cfg) : Nat → Shared → Shared
  | 0, sh => sh
  | n + 1, sh => declareN cfg n (declare cfg sh)

/-- `pend` types were declared (by `init()` functions, say) before the threads start -/
def Config.init (cfg : Cfg) (pend : Nat) (progs : List (List QOp)) : Config :=
  { sh := declareN cfg pend (Shared.init cfg), th := progs.map fun p => { pc := .idle, ops := p, log := [] } }

def Thread.finished (t : Thread) : Bool := t.pc = .idle && t.ops.isEmpty

def Quiescent (c : Config) : Prop := ∀ t ∈ c.th, t.finished = true

instance (c : Config) : Decidable (Quiescent c) := by unfold Quiescent; infer_instance

/-! ### the deterministic scheduler of harness/c13 (`declq` lines) -/

def isYield : PC → Bool
  | .idle => true                   -- "op" (before the next step) — or the thread has finished
  | .bindSet _ _ _ _ _ => true      -- "declq.bind"
  | .resCall _ _ _ _ _ => true      -- "declq.resolve"
  | _ => false

def runToYield (cfg : Cfg) : Nat → Config → Nat → Config
  | 0, c, _ => c
  | fuel + 1, c, i =>
    match c.th[i]? with
    | none => c
    | some t => if isYield t.pc then c else runToYield cfg fuel (stepAt cfg c i) i

/-- one schedule entry: release thread `i` until its next yield point; skipped when it has finished or does not exist -/
def release (cfg : Cfg) (c : Config) (i : Nat) : Config :=
  match c.th[i]? with
  | none => c
  | some t => if t.finished then c else runToYield cfg 8 (stepAt cfg c i) i

def runSched (cfg : Cfg) (c : Config) : List Nat → Config
  | [] => c
  | i :: rest => runSched cfg (release cfg c i) rest

def drainThread (cfg : Cfg) : Nat → Config → Nat → Config
  | 0, c, _ => c
  | fuel + 1, c, i =>
    match c.th[i]? with
    | none => c
    | some t => if t.finished then c else drainThread cfg fuel (release cfg c i) i

/-- an upper bound of the scheduler slots the rest of the run can need -/
def slotBound (c : Config) : Nat :=
  let ops := (c.th.map fun t => t.ops.length + 1).foldl (· + ·) 0
  ops * (2 * (c.sh.next + ops) + 3)

/-- after the schedule: the remaining threads run to completion in id order -/
def drainAll (cfg : Cfg) (c : Config) : Config :=
  (List.range c.th.length).foldl (fun c i => drainThread cfg (slotBound c) c i) c

def execute (cfg : Cfg) (pend : Nat) (progs : List (List QOp)) (sched : List Nat) : Config :=
  drainAll cfg (runSched cfg (Config.init cfg pend progs) sched)

/-- `append`'s growth for one more element, below the size-class effects of big slices -/
def goGrow (c : Nat) : Nat := if c = 0 then 1 else if c < 256 then 2 * c else c + (c + 768) / 4

/-- the model of the types queue that a table of sites describes -/
def Cfg.ofTable (tbl : List QueueSite) : Cfg :=
  { variant := variantOf tbl "types.resolvableTypes", cap0 := 16, grow := goGrow }

/-- the code as the discipline wants it -/
def cleanCfg : Cfg := { variant := .fresh, cap0 := 16, grow := goGrow }

/-! ### what the `declq` lines print and what the property asks of a finished run -/

/-- a declared item is accounted for: still pending in the queue (once, and untouched), or bound once and resolved once -/
def itemOK (sh : Shared) (x : Item) : Bool :=
  ((qItems sh).count x == 1 && sh.bound.count x == 0 && sh.resolved.count x == 0) ||
  ((qItems sh).count x == 0 && sh.bound.count x == 1 && sh.resolved.count x == 1)

def allItemsOK (sh : Shared) : Bool := (List.range sh.next).all (itemOK sh)

end Pcore.ConcQueue
