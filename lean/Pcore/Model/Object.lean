/-
  C17 model — object types: definition, attribute layout, constructors, Get, InitHash, Equals, instance-of.

  Mirrors the code AS IT IS NOW (after the `fix:` commits in /repo; file → definition):
    types/attribute.go       attribute.initialize                → `mkAttr`          (kind/value checks, implicit `undef` of an
                                                                                     Optional type, given_or_derived made Optional)
                             Default / HasValue / Value           → `Attr.isDefault`, `Attr.hasValue`, `Attr.implicit`
    types/annotatedmember.go assertOverride / assertCanBeOverridden → `assertOverride` (+ `asg`: IsAssignable on the alphabet)
    types/objecttype.go      InitFromHash  (attributes loop)      → `defineAttrs`
                                           (constants loop)       → `constDecl`, `Def.decls`, BOTH_CONSTANT_AND_ATTRIBUTE
                                           (equality loop)        → `checkEquality`
                                           (serialization loop)   → `checkSerialization`
                                           (whole)                → `define`
                             collectAttributes(true, …)           → `eachAttribute` (an override replaces in place)
                             GetAttribute / Member / members(true).Get / collectAttributes(true).Get → `findAttr`
                             EqualityAttributes                   → `equalityAttributes` (+ `equalityDeclared`, after the fix
                                                                    "an explicitly empty equality list was treated as … not declared")
                             createAttributesInfo                 → `attrInfo` (required first then optional, or the serialization
                                                                    order; required count = attributes without a value that are
                                                                    not given_or_derived)
                             createInitType + StructType.IsInstance → `namedMatches`
                             createNewFunction (positional dispatcher signature + Tuple instance test) → `posMatches`
                             createNewFunction / goFunction.Call  → `newPos`, `newNamed` (named dispatcher first, then positional;
                                                                    no dispatcher matches → ILLEGAL_ARGUMENTS)
                             typeAndInit                          → `tyInit` (NotUndef[T] becomes Optional[T] in the init Struct)
    types/coerce.go          coerceTo (named creator)             → `coerceOk` (INSTANCE_DOES_NOT_RESPOND)
                             Equals                               → `tyEq`
                             IsAssignable / IsInstance            → `isAssignable`, `isInstance`
    types/attributesinfo.go  newAttributesInfo                    → `nameToPos` (a Go map: the LAST position wins), `AttrInfo.eqIdx`
                                                                    (after the fix "an equality attribute without a position …")
                             PositionalFromHash                   → `positionalFromHash` (fill, then trim trailing defaults
                                                                    down to the required count)
    types/objectvalue.go     fillValueSlice                       → inside `positionalFromHash` (`fillOne`)
                             attributeSlice.Initialize            → `newPos` (values are stored as given: NOT trimmed)
                             attributeSlice.Get (+ constantValue, after the fix "Get of a constant attribute …") → `get`
                             valueAt                              → `valueAt`
                             Equals (+ equalityPositions, equalityIncludesType) → `equals`, `eqPositions`, `includesType`
                             InitHash / makeValueHash             → `initHash`

  A resolved type is the list of its levels, the type itself first, then its parent, grand-parent …  (`OType`): the parent
  type of `l :: p` is `p`.  A level carries the definition's number as its name (`id`): within one loader a name
  identifies a type (AttemptToRedefine), and `Equals` compares names first.

  Go runtime faults / raised issues are explicit: every function that can raise in Go answers `Except Code _`.
  Attribute types are a small alphabet (Integer, String, Boolean, Float, Any, Undef, Optional[T], NotUndef[T],
  Variant[A,B], Array[T]) with a decidable instance test (`inst`), the assignability the override check uses (`asg`) and
  the rewriting of the named constructor's init Struct (`tyInit`); nothing else in this file depends on which.
  Member functions: `Def.funcs`, `findFn`, `assertOverrideFn`, `defineFuncs` (interfaces: Model/ObjectFuncs).
  Not modelled (outside the universe the driver accepts): annotations, a hash literal with a repeated key, an array given through `constants => {}` (the type inferred for it is C04's business).
  Core-only file (linked into the driver).
-/
namespace Pcore.Object

inductive Val where
  | int (i : Int) | str (s : String) | bool (b : Bool) | undef
  /-- a hash standing where an attribute value is expected (the argument of a named construction that did not match the
      named signature and fell through to the positional one); opaque, identified by its canonical text -/
  | hash (canon : String)
  /-- a Float, as a number of quarters (the universe of the driver holds exact dyadic values only) -/
  | float (quarters : Int)
  /-- an Array: the empty one, and an element in front of an array (`acons h t` with `t` not an array is no value of the
      universe; no type of the alphabet but `Any` accepts it) -/
  | anil | acons (h t : Val)
  deriving DecidableEq, Repr, Inhabited

inductive Ty where
  | int | str | bool | any | opt (t : Ty)
  | float | undefT | notUndef (t : Ty) | variant (a b : Ty) | array (t : Ty)
  deriving DecidableEq, Repr, Inhabited

/-- an array all of whose elements satisfy `p` -/
def allElems (p : Val → Bool) : Val → Bool
  | .anil => true
  | .acons h t => p h && allElems p t
  | _ => false

/-- IsInstance on the alphabet.  `Array[T]` (unbounded size) walks the elements. -/
def inst : Ty → Val → Bool
  | .int, .int _ => true
  | .str, .str _ => true
  | .bool, .bool _ => true
  | .float, .float _ => true
  | .undefT, .undef => true
  | .any, _ => true
  | .opt t, v => v == .undef || inst t v
  | .notUndef t, v => v != .undef && inst t v
  | .variant a b, v => inst a v || inst b v
  | .array t, v => allElems (inst t) v
  | _, _ => false

def stripOpt : Ty → Ty
  | .opt u => stripOpt u
  | u => u

def Ty.size : Ty → Nat
  | .opt t => t.size + 1
  | .notUndef t => t.size + 1
  | .variant a b => a.size + b.size + 1
  | .array t => t.size + 1
  | _ => 1

/-- types.go GuardedIsAssignable(a, b) with the `IsAssignable` methods of the types of the alphabet inlined, on fuel
    (every call is on a pair of smaller total size; `asg` gives enough):
      a == Any                                   → true
      b = NotUndef[nt], nt rejects Undef         → a accepts nt
      b = Optional[ot]                           → a accepts Undef and a accepts ot
      b = Variant[x, y]                          → a accepts x and a accepts y
      otherwise a.IsAssignable(b):
        Integer/String/Boolean/Float/Undef       → b is the same type
        Optional[t]                              → Undef accepts b, or t accepts b
        NotUndef[t],  b = NotUndef[u]            → t accepts u, or t accepts b
        NotUndef[t],  other b                    → b rejects Undef and t accepts b
        Variant[x, y]                            → x accepts b or y accepts b
        Array[t],     b = Array[u]               → t accepts u          (sizes are unbounded in the alphabet) -/
def asgF : Nat → Ty → Ty → Bool
  | 0, _, _ => false
  | n + 1, a, b =>
    if a == .any then true else
    let self : Bool :=
      match a, b with
      | .int, .int => true
      | .str, .str => true
      | .bool, .bool => true
      | .float, .float => true
      | .undefT, .undefT => true
      | .opt t, b => asgF n .undefT b || asgF n t b
      | .notUndef t, .notUndef u => asgF n t u || asgF n t (.notUndef u)
      | .notUndef t, b => !asgF n b .undefT && asgF n t b
      | .variant x y, b => asgF n x b || asgF n y b
      | .array t, .array u => asgF n t u
      | _, _ => false
    match b with
    | .notUndef nt => if !asgF n nt .undefT then asgF n a nt else self
    | .opt ot => if asgF n a .undefT then asgF n a ot else false
    | .variant x y => asgF n a x && asgF n a y
    | _ => self

/-- IsAssignable on the alphabet.  Used by assertCanBeOverridden. -/
def asg (a b : Ty) : Bool := asgF (a.size + b.size + 1) a b

/-- objecttype.go typeAndInit on the alphabet: the type the NAMED constructor's init Struct gives an attribute of type `t`.
    `NotUndef[T]` becomes `Optional[T]` there (so the named constructor admits undef for it; the positional one does not). -/
def tyInit : Ty → Ty
  | .opt t => .opt (tyInit t)
  | .notUndef t => .opt (tyInit t)
  | .variant a b => .variant (tyInit a) (tyInit b)
  | .array t => .array (tyInit t)
  | t => t

inductive Kind where
  | normal | constant | derived | givenOrDerived | reference
  deriving DecidableEq, Repr, Inhabited

/-- issue codes (printed without the `PCORE_` prefix) and the Go runtime fault -/
inductive Code where
  | typeMismatch | constantRequiresValue | illegalKindValueCombination | overrideIsMissing | overrideOfFinal
  | overriddenNotFound | overrideTypeMismatch | constantWithFinal | bothConstantAndAttribute
  | equalityAttributeNotFound | equalityOnConstant | equalityRedefined
  | serializationAttributeNotFound | serializationBadKind | serializationRequiredAfterOptional
  | serializationDuplicateAttribute
  | illegalArguments | missingRequiredAttribute | attributeHasNoValue | instanceDoesNotRespond
  | overrideMemberMismatch | memberNameConflict | equalityNotAttribute | serializationNotAttribute
  | fault
  deriving DecidableEq, Repr, Inhabited

def Code.toString : Code → String
  | .typeMismatch => "reported TYPE_MISMATCH"
  | .constantRequiresValue => "reported CONSTANT_REQUIRES_VALUE"
  | .illegalKindValueCombination => "reported ILLEGAL_KIND_VALUE_COMBINATION"
  | .overrideIsMissing => "reported OVERRIDE_IS_MISSING"
  | .overrideOfFinal => "reported OVERRIDE_OF_FINAL"
  | .overriddenNotFound => "reported OVERRIDDEN_NOT_FOUND"
  | .overrideTypeMismatch => "reported OVERRIDE_TYPE_MISMATCH"
  | .constantWithFinal => "reported CONSTANT_WITH_FINAL"
  | .bothConstantAndAttribute => "reported BOTH_CONSTANT_AND_ATTRIBUTE"
  | .equalityAttributeNotFound => "reported EQUALITY_ATTRIBUTE_NOT_FOUND"
  | .equalityOnConstant => "reported EQUALITY_ON_CONSTANT"
  | .equalityRedefined => "reported EQUALITY_REDEFINED"
  | .serializationAttributeNotFound => "reported SERIALIZATION_ATTRIBUTE_NOT_FOUND"
  | .serializationBadKind => "reported SERIALIZATION_BAD_KIND"
  | .serializationRequiredAfterOptional => "reported SERIALIZATION_REQUIRED_AFTER_OPTIONAL"
  | .serializationDuplicateAttribute => "reported SERIALIZATION_DUPLICATE_ATTRIBUTE"
  | .illegalArguments => "reported ILLEGAL_ARGUMENTS"
  | .missingRequiredAttribute => "reported MISSING_REQUIRED_ATTRIBUTE"
  | .attributeHasNoValue => "reported ATTRIBUTE_HAS_NO_VALUE"
  | .instanceDoesNotRespond => "reported INSTANCE_DOES_NOT_RESPOND"
  | .overrideMemberMismatch => "reported OVERRIDE_MEMBER_MISMATCH"
  | .memberNameConflict => "reported MEMBER_NAME_CONFLICT"
  | .equalityNotAttribute => "reported EQUALITY_NOT_ATTRIBUTE"
  | .serializationNotAttribute => "reported SERIALIZATION_NOT_ATTRIBUTE"
  | .fault => "fault"

/-! ### definitions and attributes -/

/-- an attribute as declared -/
structure AttrDecl where
  name : String
  ty : Ty
  kind : Kind
  dflt : Option Val
  override : Bool := false
  final : Option Bool := none
  deriving DecidableEq, Repr, Inhabited

/-- an attribute after `attribute.initialize`; `value = none` is Go's `a.value == nil` (not to be confused with undef) -/
structure Attr where
  name : String
  ty : Ty
  kind : Kind
  value : Option Val
  override : Bool := false
  final : Bool := false
  deriving DecidableEq, Repr, Inhabited

def Attr.hasValue (a : Attr) : Bool := a.value.isSome

/-- need not be given to a constructor: `attr.Kind() == givenOrDerived || attr.HasValue()` -/
def Attr.optional (a : Attr) : Bool := a.kind == .givenOrDerived || a.hasValue

/-- has a position in an instance: `switch attr.Kind() { case constant, derived: … }` -/
def Attr.settable (a : Attr) : Bool := !(a.kind == .constant || a.kind == .derived)

/-- attribute.go `Default(value)`: `a.value != nil && a.value.Equals(value)` -/
def Attr.isDefault (a : Attr) (v : Val) : Bool := a.value == some v

/-- the value standing for an attribute that was not given, as a total function (`undef` when there is none) -/
def Attr.implicitT (a : Attr) : Val :=
  if a.kind == .givenOrDerived then .undef else a.value.getD .undef

/-- `valueAt` / `Get` for a position beyond the stored values: `undef` for given_or_derived, else `a.Value()` which raises
    ATTRIBUTE_HAS_NO_VALUE when there is none -/
def Attr.implicit (a : Attr) : Except Code Val :=
  if a.kind == .givenOrDerived then .ok .undef
  else match a.value with
    | some v => .ok v
    | none => .error .attributeHasNoValue

/-- a member FUNCTION `name => {type => Callable[[0,0],ret], override, final}`: every function of the universe takes no
    argument, so its type is its return type -/
structure FnDecl where
  name : String
  ret : Ty
  override : Bool := false
  final : Bool := false
  deriving DecidableEq, Repr, Inhabited

inductive EqDecl where
  | absent | one (s : String) | many (l : List String)
  deriving DecidableEq, Repr, Inhabited

/-- an object type definition (`parent` = number of an earlier definition) -/
structure Def where
  parent : Option Nat
  attrs : List AttrDecl
  equality : EqDecl
  includeType : Option Bool
  serialization : Option (List String)
  /-- `constants => {name => value}`: constants whose type is inferred from the value -/
  constants : List (String × Val) := []
  /-- `type_parameters => {name => Type}` -/
  params : List (String × Ty) := []
  /-- `functions => {name => …}` -/
  funcs : List FnDecl := []
  deriving Repr, Inhabited

/-- one level of a resolved type -/
structure Level where
  id : Nat
  attrs : List Attr
  equality : Option (List String)
  includeType : Bool
  serialization : Option (List String)
  /-- the type parameters the level declares (each held as `Optional[T]`) -/
  params : List (String × Ty) := []
  /-- the member functions the level declares -/
  funcs : List FnDecl := []
  deriving DecidableEq, Repr, Inhabited

/-- a resolved type: itself, then its ancestors -/
abbrev OType := List Level

/-- `a.final` after initialize: declared, and implied for a constant -/
def AttrDecl.isFinal (d : AttrDecl) : Bool := d.kind == .constant || d.final == some true

/-- attribute.go initialize, after the constant/final check -/
def mkAttrCore (d : AttrDecl) : Except Code Attr :=
  match d.dflt with
  | some v =>
    if d.kind == .derived || d.kind == .givenOrDerived then .error .illegalKindValueCombination
    else if inst d.ty v then
      .ok { name := d.name, ty := d.ty, kind := d.kind, value := some v, override := d.override, final := d.isFinal }
    else .error .typeMismatch
  | none =>
    if d.kind == .constant then .error .constantRequiresValue
    else
      -- given_or_derived: "Type is always optional"
      let ty := if d.kind == .givenOrDerived && !inst d.ty .undef then Ty.opt d.ty else d.ty
      -- "Optional attributes have an implicit value of undef" — a syntactic test on the type
      let value := match ty with
        | .opt _ => some Val.undef
        | _ => none
      .ok { name := d.name, ty := ty, kind := d.kind, value := value, override := d.override, final := d.isFinal }

/-- attribute.go initialize: a constant is final — saying `final => false` is an error, raised before the value checks -/
def mkAttr (d : AttrDecl) : Except Code Attr :=
  if d.kind == .constant && d.final == some false then .error .constantWithFinal else mkAttrCore d

/-- own attributes first, then the parent's (GetAttribute, Member, members(true).Get) -/
def findAttr : OType → String → Option Attr
  | [], _ => none
  | l :: p, n =>
    match l.attrs.find? (fun a => a.name == n) with
    | some a => some a
    | none => findAttr p n

/-- collectAttributes(true, …) (a StringHash filled parent first: `PutAll` replaces the value of an existing key in place):
    the parent's attributes first, an overridden one replaced in place by the overriding one (after the fix "an overriding
    attribute was laid out in addition to the attribute it overrides") -/
def eachAttribute : OType → List Attr
  | [] => []
  | l :: p =>
    (eachAttribute p).map (fun a => (l.attrs.find? (fun b => b.name == a.name)).getD a) ++
      l.attrs.filter (fun b => !(eachAttribute p).any (fun a => a.name == b.name))

/-- the declared equality lists, own first -/
def equalityAttributes : OType → List String
  | [] => []
  | l :: p => l.equality.getD [] ++ equalityAttributes p

def equalityDeclared : OType → Bool
  | [] => false
  | l :: p => l.equality.isSome || equalityDeclared p

/-- `members(true).Get(n)` answers a FUNCTION: the nearest level that has a member of that name has a function of it
    (collectMembers puts a level's attributes first, then its functions — a function replaces an attribute of the same key) -/
def fnShadow : OType → String → Bool
  | [], _ => false
  | l :: p, n =>
    if l.funcs.any (fun f => f.name == n) then true
    else if l.attrs.any (fun a => a.name == n) then false
    else fnShadow p n

/-- `members(true).Get(n)` answers an ATTRIBUTE -/
def attrShadow : OType → String → Bool
  | [], _ => false
  | l :: p, n =>
    if l.funcs.any (fun f => f.name == n) then false
    else if l.attrs.any (fun a => a.name == n) then true
    else attrShadow p n

/-- annotatedmember.go assertOverride / assertCanBeOverridden: an attribute cannot override a function
    (OVERRIDE_MEMBER_MISMATCH, the first test); a final member is overridden only constant by constant.  When the inherited
    member is an attribute it is the nearest attribute of that name: `findAttr`. -/
def assertOverride (parent : OType) (a : Attr) : Except Code Unit :=
  if fnShadow parent a.name then .error .overrideMemberMismatch else
  match findAttr parent a.name with
  | none => if a.override then .error .overriddenNotFound else .ok ()
  | some pa =>
    if pa.final && !(pa.kind == .constant && a.kind == .constant) then .error .overrideOfFinal
    else if !a.override then .error .overrideIsMissing
    else if !asg pa.ty a.ty then .error .overrideTypeMismatch
    else .ok ()

def defineAttrs (parent : OType) : List AttrDecl → Except Code (List Attr)
  | [] => .ok []
  | d :: ds =>
    match mkAttr d with
    | .error c => .error c
    | .ok a =>
      match assertOverride parent a with
      | .error c => .error c
      | .ok () =>
        match defineAttrs parent ds with
        | .error c => .error c
        | .ok as => .ok (a :: as)

def lookupMember (own : List Attr) (parent : OType) (n : String) : Option Attr :=
  match own.find? (fun a => a.name == n) with
  | some a => some a
  | none => findAttr parent n

def checkEquality (own : List Attr) (parent : OType) : List String → Except Code Unit
  | [] => .ok ()
  | n :: ns =>
    match lookupMember own parent n with
    | none => .error .equalityAttributeNotFound
    | some a =>
      if a.kind == .constant then .error .equalityOnConstant
      else if !parent.isEmpty && (equalityAttributes parent).contains n then .error .equalityRedefined
      else checkEquality own parent ns

/-- the serialization loop of InitFromHash: `optFound` = an optional attribute was seen, `seen` = the names stored so far
    (after the fix "a serialization list naming an attribute twice was accepted …") -/
def checkSerialization (own : List Attr) (parent : OType) : Bool → List String → List String → Except Code Unit
  | _, _, [] => .ok ()
  | optFound, seen, n :: ns =>
    match lookupMember own parent n with
    | none => .error .serializationAttributeNotFound
    | some a =>
      if a.kind == .constant || a.kind == .derived then .error .serializationBadKind
      else if !a.optional && optFound then .error .serializationRequiredAfterOptional
      else if seen.contains n then .error .serializationDuplicateAttribute
      else checkSerialization own parent (optFound || a.optional) (n :: seen) ns

def EqDecl.toList? : EqDecl → Option (List String)
  | .absent => none
  | .one s => some [s]
  | .many l => some l

/-- the member an `equality` / `serialization` entry names is a FUNCTION: `t.attributes.Get` misses, and `t.functions.Get` or
    `parentMembers.Get` answers a function -/
def isFnName (own : List Attr) (ownF : List FnDecl) (parent : OType) (n : String) : Bool :=
  !own.any (fun a => a.name == n) && (ownF.any (fun f => f.name == n) || fnShadow parent n)

/-- the equality loop with functions in sight: the names are processed in order, each completely; the first name that is a
    function ends the loop with EQUALITY_NOT_ATTRIBUTE unless an earlier name already raised -/
def checkEqualityF (own : List Attr) (ownF : List FnDecl) (parent : OType) (l : List String) : Except Code Unit :=
  let pre := l.takeWhile (fun n => !isFnName own ownF parent n)
  match checkEquality own parent pre with
  | .error c => .error c
  | .ok () => if pre.length < l.length then .error .equalityNotAttribute else .ok ()

/-- the serialization loop likewise (SERIALIZATION_NOT_ATTRIBUTE) -/
def checkSerializationF (own : List Attr) (ownF : List FnDecl) (parent : OType) (l : List String) : Except Code Unit :=
  let pre := l.takeWhile (fun n => !isFnName own ownF parent n)
  match checkSerialization own parent false [] pre with
  | .error c => .error c
  | .ok () => if pre.length < l.length then .error .serializationNotAttribute else .ok ()

/-- the resolved parent type (`[]` = none) -/
def parentOf (env : List OType) (d : Def) : OType :=
  match d.parent with
  | none => []
  | some j => (env[j]?).getD []

/-- `px.Generalize(value.PType())` on the value alphabet -/
def tyOfVal : Val → Ty
  | .int _ => .int
  | .str _ => .str
  | .bool _ => .bool
  | .float _ => .float
  | .undef => .undefT
  | _ => .any      -- a hash / an array: not accepted by the driver as a constant

/-- InitFromHash, constants loop: the attribute specification a `constants` entry stands for — the type inferred from the
    value, kind constant, and `override` set exactly when the parent has a member (attribute or function) of that name -/
def constDecl (parent : OType) (c : String × Val) : AttrDecl :=
  { name := c.1, ty := tyOfVal c.2, kind := .constant, dflt := some c.2,
    override := (findAttr parent c.1).isSome || fnShadow parent c.1 }

/-- the attribute specifications in the order InitFromHash processes them: `attributes`, then `constants` -/
def Def.decls (d : Def) (parent : OType) : List AttrDecl := d.attrs ++ d.constants.map (constDecl parent)

/-- typeParameters(true): the parent's first (a name is never declared twice along a chain: `define`) -/
def typeParams : OType → List (String × Ty)
  | [] => []
  | l :: p => typeParams p ++ l.params

def isParameterized (t : OType) : Bool := !(typeParams t).isEmpty

/-- own functions first, then the parent's (GetFunction): when `members(true).Get` answers a function (`attrShadow` false) it is
    the nearest function of that name -/
def findFn : OType → String → Option FnDecl
  | [], _ => none
  | l :: p, n =>
    match l.funcs.find? (fun f => f.name == n) with
    | some f => some f
    | none => findFn p n

/-- annotatedmember.go assertOverride / assertCanBeOverridden for a member function (against an inherited FUNCTION of that
    name; `Callable[[0,0],R]` accepts `Callable[[0,0],R']` iff `R` accepts `R'`) -/
def assertOverrideFn (parent : OType) (f : FnDecl) : Except Code Unit :=
  if attrShadow parent f.name then .error .overrideMemberMismatch else
  match findFn parent f.name with
  | none => if f.override then .error .overriddenNotFound else .ok ()
  | some pf =>
    if pf.final then .error .overrideOfFinal
    else if !f.override then .error .overrideIsMissing
    else if !asg pf.ret f.ret then .error .overrideTypeMismatch
    else .ok ()

/-- InitFromHash, functions loop: `attrKeys` = the keys of the definition's `attributes` hash (NOT of `constants`): a function
    of such a name is a MEMBER_NAME_CONFLICT; a constant and a function of one name may stand side by side -/
def defineFuncs (parent : OType) (attrKeys : List String) : List FnDecl → Except Code Unit
  | [] => .ok ()
  | f :: fs =>
    if attrKeys.contains f.name then .error .memberNameConflict else
    match assertOverrideFn parent f with
    | .error c => .error c
    | .ok () => defineFuncs parent attrKeys fs

/-- objectType.InitFromHash: the definition numbered `env.length` against the earlier definitions `env`.  The
    `type_parameters` loop comes first: a type parameter cannot say `override => true` (TypeTypeParameter has no such
    member), so re-declaring an inherited one is always OVERRIDE_IS_MISSING. -/
def define (env : List OType) (d : Def) : Except Code OType :=
  let parent : OType := parentOf env d
  if d.params.any (fun q => (typeParams parent).any (fun r => r.1 == q.1)) then .error .overrideIsMissing else
  if d.constants.any (fun c => d.attrs.any (fun a => a.name == c.1)) then .error .bothConstantAndAttribute else
  match defineAttrs parent (d.decls parent) with
  | .error c => .error c
  | .ok attrs =>
    match defineFuncs parent (d.attrs.map (·.name)) d.funcs with
    | .error c => .error c
    | .ok () =>
    match checkEqualityF attrs d.funcs parent (d.equality.toList?.getD []) with
    | .error c => .error c
    | .ok () =>
      match checkSerializationF attrs d.funcs parent (d.serialization.getD []) with
      | .error c => .error c
      | .ok () =>
        .ok ({ id := env.length, attrs := attrs, equality := d.equality.toList?,
               includeType := d.includeType.getD true, serialization := d.serialization, params := d.params,
               funcs := d.funcs } :: parent)

/-- the definitions of one loader, accepted one after the other (the driver's `runDefs` prints the same recursion) -/
def defineAll : List OType → List Def → Except Code (List OType)
  | env, [] => .ok env
  | env, d :: ds =>
    match define env d with
    | .error c => .error c
    | .ok t => defineAll (env ++ [t]) ds

/-! ### attribute layout -/

structure AttrInfo where
  attrs : List Attr
  required : Nat
  /-- positions compared by `Equals`; `none` = no equality declared anywhere in the chain (all positions) -/
  eqIdx : Option (List Nat)
  deriving Repr, Inhabited

/-- `nameToPos[n]` of the Go map filled in list order: the last position of that name -/
def nameToPos : List Attr → String → Option Nat
  | [], _ => none
  | a :: as, n =>
    match nameToPos as n with
    | some i => some (i + 1)
    | none => if a.name == n then some 0 else none

/-- positional attributes: required first then optional, or the serialization order -/
def posAttrs (t : OType) : List Attr :=
  match t with
  | [] => []
  | l :: _ =>
    match l.serialization with
    | none =>
      let all := (eachAttribute t).filter Attr.settable
      all.filter (fun a => !a.optional) ++ all.filter (fun a => a.optional)
    | some ser => ser.filterMap (findAttr t)     -- names were checked by `checkSerialization`

def requiredCount (t : OType) : Nat := ((posAttrs t).filter (fun a => !a.optional)).length

/-- the keys of a StringHash filled in list order: every name once, at its first occurrence (EqualityAttributes) -/
def dedup : List String → List String
  | [] => []
  | x :: xs => x :: (dedup xs).filter (fun y => y != x)

def attrInfo (t : OType) : AttrInfo :=
  let attrs := posAttrs t
  { attrs := attrs, required := requiredCount t,
    eqIdx := if equalityDeclared t then some ((dedup (equalityAttributes t)).filterMap (nameToPos attrs)) else none }

/-! ### instances -/

structure Obj where
  typ : OType
  values : List Val
  deriving DecidableEq, Repr, Inhabited

/-- positional dispatcher: `required ≤ #args ≤ #attributes`, every argument an instance of its parameter type -/
def allInst : List Attr → List Val → Bool
  | _, [] => true
  | [], _ :: _ => false
  | a :: as, v :: vs => inst a.ty v && allInst as vs

def posMatches (ai : AttrInfo) (vs : List Val) : Bool :=
  decide (ai.required ≤ vs.length) && allInst ai.attrs vs

/-- named dispatcher: the hash is an instance of the init Struct (every key a positional attribute with a value of its
    type AS createInitType WRITES IT — `typeAndInit`, `tyInit` —, every attribute that is not optional present).  Keys are
    distinct (a hash). -/
def namedMatches (ai : AttrInfo) (es : List (String × Val)) : Bool :=
  es.all (fun e => match ai.attrs.find? (fun a => a.name == e.1) with
    | some a => inst (tyInit a.ty) e.2
    | none => false) &&
  ai.attrs.all (fun a => a.optional || (es.lookup a.name).isSome)

/-- the named creator coerces every given value to its attribute's OWN type (`coerceTo`): a value that the init Struct
    admitted but the attribute type rejects — on the alphabet only undef where `typeAndInit` turned `NotUndef[T]` into
    `Optional[T]` — ends in `new(<the type>, value)`, which no type of the alphabet responds to -/
def coerceOk (ai : AttrInfo) (es : List (String × Val)) : Bool :=
  ai.attrs.all (fun a => match es.lookup a.name with
    | some v => inst a.ty v
    | none => true)

/-- fillValueSlice for one position that the hash did not mention -/
def fillOne (a : Attr) : Except Code Val :=
  if a.kind == .givenOrDerived then .ok .undef
  else match a.value with
    | some v => .ok v
    | none => .error .missingRequiredAttribute

def fillAll (es : List (String × Val)) : List Attr → Except Code (List Val)
  | [] => .ok []
  | a :: as =>
    match (match es.lookup a.name with | some v => Except.ok v | none => fillOne a) with
    | .error c => .error c
    | .ok v =>
      match fillAll es as with
      | .error c => .error c
      | .ok vs => .ok (v :: vs)

/-- drop trailing values that equal their attribute's default, never below `req` positions -/
def trim : Nat → List Attr → List Val → List Val
  | _, _, [] => []
  | _, [], v :: vs => v :: vs
  | req, a :: as, v :: vs =>
    match trim (req - 1) as vs with
    | [] => if req == 0 && a.isDefault v then [] else [v]
    | r => v :: r

def positionalFromHash (ai : AttrInfo) (es : List (String × Val)) : Except Code (List Val) :=
  match fillAll es ai.attrs with
  | .error c => .error c
  | .ok va => .ok (trim ai.required ai.attrs va)

def newPos (t : OType) (vs : List Val) : Except Code Obj :=
  if posMatches (attrInfo t) vs then .ok { typ := t, values := vs } else .error .illegalArguments

/-- `asValue`: the hash itself as a value (used when only the positional signature accepts it) -/
def newNamed (t : OType) (es : List (String × Val)) (asValue : Val) : Except Code Obj :=
  if namedMatches (attrInfo t) es then
    if coerceOk (attrInfo t) es then
      match positionalFromHash (attrInfo t) es with
      | .error c => .error c
      | .ok vs => .ok { typ := t, values := vs }
    else .error .instanceDoesNotRespond
  else newPos t [asValue]

/-- objectvalue.go valueAt (index out of range of the attribute list is a Go fault) -/
def valueAt (attrs : List Attr) (vs : List Val) (i : Nat) : Except Code Val :=
  match vs[i]? with
  | some v => .ok v
  | none =>
    match attrs[i]? with
    | some a => a.implicit
    | none => .error .fault

/-- `Member(name)` as an attribute (typedObject.constantValue): per level the attributes first, then the functions — a
    FUNCTION of that name at a nearer level hides an inherited attribute -/
def memberAttr : OType → String → Option Attr
  | [], _ => none
  | l :: p, n =>
    match l.attrs.find? (fun a => a.name == n) with
    | some a => some a
    | none => if l.funcs.any (fun f => f.name == n) then none else memberAttr p n

/-- attributeSlice.Get -/
def get (o : Obj) (n : String) : Except Code (Option Val) :=
  let ai := attrInfo o.typ
  match nameToPos ai.attrs n with
  | some i =>
    match valueAt ai.attrs o.values i with
    | .ok v => .ok (some v)
    | .error c => .error c
  | none =>
    match memberAttr o.typ n with
    | some a => if a.kind == .constant then .ok a.value else .ok none
    | none => .ok none

/-- makeValueHash: the given values that differ from their default -/
def makeValueHash : List Attr → List Val → List (String × Val)
  | a :: as, v :: vs =>
    if (a.hasValue && a.value == some v) || (a.kind == .givenOrDerived && v == .undef) then makeValueHash as vs
    else (a.name, v) :: makeValueHash as vs
  | _, _ => []

def initHash (o : Obj) : List (String × Val) := makeValueHash (attrInfo o.typ).attrs o.values

/-- attribute.Equals: kind, override, name, final, type; never the value -/
def attrEq (a b : Attr) : Bool :=
  a.kind == b.kind && a.override == b.override && a.name == b.name && a.final == b.final && a.ty == b.ty

/-- objectType.Equals.  `t == o`: the pointer test; names (`id`) first. -/
def tyEqDeep : OType → OType → Bool
  | [], [] => true
  | l :: p, l' :: p' =>
    l.id == l'.id && l.includeType == l'.includeType && tyEqDeep p p' &&
    (l.attrs.length == l'.attrs.length &&
      l.attrs.all (fun a => match l'.attrs.find? (fun b => b.name == a.name) with
        | some b => attrEq a b
        | none => false)) &&
    l.equality == l'.equality && l.serialization == l'.serialization && l.params == l'.params &&
    l.funcs == l'.funcs
  | _, _ => false

def tyEq (t o : OType) : Bool := t == o || tyEqDeep t o

/-- objectType.IsAssignable: equal to the other type or to one of its ancestors -/
def isAssignable (t : OType) : OType → Bool
  | [] => false
  | l :: p => tyEq t (l :: p) || isAssignable t p

def isInstance (t : OType) (o : Obj) : Bool := isAssignable t o.typ

def allOk (f : Nat → Except Code Bool) : List Nat → Except Code Bool
  | [] => .ok true
  | i :: is =>
    match f i with
    | .error c => .error c
    | .ok false => .ok false
    | .ok true => allOk f is

/-- objectvalue.go equalityPositions: the positions `Equals` compares -/
def eqPositions (t : OType) : List Nat :=
  match (attrInfo t).eqIdx with
  | some l => l
  | none => List.range (posAttrs t).length

/-- `equality_include_type` of the type itself (absent = true) -/
def includesType : OType → Bool
  | [] => true
  | l :: _ => l.includeType

def cmpValues (a b : Except Code Val) : Except Code Bool :=
  match a, b with
  | .ok v, .ok v' => .ok (v == v')
  | .error c, _ => .error c
  | _, .error c => .error c

/-- one compared position `i` of the receiver against an operand of a different type: the attribute is looked up by NAME
    in the other layout and must be compared by the other type too -/
def crossCmp (attrs attrs' : List Attr) (pos' : List Nat) (vs vs' : List Val) (i : Nat) : Except Code Bool :=
  match attrs[i]? with
  | none => .error .fault                      -- ai.Attributes()[i]: index out of range
  | some a =>
    match nameToPos attrs' a.name with
    | none => .ok false
    | some j =>
      if pos'.contains j then cmpValues (valueAt attrs vs i) (valueAt attrs' vs' j) else .ok false

/-- attributeSlice.Equals (after the fix "equality_include_type => false was ignored").  Equal types: the receiver's layout
    is used for both operands.  Different types: equal only when both say `equality_include_type => false`, both compare
    the same number of attributes, and every attribute the receiver compares is compared by the other type too and has an
    equal value there.  `sameType` = `o.typ.Equals(ov.typ, g)` (for instances of a parameterized type the types are
    objectTypeExtensions: Model/ObjectParams). -/
def equalsWith (sameType : Bool) (o o' : Obj) : Except Code Bool :=
  let attrs := posAttrs o.typ
  if sameType then
    allOk (fun i => cmpValues (valueAt attrs o.values i) (valueAt attrs o'.values i)) (eqPositions o.typ)
  else if includesType o.typ || includesType o'.typ then .ok false
  else if (eqPositions o.typ).length != (eqPositions o'.typ).length then .ok false
  else allOk (crossCmp attrs (posAttrs o'.typ) (eqPositions o'.typ) o.values o'.values) (eqPositions o.typ)

/-- `Equals` of two instances of types without type parameters: "the types are Equal" is `objectType.Equals` -/
def equals (o o' : Obj) : Except Code Bool := equalsWith (tyEq o.typ o'.typ) o o'

end Pcore.Object
