import Pcore.Model.Lattice
set_option linter.unusedSimpArgs false
/-!
  Assignability: `asg sfh a b` = `types.GuardedIsAssignable(a, b, nil)` (= `px.IsAssignable(a, b)`).

  Go → Lean map (all in /repo/types):
    types.go GuardedIsAssignable                → `asg`   (identity/Any shortcut, then right-hand decomposition of
                                                   Unit / NotUndef (with fall-through) / Optional / alias / Variant, in that order)
    <X>type.go (t *XType) IsAssignable          → the `.x` arm of `asgRecv`  (timestamptype.go: `min.Before/Equal ∧ max.After/Equal` = `Rng.sub` on
                                                   nanoseconds since year 1; scalartype.go lists the default Timestamp among Scalar's members —
                                                   its SemVer member has no counterpart, the term language has no SemVer type)
    varianttype.go allAssignableTo              → `asgAllR`;  tupleAssignableTo → inlined (`if size.hi ≤ 0 then true else if no types then o ⊒ Any else` the declared types at positions below size.hi, = `tupZip [o] types size.hi`)
    tupletype.go IsAssignable(Tuple) loop       → `tupZip`
    structtype.go IsAssignable(Struct)          → `structMember` / `structAll`;  IsAssignable(Hash) (the by-specification
                                                   exempt rule of C01) → guarded by the flag `sfh` (`sfh = true` is the code)
    typealiastype.go IsAssignable for the built-in recursive aliases Data / RichData:
        alias as receiver  → the `.data` / `.richData` arms of `asgRecv` (the resolved Variant's members inlined)
        alias on the right → `asg a Data` = all four members; the two self-referential members Array[Data] and
        Hash[String,Data] are the specialised functions `asgToArr` / `asgToHash` / `asgToEntry` (recursion on the receiver);
        the recursion guard (`Guard.Seen`, which assumes a pair in progress to be true) only ever cuts
        RichData ⊒ …Data… and Data ⊒ …Data… cycles; those answers are the `.data` / `.richData` arms of the three functions.
  Identity shortcut `a == b`: the model has no pointers; it is modelled only for the shared singletons of parameterless
  types (`sameNullary`) — e.g. `Numeric ⊒ Numeric` is true in the code only through it.
-/
namespace Pcore.Lat

/-- `EnumType.IsInstance` on a string -/
def enumInst (cfg : Cfg) (vs : List String) (ci : Bool) (s : String) : Bool :=
  vs.isEmpty || vs.contains (if ci then cfg.lower s else s)

/-- `utils.MatchesString` -/
def rxAny (cfg : Cfg) (rs : List String) (s : String) : Bool := rs.any (fun r => cfg.rxMatch r s)

/-- `px.IncludesAll(xs, ys)`: every element of `xs` occurs in `ys` -/
def subsetStr (xs ys : List String) : Bool := xs.all (fun x => ys.contains x)

/-- number of distinct strings (`len(hm)` of the name-keyed map built from a Struct's members) -/
def distinctCount : List String → Nat
  | [] => 0
  | n :: ns => (if ns.contains n then 0 else 1) + distinctCount ns

def isStringFamily : Ty → Bool
  | .str | .strSz _ | .strVal _ | .enum _ _ | .pattern _ => true
  | _ => false

/-- pointer identity on the shared singletons of parameterless types -/
def sameNullary : Ty → Ty → Bool
  | .any, .any | .unit, .unit | .undef, .undef | .dflt, .dflt | .scalar, .scalar | .scalarData, .scalarData
  | .numeric, .numeric | .data, .data | .richData, .richData | .str, .str | .bin, .bin => true
  | .object none, .object none => true
  | _, _ => false

/-- the two built-in recursive aliases -/
inductive Alias where
  | data | rich
  deriving DecidableEq, Repr

def Alias.ty : Alias → Ty
  | .data => .data
  | .rich => .richData
/-- key type of the alias' Hash member: `String` / `Variant[String,Numeric]` -/
def Alias.key : Alias → Ty
  | .data => .str
  | .rich => .variant [.str, .numeric]

def floatAll : Ty := .float (-Fl.maxFinite) Fl.maxFinite

/-- the default Timestamp: `[MinTime, MaxTime]` = `[time.Time{}, time.Unix(MaxInt64 - 62135596800, 999999999)]` in nanoseconds since year 1 -/
def tstampAll : Rng := ⟨0, 9223372036854775807 * 1000000000 + 999999999⟩

/-- accepts the (unmodelled) `TypeSet` type: only Any/Unit/RichData and wrappers around them do -/
def accTypeSet : Ty → Bool
  | .any | .unit | .richData => true
  | .variant ts => accL ts
  | .optional t => accTypeSet t
  | .notUndef t => accTypeSet t
  | _ => false
where accL : List Ty → Bool
  | [] => false
  | t :: ts => accTypeSet t || accL ts

/-- accepts the (unmodelled) `Deferred` meta type, which is an object type: additionally the default Object does -/
def accDeferred : Ty → Bool
  | .any | .unit | .richData => true
  | .object none => true
  | .variant ts => accL ts
  | .optional t => accDeferred t
  | .notUndef t => accDeferred t
  | _ => false
where accL : List Ty → Bool
  | [] => false
  | t :: ts => accDeferred t || accL ts

section
variable (cfg : Cfg) (sfh : Bool)

mutual
/-- `GuardedIsAssignable(a, b)` -/
def asg (a b : Ty) : Bool :=
  match a with
  | .any => true
  | a =>
    if sameNullary a b then true else
    match b with
    | .unit => true
    | .notUndef nt => if !asg nt .undef then asg a nt else asgRecv a (.notUndef nt)
    | .optional ot => asg a .undef && asg a ot
    | .data => asg a .scalarData && asg a .undef && asgToArr .data a && asgToHash .data a
    | .richData =>
        asg a .scalar && asg a .bin && asg a .dflt && asg a (.object none) && asg a (.typ .any)
          && accTypeSet a && accDeferred a && asg a .undef && asgToArr .rich a && asgToHash .rich a
    | .variant bs => asgAllR a bs
    | b => asgRecv a b
termination_by (a.w + b.w, 2)
decreasing_by
  all_goals simp_wf
  all_goals (try simp only [Ty.w, Ty.wl, Ty.wm, Alias.ty] at *)
  all_goals first | (apply Prod.Lex.left; omega) | (apply Prod.Lex.right; omega)

/-- `a.IsAssignable(b)` for a `b` that is not Unit / Optional / alias / Variant -/
def asgRecv (a b : Ty) : Bool :=
  match a with
  | .any | .unit => true
  | .undef => (match b with | .undef => true | _ => false)
  | .dflt => (match b with | .dflt => true | _ => false)
  | .scalar =>
      (match b with
       | .scalar | .scalarData => true
       | b' => asg .str b' || asg .numeric b' || asg (.bool none) b' || asg (.regexp "") b' || asg (.tspan Rng.all) b' ||
               asg (.tstamp tstampAll) b')
  | .scalarData =>
      (match b with
       | .scalarData => true
       | b' => asg .str b' || asg (.int Rng.all) b' || asg (.bool none) b' || asg floatAll b')
  | .numeric => (match b with | .int _ | .float _ _ => true | _ => false)
  | .data =>
      asg .scalarData b || asg .undef b ||
      (match b with
       | .array e' r' => Rng.pos.sub r' && (decide (r'.hi ≤ 0) || asg .data e')
       | .tuple ts' g' => Rng.pos.sub (tupleSize ts' g') &&
           (if (tupleSize ts' g').hi ≤ 0 then true else if ts'.isEmpty then asg .data .any else tupZip [.data] ts' (tupleSize ts' g').hi)
       | .hash k' v' r' => Rng.pos.sub r' && (decide (r'.hi ≤ 0) || (asg .str k' && asg .data v'))
       | .struct ms' => Rng.pos.sub (structSize ms') && asgMembers .str .data ms'
       | _ => false)
  | .richData =>
      asg .scalar b || asg .bin b || asg .dflt b || asg (.object none) b || asg (.typ .any) b || asg .undef b ||
      (match b with
       | .array e' r' => Rng.pos.sub r' && (decide (r'.hi ≤ 0) || asg .richData e')
       | .tuple ts' g' => Rng.pos.sub (tupleSize ts' g') &&
           (if (tupleSize ts' g').hi ≤ 0 then true else if ts'.isEmpty then asg .richData .any else tupZip [.richData] ts' (tupleSize ts' g').hi)
       | .hash k' v' r' => Rng.pos.sub r' && (decide (r'.hi ≤ 0) || (asg (.variant [.str, .numeric]) k' && asg .richData v'))
       | .struct ms' => Rng.pos.sub (structSize ms') && asgMembersRichKey ms'
       | _ => false)
  | .str => isStringFamily b
  | .bin => (match b with | .bin => true | _ => false)
  | .int r => (match b with | .int r' => r.sub r' | _ => false)
  | .float lo hi => (match b with | .float lo' hi' => decide (Fl.effLo lo ≤ Fl.effLo lo') && decide (Fl.effHi hi' ≤ Fl.effHi hi) | _ => false)
  | .bool v => (match b with | .bool v' => v.isNone || v == v' | _ => false)
  | .tspan r => (match b with | .tspan r' => r.sub r' | _ => false)
  | .tstamp r => (match b with | .tstamp r' => r.sub r' | _ => false)
  | .strSz r =>
      (match b with
       | .strVal s => r.contains s.length
       | .strSz r' => r.sub r'
       | .enum vs _ => !vs.isEmpty && vs.all (fun s => r.contains s.length)
       | _ => false)
  | .strVal s => (match b with | .strVal s' => s == s' | _ => false)
  | .enum vs ci =>
      if vs.isEmpty then isStringFamily b else
      (match b with
       | .strVal s => enumInst cfg vs ci s
       | .enum vs' ci' => !vs'.isEmpty && (ci || !ci') && vs'.all (fun s => enumInst cfg vs ci s)
       | _ => false)
  | .pattern rs =>
      (match b with
       | .pattern rs' => rs.isEmpty || (!rs'.isEmpty && subsetStr rs' rs)
       | .strSz _ => rs.isEmpty
       | .str => rs.isEmpty
       | .strVal s => rs.isEmpty || rxAny cfg rs s
       | .enum vs ci => rs.isEmpty || (!vs.isEmpty && !ci && vs.all (fun s => rxAny cfg rs s))
       | _ => false)
  | .regexp s => (match b with | .regexp s' => s == "" || s == s' | _ => false)
  | .runtime rt nm pt =>
      -- RuntimeType.IsAssignable (no Go types): the default accepts every Runtime; then the runtime names must agree; an empty name accepts
      -- every name; with a pattern the name and the pattern source must agree; without one the name
      (match b with
       | .runtime rt' nm' pt' =>
           if rt == "" then true else if rt != rt' then false else if nm == "" then true else
           (match pt with
            | some p => nm == nm' && pt' == some p
            | none => nm == nm')
       | _ => false)
  | .coll r =>
      (match b with
       | .coll r' => r.sub r'
       | .array _ r' => r.sub r'
       | .hash _ _ r' => r.sub r'
       | .tuple ts' g' => r.sub (tupleSize ts' g')
       | .struct ms' => r.sub (structSize ms')
       | _ => false)
  | .array e r =>
      (match b with
       | .array e' r' => r.sub r' && (decide (r'.hi ≤ 0) || asg e e')
       | .tuple ts' g' => r.sub (tupleSize ts' g') &&
           -- tupleAssignableTo
           (if (tupleSize ts' g').hi ≤ 0 then true else if ts'.isEmpty then asg e .any else tupZip [e] ts' (tupleSize ts' g').hi)
       | _ => false)
  | .hash k v r =>
      (match b with
       | .hash k' v' r' => r.sub r' && (decide (r'.hi ≤ 0) || (asg k k' && asg v v'))
       | .struct ms' => r.sub (structSize ms') && asgMembers k v ms'
       | _ => false)
  | .tuple ts g =>
      (match b with
       | .array e' r' => (tupleSize ts g).sub r' && (ts.isEmpty || r'.hi == 0 || tupZip ts [e'] r'.hi)
       | .tuple ts' g' =>
           (tupleSize ts g).sub (tupleSize ts' g') &&
           (ts.isEmpty ||
            (if ts'.isEmpty then tupZip ts [.any] (tupleSize ts' g').hi else tupZip ts ts' (tupleSize ts' g').hi))
       | _ => false)
  | .struct ms =>
      (match b with
       | .struct ms' => structAll ms ms' == some (distinctCount (ms'.map (·.1)))
       | .hash k' v' r' =>
           sfh && structReq ms v' &&
           (((ms.filter (fun m => !m.2.1)).length == 0) || asg .str k') &&
           (structSize ms).sub r'
       | _ => false)
  | .variant as => asgAnyL as b
  | .optional x => asg .undef b || asg x b
  | .notUndef x =>
      (match b with
       | .notUndef y => asg x y || asg x (.notUndef y)
       | b' => !asg b' .undef && asg x b')
  | .typ x => (match b with | .typ y => asg x y | _ => false)
  | .sensitive x => (match b with | .sensitive y => asg x y | _ => false)
  | .iterator x => (match b with | .iterator y => asg x y | _ => false)
  | .callable ps rt bl =>
      -- CallableType.IsAssignable (the rule as repaired in /repo ccb4ec0): all three parts absent → every Callable; the return type accepts
      -- the other's (absent = Any); the parameters IN REVERSE (the other's accept this one's; the other's absent ⇒ this one's absent);
      -- the block: absent ⇒ the other's absent, else the other's block type accepts this one's
      (match b with
       | .callable ps' rt' bl' =>
           if ps.isNone && rt.isNone && bl.isNone then true else
           (match rt with
            | none => true
            | some r => (match rt' with | none => asg r .any | some r' => asg r r')) &&
           (match ps' with
            | some p' => (match ps with | none => false | some p => asg p' p)
            | none => ps.isNone) &&
           (match bl with
            | none => bl'.isNone
            | some bk => (match bl' with | none => false | some bk' => asg bk' bk))
       | _ => false)
  | .iterable x =>
      (match b with
       | .array e' r' => decide (r'.hi ≤ 0) || asg x e'
       | .bin => asg x (.int ⟨0, 255⟩)
       | .hash k' v' r' => decide (r'.hi ≤ 0) || asg x (.tuple [k', v'] none)
       | .str | .strVal _ | .strSz _ | .enum _ _ | .pattern _ => asg x (.strSz ⟨1, 1⟩)
       | .struct ms' => iterMembers x ms'
       | .tuple ts' g' =>
           (if (tupleSize ts' g').hi ≤ 0 then true else if ts'.isEmpty then asg x .any else tupZip [x] ts' (tupleSize ts' g').hi)
       | .iterable y => asg x y
       | _ => false)
  | .object p =>
      (match b with
       | .object q =>
           (match p, q with
            | none, _ => true
            | some pp, some qq => isPrefix pp qq
            | some _, none => false)
       | _ => false)
termination_by (a.w + b.w, 1)
decreasing_by
  all_goals simp_wf
  all_goals (try simp only [Ty.w, Ty.wl, Ty.wm, Ty.wo, floatAll] at *)
  all_goals first | (apply Prod.Lex.left; omega) | (apply Prod.Lex.right; omega) | (rw [Prod.lex_def]; simp only []; omega)

/-- `allAssignableTo(bs, a)`: `a` accepts every member -/
def asgAllR (a : Ty) (bs : List Ty) : Bool :=
  match bs with
  | [] => true
  | b :: bs => asg a b && asgAllR a bs
termination_by (a.w + Ty.wl bs, 0)
decreasing_by
  all_goals simp_wf
  all_goals (try simp only [Ty.w, Ty.wl, Ty.wm] at *)
  all_goals first | (apply Prod.Lex.left; omega) | (apply Prod.Lex.right; omega)

/-- every member of `as` accepts `b` -/
def asgAllL (as : List Ty) (b : Ty) : Bool :=
  match as with
  | [] => true
  | a :: as => asg a b && asgAllL as b
termination_by (Ty.wl as + b.w, 0)
decreasing_by
  all_goals simp_wf
  all_goals (try simp only [Ty.w, Ty.wl, Ty.wm] at *)
  all_goals first | (apply Prod.Lex.left; omega) | (apply Prod.Lex.right; omega)

/-- `VariantType.IsAssignable`: some member accepts `b` -/
def asgAnyL (as : List Ty) (b : Ty) : Bool :=
  match as with
  | [] => false
  | a :: as => asg a b || asgAnyL as b
termination_by (Ty.wl as + b.w, 0)
decreasing_by
  all_goals simp_wf
  all_goals (try simp only [Ty.w, Ty.wl, Ty.wm] at *)
  all_goals first | (apply Prod.Lex.left; omega) | (apply Prod.Lex.right; omega)

/-- the position loop of `TupleType.IsAssignable(Tuple)`: both sides repeat their last type; `k` = positions still
    allowed by the other tuple's maximal size -/
def tupZip (as bs : List Ty) (k : Int) : Bool :=
  if k ≤ 0 then true else
  match as, bs with
  | [], _ => true
  | _, [] => true
  | [a], [b] => asg a b
  | [a], b :: b' :: bs => asg a b && tupZip [a] (b' :: bs) (k - 1)
  | a :: a' :: as, [b] => asg a b && tupZip (a' :: as) [b] (k - 1)
  | a :: a' :: as, b :: b' :: bs => asg a b && tupZip (a' :: as) (b' :: bs) (k - 1)
termination_by (Ty.wl as + Ty.wl bs, 0)
decreasing_by
  all_goals simp_wf
  all_goals (try simp only [Ty.w, Ty.wl, Ty.wm] at *)
  all_goals first | (apply Prod.Lex.left; omega) | (apply Prod.Lex.right; omega)

/-- `IterableType.IsAssignable(Struct)` (fix of /repo: a Struct is a Hash type): the element type accepts the entry type
    `Tuple[String[name], value type]` of every member -/
def iterMembers (x : Ty) (ms : List Member) : Bool :=
  match ms with
  | [] => true
  | (n, _, t) :: rest => asg x (.tuple [.strVal n, t] none) && iterMembers x rest
termination_by (x.w + Ty.wm ms, 0)
decreasing_by
  all_goals simp_wf
  all_goals (try simp only [Ty.w, Ty.wl, Ty.wm] at *)
  all_goals first | (apply Prod.Lex.left; omega) | (apply Prod.Lex.right; omega)

/-- `HashType.IsAssignable(Struct)` member loop: key type accepts the member's `String[name]`, value type its value -/
def asgMembers (k v : Ty) (ms : List Member) : Bool :=
  match ms with
  | [] => true
  | (n, _, t) :: ms => asg k (.strVal n) && asg v t && asgMembers k v ms
termination_by (k.w + v.w + Ty.wm ms, 0)
decreasing_by
  all_goals simp_wf
  all_goals (try simp only [Ty.w, Ty.wl, Ty.wm] at *)
  all_goals first | (apply Prod.Lex.left; omega) | (apply Prod.Lex.right; omega)

/-- the same loop for RichData's Hash member (key type `Variant[String,Numeric]`, always accepts a `String[name]`) -/
def asgMembersRichKey (ms : List Member) : Bool :=
  match ms with
  | [] => true
  | (_, _, t) :: ms => asg .richData t && asgMembersRichKey ms
termination_by (Ty.richData.w + Ty.wm ms, 0)
decreasing_by
  all_goals simp_wf
  all_goals (try simp only [Ty.w, Ty.wl, Ty.wm] at *)
  all_goals first | (apply Prod.Lex.left; omega) | (apply Prod.Lex.right; omega)

/-- `StructType.IsAssignable(Struct)`, one member `(n,o,t)` of the receiver against the other's members (`hm[n]`, the last
    one of that name wins): none = no such member; some ok = key and value accepted -/
def structMember (n : String) (o : Bool) (t : Ty) (ms' : List Member) : Option Bool :=
  match ms' with
  | [] => none
  | (n', o', t') :: rest =>
    match structMember n o t rest with
    | some r => some r
    | none => if n == n' then some ((o || !o') && asg t t') else none
termination_by (t.w + Ty.wm ms', 0)
decreasing_by
  all_goals simp_wf
  all_goals (try simp only [Ty.w, Ty.wl, Ty.wm] at *)
  all_goals first | (apply Prod.Lex.left; omega) | (apply Prod.Lex.right; omega)

/-- the receiver's member loop: none = rejected, some k = k members matched -/
def structAll (ms ms' : List Member) : Option Nat :=
  match ms with
  | [] => some 0
  | (n, o, t) :: rest =>
    match structMember n o t ms' with
    | none => if o then structAll rest ms' else none
    | some false => none
    | some true => (structAll rest ms').map (· + 1)
termination_by (Ty.wm ms + Ty.wm ms', 0)
decreasing_by
  all_goals simp_wf
  all_goals (try simp only [Ty.w, Ty.wl, Ty.wm] at *)
  all_goals first | (apply Prod.Lex.left; omega) | (apply Prod.Lex.right; omega)

/-- `StructType.IsAssignable(Hash)`: every required member's value type accepts the hash's value type -/
def structReq (ms : List Member) (v' : Ty) : Bool :=
  match ms with
  | [] => true
  | (_, o, t) :: rest => (o || asg t v') && structReq rest v'
termination_by (Ty.wm ms + v'.w, 0)
decreasing_by
  all_goals simp_wf
  all_goals (try simp only [Ty.w, Ty.wl, Ty.wm] at *)
  all_goals first | (apply Prod.Lex.left; omega) | (apply Prod.Lex.right; omega)

/-- `GuardedIsAssignable(a, Array[al])` for the alias' own Array member (size `Integer[0]`), by cases on the receiver -/
def asgToArr (al : Alias) (a : Ty) : Bool :=
  match a with
  | .any | .unit => true
  | .coll r => r.sub Rng.pos
  | .array e r => r.sub Rng.pos && asg e al.ty
  | .tuple ts g => (tupleSize ts g).sub Rng.pos && (ts.isEmpty || asgAllL ts al.ty)
  | .variant as => asgToArrAny al as
  | .optional x => asgToArr al x
  | .notUndef x => asgToArr al x
  | .iterable x => asg x al.ty
  | .data => (match al with | .data => true | .rich => false)
  | .richData => true
  | _ => false
termination_by (a.w + al.ty.w, 0)
decreasing_by
  all_goals simp_wf
  all_goals (cases al <;> simp only [Ty.w, Ty.wl, Ty.wm, Alias.ty] at * <;>
    first | (apply Prod.Lex.left; omega) | (apply Prod.Lex.right; omega))

def asgToArrAny (al : Alias) (as : List Ty) : Bool :=
  match as with
  | [] => false
  | a :: as => asgToArr al a || asgToArrAny al as
termination_by (Ty.wl as + al.ty.w, 0)
decreasing_by
  all_goals simp_wf
  all_goals (cases al <;> simp only [Ty.w, Ty.wl, Ty.wm, Alias.ty] at * <;>
    first | (apply Prod.Lex.left; omega) | (apply Prod.Lex.right; omega))

/-- `GuardedIsAssignable(a, Hash[key, al])` for the alias' own Hash member -/
def asgToHash (al : Alias) (a : Ty) : Bool :=
  match a with
  | .any | .unit => true
  | .coll r => r.sub Rng.pos
  | .hash k v r => r.sub Rng.pos && asg k al.key && asg v al.ty
  | .struct ms =>
      sfh && structReq ms al.ty &&
      (((ms.filter (fun m => !m.2.1)).length == 0) || asg .str al.key) &&
      (structSize ms).sub Rng.pos
  | .variant as => asgToHashAny al as
  | .optional x => asgToHash al x
  | .notUndef x => asgToHash al x
  | .iterable x => asgToEntry al x
  | .data => (match al with | .data => true | .rich => false)
  | .richData => true
  | _ => false
termination_by (a.w + al.ty.w, 0)
decreasing_by
  all_goals simp_wf
  all_goals (cases al <;> simp only [Ty.w, Ty.wl, Ty.wm, Alias.ty, Alias.key] at * <;>
    first | (apply Prod.Lex.left; omega) | (apply Prod.Lex.right; omega))

def asgToHashAny (al : Alias) (as : List Ty) : Bool :=
  match as with
  | [] => false
  | a :: as => asgToHash al a || asgToHashAny al as
termination_by (Ty.wl as + al.ty.w, 0)
decreasing_by
  all_goals simp_wf
  all_goals (cases al <;> simp only [Ty.w, Ty.wl, Ty.wm, Alias.ty] at * <;>
    first | (apply Prod.Lex.left; omega) | (apply Prod.Lex.right; omega))

/-- `GuardedIsAssignable(a, Tuple[key, al])` (the entry type of the alias' Hash member; reached through Iterable) -/
def asgToEntry (al : Alias) (a : Ty) : Bool :=
  match a with
  | .any | .unit => true
  | .coll r => r.sub ⟨2, 2⟩
  | .array e r => r.sub ⟨2, 2⟩ && asg e al.key && asg e al.ty
  | .tuple ts g =>
      (tupleSize ts g).sub ⟨2, 2⟩ &&
      (match ts with
       | [] => true
       | [t0] => asg t0 al.key && asg t0 al.ty
       | t0 :: t1 :: _ => asg t0 al.key && asg t1 al.ty)
  | .variant as => asgToEntryAny al as
  | .optional x => asgToEntry al x
  | .notUndef x => asgToEntry al x
  | .iterable x => asg x al.key && asg x al.ty
  | .data => (match al with | .data => true | .rich => false)
  | .richData => true
  | _ => false
termination_by (a.w + al.ty.w, 0)
decreasing_by
  all_goals simp_wf
  all_goals (cases al <;> simp only [Ty.w, Ty.wl, Ty.wm, Alias.ty, Alias.key] at * <;>
    first | (apply Prod.Lex.left; omega) | (apply Prod.Lex.right; omega))

def asgToEntryAny (al : Alias) (as : List Ty) : Bool :=
  match as with
  | [] => false
  | a :: as => asgToEntry al a || asgToEntryAny al as
termination_by (Ty.wl as + al.ty.w, 0)
decreasing_by
  all_goals simp_wf
  all_goals (cases al <;> simp only [Ty.w, Ty.wl, Ty.wm, Alias.ty] at * <;>
    first | (apply Prod.Lex.left; omega) | (apply Prod.Lex.right; omega))
end

end

end Pcore.Lat
