import Pcore.Model.Num
/-!
# Program-format quoting: `utils/strings.go PuppetQuote / puppetDoubleQuote / RegexpQuote`, as they are now

Core Lean only.

Code ↔ model map
* `utils/strings.go PuppetQuote`        → `puppetQuote` : single-quoted (`'` and `\` escaped with a backslash) unless the
  string holds a control character (< 0x20) or U+FFFD, in which case the whole string is written double-quoted
* `utils/strings.go puppetDoubleQuote`  → `dqBody` : `\t \n \r \" \\ \$`, `\u{X}` (upper-case hex, no padding) for the
  other control characters and for U+FFFD
* `utils/strings.go RegexpQuote`        → `rxBody` : a backslash and the character after it are copied verbatim (the lexer
  keeps every escape except `\/`), `/` ↦ `\/`, and the three characters a literal cannot hold unescaped are written as
  the equivalent regexp escape: newline ↦ `\n`, NUL ↦ `\x00`, U+FFFD ↦ `\x{FFFD}`

The inverse direction is the lexer (`Lex.lexStr`, `Lex.lexRx`); the round-trip theorems are in `Props/C05.lean`.
-/
namespace Pcore.Syntax

def isCtl (c : Char) : Bool := c.toNat < 0x20 || c = runeError

/-- body of a single-quoted literal -/
def sqBody : Str → Str
  | [] => []
  | c :: cs =>
    if c = '\'' then '\\' :: '\'' :: sqBody cs
    else if c = '\\' then '\\' :: '\\' :: sqBody cs
    else c :: sqBody cs

/-- `\u{X}` -/
def uEsc (c : Char) : Str := '\\' :: 'u' :: '{' :: (hexUpper c.toNat ++ ['}'])

/-- body of a double-quoted literal -/
def dqBody : Str → Str
  | [] => []
  | c :: cs =>
    if c = '\t' then '\\' :: 't' :: dqBody cs
    else if c = '\n' then '\\' :: 'n' :: dqBody cs
    else if c = '\r' then '\\' :: 'r' :: dqBody cs
    else if c = '"' then '\\' :: '"' :: dqBody cs
    else if c = '\\' then '\\' :: '\\' :: dqBody cs
    else if c = '$' then '\\' :: '$' :: dqBody cs
    else if isCtl c then uEsc c ++ dqBody cs
    else c :: dqBody cs

/-- `PuppetQuote(w, s)` -/
def puppetQuote (s : Str) : Str :=
  if s.any isCtl then '"' :: (dqBody s ++ ['"']) else '\'' :: (sqBody s ++ ['\''])

/-- body of a regexp literal; `esc` = the previous character was an unescaped backslash -/
def rxBody : Bool → Str → Str
  | _, [] => []
  | true, c :: cs => c :: rxBody false cs
  | false, c :: cs =>
    if c = '\\' then '\\' :: rxBody true cs
    else if c = '/' then '\\' :: '/' :: rxBody false cs
    else if c = '\n' then '\\' :: 'n' :: rxBody false cs
    else if c = '\x00' then '\\' :: 'x' :: '0' :: '0' :: rxBody false cs
    else if c = runeError then "\\x{FFFD}".toList ++ rxBody false cs
    else c :: rxBody false cs

/-- `RegexpQuote(w, s)` -/
def regexpQuote (s : Str) : Str := '/' :: (rxBody false s ++ ['/'])

/-- the characters of a text as lexer input -/
def syms (s : Str) : List Sym := s.map Sym.chr

end Pcore.Syntax
