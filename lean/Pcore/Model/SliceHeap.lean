import Pcore.Model.Coll
/-!
# Collections, implementation layer (property C08): Go slices over a heap of backing arrays

Core Lean only.  What `types/arraytype.go` and `types/hashtype.go` do with storage is modelled at the level at which
immutability can fail:

* a heap of backing arrays (`Heap`; allocation appends an array and never moves one), a slice header
  `Slice = (arr, off, len, cap)` exactly as Go's (`cap` counted from `off`);
* Go's `append` (`goAppend`): writes IN PLACE at `off+len` when `len + n ≤ cap`, otherwise allocates a fresh array of
  `max needed (grow cap needed)` cells and copies — the growth function is a PARAMETER (`Policy.grow`; the driver
  instantiates it with Go 1.23's `growslice` incl. size classes, the theorems quantify over all of them), as is the
  number of spare cells a freshly made result carries (`Policy.spare`: `make([]T, 0, 8)`, the parser's appends, …);
* every operation's storage behaviour is selected by the IDIOM the fact extractor found at its return site
  (`Generated.sliceIdioms`, regenerated from the Go source on every run): `produce`.

`stepHeap` decides WHAT a step computes with the same function `opSem` as the pure layer, applied to the contents
read from the heap; HOW the result is stored comes from the table.  With an unsafe idiom (`appendToReceiver` for
`Array.Add`, `resliceThenAppend` for `Hash.Delete`, `inPlace` for a sort on the receiver's slice) the model writes
into cells that other live slices cover — it reproduces the corruption the real code shows on tag `verif-base`.
-/
namespace Pcore.Heap

/-- how the expression producing a result's backing slice is built (emitted by `/verif/extract`, family sliceidioms) -/
inductive Idiom
  | freshCopy                 -- make + copy / append to a fresh slice
  | mapIntoFresh              -- fresh slice filled by a loop or a helper that allocates
  | appendToReceiver          -- append(av.elements, …)
  | resliceReceiver           -- av.elements[i:j] (or the receiver's slice itself under a new header): shares storage read-only
  | resliceThenAppend         -- append(hv.entries[:i], …)
  | returnsReceiver           -- return av
  | wrapsArgument             -- WrapValues(elements): the caller's slice, not copied
  | freshToCallback           -- BuildArray/BuildHash: a fresh slice handed to the builder callback
  | ownedAppend | ownedReslice -- BasicCollector's private stack while a value is under construction
  | appendsToGiven            -- a builder callback that only appends to the fresh slice it was given and returns it
  | ownedHandOver             -- BasicCollector.AddArray's callback: the slice goes through the private stack and is
                              --   popped from it before it is returned
  | constant                  -- px.EmptyArray …
  | inPlace                   -- a write through the receiver's slice (x[i] = …, copy(x, …), sort)
  | unknown (src : String)
  deriving Repr, DecidableEq

inductive IdiomClass | fresh | recv | reslice | appendRecv | resliceAppend | inPlace deriving Repr, DecidableEq

def Idiom.cls : Idiom → IdiomClass
  | .freshCopy | .mapIntoFresh | .wrapsArgument | .freshToCallback | .ownedAppend | .ownedReslice | .constant
  | .appendsToGiven | .ownedHandOver => .fresh
  | .unknown _ => .fresh          -- nothing is known: the model allocates; no side condition accepts `unknown`
  | .returnsReceiver => .recv
  | .resliceReceiver => .reslice
  | .appendToReceiver => .appendRecv
  | .resliceThenAppend => .resliceAppend
  | .inPlace => .inPlace

abbrev Table := List (String × Idiom)

def Table.find (t : Table) (key : String) : Idiom :=
  match t.find? (fun r => r.1 == key) with
  | some r => r.2
  | none => .unknown ("no row " ++ key)

/-- does the method write through the receiver's slice (`<method>/w<n>` rows)? -/
def Table.writesInPlace (t : Table) (method : String) : Bool :=
  t.any (fun r => r.2 == .inPlace && ["/w0", "/w1", "/w2", "/w3"].any (fun w => r.1 == method ++ w))

structure Slice where
  arr : Nat
  off : Nat
  len : Nat
  cap : Nat
  deriving Repr, DecidableEq

abbrev Heap := List (List Val)

def Heap.cells (h : Heap) (a : Nat) : List Val := h.getD a []

def Heap.read (h : Heap) (s : Slice) : List Val := ((h.cells s.arr).drop s.off).take s.len

def overwrite (cells : List Val) (pos : Nat) (xs : List Val) : List Val :=
  cells.take pos ++ (xs.take (cells.length - pos)) ++ cells.drop (pos + xs.length)

def modifyNth (f : List Val → List Val) : Heap → Nat → Heap
  | [], _ => []
  | c :: h, 0 => f c :: h
  | c :: h, n + 1 => c :: modifyNth f h n

/-- write `xs` into array `a` from cell `pos` on -/
def Heap.write (h : Heap) (a pos : Nat) (xs : List Val) : Heap := modifyNth (fun c => overwrite c pos xs) h a

structure Policy where
  /-- `append` growth: old capacity, needed length ↦ new capacity (the model takes `max needed ·`) -/
  grow : Nat → Nat → Nat
  /-- spare cells of a fresh result: site key, hint (requested capacity / receiver length), result length -/
  spare : String → Nat → Nat → Nat

def mkFresh (h : Heap) (res : List Val) (spare : Nat) : Heap × Slice :=
  (h ++ [res ++ List.replicate spare .undef], ⟨h.length, 0, res.length, res.length + spare⟩)

/-- Go's `append(s, xs...)` -/
def goAppend (P : Policy) (h : Heap) (s : Slice) (xs : List Val) : Heap × Slice :=
  if s.len + xs.length ≤ s.cap then
    (h.write s.arr (s.off + s.len) xs, { s with len := s.len + xs.length })
  else
    let need := s.len + xs.length
    mkFresh h (h.read s ++ xs) (max need (P.grow s.cap need) - need)

def Slice.sub (s : Slice) (lo hi : Nat) : Slice := ⟨s.arr, s.off + lo, hi - lo, s.cap - lo⟩

def commonPrefix : List String → List String → Nat
  | a :: as, b :: bs => if a == b then commonPrefix as bs + 1 else 0
  | _, _ => 0

/-- where the result `res` of an operation on the receiver slice `recv` is stored, by idiom; `[lo, hi)` is the window a
    re-slicing idiom takes (the whole receiver unless the operation is `Slice`) -/
def produce (P : Policy) (h : Heap) (idiom : Idiom) (site : String) (hint : Nat) (recv : Slice) (lo hi : Nat)
    (res : List Val) : Heap × Slice :=
  match idiom.cls with
  | .fresh => mkFresh h res (P.spare site hint res.length)
  | .recv => (h, recv)
  | .reslice => (h, recv.sub lo hi)
  | .appendRecv => goAppend P h recv (res.drop recv.len)
  | .resliceAppend =>
    -- append(recv[:p], rest...) where p = the prefix the result shares with the receiver
    let p := commonPrefix ((h.read recv).map Val.render) (res.map Val.render)
    goAppend P h { recv with len := p } (res.drop p)
  | .inPlace => (h.write recv.arr recv.off (res.take recv.cap), { recv with len := min res.length recv.cap })

inductive HEntry
  | val (k : Kind) (s : Slice)
  | mark (m : String)
  deriving Repr

structure HState where
  heap : Heap := []
  pool : List HEntry := []
  dead : List Nat := []
  deriving Repr

def HState.slice? (s : HState) (n : Nat) : Option (Kind × Slice) :=
  if s.dead.contains n then none else
  match s.pool[n]? with
  | some (.val k sl) => some (k, sl)
  | _ => none

def HState.look (s : HState) : Look := fun n =>
  match s.slice? n with
  | some (k, sl) => some (k, s.heap.read sl)
  | none => none

def HState.push (s : HState) (h : Heap) (e : HEntry) : HState := { s with heap := h, pool := s.pool ++ [e] }

def stepHeap (P : Policy) (tbl : Table) (s : HState) (op : Op) : HState :=
  match opSem s.look op with
  | .mark m => s.push s.heap (.mark m)
  | .alloc site k cap res =>
    let (h, sl) := mkFresh s.heap res (max (cap - res.length) (P.spare site.key cap res.length))
    s.push h (.val k sl)
  | .same site k r => match s.slice? r with
    | some (_, recv) =>
      let (h, sl) := produce P s.heap (tbl.find site.key) site.key recv.len recv 0 recv.len (s.heap.read recv)
      s.push h (.val k sl)
    | none => s.push s.heap (.mark "~")
  | .window site k r lo hi => match s.slice? r with
    | some (_, recv) =>
      let xs := s.heap.read recv
      if winOK xs.length lo hi then
        let (h, sl) := produce P s.heap (tbl.find site.key) site.key recv.len recv lo.toNat hi.toNat (window xs lo hi)
        s.push h (.val k sl)
      else s.push s.heap (.mark "^")
    | none => s.push s.heap (.mark "~")
  | .new site k r res kill =>
    let recv := match s.slice? r with
      | some (_, sl) => sl
      | none => ⟨0, 0, 0, 0⟩
    -- a method that sorts / assigns through the receiver's slice does so before it builds its result
    let h0 := if tbl.writesInPlace site.method then s.heap.write recv.arr recv.off (res.take recv.len) else s.heap
    let (h, sl) := produce P h0 (tbl.find site.key) site.key recv.len recv 0 recv.len res
    { heap := h, pool := s.pool ++ [.val k sl], dead := if kill then r :: s.dead else s.dead }

def runHeap (P : Policy) (tbl : Table) (ops : List Op) : HState := ops.foldl (stepHeap P tbl) {}

/-- what pool value `i` holds in a heap state (`none` for a marker) -/
def content (s : HState) (i : Nat) : Option (List Val) :=
  match s.pool[i]? with
  | some (.val _ sl) => some (s.heap.read sl)
  | _ => none

/-- what pool value `i` holds according to the pure layer -/
def pureResult (ops : List Op) (i : Nat) : Option (List Val) :=
  match (runPure ops).pool[i]? with
  | some (.val _ xs) => some xs
  | _ => none

end Pcore.Heap
