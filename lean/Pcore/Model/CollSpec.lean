import Pcore.Model.OMap
import Pcore.Model.StringHash
/-!
# The specification machines of property C09

What a history must observe when the collection *is* the abstract ordered map of `Pcore.Model.OMap` —
no index, no positions.  `stepSpec` is the mutable string-keyed map with a freeze flag (the abstract
`hash.StringHash`); `HOp`/`stepHSpec` is the pool of immutable ordered maps (the abstract `types.Hash`).
Core Lean only.
-/
namespace Pcore.Coll

/-! ### the abstract StringHash -/

structure SSpec (β : Type) where
  m : List (String × β)
  frozen : Bool

def optOut {β : Type} : Option β → Out β
  | some v => .val v
  | none => .none

def stepSpec {β : Type} (s : SSpec β) : SOp β → SSpec β × Out β
  | .put k v =>
    if s.frozen then (s, .rejected) else ({ s with m := OMap.put id s.m (k, v) }, optOut (OMap.get id s.m k))
  | .delete k =>
    if s.frozen then (s, .rejected) else ({ s with m := OMap.delete id s.m k }, optOut (OMap.get id s.m k))
  | .get k => (s, optOut (OMap.get id s.m k))
  | .includes k => (s, boolOut (OMap.includes id s.m k))
  | .cia k v =>
    match OMap.get id s.m k with
    | some o => (s, .val o)
    | none => if s.frozen then (s, .rejected) else ({ s with m := OMap.put id s.m (k, v) }, .val v)
  | .copy => ({ s with frozen := false }, .unit)
  | .merge o => (⟨OMap.merge id s.m o, false⟩, .unit)
  | .putAll o =>
    if s.frozen ∧ o ≠ [] then (s, .rejected) else ({ s with m := OMap.merge id s.m o }, .unit)
  | .freeze => ({ s with frozen := true }, .unit)

def runSpec {β : Type} (s : SSpec β) : List (SOp β) → List (Out β × List (String × β) × Bool) × SSpec β
  | [] => ([], s)
  | op :: ops =>
    let r := stepSpec s op
    let t := runSpec r.1 ops
    ((r.2, r.1.m, r.1.frozen) :: t.1, t.2)

/-- the operations of the property text that change a StringHash -/
def SOp.mutates {β : Type} : SOp β → Bool
  | .put _ _ | .delete _ | .cia _ _ | .putAll _ => true
  | _ => false

/-! ### sequence functions used by both pools -/

namespace ASpec
variable {α κ : Type} [DecidableEq κ]

/-- the first of every group of elements with equal keys, in order -/
def firsts (key : α → κ) : List α → List α
  | [] => []
  | v :: vs => v :: firsts key (vs.filter (fun e => !decide (key e = key v)))
termination_by l => l.length
decreasing_by
  simp only [List.length_cons, List.length_unattach]
  exact Nat.lt_succ_of_le (Nat.le_trans (List.length_filter_le _ _) (by simp))

/-- consecutive pieces of `n` elements (the last one may be shorter); `n ≥ 1` -/
def chunks (n : Nat) : List α → List (List α)
  | [] => []
  | v :: vs => if n = 0 then [] else (v :: vs).take n :: chunks n ((v :: vs).drop n)
termination_by l => l.length
decreasing_by
  simp only [List.length_drop, List.length_cons]
  omega

/-- the elements at positions `i … j-1` -/
def slice (a : List α) (i j : Nat) : List α := (List.range (j - i)).filterMap (fun n => a[i + n]?)

end ASpec

/-! ### the abstract pool of immutable ordered maps (types.Hash) -/

/-- a history step over a pool of hashes addressed by position; results are appended to the pool -/
inductive HOp (α β : Type) where
  | lit (es : List (α × β))                 -- `WrapHash` / `BuildHash` / a parsed literal
  | put (i : Nat) (e : α × β)               -- `pool[i].Merge({k => v})`
  | merge (i j : Nat)                       -- `pool[i].Merge(pool[j])`
  | delete (i : Nat) (k : α)
  | deleteAll (i : Nat) (ks : List α)
  | get (i : Nat) (k : α)                   -- `Get` / `Get2` / `Get4`
  | includes (i : Nat) (k : α)              -- `IncludesKey`
  | view (i : Nat)                          -- `Each` order, `Keys`, `Values`, `Len`, `At`
  | mput (i : Nat) (e : α × β)              -- `MutableHashValue.Put`: pool[i] itself changes
  | mputAll (i j : Nat)                     -- `MutableHashValue.PutAll(pool[j])`
  | slice (i x y : Nat)                     -- `Slice(x, y)`
  | select (i : Nat) (ks : List α)          -- `SelectPairs(key ∈ ks)`
  | reject (i : Nat) (ks : List α)          -- `RejectPairs(key ∈ ks)`
  | sort (i : Nat) (le : α → α → Bool)      -- `Sort(comparator on the keys)`
  | eachSlice (i : Nat) (n : Int)           -- `EachSlice(n, …)`

/-- what a step answers -/
inductive HObs (α β : Type) where
  | made                                    -- a new hash was appended to the pool
  | badRef
  | fault
  | got (v : Option β)
  | has (b : Bool)
  | entries (es : List (α × β))
  | illegal                                 -- reported illegal argument
  | badBounds                               -- `Slice` bounds outside the value: a caller error (Go: slice bounds fault)
  | chunks (cs : List (List (α × β)))
  deriving DecidableEq

variable {α β κ : Type} [DecidableEq κ]

def stepHSpec (key : α → κ) (pool : List (List (α × β))) : HOp α β → List (List (α × β)) × HObs α β
  | .lit es => (pool ++ [OMap.ofList key es], .made)
  | .put i e =>
    match pool[i]? with
    | some m => (pool ++ [OMap.put key m e], .made)
    | none => (pool, .badRef)
  | .merge i j =>
    match pool[i]?, pool[j]? with
    | some a, some b => (pool ++ [OMap.merge key a b], .made)
    | _, _ => (pool, .badRef)
  | .delete i k =>
    match pool[i]? with
    | some m => (pool ++ [OMap.delete key m (key k)], .made)
    | none => (pool, .badRef)
  | .deleteAll i ks =>
    match pool[i]? with
    | some m => (pool ++ [OMap.deleteAll key m (ks.map key)], .made)
    | none => (pool, .badRef)
  | .get i k =>
    match pool[i]? with
    | some m => (pool, .got (OMap.get key m (key k)))
    | none => (pool, .badRef)
  | .includes i k =>
    match pool[i]? with
    | some m => (pool, .has (OMap.includes key m (key k)))
    | none => (pool, .badRef)
  | .view i =>
    match pool[i]? with
    | some m => (pool, .entries m)
    | none => (pool, .badRef)
  | .mput i e =>
    match pool[i]? with
    | some m => (pool.set i (OMap.put key m e), .made)
    | none => (pool, .badRef)
  | .mputAll i j =>
    match pool[i]?, pool[j]? with
    | some a, some b => (pool.set i (OMap.merge key a b), .made)
    | _, _ => (pool, .badRef)
  | .slice i x y =>
    match pool[i]? with
    | some m => if x ≤ y ∧ y ≤ m.length then (pool ++ [(m.drop x).take (y - x)], .made) else (pool, .badBounds)
    | none => (pool, .badRef)
  | .select i ks =>
    match pool[i]? with
    | some m => (pool ++ [m.filter (fun e => (ks.map key).contains (key e.1))], .made)
    | none => (pool, .badRef)
  | .reject i ks =>
    match pool[i]? with
    | some m => (pool ++ [OMap.deleteAll key m (ks.map key)], .made)
    | none => (pool, .badRef)
  | .sort i le =>
    match pool[i]? with
    | some m => (pool ++ [m.mergeSort (fun a b => le a.1 b.1)], .made)
    | none => (pool, .badRef)
  | .eachSlice i n =>
    match pool[i]? with
    | some m => if n < 1 then (pool, .illegal) else (pool, .chunks (ASpec.chunks n.toNat m))
    | none => (pool, .badRef)

def runHSpec (key : α → κ) (pool : List (List (α × β))) : List (HOp α β) → List (HObs α β) × List (List (α × β))
  | [] => ([], pool)
  | op :: ops =>
    let r := stepHSpec key pool op
    let t := runHSpec key r.1 ops
    (r.2 :: t.1, t.2)

/-! ### the abstract pool of immutable sequences (types.Array) -/


inductive AOp (α : Type) where
  | lit (vs : List α)
  | add (i : Nat) (v : α)
  | addAll (i j : Nat)
  | delete (i : Nat) (v : α)
  | deleteAll (i j : Nat)
  | slice (i a b : Nat)
  | unique (i : Nat)
  | sort (i : Nat)
  | eachSlice (i : Nat) (n : Int)
  | at (i : Nat) (n : Int)
  | len (i : Nat)
  | find (i : Nat) (v : α)
  | view (i : Nat)

inductive AObs (α : Type) where
  | made | badRef | fault | illegal
  | got (v : Option α)
  | num (n : Nat)
  | chunks (cs : List (List α))
  | elems (vs : List α)
  deriving DecidableEq

section
variable {α κ : Type} [DecidableEq κ]

/-- what a history over a pool of arrays must answer: every operation is a function of the receiver's
    elements, results are appended, nothing that is already in the pool ever changes -/
def stepASpec (key : α → κ) (le : α → α → Bool) (pool : List (List α)) : AOp α → List (List α) × AObs α
  | .lit vs => (pool ++ [vs], .made)
  | .add i v =>
    match pool[i]? with
    | some a => (pool ++ [a ++ [v]], .made)
    | none => (pool, .badRef)
  | .addAll i j =>
    match pool[i]?, pool[j]? with
    | some a, some b => (pool ++ [a ++ b], .made)
    | _, _ => (pool, .badRef)
  | .delete i v =>
    match pool[i]? with
    | some a => (pool ++ [a.filter (fun e => !decide (key e = key v))], .made)
    | none => (pool, .badRef)
  | .deleteAll i j =>
    match pool[i]?, pool[j]? with
    | some a, some b => (pool ++ [a.filter (fun e => !(b.map key).contains (key e))], .made)
    | _, _ => (pool, .badRef)
  | .slice i x y =>
    match pool[i]? with
    | some a => if x ≤ y ∧ y ≤ a.length then (pool ++ [ASpec.slice a x y], .made) else (pool, .fault)
    | none => (pool, .badRef)
  | .unique i =>
    match pool[i]? with
    | some a => (pool ++ [ASpec.firsts key a], .made)
    | none => (pool, .badRef)
  | .sort i =>
    match pool[i]? with
    | some a => (pool ++ [a.mergeSort le], .made)
    | none => (pool, .badRef)
  | .eachSlice i n =>
    match pool[i]? with
    | some a => if n < 1 then (pool, .illegal) else (pool, .chunks (ASpec.chunks n.toNat a))
    | none => (pool, .badRef)
  | .at i n =>
    match pool[i]? with
    | some a => (pool, .got (if n < 0 then none else a[n.toNat]?))
    | none => (pool, .badRef)
  | .len i =>
    match pool[i]? with
    | some a => (pool, .num a.length)
    | none => (pool, .badRef)
  | .find i v =>
    match pool[i]? with
    | some a => (pool, .got (a.find? (fun e => decide (key e = key v))))
    | none => (pool, .badRef)
  | .view i =>
    match pool[i]? with
    | some a => (pool, .elems a)
    | none => (pool, .badRef)

def runASpec (key : α → κ) (le : α → α → Bool) (pool : List (List α)) : List (AOp α) → List (AObs α) × List (List α)
  | [] => ([], pool)
  | op :: ops =>
    let r := stepASpec key le pool op
    let t := runASpec key le r.1 ops
    (r.2 :: t.1, t.2)

end

end Pcore.Coll
