import Pcore.Model.Print
import Pcore.Generated.UnicodeCase
/-!
# A fragment of the types: what they print (`Parameters()`) and how their text resolves back (positional creators)

Core Lean only.

Fragment: the parameterless core types (by name), `Integer[…]`, `Float[lo, hi]` (decimal float rendering is the parameter
`Env.ff`, reading is `Env.pf`), `String[…]` (size-constrained, and the exact-value form inside `Optional`/`NotUndef`),
`Boolean[b]`, `Enum[…]`, `Regexp[/…/]`, `Pattern[…]`, the six unary wrappers `Optional NotUndef Type Sensitive Iterable
Iterator`, `Variant[…]`, `Array[…]`, `Hash[…]`, `Collection[…]`, `Tuple[…]`, `Struct[{…}]`.
Not in the fragment: `Callable`, `Runtime`, `Init`, `Like`, `Object`, `TypeSet`, aliases, `TypeReference`, the leaf types
with parameters (`Timespan Timestamp SemVer SemVerRange URI`).

Code ↔ model map
* `types/types.go TypeToString / basicTypeToString`             → `tyExpr` builds the expression `Name` / `Name[p, …]`
                                                                    whose program-format text is the type's text
                                                                    (`printTy = printVal ∘ tyExpr`)
* `Parameters()` of `IntegerType FloatType scStringType BooleanType EnumType RegexpType PatternType OptionalType NotUndefType
  TypeType SensitiveType IterableType IteratorType VariantType ArrayType HashType CollectionType StructType`,
  `IntegerType.SizeParameters`
                                                                  → the cases of `tyExpr` (`sizeParams`)
* `types/deferredtype.go DeferredType.Resolve, resolveValue`     → `resolve`, `resolveArg`, `resolveArgs`
* `types/resolver.go Resolve / ResolveWithParams`                → `resolveName`, `create`
* `newIntegerType2 NewIntegerType newFloatType2 NewFloatType newStringType2 NewStringType newBooleanType2 newEnumType3
  NewEnumType newRegexpType2 newStructType2 NewStructElement
  newPatternType3 newOptionalType2/3 newNotUndefType2/3 newTypeType2 newSensitiveType2 newIterableType2 newIteratorType2
  newVariantType3 newArrayType2 NewArrayType newHashType2 NewHashType newCollectionType2`
                                                                  → `newInt newStr enumArgs patArgs variantArgs sizes2 …`
  `none` = the creator raises a reported error, or the form is outside the fragment.

Quirks mirrored: `Variant[T]` is `T`; `Array[0, 0]` / `Array[Unit, 0, 0]` is the type of the empty array while
`Array[Any, 0, 0]` keeps its element type; `Hash[0, 0]` is the empty hash type; three or four size arguments of `Hash`
without key/value types are ignored; a negative minimum length of `String` is clamped to 0 and `String[0, default]` is
`String`; `String['']` is `String`; `Optional['x']`/`NotUndef['x']` hold the exact-value String; `Enum[[…], …]` flattens
a leading array, a trailing Boolean is the case-insensitivity flag (values are then lower-cased: `strings.ToLower`), an
empty Enum is the default Enum; `Regexp['']` is the default Regexp; a bound of `Float[…]` must be a Float value
(an Integer is refused: `toFloat`), `Float[-1.7976931348623157e308, x]` prints `Float[default, x]`, `Float[0.0, -0.0]` is
accepted (`0.0 > -0.0` is false) and keeps the signs of its zeros; a plain-string Struct key is optional exactly when the
value type accepts `undef`, `String['a'] => T` is always a required key, duplicate member names are kept.
-/
namespace Pcore.Syntax

def i64min : Int := -9223372036854775808
def i64max : Int := 9223372036854775807

inductive WrapKind where
  | optional | notUndef | type_ | sensitive | iterable | iterator
  deriving DecidableEq, Repr

def WrapKind.name : WrapKind → Str
  | .optional => "Optional".toList
  | .notUndef => "NotUndef".toList
  | .type_ => "Type".toList
  | .sensitive => "Sensitive".toList
  | .iterable => "Iterable".toList
  | .iterator => "Iterator".toList

/-- the parameterized core types of the fragment -/
inductive TKind where
  | integer | float | string | boolean | enum | regexp | pattern | variant | array | hash | collection | tuple | struct
  | callable | runtime | typeRef
  | wrap (k : WrapKind)
  deriving DecidableEq, Repr

def TKind.name : TKind → Str
  | .integer => "Integer".toList
  | .float => "Float".toList
  | .string => "String".toList
  | .boolean => "Boolean".toList
  | .enum => "Enum".toList
  | .regexp => "Regexp".toList
  | .pattern => "Pattern".toList
  | .variant => "Variant".toList
  | .array => "Array".toList
  | .hash => "Hash".toList
  | .collection => "Collection".toList
  | .tuple => "Tuple".toList
  | .struct => "Struct".toList
  | .callable => "Callable".toList
  | .runtime => "Runtime".toList
  | .typeRef => "TypeReference".toList
  | .wrap k => k.name

def allKinds : List TKind :=
  [.integer, .float, .string, .boolean, .enum, .regexp, .pattern, .variant, .array, .hash, .collection, .tuple, .struct,
   .callable, .runtime, .typeRef,
   .wrap .optional, .wrap .notUndef, .wrap .type_, .wrap .sensitive, .wrap .iterable, .wrap .iterator]

/-- `coreTypes[name]` restricted to the parameterized types of the fragment -/
def kindOf (n : Str) : Option TKind := allKinds.find? fun k => k.name == n

inductive Ty where
  | named (n : Str)
  | int (lo hi : Int)
  | float (lo : Nat) (lot : Str) (hi : Nat) (hit : Str)   -- IEEE-754 bits of `min` / `max`, each with its printed text
  | strSz (lo hi : Int)
  | strVal (s : Str)
  | bool (b : Option Bool)
  | enum (vs : List Str) (ci : Bool)
  | regexp (src : Str)
  | pattern (srcs : List Str)
  | wrap (k : WrapKind) (t : Ty)
  | variant (ts : List Ty)
  | array (t : Ty) (lo hi : Int)
  | hash (k v : Ty) (lo hi : Int)
  | collection (lo hi : Int)
  | tuple (ts : List Ty) (sz : Option (Int × Int))   -- `size` may be nil
  | struct (ms : List (Str × Bool × Ty))            -- per element: name, "the key is an Optional[…]", value type
  | callable (ps : Option (List Ty × Option (Int × Int))) (ret blk : Option Ty)
      -- `paramsType` (nil, or a Tuple: member types and size), `returnType`, `blockType`
  | runtime (rt name : Str) (pat : Option Str)      -- runtime, name, pattern (the source of a Regexp type, or nil)
  | typeRef (s : Str)                               -- `TypeReference['s']`; also what an unknown type name resolves to
  deriving Repr, Inhabited

mutual
def Ty.beq : Ty → Ty → Bool
  | .named a, .named b => a == b
  | .int a b, .int c d => a == c && b == d
  | .float a b c d, .float e f g h => a == e && b == f && c == g && d == h
  | .strSz a b, .strSz c d => a == c && b == d
  | .strVal a, .strVal b => a == b
  | .bool a, .bool b => a == b
  | .enum a b, .enum c d => a == c && b == d
  | .regexp a, .regexp b => a == b
  | .pattern a, .pattern b => a == b
  | .wrap k a, .wrap j b => k == j && Ty.beq a b
  | .variant a, .variant b => Ty.beqList a b
  | .array a b c, .array d e f => Ty.beq a d && b == e && c == f
  | .hash a b c d, .hash e f g h => Ty.beq a e && Ty.beq b f && c == g && d == h
  | .collection a b, .collection c d => a == c && b == d
  | .tuple a b, .tuple c d => Ty.beqList a c && b == d
  | .struct a, .struct b => Ty.beqMembers a b
  | .callable none b c, .callable none e f => Ty.beqOpt b e && Ty.beqOpt c f
  | .callable (some (ts, sz)) b c, .callable (some (us, usz)) e f =>
    Ty.beqList ts us && sz == usz && Ty.beqOpt b e && Ty.beqOpt c f
  | .runtime a b c, .runtime d e f => a == d && b == e && c == f
  | .typeRef a, .typeRef b => a == b
  | _, _ => false
def Ty.beqOpt : Option Ty → Option Ty → Bool
  | none, none => true
  | some a, some b => Ty.beq a b
  | _, _ => false
def Ty.beqList : List Ty → List Ty → Bool
  | [], [] => true
  | a :: as, b :: bs => Ty.beq a b && Ty.beqList as bs
  | _, _ => false
def Ty.beqMembers : List (Str × Bool × Ty) → List (Str × Bool × Ty) → Bool
  | [], [] => true
  | (n, o, a) :: as, (m, p, b) :: bs => n == m && o == p && Ty.beq a b && Ty.beqMembers as bs
  | _, _ => false
end

mutual
/-- `T.Equals(U)` as the implementation has it: structural (since /repo 3d635fb also for Callable: parameter, return and
    block types pairwise, an absent part equals only an absent part; before that fix any two Callables were equal) -/
def Ty.eqGo : Ty → Ty → Bool
  | .named a, .named b => a == b
  | .int a b, .int c d => a == c && b == d
  | .float a b c d, .float e f g h => a == e && b == f && c == g && d == h
  | .strSz a b, .strSz c d => a == c && b == d
  | .strVal a, .strVal b => a == b
  | .bool a, .bool b => a == b
  | .enum a b, .enum c d => a == c && b == d
  | .regexp a, .regexp b => a == b
  | .pattern a, .pattern b => a == b
  | .wrap k a, .wrap j b => k == j && Ty.eqGo a b
  | .variant a, .variant b => Ty.eqGoList a b
  | .array a b c, .array d e f => Ty.eqGo a d && b == e && c == f
  | .hash a b c d, .hash e f g h => Ty.eqGo a e && Ty.eqGo b f && c == g && d == h
  | .collection a b, .collection c d => a == c && b == d
  | .tuple a b, .tuple c d => Ty.eqGoList a c && b == d
  | .struct a, .struct b => Ty.eqGoMembers a b
  | .callable none b c, .callable none e f => Ty.eqGoOpt b e && Ty.eqGoOpt c f
  | .callable (some (ts, sz)) b c, .callable (some (us, usz)) e f =>
    Ty.eqGoList ts us && sz == usz && Ty.eqGoOpt b e && Ty.eqGoOpt c f
  | .runtime a b c, .runtime d e f => a == d && b == e && c == f
  | .typeRef a, .typeRef b => a == b
  | _, _ => false
def Ty.eqGoOpt : Option Ty → Option Ty → Bool
  | none, none => true
  | some a, some b => Ty.eqGo a b
  | _, _ => false
def Ty.eqGoList : List Ty → List Ty → Bool
  | [], [] => true
  | a :: as, b :: bs => Ty.eqGo a b && Ty.eqGoList as bs
  | _, _ => false
def Ty.eqGoMembers : List (Str × Bool × Ty) → List (Str × Bool × Ty) → Bool
  | [], [] => true
  | (n, o, a) :: as, (m, p, b) :: bs => n == m && o == p && Ty.eqGo a b && Ty.eqGoMembers as bs
  | _, _ => false
end

def tyAny : Ty := .named "Any".toList
def tyUnit : Ty := .named "Unit".toList
def tyString : Ty := .named "String".toList

/-- the parameterless types of the fragment: a bare name that resolves to a type which prints as that name -/
def plainNames : List Str :=
  ["Any", "Unit", "Undef", "Default", "Scalar", "ScalarData", "Numeric", "Data", "RichData", "Binary", "String",
   "Timespan", "Timestamp", "SemVer", "SemVerRange", "URI", "Object", "Init",
   "TypeSet"].map String.toList

/-! ### printing -/

def tname (k : TKind) (ps : List Val) : Val := .tyx k.name (if ps.isEmpty then none else some ps)

/-- `IntegerType.SizeParameters` -/
def sizeParams (lo hi : Int) : List Val := [.int lo, if hi = i64max then .dflt else .int hi]

/-- `IntegerType.Parameters` -/
def intParams (lo hi : Int) : List Val :=
  if lo = i64min then (if hi = i64max then [] else [.dflt, .int hi])
  else if hi = i64max then [.int lo] else [.int lo, .int hi]

/-- `-math.MaxFloat64`, `math.MaxFloat64` as IEEE-754 bits -/
def fNegMax : Nat := 0xFFEFFFFFFFFFFFFF
def fPosMax : Nat := 0x7FEFFFFFFFFFFFFF

/-- the order of two non-NaN floats given by their bits (`-0.0` and `0.0` compare equal) -/
def fkey (b : Nat) : Int := if b ≥ 2 ^ 63 then -((b - 2 ^ 63 : Nat) : Int) else (b : Int)

/-- `FloatType.Parameters` -/
def floatParams (lo : Nat) (lot : Str) (hi : Nat) (hit : Str) : List Val :=
  if lo = fNegMax then (if hi = fPosMax then [] else [.dflt, .float hi hit])
  else if hi = fPosMax then [.float lo lot] else [.float lo lot, .float hi hit]

/-- `typeReferenceTypeDefault.typeString` -/
def unresolvedRef : Str := "UnresolvedReference".toList

def Ty.isAny : Ty → Bool
  | .named n => n == "Any".toList
  | _ => false

def Ty.isUnit : Ty → Bool
  | .named n => n == "Unit".toList
  | _ => false

/-- the parameterless types that accept `undef` (`isAssignable(T, Undef)`): `Any` (`a == anyTypeDefault`), `Unit`
    (`UnitType.IsAssignable` is constantly true), `Undef`, the aliases `Data` and `RichData` (a Variant with an `Undef`
    member) and the default `Init` (its contained type is nil: it accepts everything) -/
def undefNames : List Str := ["Any", "Unit", "Undef", "Data", "RichData", "Init"].map String.toList

mutual
/-- `isAssignable(t, undefTypeDefault)` — decides how a Struct member key is printed (`StructType.Parameters`) and whether a
    plain string key makes an optional member (`NewStructElement`).  `GuardedIsAssignable(t, Undef)`: identity / `Any`,
    then `t.IsAssignable(Undef)`: `OptionalType` accepts it, `NotUndefType` refuses it, `VariantType` accepts it when a
    member does; every other type of the fragment answers false for an `*UndefType`. -/
def Ty.acceptsUndef : Ty → Bool
  | .named n => undefNames.contains n
  | .wrap .optional _ => true
  | .variant ts => Ty.anyAcceptsUndef ts
  | _ => false
def Ty.anyAcceptsUndef : List Ty → Bool
  | [] => false
  | t :: ts => Ty.acceptsUndef t || Ty.anyAcceptsUndef ts
end

/-- the key of a Struct member as `StructType.Parameters` writes it: the bare name when the optionality of the key is what
    the value type implies (a plain string key is optional exactly when the value type accepts `undef`), `Optional['n']`
    for an optional key of a value that refuses `undef`, `NotUndef['n']` for a required key of a value that accepts it -/
def memberKey (n : Str) (opt ov : Bool) : Val :=
  if opt = ov then .str n
  else if opt then .tyx "Optional".toList (some [.str n])
  else .tyx "NotUndef".toList (some [.str n])

/-- the size part of `TupleType.Parameters`: nothing without a size, nothing for the default Tuple -/
def tupleSizeVals (noTypes : Bool) (sz : Option (Int × Int)) : List Val :=
  match sz with
  | none => []
  | some r => if noTypes ∧ r.1 = 0 ∧ r.2 = i64max then [] else sizeParams r.1 r.2

/-- `CallableType.Parameters`: the parameters of the Tuple (given without its `Unit` members), then the block type; with a
    return type the whole list becomes one array followed by the return type -/
def callableVal (tp : List Val) (blk ret : Option Val) : Val :=
  match ret with
  | some r => tname .callable [.arr (tp ++ blk.toList), r]
  | none => tname .callable (tp ++ blk.toList)

mutual
/-- the expression `Name` / `Name[p, …]` that `TypeToString` writes -/
def tyExpr : Ty → Val
  | .named n => .tyx n none
  | .int lo hi => tname .integer (intParams lo hi)
  | .float lo lot hi hit => tname .float (floatParams lo lot hi hit)
  | .strSz lo hi => tname .string (intParams lo hi)
  | .strVal _ => tname .string []                -- by specification prints as plain String
  | .bool none => tname .boolean []
  | .bool (some b) => tname .boolean [.bool b]
  | .enum vs ci => tname .enum (vs.map Val.str ++ (if ci then [.bool true] else []))
  | .regexp s => tname .regexp (if s.isEmpty then [] else [.regexp s])
  | .pattern srcs => tname .pattern (srcs.map Val.regexp)
  | .wrap k t =>
    if t.isAny then tname (.wrap k) []
    else
      match k, t with
      | .optional, .strVal s => tname (.wrap k) [.str s]
      | .notUndef, .strVal s => tname (.wrap k) [.str s]
      | _, _ => tname (.wrap k) [tyExpr t]
  | .variant ts => tname .variant (tyExprs ts)
  | .array t lo hi =>
    if t.isUnit ∧ lo = 0 ∧ hi = 0 then tname .array (sizeParams lo hi)
    else
      let el : List Val := if !t.isAny ∨ (lo = 0 ∧ hi = 0) then [tyExpr t] else []
      let sz : List Val := if lo = 0 ∧ hi = i64max then [] else sizeParams lo hi
      tname .array (el ++ sz)
  | .hash k v lo hi =>
    if k.isAny ∧ v.isAny ∧ lo = 0 ∧ hi = i64max then tname .hash []
    else if k.isUnit ∧ v.isUnit ∧ lo = 0 ∧ hi = 0 then tname .hash [.int 0, .int 0]
    else tname .hash (tyExpr k :: tyExpr v :: (if lo = 0 ∧ hi = i64max then [] else sizeParams lo hi))
  | .collection lo hi => tname .collection (if lo = 0 ∧ hi = i64max then [] else sizeParams lo hi)
  | .tuple ts sz =>
    tname .tuple (tyExprs ts ++
      (match sz with
       | none => []
       | some r => if ts.isEmpty ∧ r.1 = 0 ∧ r.2 = i64max then [] else sizeParams r.1 r.2))
  | .struct ms => tname .struct (if ms.isEmpty then [] else [.hash (tyMembers ms)])
  | .callable none ret blk => callableVal [] (tyExprOpt blk) (tyExprOpt ret)
  | .callable (some (ts, sz)) ret blk => callableVal (tyExprsNU ts ++ tupleSizeVals ts.isEmpty sz) (tyExprOpt blk) (tyExprOpt ret)
  | .runtime rt name pat =>
    -- `RuntimeType.Parameters`: nothing for the default Runtime only (since fix 1cd0d3f an empty runtime name is printed);
    -- the name is printed when it is not empty or a pattern follows (since fix f14f4ca)
    if rt.isEmpty ∧ name.isEmpty ∧ pat.isNone then tname .runtime []
    else
      tname .runtime (Val.str rt :: ((if name.isEmpty ∧ pat.isNone then [] else [Val.str name]) ++
        (match pat with
         | some src => [tname .regexp (if src.isEmpty then [] else [.regexp src])]
         | none => [])))
  | .typeRef s => tname .typeRef (if s = unresolvedRef then [] else [.str s])
def tyExprs : List Ty → List Val
  | [] => []
  | t :: ts => tyExpr t :: tyExprs ts
def tyExprOpt : Option Ty → Option Val
  | none => none
  | some t => some (tyExpr t)
/-- the member types of a Callable's parameter Tuple without the `Unit` members (`px.Select … !ok`) -/
def tyExprsNU : List Ty → List Val
  | [] => []
  | t :: ts => if t.isUnit then tyExprsNU ts else tyExpr t :: tyExprsNU ts
/-- `StructType.Parameters`: one hash entry per element -/
def tyMembers : List (Str × Bool × Ty) → List (Val × Val)
  | [] => []
  | (n, o, t) :: ms => (memberKey n o t.acceptsUndef, tyExpr t) :: tyMembers ms
end

/-- `T.String()` -/
def printTy (t : Ty) : Str := printVal (tyExpr t)

/-! ### resolution -/

/-- a resolved type argument -/
inductive Arg where
  | ty (t : Ty)
  | int (i : Int)
  | float (bits : Nat)
  | dflt
  | str (s : Str)
  | rx (s : Str)
  | bool (b : Bool)
  | arr (as : List Arg)
  | hash (es : List (Arg × Arg))
  | undef
  deriving Repr, Inhabited

/-- `NewIntegerType`: `min > max` is an illegal-arguments error -/
def newInt (lo hi : Int) : Option (Int × Int) := if lo > hi then none else some (lo, hi)

/-- `NewStringType(rng, "")` -/
def newStr (lo hi : Int) : Option Ty :=
  match newInt lo hi with
  | none => none
  | some _ =>
    let lo' := if lo < 0 then 0 else lo
    match newInt lo' hi with
    | none => none
    | some _ => if lo' = 0 ∧ hi = i64max then some tyString else some (.strSz lo' hi)

/-- a bound of `newFloatType2`: a Float value (`toFloat`: an Integer is refused) or `default` -/
def floatOr (d : Nat) : Arg → Option Nat
  | .float b => some b
  | .dflt => some d
  | _ => none

/-- `NewFloatType`; the text of a bound is what the implementation prints for it (`env.ff`), and is kept only for a
    bound that `FloatType.Parameters` prints -/
def newFloat (env : Env) (lo hi : Nat) : Option Ty :=
  if fkey lo > fkey hi then none
  else some (.float lo (if lo = fNegMax then [] else env.ff lo) hi (if hi = fPosMax then [] else env.ff hi))

def intOr (d : Int) : Arg → Option Int
  | .int i => some i
  | .dflt => some d
  | _ => none

/-- the two-argument size form shared by Array, Hash, Collection: each `default` or an integer -/
def sizes2 (a b : Arg) : Option (Int × Int) :=
  match intOr 0 a, intOr i64max b with
  | some lo, some hi => newInt lo hi
  | _, _ => none

/-- the one-argument size form: `Integer[lo, hi]` or an integer minimum -/
def sizes1 : Arg → Option (Int × Int)
  | .ty (.int lo hi) => some (lo, hi)
  | .int n => newInt n i64max
  | _ => none

/-- `strings.ToLower`: `unicode.ToLower` rune by rune (Go's simple case mapping over the table `unicode.CaseRanges`, regenerated
    from the Go standard library into `Generated/UnicodeCase.lean`) -/
def lowerStr (s : Str) : Str := s.map (Pcore.UnicodeCase.toLower Pcore.Generated.caseRanges)

/-- `newEnumType3`: the values and the case-insensitivity flag -/
def enumFlat : List Arg → Option (List Str × Bool)
  | [] => some ([], false)
  | [.bool b] => some ([], b)
  | .str s :: rest =>
    match rest with
    | [] => some ([s], false)
    | _ => (enumFlat rest).map fun r => (s :: r.1, r.2)
  | _ => none

def enumArgs (fuel : Nat) (args : List Arg) : Option (List Str × Bool) :=
  match fuel with
  | 0 => none
  | f + 1 =>
    match args with
    | [] => some ([], false)
    | [.str s] => some ([s], false)
    | [.arr as] => enumArgs f as
    | [_] => none
    | .arr as :: rest => enumFlat (as ++ rest)
    | _ => enumFlat args

/-- `NewEnumType` -/
def newEnum (vs : List Str) (ci : Bool) : Option Ty :=
  if vs.isEmpty then some (.enum [] false)
  else if ci then some (.enum (vs.map lowerStr) true)
  else some (.enum vs false)

/-- `newPatternType3` -/
def patOne (env : Env) : Arg → Option Str
  | .ty (.regexp s) => some s
  | .rx s => some s
  | .str s => if s.isEmpty then some [] else if env.rxOK s then some s else none
  | _ => none

def patArgs (env : Env) (fuel : Nat) (args : List Arg) : Option (List Str) :=
  match fuel with
  | 0 => none
  | f + 1 =>
    match args with
    | [.arr as] => patArgs env f as
    | _ => args.mapM (patOne env)

def argTy : Arg → Option Ty
  | .ty t => some t
  | _ => none

/-- `newVariantType3` -/
def variantArgs (fuel : Nat) (args : List Arg) : Option Ty :=
  match fuel with
  | 0 => none
  | f + 1 =>
    match args with
    | [] => some (.variant [])
    | [.ty t] => some t
    | [.arr as] => variantArgs f as
    | [_] => none
    | _ => (args.mapM argTy).map .variant

/-- `IntegerType.Parameters()` as arguments (the second argument of `Tuple[[T…], Integer[…]]`) -/
def intParamsA (lo hi : Int) : List Arg :=
  if lo = i64min then (if hi = i64max then [] else [.dflt, .int hi])
  else if hi = i64max then [.int lo] else [.int lo, .int hi]

/-- the end of `tupleFromArgs(false, …)`: the member types and the size -/
def tupleMk (tys : List Arg) (rng : Option (Int × Int)) : Option Ty :=
  match tys with
  | [] =>
    match rng with
    | none => some (.tuple [] (some (0, 0)))       -- no types, no size: the empty tuple
    | some r => some (.tuple [] (some r))
  | _ => (tys.mapM argTy).map fun ts => .tuple ts rng

/-- the head of `tupleFromArgs`: `Tuple[[T…]]` and `Tuple[[T…], Integer[…]]` are flattened -/
def tupleFlat (args : List Arg) : Option (List Arg) :=
  match args with
  | [.arr as] => some as
  | [.arr as, .ty (.int lo hi)] => some (as ++ intParamsA lo hi)
  | [.arr _, _] => none
  | l => some l

/-- the size analysis of `tupleFromArgs(false, …)` on the flattened arguments -/
def tupleBody (l : List Arg) : Option Ty :=
  match l.reverse with
  | [] => tupleMk [] none
  | last :: restRev =>
    -- a trailing `default` or non-negative integer is the maximum size
    let mx : Option Int :=
      match last with
      | .dflt => some i64max
      | .int n => if n ≥ 0 then some n else none
      | _ => none
    match mx with
    | none => tupleMk l none
    | some m =>
      match restRev with
      | [] => tupleMk [] (some (0, i64max))                 -- `Tuple[n]`: the minimum stays 0, the maximum is unbounded
      | .int mn :: tysRev => (newInt mn m).bind fun r => tupleMk tysRev.reverse (some r)
      | _ => (newInt m restRev.length).bind fun r => tupleMk restRev.reverse (some r)

/-- `tupleFromArgs(false, args)` -/
def tupleCreate (args : List Arg) : Option Ty := (tupleFlat args).bind tupleBody

def argDepth : Arg → Nat
  | .arr as => 1 + argsDepth as
  | _ => 0
where argsDepth : List Arg → Nat
  | [] => 0
  | a :: as => max (argDepth a) (argsDepth as)

/-- `NewStructElement(key, value)`: name and optionality of the key; `none` = illegal argument -/
def structKey (value : Ty) : Arg → Option (Str × Bool)
  | .str s => if s.isEmpty then none else some (s, value.acceptsUndef)      -- `stringValue`
  | .ty (.strVal s) => if s.isEmpty then none else some (s, false)          -- `*vcStringType`
  | .ty (.wrap .optional (.strVal s)) => if s.isEmpty then none else some (s, true)
  | .ty (.wrap .notUndef (.strVal s)) => if s.isEmpty then none else some (s, false)
  | _ => none

/-- the loop of `newStructType2` over the entries of the hash -/
def structMembers : List (Arg × Arg) → Option (List (Str × Bool × Ty))
  | [] => some []
  | (k, .ty t) :: es =>
    match structKey t k, structMembers es with
    | some (n, o), some ms => some ((n, o, t) :: ms)
    | _, _ => none
  | _ => none

/-- `newStructType2`: no argument or an empty hash is the default Struct; a single Array argument holds the arguments -/
def structArgs (fuel : Nat) (args : List Arg) : Option Ty :=
  match fuel with
  | 0 => none
  | f + 1 =>
    match args with
    | [] => some (.struct [])
    | [.arr as] => structArgs f as
    | [.hash es] => (structMembers es).map .struct
    | _ => none

/-! #### Callable -/

/-- a block type: `Callable` or `Optional[Callable]` -/
def Ty.isBlock : Ty → Bool
  | .callable _ _ _ => true
  | .wrap .optional (.callable _ _ _) => true
  | _ => false

def Arg.isBlock : Arg → Bool
  | .ty t => t.isBlock
  | _ => false

/-- the end of `tupleFromArgs(true, …)`: without member types a Callable's parameter Tuple holds one `Unit` (unless
    the size is `[0, 0]`) -/
def tupleMkC (tys : List Arg) (rng : Option (Int × Int)) : Option (List Ty × Option (Int × Int)) :=
  match tys with
  | [] =>
    match rng with
    | none => some ([tyUnit], none)
    | some r => if r.1 = 0 ∧ r.2 = 0 then some ([], some (0, 0)) else some ([tyUnit], some r)
  | _ => (tys.mapM argTy).map fun ts => (ts, rng)

/-- the size analysis of `tupleFromArgs(true, …)` on the flattened arguments (same as `tupleBody`, ending in `tupleMkC`) -/
def tupleBodyC (l : List Arg) : Option (List Ty × Option (Int × Int)) :=
  match l.reverse with
  | [] => tupleMkC [] none
  | last :: restRev =>
    let mx : Option Int :=
      match last with
      | .dflt => some i64max
      | .int n => if n ≥ 0 then some n else none
      | _ => none
    match mx with
    | none => tupleMkC l none
    | some m =>
      match restRev with
      | [] => tupleMkC [] (some (0, i64max))
      | .int mn :: tysRev => (newInt mn m).bind fun r => tupleMkC tysRev.reverse (some r)
      | _ => (newInt m restRev.length).bind fun r => tupleMkC restRev.reverse (some r)

/-- `tupleFromArgs(true, args)`: no arguments at all is the default Tuple -/
def tupleCreateC (args : List Arg) : Option (List Ty × Option (Int × Int)) :=
  match args with
  | [] => some ([], some (0, i64max))
  | _ => (tupleFlat args).bind tupleBodyC

/-- the `px.List` view of an argument (`first.(px.List)`): an Array, but also a String (its characters) and a Hash (its
    entries) — neither of which can hold anything `tupleFromArgs` accepts, so only their being EMPTY matters -/
def Arg.asList : Arg → Option (List Arg)
  | .arr as => some as
  | .str s => some (s.map fun c => Arg.str [c])
  | .hash es => some (es.map fun e => Arg.hash [e])
  | _ => none

/-- the first branch of `newCallableType3`: `Callable[Tuple[…], block, return]` -/
def callableTupleForm (args : List Arg) : Option Ty :=
  match args with
  | .ty (.tuple ts sz) :: rest =>
    match rest with
    | [] => some (.callable (some (ts, sz)) none none)
    | [b] => (argTy b).map fun bt => .callable (some (ts, sz)) none (some bt)
    | b :: r :: _ => (argTy r).map fun rt => .callable (some (ts, sz)) (some rt) (argTy b)   -- `ok` is that of the LAST assertion
  | _ => none

/-- the block type: the last argument when it is a `Callable` or an `Optional[Callable]` (`args.At(argc - 1)`; no argument:
    `undef`, no block) -/
def blockSplit (inner : List Arg) : Option Ty × List Arg :=
  match inner.reverse with
  | last :: restRev => if last.isBlock then (argTy last, restRev.reverse) else (none, inner)
  | [] => (none, inner)

/-- the end of `newCallableType3`: `NewCallableType(tupleFromArgs(true, args), rt, block)` -/
def callableFrom (rt : Option Ty) (inner : List Arg) : Option Ty :=
  (tupleCreateC (blockSplit inner).2).map fun tp => .callable (some tp) rt (blockSplit inner).1

/-- `[[params, block], return]`: with one or two arguments of which the first is a `px.List`, that list holds the
    arguments and the second argument (which must then be a type) is the return type -/
def callableSplit (args : List Arg) : Option (Option Ty × List Arg) :=
  match args with
  | [a] =>
    match a.asList with
    | some iv => some (none, iv)
    | none => some (none, args)
  | [a, b] =>
    match a.asList with
    | some iv =>
      match b with
      | .ty r => some (some r, iv)
      | _ => none
    | none => some (none, args)
  | _ => some (none, args)

/-- `newCallableType3` (at least one argument) -/
def callableCreate (args : List Arg) : Option Ty :=
  match callableTupleForm args with
  | some t => some t
  | none => (callableSplit args).bind fun p => callableFrom p.1 p.2

/-! #### Runtime, TypeReference -/

/-- `newRuntimeType2` / `NewRuntimeType` -/
def runtimeCreate (args : List Arg) : Option Ty :=
  let mk (rt name : Str) (pat : Option Str) : Option Ty :=
    if rt.isEmpty ∧ name.isEmpty ∧ pat.isNone then some (.runtime [] [] none)
    else if rt = "go".toList ∧ !name.isEmpty then none          -- GO_RUNTIME_TYPE_WITHOUT_GO_TYPE
    else some (.runtime rt name pat)
  match args with
  | [.str rt] => mk rt [] none
  | [.str rt, .str name] => mk rt name none
  | [.str rt, .str name, .ty (.regexp src)] => mk rt name (some src)
  | _ => none

/-- `newTypeReferenceType2` -/
def typeRefCreate (args : List Arg) : Option Ty :=
  match args with
  | [.str s] => some (.typeRef s)
  | _ => none

def wrapOf (k : WrapKind) (args : List Arg) : Option Ty :=
  match args with
  | [.ty t] => some (.wrap k t)
  | [.str s] =>
    if k = .optional ∨ k = .notUndef then some (.wrap k (if s.isEmpty then tyString else .strVal s)) else none
  | _ => none

/-- the positional creator of a core type -/
def createK (env : Env) (kd : TKind) (args : List Arg) : Option Ty :=
  let fuel := argDepth (.arr args) + 1
  match kd with
  | .integer =>
    match args with
    | [a] => (intOr i64min a).bind fun lo => (newInt lo i64max).map fun r => .int r.1 r.2
    | [a, b] => (intOr i64min a).bind fun lo => (intOr i64max b).bind fun hi => (newInt lo hi).map fun r => .int r.1 r.2
    | _ => none
  | .float =>
    match args with
    | [a] => (floatOr fNegMax a).bind fun lo => newFloat env lo fPosMax
    | [a, b] => (floatOr fNegMax a).bind fun lo => (floatOr fPosMax b).bind fun hi => newFloat env lo hi
    | _ => none
  | .string =>
    match args with
    | [.str s] => some (if s.isEmpty then tyString else .strVal s)
    | [.ty (.int lo hi)] => newStr lo hi
    | [.int m] => (newInt m i64max).bind fun _ => newStr m i64max
    | [.int a, .int b] => newStr a b
    | _ => none
  | .boolean =>
    match args with
    | [.bool b] => some (.bool (some b))
    | _ => none
  | .enum => (enumArgs fuel args).bind fun r => newEnum r.1 r.2
  | .regexp =>
    match args with
    | [.str s] => if s.isEmpty then some (.regexp []) else if env.rxOK s then some (.regexp s) else none
    | [.rx s] => some (.regexp s)
    | _ => none
  | .pattern => (patArgs env fuel args).map .pattern
  | .variant => variantArgs fuel args
  | .array =>
    let (el, sz) : Option Ty × List Arg :=
      match args with
      | .ty t :: rest => (some t, rest)
      | rest => (none, rest)
    let t := el.getD tyAny
    match sz with
    | [] => some (.array t 0 i64max)
    | [a] => (sizes1 a).map fun r => .array t r.1 r.2
    | [a, b] =>
      match intOr 0 a, intOr i64max b with
      | some lo, some hi =>
        if lo = 0 ∧ hi = 0 ∧ el.isNone then some (.array tyUnit 0 0)
        else (newInt lo hi).map fun r => .array t r.1 r.2
      | _, _ => none
    | _ => none
  | .hash =>
    if args.length = 1 ∨ args.length > 4 then none
    else
      match args with
      | .ty k :: rest =>
        match rest with
        | .ty v :: sz =>
          match sz with
          | [] => some (.hash k v 0 i64max)
          | [a] => (sizes1 a).map fun r => .hash k v r.1 r.2
          | [a, b] => (sizes2 a b).map fun r => .hash k v r.1 r.2
          | _ => none
        | _ => none
      | sz =>
        match sz with
        | [] => some (.hash tyAny tyAny 0 i64max)
        | [a, b] =>
          match intOr 0 a, intOr i64max b with
          | some lo, some hi =>
            if lo = 0 ∧ hi = 0 then some (.hash tyUnit tyUnit 0 0)
            else (newInt lo hi).map fun r => .hash tyAny tyAny r.1 r.2
          | _, _ => none
        | _ => some (.hash tyAny tyAny 0 i64max)     -- three or four size arguments: `switch` has no arm, the size stays nil
  | .collection =>
    match args with
    | [.dflt] => some (.collection 0 i64max)
    | [a] => (sizes1 a).map fun r => .collection r.1 r.2
    | [a, b] => (sizes2 a b).map fun r => .collection r.1 r.2
    | _ => none
  | .tuple => tupleCreate args
  | .struct => structArgs fuel args
  | .callable => callableCreate args
  | .runtime => runtimeCreate args
  | .typeRef => typeRefCreate args
  | .wrap k => wrapOf k args

/-- the second spellings of `coreTypes` (`Notundef`, `RegExp`, `Richdata`, …) -/
def spellings : List (Str × Str) :=
  [("Notundef", "NotUndef"), ("RegExp", "Regexp"), ("Richdata", "RichData"), ("Scalardata", "ScalarData"), ("Semver", "SemVer"),
   ("Semverrange", "SemVerRange"), ("SemverRange", "SemVerRange"), ("TimeSpan", "Timespan"), ("TimeStamp", "Timestamp"),
   ("Typealias", "TypeAlias"), ("Typereference", "TypeReference"), ("Typeset", "TypeSet"), ("Uri", "URI")].map
    fun p => (p.1.toList, p.2.toList)

/-- the name under which `coreTypes[n]` prints -/
def canonName (n : Str) : Str :=
  match spellings.find? fun p => p.1 == n with
  | some p => p.2
  | none => n

/-- core type names outside the fragment (they resolve to a type this model does not have) -/
def coreOther : List Str := ["Annotation", "Like", "TypeAlias"].map String.toList

/-- `ResolveWithParams(c, name, args)`; the parameters of an unknown name go to the creator of `TypeReference` (the type
    `Resolve` answers for it) -/
def create (env : Env) (n : Str) (args : List Arg) : Option Ty :=
  let c := canonName n
  match kindOf c with
  | some kd => createK env kd args
  | none =>
    if !plainNames.contains c ∧ !coreOther.contains c ∧ env.unknown n then typeRefCreate args else none

/-- the default type of a parameterized core type -/
def defaultOf : TKind → Ty
  | .integer => .int i64min i64max
  | .float => .float fNegMax [] fPosMax []
  | .string => tyString
  | .boolean => .bool none
  | .enum => .enum [] false
  | .regexp => .regexp []
  | .pattern => .pattern []
  | .variant => .variant []
  | .array => .array tyAny 0 i64max
  | .hash => .hash tyAny tyAny 0 i64max
  | .collection => .collection 0 i64max
  | .tuple => .tuple [] (some (0, i64max))
  | .struct => .struct []
  | .callable => .callable none none none
  | .runtime => .runtime [] [] none
  | .typeRef => .typeRef unresolvedRef
  | .wrap k => .wrap k tyAny

/-- `Resolve(c, name)` for a bare name: the default type of that name; a name that is neither a core type nor loadable is a
    `TypeReference` (`loadType`).  `none`: a core type outside the fragment, or a name the loader may know. -/
def resolveName (env : Env) (n : Str) : Option Ty :=
  let c := canonName n
  match kindOf c with
  | some kd => some (defaultOf kd)
  | none =>
    if plainNames.contains c then some (.named c)
    else if !coreOther.contains c ∧ env.unknown n then some (.typeRef n)
    else none

mutual
/-- `DeferredType.Resolve` -/
def resolve (env : Env) : Expr → Option Ty
  | .dtype n none => resolveName env n
  | .dtype n (some ps) => (resolveArgs env ps).bind fun args => create env n args
  | _ => none
/-- `resolveValue` on a type argument -/
def resolveArg (env : Env) : Expr → Option Arg
  | .dtype n ps => (resolve env (.dtype n ps)).map .ty
  | .int i => some (.int i)
  | .float b => some (.float b)
  | .dflt => some .dflt
  | .str s => some (.str s)
  | .regexp s => some (.rx s)
  | .bool b => some (.bool b)
  | .undef => some .undef
  | .arr es => (resolveArgs env es).map .arr
  | .hash es => (resolveEntries env es).map .hash
  | _ => none
def resolveArgs (env : Env) : List Expr → Option (List Arg)
  | [] => some []
  | e :: es => (resolveArg env e).bind fun a => (resolveArgs env es).map fun as => a :: as
/-- `resolveEntry` over the entries of a hash argument -/
def resolveEntries (env : Env) : List (Expr × Expr) → Option (List (Arg × Arg))
  | [] => some []
  | (k, v) :: es =>
    (resolveArg env k).bind fun a => (resolveArg env v).bind fun b => (resolveEntries env es).map fun r => (a, b) :: r
end

/-- `Context.ParseType(text)` on the fragment -/
def parseType (env : Env) (inp : List Sym) : Option Ty :=
  match parse env inp with
  | .value e => resolve env e
  | _ => none

end Pcore.Syntax
