import Pcore.Model.DispatchCtors
/-!
# The constructors of Float and Numeric on the driver's alphabet (property C16, `new`)

Core Lean only.

| Go                                                                        | Lean                       |
|---------------------------------------------------------------------------|----------------------------|
| types/floattype.go `newGoConstructor2("Float", …)` (positional, then NamedArgs) | `floatCtor`          |
| types/numerictype.go `newGoConstructor2("Numeric", …)` (NamedArgs, then positional) | `numericCtor`    |
| types/numerictype.go `fromConvertible(c, allowInt)`                       | `fromConvertible`          |
| types/numerictype.go `numberFromPositionalArgs` / `numberFromNamedArgs`   | `numberBody` (the two ways of finding `from` and `abs`: `numberPositional`, `numberNamed`) |
| types/integertype.go `integerValue.Abs`, types/floattype.go `floatValue.Abs` | `absInt true`, `F64.abs` |
| `strconv.ParseInt(s, 0, 64)`                                              | `Pcore.Syntax.parseInt` (Model/Num.lean; modelled) |
| `strconv.ParseFloat(s, 64)`                                               | the PARAMETER `pf` (bits of the result, `none` = an error, syntax or range); the driver instantiates it with the exact reader `Pcore.Syntax.parseFloat` |
| `strconv.ParseInt(s[2:], 2, 64)` (the `0b` fall-back)                     | `parseInt · 2` (Model/DispatchCtors.lean) |

Quirks reproduced
* `Convertible` admits a string only through `Pattern[/FloatPattern/]` = sign, blanks, then a decimal float without leading
  zeroes, `0x…`, `0[0-7]+` or `0b…`.  The body hands the WHOLE string to strconv: blanks after the sign pass the pattern
  and are refused by every strconv reader (`ILLEGAL_ARGUMENTS` raised by `fromConvertible`, not by the dispatch).
* `Numeric.new` tries `ParseInt(s, 0, 64)` first: `'0x1F'` is 31, `'0b11'` is 3, `'0777'` is 511 (octal); a decimal beyond
  int64 falls through to `ParseFloat` and comes out as a float.  `Float.new` only has `ParseFloat`: `'0777'` is 777.0 (decimal)
  and the hexadecimal and binary forms the pattern lets through are refused (`ParseFloat` wants a `p` exponent after a
  hexadecimal mantissa) — `ILLEGAL_ARGUMENTS`.
* the `0b` fall-back of `fromConvertible` predates `ParseInt`'s own `0b`: it is reached only when `ParseInt(s, 0, 64)`
  failed on a `0b` string, i.e. on a range error, and then fails as well.
* `abs` of the minimum integer stays negative (`-n` wraps); `abs` of `-0.0` stays `-0.0` and of NaN stays NaN (`f < 0` is false).
* a NaN result passes the constructor but is an instance of no Float type (`min <= NaN` is false): `Float.new(NaN)` is
  `TYPE_MISMATCH`, `Numeric.new(NaN)` is NaN (`NumericType.IsInstance` looks at the value's type only).
* the underscore rule of `ParseInt` with base 0 (`1_000`) is not modelled: `FloatPattern` admits no underscore.
* a Timespan converts to its seconds as a float (`Timespan.Float()` = `float64(ns) / 1e9`) for Numeric as well;
  `Timestamp` in `Convertible` has no value in the alphabet: it is written `never`.
-/
namespace Pcore.Dispatch.Alpha

section
variable (pf : List Char → Option Nat)

/-- `if len(s) > 2 && s[0] == '0' && (s[1] == 'b' || s[1] == 'B') { strconv.ParseInt(s[2:], 2, 64) }` -/
def binFallback : List Char → Option Int
  | '0' :: x :: y :: more => if x = 'b' || x = 'B' then parseInt (y :: more) 2 else none
  | _ => none

/-- `fromConvertible`: what is not a number, a boolean or a convertible string falls out of the switch into
    `panic(illegalArguments(…))` — a reported error, never a fault -/
def fromConvertible (c : Val) (allowInt : Bool) : CtorResult Val :=
  match c with
  | .int n => .value (if allowInt then .int n else .float (F64.ofInt n))
  | .bool b => .value (if allowInt then .int (if b then 1 else 0) else .float (if b then F64.one else F64.zero))
  | .float b => .value (.float b)
  | .timespan ns => .value (.float (F64.spanFloat ns))
  | .str s =>
    let cs := s.toList
    match (if allowInt then Pcore.Syntax.parseInt cs else none) with
    | some i => .value (.int i)
    | none =>
      match pf cs with
      | some f => .value (.float f)
      | none =>
        match (if allowInt then binFallback cs else none) with
        | some i => .value (.int i)
        | none => .reported "ILLEGAL_ARGUMENTS"
  | _ => .reported "ILLEGAL_ARGUMENTS"

/-- the common part of `numberFromPositionalArgs` and `numberFromNamedArgs`: `from` is converted first, then the `abs`
    argument — when there is one — is asserted to be a boolean (`.(booleanValue)`: fault otherwise) and applied
    (`n.(integerValue)` or else `n.(floatValue)`: a number of another kind would be a fault) -/
def numberBody (from_ : Val) (abs : Option Val) (tryInt : Bool) : CtorResult Val :=
  match fromConvertible pf from_ tryInt with
  | .value n =>
    (match abs with
     | none => .value n
     | some a => match asBool a with
       | none => .fault
       | some false => .value n
       | some true => match n with
         | .int i => .value (.int (absInt true i))
         | .float b => .value (.float (F64.abs b))
         | _ => .fault)
  | other => other

/-- `numberFromPositionalArgs(args, tryInt)`; `none` is `args[0]` of an empty list -/
def numberPositional (args : List Val) (tryInt : Bool) : CtorResult Val :=
  match args with
  | a0 :: rest => numberBody pf a0 rest.head? tryInt
  | [] => .fault

/-- `numberFromNamedArgs(args, tryInt)`: `args[0].(*Hash)`, `h.Get5("from", undef)`, `h.Get5("abs", nil)` -/
def numberNamed (args : List Val) (tryInt : Bool) : CtorResult Val :=
  match args with
  | .hash es :: _ => numberBody pf ((lookupKey "from" es).getD .undef) (lookupKey "abs" es) tryInt
  | _ => .fault

def convertibleF : Ty := .var [.numeric, .bool, .floatPat, anyTimespan, .never]
def namedArgsF : Ty := .struct [("from", false, convertibleF), ("abs", true, .bool)]

def floatCtor : Ctor where
  creators :=
    [ { ops := [.param convertibleF, .optional .bool], kind := .fn },
      { ops := [.param namedArgsF], kind := .fn } ]
  body := fun i args =>
    match i with
    | 0 => numberPositional pf args false
    | 1 => numberNamed pf args false
    | _ => .fault

def numericCtor : Ctor where
  creators :=
    [ { ops := [.param namedArgsF], kind := .fn },
      { ops := [.param convertibleF, .optional .bool], kind := .fn } ]
  body := fun i args =>
    match i with
    | 0 => numberNamed pf args true
    | 1 => numberPositional pf args true
    | _ => .fault

end

end Pcore.Dispatch.Alpha
