import Pcore.Model.DescribeText
set_option linter.unusedSimpArgs false
/-!
  The argument-error description of a call that fits none of a set of SIGNATURES (property C19):
  `describeSignatures`, `describeSignatureArguments`, `describeSignatureBlock` of /repo/internal/typemismatchdescriber.go — the
  structure of what `px.DescribeSignatures(signatures, argsTuple, block)` prints, for signatures whose parameter types are lattice
  terms, without a block (`block == nil`) or with one (`blk = some signature of the lambda`).
  Core Lean only.

  Go → Lean
    px.Signature (ParametersType().(*TupleType): Types(), Size(); ParameterNames(); BlockType())   → `Sig` (`params = none`: the
        default Callable, whose ParametersType() is nil — the type assertion faults: `SFault.nilParams`)
    describeSignatureArguments   → `sigArguments` (`aSize` stays nil for an argument type that is neither Tuple nor Array: the nil
        *IntegerType reaches IntegerType.IsAssignable, which dereferences it: `SFault.nilSize`; `eTypes[ex]` with `eLast = -1`:
        `SFault.paramIndex`; `eNames[ex]`: `SFault.nameIndex`; the first parameter whose description is not empty ends the loop)
    describeSignatureBlock       → `sigBlock` (aBlock == nil: a block type that does not accept Undef is a missing required block; a block
        given: no block type → unexpectedBlock, else `describe(eBlock, aBlock.Signature(), path + block 'block')`: the generic `describe` on Callable terms)
    describeSignatures           → `describeSignatures`: argument errors per signature; block errors unless every signature has argument
        errors (all have block errors: they replace the argument errors; some: they fill the signatures without argument errors);
        with more than one signature in error and ONE argument that is a Struct, only the single signature whose first parameter is
        a Struct is kept; `mergeDescriptions(0, countMismatchClass, …)`; one mismatch left → it alone is printed (`single`), else the
        listing of every (remaining) signature with its errors, each with its `signature` path element chopped (`listing`)
-/
namespace Pcore.Desc
open Pcore.Lat

structure Sig where
  params : Option (List Ty × Rng)     -- ParametersType(): the types and the size of the parameter tuple
  names : List String                 -- ParameterNames()
  block : Option Ty                   -- BlockType(): Callable[…] or Optional[Callable[…]]
  deriving Repr, Inhabited

inductive SFault where
  | desc (k : Fault)   -- a fault of `describe` itself
  | nilParams | nilSize | paramIndex | nameIndex
  deriving DecidableEq, Repr

inductive SRes where
  | fault (k : SFault)
  | empty                                  -- no signature at all: the empty string
  | single (m : Mismatch)
  | listing (per : List (List Mismatch))
  deriving Repr, Inhabited

/-- result of describeSignatureArguments -/
inductive ARes where
  | ok (ms : List Mismatch)
  | fault (k : SFault)
  deriving Repr, Inhabited

section
variable (cfg : Cfg) (sfh : Bool)

/-- the loop over the argument types: `ax` counts, `ex = min(ax, eLast)` -/
def sigArgLoop (eTypes : List Ty) (eNames : List String) (path : Path) : List Ty → Nat → ARes
  | [], _ => .ok []
  | aType :: rest, ax =>
    match eTypes.getLast? with
    | none => .fault .paramIndex                       -- eLast = -1: eTypes[-1]
    | some last =>
      let ex := min ax (eTypes.length - 1)
      let eType := (eTypes[ex]?).getD last
      if asg cfg sfh eType aType then sigArgLoop eTypes eNames path rest (ax + 1)
      else
        match eNames[ex]? with
        | none => .fault .nameIndex
        | some name =>
          match describe cfg sfh eType aType (path ++ [⟨.parameter, name⟩]) with
          | .fault k => .fault (.desc k)
          | .ok [] => sigArgLoop eTypes eNames path rest (ax + 1)
          | .ok ds => .ok ds

/-- `describeSignatureArguments(signature, args, path)` -/
def sigArguments (sg : Sig) (args : Ty) (path : Path) : ARes :=
  match sg.params with
  | none => .fault .nilParams
  | some (eTypes, eSize) =>
    match (match args with
           | .tuple ts g => some (tupleSize ts g, ts)
           | .array e r => some (r, List.replicate r.lo.toNat e)
           | _ => none) with
    | none => .fault .nilSize
    | some (aSize, aTypes) =>
      if eSize.sub aSize then sigArgLoop cfg sfh eTypes sg.names path aTypes 0
      else .ok [.countMismatch path eSize aSize]

/-- `describeSignatureBlock(signature, aBlock, path)` -/
def sigBlock (sg : Sig) (blk : Option Ty) (path : Path) : Res :=
  match blk with
  | none =>
      (match sg.block with
       | none => .ok []
       | some eb => if asg cfg sfh eb .undef then .ok [] else .ok [.missingRequiredBlock path])
  | some ab =>
      (match sg.block with
       | none => .ok [.unexpectedBlock path]
       | some eb => describe cfg sfh eb ab (path ++ [⟨.block, "block"⟩]))

def sigPath (ix : Nat) : Path := [PE.nat .signature ix]

/-- argument errors of every signature, in order (the first fault wins) -/
def sigAllArgs (args : Ty) : List Sig → Nat → Except SFault (List (List Mismatch))
  | [], _ => .ok []
  | sg :: rest, ix =>
    match sigArguments cfg sfh sg args (sigPath ix) with
    | .fault k => .error k
    | .ok ae =>
      match sigAllArgs args rest (ix + 1) with
      | .error k => .error k
      | .ok more => .ok (ae :: more)

def sigAllBlocks (blk : Option Ty) : List Sig → Nat → Except SFault (List (List Mismatch))
  | [], _ => .ok []
  | sg :: rest, ix =>
    match sigBlock cfg sfh sg blk (sigPath ix) with
    | .fault k => .error (.desc k)
    | .ok be =>
      match sigAllBlocks blk rest (ix + 1) with
      | .error k => .error k
      | .ok more => .ok (be :: more)

/-- "the argsTuple is of size one and the argument is a Struct" -/
def argIsOneStruct : Ty → Bool
  | .tuple [.struct _] _ => true
  | .array (.struct _) r => r.hi == 1
  | _ => false

/-- the index of the single signature in error whose first parameter is a Struct (and which can take one argument) -/
def structSig : List (Sig × List Mismatch) → Nat → Option Nat → Option (Option Nat)
  -- result: none = "multiple struct args, break out"; some r = r after the loop
  | [], _, acc => some acc
  | (sg, ae) :: rest, ix, acc =>
    if ae.isEmpty then structSig rest (ix + 1) acc else
    match sg.params with
    | some (.struct _ :: _, size) =>
        if size.lo ≤ 1 then
          (match acc with
           | some _ => none
           | none => structSig rest (ix + 1) (some ix))
        else structSig rest (ix + 1) acc
    | _ => structSig rest (ix + 1) acc

/-- the block errors: skipped when every signature has argument errors; they replace the argument errors when every signature has
    one, else they fill in for the signatures without argument errors -/
def sigWithBlocks (blockArrays argErrs : List (List Mismatch)) : List (List Mismatch) :=
  let bc := (blockArrays.filter fun ae => !ae.isEmpty).length
  if bc == blockArrays.length then blockArrays
  else if bc > 0 then (argErrs.zip blockArrays).map fun (ea, ba) => if ea.isEmpty then ba else ea
  else argErrs

/-- "skip the positional signature" when the one argument is a Struct and exactly one signature in error takes a Struct first -/
def sigStrip (sigs : List Sig) (args : Ty) (ne : Nat) (errorArrays : List (List Mismatch)) : List (List Mismatch) :=
  if ne > 1 && argIsOneStruct args then
    match structSig (sigs.zip errorArrays) 0 none with
    | some (some ix) => (errorArrays.drop ix).take 1
    | _ => errorArrays
  else errorArrays

/-- merge; one mismatch left → it alone, else the listing -/
def sigFinish (errorArrays : List (List Mismatch)) : SRes :=
  match mergeDescriptions 0 .count errorArrays.flatten with
  | .fault k => .fault (.desc k)
  | .ok [e] => .single e
  | .ok _ => .listing (errorArrays.map fun ea => ea.map fun e => chopPath e 0)

/-- `describeSignatures(signatures, argsTuple, block)` -/
def describeSignatures (sigs : List Sig) (args : Ty) (blk : Option Ty) : SRes :=
  match sigAllArgs cfg sfh args sigs 0 with
  | .error k => .fault k
  | .ok argErrs =>
    let ne := (argErrs.filter fun ae => !ae.isEmpty).length
    -- "skip block checks if all signatures have argument errors"
    match (if argErrs.all (fun ae => !ae.isEmpty) then Except.ok argErrs
           else (sigAllBlocks cfg sfh blk sigs 0).map fun blockArrays => sigWithBlocks blockArrays argErrs) with
    | .error k => .fault k
    | .ok errorArrays =>
      if errorArrays.isEmpty then .empty else sigFinish (sigStrip sigs args ne errorArrays)

end
end Pcore.Desc
