import Pcore.Model.Parse
/-!
# Program-format printing of literal values

Core Lean only.

"Program format" is the format context `NewFormatContext(Any, NewFormat("%p"), DefaultIndentation)` (DESIGN §4 C05; not the
exported `types.Program`).

Code ↔ model map
* `types/undeftype.go, defaulttype.go, booleantype.go ToString`  → `undef`, `default`, `true`/`false`
* `types/integertype.go integerValue.ToString %p`                 → `intText`
* `types/floattype.go floatValue.ToString %p`                     → the `text` carried by `Val.float` (decimal float
  rendering is a parameter, DESIGN §3.4: the harness supplies what the implementation prints)
* `types/stringtype.go stringValue.ToString %p` → `ApplyStringFlags(quoted)` → `PuppetQuote` → `puppetQuote`
* `types/regexptype.go Regexp.ToString` → `RegexpQuote`            → `regexpQuote`
* `types/arraytype.go Array.ToString` (`%p`, not alt: `[`, elements separated by `, `, `]`)       → `printVal (.arr _)`
* `types/hashtype.go Hash.ToString` (`%p`, not alt: `{`, `k => v` separated by `, `, `}`)          → `printVal (.hash _)`
* `types/types.go TypeToString / basicTypeToString` (name, then `Parameters()` rendered as an array in the subsequent
  context: `[`, `, `, `]`)                                                                            → `printVal (.tyx _ _)`
* `types/objecttype.go ObjectToString` (type name, then the init hash with the `(` delimiter: `Name(`, `k => v` separated
  by `, `, `)`) — the WRITTEN form of an object instance; which attributes the init hash holds (`makeValueHash`) and what
  `new` makes of the parsed call are the business of the Object model (C17)                           → `printVal (.obj _ _)`
-/
namespace Pcore.Syntax

/-- literal values (types and object instances are added by the type fragment) -/
inductive Val where
  | undef | dflt
  | bool (b : Bool)
  | int (i : Int)
  | float (bits : Nat) (text : Str)
  | str (s : Str)
  | regexp (s : Str)
  | arr (vs : List Val)
  | hash (es : List (Val × Val))
  | tyx (name : Str) (params : Option (List Val))   -- a type expression: `Name` or `Name[p, …]` (see Model/Types.lean)
  | obj (name : Str) (init : List (Val × Val))      -- an object instance as it is written: `Name('attr' => v, …)`
  deriving Repr, Inhabited

mutual
def printVal : Val → Str
  | .undef => "undef".toList
  | .dflt => "default".toList
  | .bool b => if b then "true".toList else "false".toList
  | .int i => intText i
  | .float _ t => t
  | .str s => puppetQuote s
  | .regexp s => regexpQuote s
  | .arr vs => '[' :: (printVals vs ++ [']'])
  | .hash es => '{' :: (printEntries es ++ ['}'])
  | .tyx n none => n
  | .tyx n (some ps) => n ++ ('[' :: (printVals ps ++ [']']))
  | .obj n es => n ++ ('(' :: (printEntries es ++ [')']))
def printVals : List Val → Str
  | [] => []
  | [v] => printVal v
  | v :: w :: vs => printVal v ++ (',' :: ' ' :: printVals (w :: vs))
def printEntries : List (Val × Val) → Str
  | [] => []
  | [(k, v)] => printVal k ++ (" => ".toList ++ printVal v)
  | (k, v) :: e :: es => printVal k ++ (" => ".toList ++ printVal v) ++ (',' :: ' ' :: printEntries (e :: es))
end

mutual
/-- the expression a value should parse back to -/
def exprOf : Val → Expr
  | .undef => .undef
  | .dflt => .dflt
  | .bool b => .bool b
  | .int i => .int i
  | .float b _ => .float b
  | .str s => .str s
  | .regexp s => .regexp s
  | .arr vs => .arr (exprsOf vs)
  | .hash es => .hash (entriesOf es)
  | .tyx n none => .dtype n none
  | .tyx n (some ps) => .dtype n (some (exprsOf ps))
  | .obj n [] => .call (some "new".toList) [.str n]
  | .obj n (e :: es) => .call (some "new".toList) [.str n, .hash (entriesOf (e :: es))]
def exprsOf : List Val → List Expr
  | [] => []
  | v :: vs => exprOf v :: exprsOf vs
def entriesOf : List (Val × Val) → List (Expr × Expr)
  | [] => []
  | (k, v) :: es => (exprOf k, exprOf v) :: entriesOf es
end

mutual
/-- structural equality of parse results (`deriving DecidableEq` does not handle the nested lists) -/
def Expr.beq : Expr → Expr → Bool
  | .undef, .undef => true
  | .dflt, .dflt => true
  | .bool a, .bool b => a == b
  | .int a, .int b => a == b
  | .float a, .float b => a == b
  | .str a, .str b => a == b
  | .regexp a, .regexp b => a == b
  | .arr a, .arr b => Expr.beqList a b
  | .hash a, .hash b => Expr.beqPairs a b
  | .entry k v, .entry k' v' => Expr.beq k k' && Expr.beq v v'
  | .dtype n none, .dtype m none => n == m
  | .dtype n (some p), .dtype m (some q) => n == m && Expr.beqList p q
  | .call n a, .call m b => n == m && Expr.beqList a b
  | .named k n, .named j m => k == j && n == m
  | _, _ => false
def Expr.beqList : List Expr → List Expr → Bool
  | [], [] => true
  | a :: as, b :: bs => Expr.beq a b && Expr.beqList as bs
  | _, _ => false
def Expr.beqPairs : List (Expr × Expr) → List (Expr × Expr) → Bool
  | [], [] => true
  | (a, b) :: as, (c, d) :: bs => Expr.beq a c && Expr.beq b d && Expr.beqPairs as bs
  | _, _ => false
end

end Pcore.Syntax
