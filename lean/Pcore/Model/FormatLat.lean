/-
  C20 model — format maps keyed by ARBITRARY (parameterised) types: the key system and key order of the lattice model.

    px.GetFormat: px.IsAssignable(key, v.PType())      → `latKeys.acc`  = `Lat.asg key (Lat.ptype v)`  (Model/LatticeAsg.lean,
                                                          Model/LatticeInst.lean: the mirror of the IsAssignable / PType methods
                                                          that C01–C04 are about)
    mergeFormats: IsAssignable / Equals between keys  → `latOrd.sub` = `Lat.asg`, `latOrd.eqv` = `Lat.tyEq`
    typeRank                                          → `tyRank`
    Type.String() of a key                            → carried by the key (`LKey.name`): the type printer is C05's business
    HashEntry.PType() = Array[commonType(k, v), 2, 2] → the entry is the array `[k, v]` (`XEntry.arr`), whose `ptype` is that type

  Values: the kinds the lattice model has values of (Undef, Default, Boolean, Integer, String, Regexp, Binary, Timespan, Sensitive,
  Array, Hash); floats (whose rendering needs fmt's digits anyway), SemVer, SemVerRange, URI, Timestamp, Type values and object
  instances have no lattice value here: no key accepts them (`XVal.toLat = none`; the driver answers out-of-model).
  Core-only file (linked into the driver).
-/
import Pcore.Model.FormatMergeG
import Pcore.Model.LatticeInst
namespace Pcore.Format

/-- a key type of a format map: its lattice term and its `String()` -/
structure LKey where
  ty : Pcore.Lat.Ty
  name : String

mutual
def XVal.toLat : XVal → Option Pcore.Lat.Val
  | .undef => some .undef
  | .dflt => some .dflt
  | .bool b => some (.bool b)
  | .int i => some (.int i)
  | .str s => some (.str (String.ofList s))
  | .regexp s => some (.regexp (String.ofList s))
  | .binary bs _ => some (.binary (bs.map UInt8.ofNat))
  | .tspan ns => some (.tspan ns)
  | .sensitive v => (XVal.toLat v).map .sensitive
  | .array vs => (XVal.toLatL vs).map .array
  | .hash es => (XEntry.toLatL es).map .hash
  | .float _ | .semver _ | .semverRange _ _ | .uri _ | .tstamp _ | .typ _ _ | .obj _ _ | .talias _ _ | .otype _ _ | .otypeX _ _ => none
def XVal.toLatL : List XVal → Option (List Pcore.Lat.Val)
  | [] => some []
  | v :: vs =>
    match XVal.toLat v, XVal.toLatL vs with
    | some a, some as => some (a :: as)
    | _, _ => none
def XEntry.toLatL : List XEntry → Option (List (Pcore.Lat.Val × Pcore.Lat.Val))
  | [] => some []
  | .mk k v :: es =>
    match XVal.toLat k, XVal.toLat v, XEntry.toLatL es with
    | some a, some b, some r => some ((a, b) :: r)
    | _, _, _ => none
end

/-- `typeRank` (types/format.go) -/
def tyRank : Pcore.Lat.Ty → Nat
  | .numeric | .int _ | .float _ _ => 13
  | .str | .strSz _ | .strVal _ => 12
  | .enum _ _ => 11
  | .pattern _ => 10
  | .array _ _ => 4
  | .tuple _ _ => 3
  | .hash _ _ _ => 2
  | .struct _ => 1
  | _ => 0

/-- the default type a key of the default tables stands for, as a term of the lattice model -/
def Key.latTy : Key → Pcore.Lat.Ty
  | .any => .any | .scalar => .scalar | .numeric => .numeric | .int => .int Pcore.Lat.Rng.all | .float => Pcore.Lat.floatAll | .str => .str
  | .bool => .bool none | .bin => .bin | .arr => .array .any Pcore.Lat.Rng.pos | .hash => .hash .any .any Pcore.Lat.Rng.pos
  | .coll => .coll Pcore.Lat.Rng.pos
  | .undef => .undef | .dflt => .dflt | .regexp => .regexp "" | .obj => .object none | .typ => .typ .any

section
variable (cfg : Pcore.Lat.Cfg) (sfh : Bool)

def latKeys : KeySys LKey :=
  { acc := fun k v =>
      match XVal.toLat v with
      | some lv => Pcore.Lat.asg cfg sfh k.ty (Pcore.Lat.ptype cfg sfh lv)
      | none => false,
    dflt := fun k => ⟨Key.latTy k, k.name⟩ }

def latOrd : KeyOrd LKey :=
  { sub := fun a b => Pcore.Lat.asg cfg sfh a.ty b.ty,
    eqv := fun a b => Pcore.Lat.tyEq a.ty b.ty,
    rank := fun a => tyRank a.ty,
    name := LKey.name }

/-- `px.ToString2(v, px.NewFormatContext2(DefaultIndentation, m, nil))` with a map keyed by arbitrary types -/
def formatLat (io : FloatIO) (m : GMap LKey) (v : XVal) : Res := formatX (latKeys cfg sfh) io m v

/-- `new(String, v, {Type => format, …})`: the user's map merged with `DefaultFormats` -/
def formatLatMerged (io : FloatIO) (user : GMap LKey) (v : XVal) : Res :=
  formatX (latKeys cfg sfh) io (contextMapG (latOrd cfg sfh) (latKeys cfg sfh).dflt user) v

end
end Pcore.Format
