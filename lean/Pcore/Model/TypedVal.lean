import Pcore.Model.Types
/-!
# Literal values that hold types

Core Lean only.

`Model/Print.lean` has the literal values as they are WRITTEN (`Val`, with `tyx` = a type expression).  The property speaks
of values that HOLD types (`[Integer[1, 2], {String => Optional['x']}]`): printing writes each held type as `T.String()`
does, parsing yields DeferredTypes in those places, and `types.ResolveDeferred` turns them back into types.

Code ↔ model map
* a `px.Value` built from undef, default, booleans, integers, floats, strings, regexps, arrays, hashes and TYPES → `TVal`
* `px.ToString2(v, <program format>)` (a held type is written by `TypeToString`, same text as `T.String()`)  → `printVal ∘ TVal.toVal`
* `types.ResolveDeferred(c, parsed, …)` → `resolveDeferred` → `DeferredType.Resolve`, recursively through arrays and
  hashes (keys and values)                                                                                   → `resolveV`
-/
namespace Pcore.Syntax

inductive TVal where
  | undef | dflt
  | bool (b : Bool)
  | int (i : Int)
  | float (bits : Nat) (text : Str)
  | str (s : Str)
  | regexp (s : Str)
  | arr (vs : List TVal)
  | hash (es : List (TVal × TVal))
  | ty (t : Ty)
  deriving Repr, Inhabited

mutual
/-- the value as it is written -/
def TVal.toVal : TVal → Val
  | .undef => .undef
  | .dflt => .dflt
  | .bool b => .bool b
  | .int i => .int i
  | .float b t => .float b t
  | .str s => .str s
  | .regexp s => .regexp s
  | .arr vs => .arr (TVal.toVals vs)
  | .hash es => .hash (TVal.toEntries es)
  | .ty t => tyExpr t
def TVal.toVals : List TVal → List Val
  | [] => []
  | v :: vs => TVal.toVal v :: TVal.toVals vs
def TVal.toEntries : List (TVal × TVal) → List (Val × Val)
  | [] => []
  | (k, v) :: es => (TVal.toVal k, TVal.toVal v) :: TVal.toEntries es
end

/-- program-format text of a value that holds types -/
def printTVal (v : TVal) : Str := printVal v.toVal

mutual
/-- `types.ResolveDeferred` on a parse result: every DeferredType becomes the type it denotes.  A float leaf gets back the
    text the implementation prints for it (`env.ff`), as for the bounds of Float types.  `none`: a type expression that does
    not resolve, or a constructor call (`Deferred`, outside the model). -/
def resolveV (env : Env) : Expr → Option TVal
  | .undef => some .undef
  | .dflt => some .dflt
  | .bool b => some (.bool b)
  | .int i => some (.int i)
  | .float b => some (.float b (env.ff b))
  | .str s => some (.str s)
  | .regexp s => some (.regexp s)
  | .arr es => (resolveVs env es).map .arr
  | .hash es => (resolveVEs env es).map .hash
  | .dtype n none => (resolveName env n).map .ty
  | .dtype n (some ps) => ((resolveArgs env ps).bind fun args => create env n args).map .ty
  | _ => none
def resolveVs (env : Env) : List Expr → Option (List TVal)
  | [] => some []
  | e :: es => (resolveV env e).bind fun a => (resolveVs env es).map fun as => a :: as
def resolveVEs (env : Env) : List (Expr × Expr) → Option (List (TVal × TVal))
  | [] => some []
  | (k, v) :: es =>
    (resolveV env k).bind fun a => (resolveV env v).bind fun b => (resolveVEs env es).map fun r => (a, b) :: r
end

mutual
/-- equality of values as the implementation has it (`px.Equals`): structural, types by `Ty.eqGo`; floats by their bits -/
def TVal.eqGo : TVal → TVal → Bool
  | .undef, .undef => true
  | .dflt, .dflt => true
  | .bool a, .bool b => a == b
  | .int a, .int b => a == b
  | .float a _, .float b _ => a == b
  | .str a, .str b => a == b
  | .regexp a, .regexp b => a == b
  | .arr a, .arr b => TVal.eqGoL a b
  | .hash a, .hash b => TVal.eqGoE a b
  | .ty a, .ty b => Ty.eqGo a b && Ty.eqGo b a
  | _, _ => false
def TVal.eqGoL : List TVal → List TVal → Bool
  | [], [] => true
  | a :: as, b :: bs => TVal.eqGo a b && TVal.eqGoL as bs
  | _, _ => false
def TVal.eqGoE : List (TVal × TVal) → List (TVal × TVal) → Bool
  | [], [] => true
  | (a, b) :: as, (c, d) :: bs => TVal.eqGo a c && TVal.eqGo b d && TVal.eqGoE as bs
  | _, _ => false
end

/-- parse the program-format text and resolve the types in it -/
def parseTVal (env : Env) (inp : List Sym) : Option TVal :=
  match parse env inp with
  | .value e => resolveV env e
  | _ => none

end Pcore.Syntax
