import Pcore.Model.DispatchCtors
import Pcore.Model.SpanCodec
/-!
# The constructor of Timespan on the driver's alphabet (property C16, `new`)

Core Lean only.  A Timespan is its int64 number of nanoseconds.

| Go (types/timespantype.go)                                                   | Lean                      |
|------------------------------------------------------------------------------|---------------------------|
| `newGoConstructor2("Timespan", …)`: `(Variant[Integer,Float])`, `(String[1], Optional[Formats])`, `(Integer ×4, Optional[Integer] ×3)`, `(Struct[string, Optional[format]])`, `(Struct[Optional[negative], Optional[days] … Optional[nanoseconds]])` | `timespanCtor` |
| `time.Duration(i * NsecsPerSec)` (int64, wraps)                              | `F64.wrap64 (i * 10^9)` (Model/CtorFl.lean) |
| `time.Duration(f * NsecsPerSec)` (float64 product, then `int64(·)`)          | `F64.floatSecondsToNs`    |
| `fromFields`, `fromFieldsHash`                                               | `fromFields`, `fieldsOfHash` |
| `ParseTimespan(str, DefaultTimespanFormats)` (`parseDuration`, `TimespanFormat.parse` over the eight default formats) | `parseDefault` |
| `Timespan.Int()` (`totalSeconds`), `Timespan.Float()` (`float64(ns) / 1e9`)  | `F64.spanSeconds`, `F64.spanFloat` (used by the Integer / Float / Numeric constructors) |

The eight default formats `%D-%H:%M:%S.%-N`, `%H:%M:%S.%-N`, `%M:%S.%-N`, `%S.%-N`, `%D-%H:%M:%S`, `%H:%M:%S`, `%D-%H:%M`,
`%S` compile to the regular expressions `\A-?([0-9]+)(sep)([0-9]{1,2})…(\.)([0-9]{1,9})\z`: digit runs separated by single
`-`, `:`, `.` characters, the FIRST run of any length, the others of one or two digits, the fraction of one to nine.  The
eight separator sequences are pairwise different, so at most one format matches and trying them in order is a table look-up
(`unitsOf`).  Reused from the serialization model (Model/SpanCodec.lean): `takeDigits`, `digitsVal`.

Quirks reproduced
* all arithmetic is int64 and wraps (`wrap64`): `Timespan.new(9223372037)` is negative.
* a digit run that does not fit int64 counts as 0 (`strconv.ParseInt` fails and the error is dropped).
* the sign is the first character of the string and negates the (wrapped) sum.
* `Timespan.new(1.5)` multiplies in float64 and truncates; NaN, ±Inf and products outside int64 give MinInt64 (amd64).
* NOT modelled: user-supplied formats (the `Formats` argument, the `format` key): the body answers `UNMODELLED`, the driver
  refuses the op and the generator does not emit it (the implementation-only `new` op still exercises them).
-/
namespace Pcore.Dispatch.Alpha
open Pcore.Ser (takeDigits digitsVal)

open F64 (wrap64 floatSecondsToNs spanSeconds spanFloat)

/-- `fromFields` -/
def fromFields (negative : Bool) (d h m s ms us ns : Int) : Int :=
  let t := wrap64 ((((((d * 24 + h) * 60 + m) * 60 + s) * 1000 + ms) * 1000 + us) * 1000 + ns)
  if negative then wrap64 (-t) else t

def intArg (key : String) (es : List (Val × Val)) : Int :=
  match lookupKey key es with
  | some (.int n) => n
  | _ => 0

def boolArg (key : String) (es : List (Val × Val)) : Bool :=
  match lookupKey key es with
  | some (.bool b) => b
  | _ => false

/-- `fromFieldsHash` -/
def fieldsOfHash (es : List (Val × Val)) : Int :=
  fromFields (boolArg "negative" es) (intArg "days" es) (intArg "hours" es) (intArg "minutes" es) (intArg "seconds" es)
    (intArg "milliseconds" es) (intArg "microseconds" es) (intArg "nanoseconds" es)

/-! ### the default formats -/

/-- digit runs separated by single `-`, `:` or `.` characters; `none` = anything else -/
def splitRuns : Nat → List Char → Option (List (List Char) × List Char)
  | 0, _ => none
  | fuel + 1, cs =>
    let d := takeDigits cs
    if d.1.isEmpty then none else
    match d.2 with
    | [] => some ([d.1], [])
    | c :: rest =>
      if c = '-' || c = ':' || c = '.' then
        (splitRuns fuel rest).map fun r => (d.1 :: r.1, c :: r.2)
      else none

/-- the multipliers (in nanoseconds) of the value segments of the default format with these separators; a trailing `0`
    marks the fraction.  `none` = no default format has this shape -/
def unitsOf (seps : List Char) : Option (List Int) :=
  let day : Int := 86400000000000
  let hour : Int := 3600000000000
  let min : Int := 60000000000
  let sec : Int := 1000000000
  if seps = ['-', ':', ':', '.'] then some [day, hour, min, sec, 0]
  else if seps = [':', ':', '.'] then some [hour, min, sec, 0]
  else if seps = [':', '.'] then some [min, sec, 0]
  else if seps = ['.'] then some [sec, 0]
  else if seps = ['-', ':', ':'] then some [day, hour, min, sec]
  else if seps = [':', ':'] then some [hour, min, sec]
  else if seps = ['-', ':'] then some [day, hour, min]
  else if seps = [] then some [sec]
  else none

/-- `strconv.ParseInt(group, 10, 64)` with the error dropped -/
def runVal (run : List Char) : Int :=
  let v := digitsVal run
  if v ≤ 9223372036854775807 then (v : Int) else 0

/-- the sum of `segment.nanoseconds(group, multiplier)`; `first` = the run is the leading one (any length) -/
def sumRuns : Bool → List (List Char) → List Int → Option Int
  | _, [], [] => some 0
  | first, run :: runs, u :: us =>
    if u = 0 then
      -- the fraction `%-N`: one to nine digits, scaled to nanoseconds
      if run.length ≤ 9 && runs.isEmpty && us.isEmpty then some (runVal run * (10 : Int) ^ (9 - run.length)) else none
    else if first || run.length ≤ 2 then (sumRuns false runs us).map (runVal run * u + ·)
    else none
  | _, _, _ => none

/-- `parseDuration(str, DefaultTimespanFormats)` -/
def parseDefault (s : String) : Option Int :=
  let cs := s.toList
  let (neg, body) := match cs with
    | '-' :: r => (true, r)
    | _ => (false, cs)
  match splitRuns (body.length + 1) body with
  | none => none
  | some (runs, seps) =>
    match unitsOf seps with
    | none => none
    | some us =>
      match sumRuns true runs us with
      | none => none
      | some n => some (if neg then wrap64 (-(wrap64 n)) else wrap64 n)

def parseResult (s : String) : CtorResult Val :=
  match parseDefault s with
  | some n => .value (.timespan n)
  | none => .reported "TIMESPAN_CANNOT_BE_PARSED"

def formatsTy : Ty := .var [.str 2 none, .arr (.str 2 none) 1 none]
def spanStringHash : Ty := .struct [("string", false, .str 1 none), ("format", true, formatsTy)]
def spanFieldsHash : Ty :=
  .struct [("negative", true, .bool), ("days", true, .int none none), ("hours", true, .int none none),
    ("minutes", true, .int none none), ("seconds", true, .int none none), ("milliseconds", true, .int none none),
    ("microseconds", true, .int none none), ("nanoseconds", true, .int none none)]

/-- `args[i].(integerValue).Int()`; `none` is the failed assertion -/
def asInt : Val → Option Int
  | .int n => some n
  | _ => none

def secondsTy : Ty := .var [.int none none, .float (-F64.maxFiniteKey) F64.maxFiniteKey]

def timespanCtor : Ctor where
  creators :=
    [ { ops := [.param secondsTy], kind := .fn },
      { ops := [.param (.str 1 none), .optional formatsTy], kind := .fn },
      { ops := [.param (.int none none), .param (.int none none), .param (.int none none), .param (.int none none),
                .optional (.int none none), .optional (.int none none), .optional (.int none none)], kind := .fn },
      { ops := [.param spanStringHash], kind := .fn },
      { ops := [.param spanFieldsHash], kind := .fn } ]
  body := fun i args =>
    match i, args with
    | 0, .int n :: _ => .value (.timespan (wrap64 (n * 1000000000)))
    | 0, .float b :: _ => .value (.timespan (floatSecondsToNs b))
    | 1, [.str s] => parseResult s
    | 1, .str _ :: _ :: _ => .reported "UNMODELLED"          -- user-supplied formats
    | 2, d :: h :: m :: s :: rest =>
      (match asInt d, asInt h, asInt m, asInt s,
             (match rest with | x :: _ => asInt x | [] => some 0),
             (match rest with | _ :: x :: _ => asInt x | _ => some 0),
             (match rest with | _ :: _ :: x :: _ => asInt x | _ => some 0) with
       | some d, some h, some m, some s, some ms, some us, some ns => .value (.timespan (fromFields false d h m s ms us ns))
       | _, _, _, _, _, _, _ => .fault)
    | 3, .hash es :: _ =>
      (match lookupKey "format" es with
       | some _ => .reported "UNMODELLED"                      -- user-supplied formats
       | none => match lookupKey "string" es with
         | some (.str s) => parseResult s
         | _ => .fault)                                        -- `String()` of another kind: not modelled, unreachable
    | 4, .hash es :: _ => .value (.timespan (fieldsOfHash es))
    | _, _ => .fault

end Pcore.Dispatch.Alpha
