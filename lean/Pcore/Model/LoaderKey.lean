import Pcore.Model.LoaderSeq
import Pcore.Model.LoaderTS
import Pcore.Model.LoaderDep
/-!
# `types/typedname.go`: the typed name as the Go struct it is — with its two caches — at BYTE level (property C12)

The loaders key their maps by `MapKey()`; `LoaderSeq.canon` is that key for a name made by `newTypedName2`.  This file models
the rest of the type: the cached `canonical` string and `parts` slice, and the methods that DERIVE a typed name from another
(`Child`, `Parent`, `typedNameFromMapKey`), which compute the derived name's cached key by slicing the parent's cached key
at BYTE offsets measured on the NOT lower-cased strings.  Core Lean only.

| Go (types/typedname.go)                         | Lean                                   |
|--------------------------------------------------|----------------------------------------|
| `typedName{namespace, authority, name, canonical, parts}` | `TN` (`canonical = []` is Go's `""`: not computed yet) |
| `newTypedName2` (`strings.TrimPrefix(name, "::")`) | `TN.mk'`                              |
| `MapKey()` (computes and caches)                  | `TN.mapKey`                            |
| `Parts()` (computes, validates, caches)           | `TN.partsM`                            |
| `IsQualified()`                                   | `TN.isQualified`                       |
| `child(stripCount)`, `Child()` (derived key left empty) | `TN.childN`, `TN.child`          |
| `Parent()` (derived key left empty)               | `TN.parent`                            |
| `typedNameFromMapKey` (of a freshly computed key) | `TN.fromFreshKey`                      |
| `Equals` (`t.MapKey() == tn.MapKey()`)            | `KOp.eq` in `runK`                     |
| Go string = bytes; `len`, `s[i:j]` (panics when out of range) | `enc` (UTF-8), `List.take/drop` guarded by `fault` |

Strings are `List Char` here and become bytes through `enc` (UTF-8, written out below so that no library lemma about
`String` is needed); only the cached key is a byte list, because slicing can cut it anywhere.

Repaired defect (finding C12-typedname-derived-key, fix 50062c5): `child` and `Parent` used to cut the derived name's cached
key out of the receiver's lower-cased key at byte offsets (`pfxLen`, `diff`, `lx`) measured on the strings AS GIVEN — and
`unicode.ToLower` changes the UTF-8 length of some letters (`K` U+212A, 3 bytes → `k`, 1 byte; `İ` U+0130 → `i`; `Ⱥ` U+023A,
2 bytes → `ⱥ` U+2C65, 3 bytes): one name, two keys, or a slice out of range.  The pre-fix definitions are kept in
`Proofs/LoaderKey.lean` (`TN.childNBeforeFix`, `TN.parentBeforeFix`) for the witnesses.  Now the derived name carries no
cached key (the shared `parts` slices are unchanged) and `Derived.fault` is unreachable.
-/
namespace Pcore.LoaderSeq

/-- UTF-8 encoding of one code point -/
def encChar (c : Char) : List UInt8 :=
  let n := c.toNat
  if n < 0x80 then [n.toUInt8]
  else if n < 0x800 then [(0xC0 + n / 64).toUInt8, (0x80 + n % 64).toUInt8]
  else if n < 0x10000 then [(0xE0 + n / 4096).toUInt8, (0x80 + n / 64 % 64).toUInt8, (0x80 + n % 64).toUInt8]
  else [(0xF0 + n / 262144).toUInt8, (0x80 + n / 4096 % 64).toUInt8, (0x80 + n / 64 % 64).toUInt8, (0x80 + n % 64).toUInt8]

def enc (cs : List Char) : List UInt8 := cs.flatMap encChar

/-- `len(s)` of a Go string -/
def blen (cs : List Char) : Nat := (enc cs).length

def lowerL (cs : List Char) : List Char := cs.map lowerChar

/-- `strings.Index(s, "::")` as a CHARACTER offset -/
def indexColons : List Char → Option Nat
  | ':' :: ':' :: _ => some 0
  | _ :: r => (indexColons r).map (· + 1)
  | [] => none

/-- `strings.LastIndex(s, "::")` as a character offset -/
def lastIndexColons : List Char → Option Nat
  | [] => none
  | c :: r =>
    match lastIndexColons r with
    | some i => some (i + 1)
    | none => match c, r with
      | ':', ':' :: _ => some 0
      | _, _ => none

structure TN where
  ns : List Char
  auth : List Char
  name : List Char
  canonical : List UInt8
  parts : Option (List (List Char))
  deriving DecidableEq, Repr

/-- `newTypedName2` -/
def TN.mk' (ns name auth : List Char) : TN :=
  { ns := ns, auth := auth, name := stripColonsL name, canonical := [], parts := none }

/-- the key computed from the three strings: `strings.ToLower(authority + "/" + namespace + "/" + name)` -/
def TN.freshKey (t : TN) : List UInt8 := enc (lowerL (t.auth ++ '/' :: t.ns ++ '/' :: t.name))

/-- `MapKey()` -/
def TN.mapKey (t : TN) : TN × List UInt8 :=
  if t.canonical = [] then ({ t with canonical := t.freshKey }, t.freshKey) else (t, t.canonical)

/-- `Parts()`; `none` = panic `InvalidCharactersInName` (nothing is cached then) -/
def TN.partsM (t : TN) : Option (TN × List (List Char)) :=
  match t.parts with
  | some ps => some (t, ps)
  | none =>
    let ps := splitColonsL [] (lowerL t.name)
    if ps.all partOK then some ({ t with parts := some ps }, ps) else none

/-- `IsQualified()` -/
def TN.isQualified (t : TN) : Bool :=
  match t.parts with
  | none => (indexColons t.name).isSome
  | some ps => ps.length > 1

inductive Derived where
  | ok (t : TN)
  | nil
  | fault              -- slice bounds out of range
  deriving DecidableEq, Repr

/-- the loop of `child`: strip `k` leading segments -/
def stripN : Nat → List Char → Option (List Char)
  | 0, cs => some cs
  | k + 1, cs =>
    match indexColons cs with
    | none => none
    | some i => stripN k (cs.drop (i + 2))

/-- `child(stripCount)` (after fix 50062c5: the derived name's key is left empty and computed on demand) -/
def TN.childN (t : TN) (k : Nat) : Derived :=
  match stripN k t.name with
  | none => .nil
  | some name' => .ok { ns := t.ns, auth := t.auth, name := name', canonical := [], parts := t.parts.map (·.drop k) }

/-- `Child()` -/
def TN.child (t : TN) : Derived := if t.isQualified then t.childN 1 else .nil

/-- `Parent()` -/
def TN.parent (t : TN) : Derived :=
  match lastIndexColons t.name with
  | none => .nil
  | some i => .ok { ns := t.ns, auth := t.auth, name := t.name.take i, canonical := [], parts := t.parts.map (·.dropLast) }

/-- `strings.LastIndexByte(s, '/')` on characters (`/` is one byte and no byte of a longer encoding) -/
def lastSlash : List Char → Option Nat
  | [] => none
  | c :: r =>
    match lastSlash r with
    | some i => some (i + 1)
    | none => if c = '/' then some 0 else none

/-- `typedNameFromMapKey(t'.MapKey())` for a fresh `t'` of the same three strings; `none` = panic `InvalidTypedNameMapKey` -/
def TN.fromFreshKey (t : TN) : Option TN :=
  let key := lowerL (t.auth ++ '/' :: t.ns ++ '/' :: t.name)
  match lastSlash key with
  | none => none
  | some 0 => none
  | some i =>
    let pfx := key.take i
    let name := key.drop (i + 1)
    match lastSlash pfx with
    | none => none
    | some 0 => none
    | some j => some (TN.mk' (pfx.drop (j + 1)) name (pfx.take j))

/-! ### a script of method calls on one typed name (the driver's `tn` op) -/

inductive KOp where
  | key | name | qual | parts | child | parent | fromkey
  | eq        -- `Equals(fresh typed name of the same three strings)`: the two `MapKey()`s are compared (and this one cached)
  deriving DecidableEq, Repr

inductive KOut where
  | key (bs : List UInt8)
  | name (cs : List Char)
  | bool (b : Bool)
  | parts (ps : List (List Char))
  | moved                -- the current name is now the derived one
  | nil                  -- the method answered nil: the script ends
  | reported (code : String)
  | fault
  deriving DecidableEq, Repr

/-- runs the script; stops after `nil`, a reported error of `fromkey`, or a fault -/
def runK (t : TN) : List KOp → List KOut
  | [] => []
  | .key :: r => let (t', k) := t.mapKey; .key k :: runK t' r
  | .eq :: r => let (t', k) := t.mapKey; .bool (k == t.freshKey) :: runK t' r
  | .name :: r => .name t.name :: runK t r
  | .qual :: r => .bool t.isQualified :: runK t r
  | .parts :: r =>
    match t.partsM with
    | some (t', ps) => .parts ps :: runK t' r
    | none => .reported "PCORE_INVALID_CHARACTERS_IN_NAME" :: runK t r
  | .child :: r =>
    match t.child with
    | .ok t' => .moved :: runK t' r
    | .nil => [.nil]
    | .fault => [.fault]
  | .parent :: r =>
    match t.parent with
    | .ok t' => .moved :: runK t' r
    | .nil => [.nil]
    | .fault => [.fault]
  | .fromkey :: r =>
    match t.fromFreshKey with
    | some t' => .moved :: runK t' r
    | none => [.reported "PCORE_INVALID_TYPED_NAME_MAP_KEY"]

end Pcore.LoaderSeq
