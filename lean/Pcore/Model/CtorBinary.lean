import Pcore.Model.DispatchCtors
import Pcore.Model.Ser
/-!
# The constructor of Binary on the driver's alphabet (property C16, `new`)

Core Lean only.

| Go (types/binarytype.go)                                             | Lean                         |
|----------------------------------------------------------------------|------------------------------|
| `newGoConstructor2("Binary", …)`: `(String, Optional[Encoding])`, `(Array[ByteInteger])`, `(StringHash)`, `(ArrayHash)` | `binaryCtor` |
| `BinaryFromString(str, f)`                                           | `binaryFromString`           |
| `base64.StdEncoding.Strict().DecodeString` (`%B`)                    | `Pcore.Ser.unb64Chars` after `stripNL` — the codec of the serialization model (Model/Ser.lean), REUSED |
| `base64.StdEncoding.DecodeString` (`%b`), `base64.URLEncoding.DecodeString` (`%u`) | `lenient64` with `Pcore.Ser.b64Val` / `urlVal` after `stripNL` |
| `BinaryFromArray(list)`                                              | `binaryFromList`             |

encoding/base64 as modelled (Go 1.23 `decodeQuantum`): `\r` and `\n` are ignored wherever they stand; groups of four
alphabet characters give three bytes; padding (`=`) only closes the LAST group (`xx==` one byte, `xxx=` two), nothing may
follow it, an unpadded rest is an error; the strict variant also wants the bits under the padding to be zero.

Quirks reproduced
* the default format is `%B` (strict); `%s` and `%r` take the bytes of the string (the `%s` test `utf8.ValidString` is
  always true here: model strings are valid Unicode, the driver refuses other op lines).
* NAMED forms: `Binary.new({value => s})` without `format` hands `undef.String()` = `"undef"` to `BinaryFromString`:
  `ILLEGAL_ARGUMENT` (unsupported format specifier) — the named form works only with an explicit format.  And
  `Binary.new({value => [bytes…]})` hands the HASH (not the array under `value`) to `BinaryFromArray`: its elements are hash
  entries, not integers: `ILLEGAL_ARGUMENT` for every such hash.  Both are reported errors (C16 holds); recorded as
  observations in findings/C16.json.
* `format => Optional[Encoding]` makes the KEY optional (`NewStructElement`: a string key whose value type accepts undef).
-/
namespace Pcore.Dispatch.Alpha

def stripNL (cs : List Char) : List Char := cs.filter fun c => c != '\r' && c != '\n'

/-- the URL alphabet: `-` and `_` for `+` and `/` -/
def urlVal (c : Char) : Option Nat :=
  if c = '-' then some 62 else if c = '_' then some 63 else if c = '+' || c = '/' then none else Pcore.Ser.b64Val c

/-- padded base64 without the strictness test, over the alphabet `val` -/
def lenient64 (val : Char → Option Nat) : List Char → Option (List UInt8)
  | [] => some []
  | a :: b :: c :: d :: rest =>
    if d = '=' then
      if rest ≠ [] then none
      else if c = '=' then
        match val a, val b with
        | some x, some y => some [UInt8.ofNat ((x * 262144 + y * 4096) / 65536)]
        | _, _ => none
      else
        match val a, val b, val c with
        | some x, some y, some z =>
          let n := x * 262144 + y * 4096 + z * 64
          some [UInt8.ofNat (n / 65536), UInt8.ofNat (n / 256 % 256)]
        | _, _, _ => none
    else
      match val a, val b, val c, val d, lenient64 val rest with
      | some x, some y, some z, some w, some r =>
        let n := x * 262144 + y * 4096 + z * 64 + w
        some (UInt8.ofNat (n / 65536) :: UInt8.ofNat (n / 256 % 256) :: UInt8.ofNat (n % 256) :: r)
      | _, _, _, _, _ => none
  | _ => none

/-- `BinaryFromString` -/
def binaryFromString (str f : String) : CtorResult Val :=
  let dec (r : Option (List UInt8)) : CtorResult Val := match r with
    | some bs => .value (.binary bs)
    | none => .reported "ILLEGAL_ARGUMENT"
  if f = "%b" then dec (lenient64 Pcore.Ser.b64Val (stripNL str.toList))
  else if f = "%u" then dec (lenient64 urlVal (stripNL str.toList))
  else if f = "%B" then dec (Pcore.Ser.unb64Chars (stripNL str.toList))
  else if f = "%s" || f = "%r" then .value (.binary str.toUTF8.toList)
  else .reported "ILLEGAL_ARGUMENT"

/-- `BinaryFromArray(list)` over the elements `list.At(i)`: every one an integer in 0..255 -/
def binaryFromList : List Val → Option (List UInt8)
  | [] => some []
  | .int n :: vs => if 0 ≤ n && n ≤ 255 then (binaryFromList vs).map (UInt8.ofNat n.toNat :: ·) else none
  | _ => none

def encodingTy : Ty := .enum ["%b", "%u", "%B", "%s", "%r"]
def byteArrayTy : Ty := .arr (.int (some 0) (some 255)) 0 none
def stringHashTy : Ty := .struct [("value", false, .str 0 none), ("format", true, .opt encodingTy)]
def arrayHashTy : Ty := .struct [("value", false, byteArrayTy)]

/-- `v.String()` of the values the bodies call it on; `none` = a kind whose text is not modelled -/
def strOf : Val → Option String
  | .str s => some s
  | .undef => some "undef"
  | _ => none

def binaryCtor : Ctor where
  creators :=
    [ { ops := [.param (.str 0 none), .optional encodingTy], kind := .fn },
      { ops := [.param byteArrayTy], kind := .fn },
      { ops := [.param stringHashTy], kind := .fn },
      { ops := [.param arrayHashTy], kind := .fn } ]
  body := fun i args =>
    match i, args with
    | 0, a0 :: rest =>
      (match strOf a0, (match rest with | f :: _ => strOf f | [] => some "%B") with
       | some s, some f => binaryFromString s f
       | _, _ => .fault)
    | 1, .arr vs :: _ =>
      (match binaryFromList vs with
       | some bs => .value (.binary bs)
       | none => .reported "ILLEGAL_ARGUMENT")
    | 2, .hash es :: _ =>
      (match strOf ((lookupKey "value" es).getD .undef), strOf ((lookupKey "format" es).getD .undef) with
       | some s, some f => binaryFromString s f
       | _, _ => .fault)
    | 3, .hash es :: _ =>
      -- `BinaryFromArray(args[0].(px.List))`: the list is the hash itself, its elements are entries — never integers
      if es.isEmpty then .value (.binary []) else .reported "ILLEGAL_ARGUMENT"
    | _, _ => .fault

end Pcore.Dispatch.Alpha
