import Pcore.Model.Object
/-
  C17 model, fourth part — instances of object types that declare TYPE PARAMETERS.

  Mirrors (file → definition):
    types/objecttype.go          InitFromHash (type_parameters loop)  → `define` (Model/Object: OVERRIDE_IS_MISSING), `Level.params`
                                 typeParameters(true)                 → `typeParams`
                                 IsParameterized                      → `isParameterized`
    types/objectvalue.go         typedObject.valuesFromHash           → `bindParams` (every type parameter whose NAME is a key of
                                                                        the hash with a value of `Optional[T]` OTHER THAN UNDEF
                                                                        (fix de95e71) is bound; the
                                                                        instance then has the type `T[name => value, …]`, an
                                                                        objectTypeExtension)
                                 attributeSlice.Initialize            → `newPosX` (a non-empty positional construction on a
                                                                        parameterized type goes through `makeValueHash` —
                                                                        which leaves out the values equal to their default —
                                                                        and `InitFromHash`: the stored values are trimmed)
                                 attributeSlice.InitFromHash          → `newNamedX`
                                 attributeSlice.Equals                → `equalsX` (`o.typ.Equals(ov.typ)` on extensions)
    types/objecttypeextension.go Equals                               → `sameTypeX` (same base type and the same bindings; an
                                                                        extension never equals a plain type)
                                 IsAssignable (receiver a plain type: objectType.IsAssignable takes the base type) → `isInstanceX`
  An instance is a plain instance (`Obj`) plus the bindings of its type (`[]` = the plain type).
  Core-only file (linked into the driver).
-/
namespace Pcore.Object

structure PObj where
  obj : Obj
  /-- the type parameters bound by the construction, in the order of `typeParams` -/
  ext : List (String × Val)
  deriving DecidableEq, Repr, Inhabited

/-- typedObject.valuesFromHash, the part after PositionalFromHash: `va` = the positional values, `es` = the hash -/
def bindParams (t : OType) (es : List (String × Val)) (va : List Val) : List (String × Val) :=
  if va.isEmpty then [] else
  (typeParams t).filterMap (fun q =>
    match es.lookup q.1 with
    | some v => if v != .undef && inst (.opt q.2) v then some (q.1, v) else none
    | none => none)

/-- … before the fix de95e71: an explicit undef bound the parameter (to undef) -/
def bindParamsBefore (t : OType) (es : List (String × Val)) (va : List Val) : List (String × Val) :=
  if va.isEmpty then [] else
  (typeParams t).filterMap (fun q =>
    match es.lookup q.1 with
    | some v => if inst (.opt q.2) v then some (q.1, v) else none
    | none => none)

/-- positional constructor (attributeSlice.Initialize) -/
def newPosX (t : OType) (vs : List Val) : Except Code PObj :=
  if posMatches (attrInfo t) vs then
    if !vs.isEmpty && isParameterized t then
      let es := makeValueHash (attrInfo t).attrs vs
      match positionalFromHash (attrInfo t) es with
      | .error c => .error c
      | .ok va => .ok { obj := { typ := t, values := va }, ext := bindParams t es va }
    else .ok { obj := { typ := t, values := vs }, ext := [] }
  else .error .illegalArguments

/-- named constructor, with the fall-through to the positional signature -/
def newNamedX (t : OType) (es : List (String × Val)) (asValue : Val) : Except Code PObj :=
  if namedMatches (attrInfo t) es then
    if coerceOk (attrInfo t) es then
      match positionalFromHash (attrInfo t) es with
      | .error c => .error c
      | .ok va => .ok { obj := { typ := t, values := va }, ext := bindParams t es va }
    else .error .instanceDoesNotRespond
  else newPosX t [asValue]

/-- `o.typ.Equals(ov.typ, g)` -/
def sameTypeX (o o' : PObj) : Bool := tyEq o.obj.typ o'.obj.typ && o.ext == o'.ext

def equalsX (o o' : PObj) : Except Code Bool := equalsWith (sameTypeX o o') o.obj o'.obj

def isInstanceX (t : OType) (o : PObj) : Bool := isInstance t o.obj

end Pcore.Object
