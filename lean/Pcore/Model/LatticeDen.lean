import Pcore.Model.LatticeInst
set_option linter.unusedSimpArgs false
/-!
  `Den t v`: the SET DENOTATION of a type, written from the text of property C02 and the Puppet specification,
  deliberately in a different style from the code-shaped `inst` (membership, `∀ x ∈ xs`, `∃ t ∈ ts`; Struct as
  "every present key is declared and its value conforms, every non-optional member is present"; String size as the
  number of characters; Enum compares content, ignoring case only when asked, and never admits a string that was not
  listed; Pattern is `∃ r, r matches s`, also for the empty string).  It is never edited to make a proof pass.
  `Type[T]` contains exactly `{u | T accepts u}`; `Collection[r]` constrains size only.  Iterable is outside the
  reference fragment of C02 (its denotation is left `False`).  Not used by the driver.
-/
namespace Pcore.Lat

theorem Ty.w_lt_wl {t : Ty} {ts : List Ty} (h : t ∈ ts) : t.w < Ty.wl ts := by
  induction ts with
  | nil => cases h
  | cons a as ih =>
    simp only [Ty.wl]
    cases h with
    | head => omega
    | tail _ h' => have := ih h'; omega

theorem Ty.w_lt_wm {m : Member} {ms : List Member} (h : m ∈ ms) : m.2.2.w < Ty.wm ms := by
  induction ms with
  | nil => cases h
  | cons a as ih =>
    obtain ⟨n, o, t⟩ := a
    simp only [Ty.wm]
    cases h with
    | head => simp; omega
    | tail _ h' => have := ih h'; omega

/-- Data = ScalarData ∪ {undef} ∪ arrays of Data ∪ hashes from strings to Data -/
inductive IsData : Val → Prop
  | str (s) : IsData (.str s)
  | int (i) : IsData (.int i)
  | float (f) : IsData (.float f)
  | bool (b) : IsData (.bool b)
  | undef : IsData .undef
  | arr (vs) : (∀ x ∈ vs, IsData x) → IsData (.array vs)
  | hash (es : List (Val × Val)) : (∀ e ∈ es, ∃ s, e.1 = .str s) → (∀ e ∈ es, IsData e.2) → IsData (.hash es)

def IsScalarVal : Val → Prop
  | .str _ | .int _ | .float _ | .bool _ | .regexp _ | .tspan _ | .tstamp _ => True
  | _ => False

/-- RichData = Scalar ∪ Binary ∪ {default, undef} ∪ object instances ∪ types ∪ arrays of RichData ∪ hashes from strings or numbers to RichData -/
inductive IsRich : Val → Prop
  | scalar (v) : IsScalarVal v → IsRich v
  | bin (bs) : IsRich (.binary bs)
  | dflt : IsRich .dflt
  | undef : IsRich .undef
  | obj (p) : IsRich (.obj p)
  | typ (t) : IsRich (.typ t)
  | arr (vs) : (∀ x ∈ vs, IsRich x) → IsRich (.array vs)
  | hash (es : List (Val × Val)) :
      (∀ e ∈ es, (∃ s, e.1 = .str s) ∨ (∃ i, e.1 = .int i) ∨ (∃ f, e.1 = .float f)) → (∀ e ∈ es, IsRich e.2) →
      IsRich (.hash es)

def InRng (r : Rng) (i : Int) : Prop := r.lo ≤ i ∧ i ≤ r.hi

section
variable (cfg : Cfg) (sfh : Bool)

def Den (t : Ty) (v : Val) : Prop :=
  match t with
  | .any | .unit => True
  | .undef => v = .undef
  | .dflt => v = .dflt
  | .scalar => IsScalarVal v
  | .scalarData => (∃ s, v = .str s) ∨ (∃ i, v = .int i) ∨ (∃ f, v = .float f) ∨ (∃ b, v = .bool b)
  | .numeric => (∃ i, v = .int i) ∨ (∃ f, v = .float f)
  | .data => IsData v
  | .richData => IsRich v
  | .str => ∃ s, v = .str s
  | .bin => ∃ bs, v = .binary bs
  | .int r => ∃ i, v = .int i ∧ InRng r i
  | .float lo hi => ∃ f, v = .float f ∧ Fl.effLo lo ≤ f ∧ f ≤ Fl.effHi hi
  | .bool none => ∃ b, v = .bool b
  | .bool (some b) => v = .bool b
  | .tspan r => ∃ n, v = .tspan n ∧ InRng r n
  | .tstamp r => ∃ n, v = .tstamp n ∧ InRng r n
  | .strSz r => ∃ s, v = .str s ∧ InRng r s.length
  | .strVal s => v = .str s
  | .enum vs ci =>
      ∃ s, v = .str s ∧ (vs = [] ∨ (if ci then ∃ x ∈ vs, cfg.lower x = cfg.lower s else s ∈ vs))
  | .pattern rs => ∃ s, v = .str s ∧ (rs = [] ∨ ∃ r ∈ rs, cfg.rxMatch r s = true)
  | .regexp src => ∃ s, v = .regexp s ∧ (src = "" ∨ src = s)
  | .coll r => (∃ vs, v = .array vs ∧ InRng r vs.length) ∨ (∃ es, v = .hash es ∧ InRng r es.length)
  | .array e r => ∃ vs, v = .array vs ∧ InRng r vs.length ∧ ∀ x ∈ vs, Den e x
  | .hash k x r => ∃ es, v = .hash es ∧ InRng r es.length ∧ ∀ e ∈ es, Den k e.1 ∧ Den x e.2
  | .tuple ts g =>
      ∃ vs, v = .array vs ∧ InRng (tupleSize ts g) vs.length ∧
        -- position i is described by the i-th type, positions beyond the declared types by the last one
        ∀ (i : Nat) (t' : Ty) (x : Val), ts[min i (ts.length - 1)]? = some t' → vs[i]? = some x → Den t' x
  | .struct ms =>
      ∃ es, v = .hash es ∧
        -- every present key is declared and its value conforms
        (∀ e ∈ es, ∃ m, ∃ (_ : m ∈ ms), e.1 = .str m.1 ∧ Den m.2.2 e.2) ∧
        -- every non-optional member is present
        (∀ m ∈ ms, m.2.1 = false → ∃ e ∈ es, e.1 = .str m.1)
  | .variant ts => ∃ t', ∃ (_ : t' ∈ ts), Den t' v
  | .optional t' => v = .undef ∨ Den t' v
  | .notUndef t' => v ≠ .undef ∧ Den t' v
  | .typ t' => ∃ u, v = .typ u ∧ asg cfg sfh t' u = true
  | .sensitive t' => ∃ x, v = .sensitive x ∧ Den t' x
  | .iterable _ => False
  | .runtime _ _ _ => False       -- no value of the value language is a runtime value
  | .callable _ _ _ => False      -- no value of the value language is a lambda
  | .iterator _ => False          -- no value of the value language is an iterator
  | .object none => (∃ q, v = .obj q) ∨ (∃ u, v = .typ u)   -- pcore: every type is an instance of Object through its meta type
  | .object (some p) => ∃ q, v = .obj q ∧ isPrefix p q = true
termination_by t.w
decreasing_by
  all_goals simp_wf
  all_goals (try simp only [Ty.w, Ty.wl, Ty.wm] at *)
  all_goals first
    | omega
    | (have := Ty.w_lt_wl (List.mem_of_getElem? ‹_›); omega)
    | (have := Ty.w_lt_wl ‹_ ∈ _›; omega)
    | (have := Ty.w_lt_wm ‹_ ∈ _›; omega)

end
end Pcore.Lat
