/-!
# A Go `map[K]int` as an association list

`hash/stringhash.go` (`index map[string]int`) and `types/hashtype.go` (`index map[px.HashKey]int`) keep a Go
map from keys to positions.  A Go map is a finite partial function; the model is an association list in
which a key occurs at most once (`set` replaces in place), read only through `get`.  The one loop that
ranges over such a map (`stringHash.Delete`) updates every key independently of the others, so Go's
unspecified iteration order cannot be observed and `mapVals` is a faithful model of it.
Core Lean only.
-/
namespace Pcore.Coll.GoMap
variable {κ : Type} [DecidableEq κ]

/-- `v, ok := m[k]` -/
def get : List (κ × Nat) → κ → Option Nat
  | [], _ => none
  | (k', v) :: r, k => if k' = k then some v else get r k

/-- `m[k] = v` -/
def set : List (κ × Nat) → κ → Nat → List (κ × Nat)
  | [], k, v => [(k, v)]
  | (k', v') :: r, k, v => if k' = k then (k, v) :: r else (k', v') :: set r k v

/-- `delete(m, k)` -/
def erase : List (κ × Nat) → κ → List (κ × Nat)
  | [], _ => []
  | (k', v) :: r, k => if k' = k then erase r k else (k', v) :: erase r k

/-- `for k, v := range m { m[k] = f(v) }` -/
def mapVals (f : Nat → Nat) (m : List (κ × Nat)) : List (κ × Nat) := m.map (fun e => (e.1, f e.2))

end Pcore.Coll.GoMap
