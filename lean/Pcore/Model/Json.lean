/-
  C11 model — serialization/jsonstreamer.go, serialization/jsontodata.go, proto/convert.go.

  Mirrors (file → definition):
    jsonstreamer.go  delimit            → `delimit` over the regenerated arm table (`Tbl.arms`)
    jsonstreamer.go  AddArray/AddHash/Add/AddRef → `Tbl.addArray/addHash/add/addRef` action lists
    jsonstreamer.go  write              → scalars are carried as `Sc`; floats are always written with a
                                          non-integral literal (after fix "JSON streamer wrote integral floats as integers")
    jsontodata.go    jsonValues/addValue → `readVal/readElems/readMembers` over tokens
    proto/convert.go ToPBData/FromPBData/ConsumePBData/protoConsumer → `toPB/fromPB/consumePB/protoConsume`

  Not modelled (trusted, see DESIGN.md §5): encoding/json's tokenizer and string escaping, the textual form
  of numbers (the harness re-tokenizes the emitted bytes: a number literal that strconv.ParseInt accepts is an
  `int` token, any other number a `flt` token carrying the IEEE bits — the same rule `addValue` applies).
  Core-only file (linked into the driver).
-/
namespace Pcore.Json

inductive St where
  | firstInArray | firstInObject | afterElement | afterValue | afterKey
  deriving DecidableEq, Repr, Inhabited

/-- scalars as the transport sees them -/
inductive Sc where
  | int (i : Int) | flt (bits : Nat) | str (s : String) | bool (b : Bool) | null
  deriving DecidableEq, Repr, Inhabited

inductive Tok where
  | lb | rb | lc | rc | comma | colon | sc (s : Sc) | bad (what : String)
  deriving DecidableEq, Repr, Inhabited

/-- events delivered to / by a ValueConsumer, as a tree (AddArray/AddHash take a doer) -/
inductive Ev where
  | sc (s : Sc) | ref (n : Int) | arr (es : List Ev) | hsh (es : List Ev)
  deriving Repr, Inhabited

/-- one statement of an arm of `delimit` or of an `Add…` body, as recognised by the extractor -/
inductive Act where
  | write (c : Char)      -- assertOk(j.out.Write([]byte{c}))
  | doer                  -- doer()
  | set (s : St)          -- j.state = s
  | scalar                -- j.write(element)
  | refObj                -- fmt.Fprintf(j.out, `{"%s":%d}`, PcoreRefKey, ref)
  | unknown (src : String)
  deriving DecidableEq, Repr, Inhabited

structure Tbl where
  arms : List (Option St × List Act)      -- `none` = the `default:` arm
  addArray : List Act
  addHash : List Act
  add : List Act
  addRef : List Act
  init : St
  deriving Repr, Inhabited

def Tbl.arm (t : Tbl) (st : St) : List Act :=
  match t.arms.find? (fun r => r.1 == some st) with
  | some r => r.2
  | none =>
    match t.arms.find? (fun r => r.1 == none) with
    | some r => r.2
    | none => []

def charTok (c : Char) : Tok :=
  if c = '[' then .lb else if c = ']' then .rb else if c = '{' then .lc else if c = '}' then .rc
  else if c = ',' then .comma else if c = ':' then .colon else .bad (String.singleton c)

def refToks (n : Int) : List Tok := [.lc, .sc (.str "__pref"), .colon, .sc (.int n), .rc]

/-- run a statement list; `body st` is what `doer()` emits and the state it leaves when entered in `st`;
    `elem` are the tokens of the scalar / reference being added -/
def runActs (body : St → List Tok × St) (elem : List Tok) : List Act → St → List Tok × St
  | [], st => ([], st)
  | a :: as, st =>
    match a with
    | .write c => let r := runActs body elem as st; (charTok c :: r.1, r.2)
    | .doer => let b := body st; let r := runActs body elem as b.2; (b.1 ++ r.1, r.2)
    | .set s => runActs body elem as s
    | .scalar => let r := runActs body elem as st; (elem ++ r.1, r.2)
    | .refObj => let r := runActs body elem as st; (elem ++ r.1, r.2)
    | .unknown s => let r := runActs body elem as st; (.bad s :: r.1, r.2)

/-- `j.delimit(func() { inner })` -/
def delimit (t : Tbl) (st : St) (inner : St → List Tok × St) : List Tok × St :=
  runActs inner [] (t.arm st) st

mutual
def wEv (t : Tbl) (st : St) : Ev → List Tok × St
  | .sc s => delimit t st (fun s1 => runActs (fun s2 => ([], s2)) [.sc s] t.add s1)
  | .ref n => delimit t st (fun s1 => runActs (fun s2 => ([], s2)) (refToks n) t.addRef s1)
  | .arr es => delimit t st (fun s1 => runActs (fun s2 => wEvs t s2 es) [] t.addArray s1)
  | .hsh es => delimit t st (fun s1 => runActs (fun s2 => wEvs t s2 es) [] t.addHash s1)
def wEvs (t : Tbl) (st : St) : List Ev → List Tok × St
  | [] => ([], st)
  | e :: es => let r := wEv t st e; let r2 := wEvs t r.2 es; (r.1 ++ r2.1, r2.2)
end

/-- what `NewJsonStreamer` followed by one top-level event writes -/
def write (t : Tbl) (e : Ev) : List Tok := (wEv t t.init e).1

/-! ### reference printer: the JSON grammar, independent of any table -/

def sepOf : St → List Tok
  | .firstInArray | .firstInObject => []
  | .afterElement | .afterValue => [.comma]
  | .afterKey => [.colon]

def succOf : St → St
  | .firstInArray | .afterElement => .afterElement
  | .firstInObject | .afterValue => .afterKey
  | .afterKey => .afterValue

mutual
def ref1 : Ev → List Tok
  | .sc s => [.sc s]
  | .ref n => refToks n
  | .arr es => .lb :: refs .firstInArray es ++ [.rb]
  | .hsh es => .lc :: refs .firstInObject es ++ [.rc]
def refs (st : St) : List Ev → List Tok
  | [] => []
  | e :: es => sepOf st ++ ref1 e ++ refs (succOf st) es
end

/-! ### the reader (jsontodata.go) over tokens

  `json.Decoder.Token` hides commas and colons but enforces them; the model reads them explicitly.
  Result `none` = the decoder or `jsonValues` raised (→ reported INVALID_JSON). -/

def isPrefKey : Tok → Bool
  | .sc (.str s) => s == "__pref"
  | _ => false

mutual
/-- read one value; fuel bounds the recursion (any fuel ≥ token count suffices) -/
def readVal : Nat → List Tok → Option (Ev × List Tok)
  | 0, _ => none
  | fuel + 1, toks =>
    match toks with
    | .sc s :: rest => some (.sc s, rest)
    | .lb :: .rb :: rest => some (.arr [], rest)
    | .lb :: rest =>
      match readElems fuel rest with
      | some (es, rest') => some (.arr es, rest')
      | none => none
    | .lc :: .rc :: rest => some (.hsh [], rest)
    | .lc :: k :: .colon :: rest =>
      if isPrefKey k then
        -- `{"__pref": n}`: the next token must be an integer number and the object must end there
        match rest with
        | .sc (.int n) :: .rc :: rest' => some (.ref n, rest')
        | _ => none
      else
        match k with
        | .sc (.str ks) =>
          match readVal fuel rest with
          | some (v, .rc :: rest') => some (.hsh [.sc (.str ks), v], rest')
          | some (v, .comma :: rest') =>
            match readMembers fuel rest' with
            | some (es, rest'') => some (.hsh (.sc (.str ks) :: v :: es), rest'')
            | none => none
          | _ => none
        | _ => none
    | _ => none
/-- elements after `[` up to and including `]` -/
def readElems : Nat → List Tok → Option (List Ev × List Tok)
  | 0, _ => none
  | fuel + 1, toks =>
    match readVal fuel toks with
    | some (v, .rb :: rest) => some ([v], rest)
    | some (v, .comma :: rest) =>
      match readElems fuel rest with
      | some (es, rest') => some (v :: es, rest')
      | none => none
    | _ => none
/-- members after a `,` inside an object up to and including `}` -/
def readMembers : Nat → List Tok → Option (List Ev × List Tok)
  | 0, _ => none
  | fuel + 1, toks =>
    match toks with
    | .sc (.str ks) :: .colon :: rest =>
      match readVal fuel rest with
      | some (v, .rc :: rest') => some ([.sc (.str ks), v], rest')
      | some (v, .comma :: rest') =>
        match readMembers fuel rest' with
        | some (es, rest'') => some (.sc (.str ks) :: v :: es, rest'')
        | none => none
      | _ => none
    | _ => none
end

/-- `JsonToData` on a document holding one value -/
def read (toks : List Tok) : Option Ev :=
  match readVal (2 * toks.length + 1) toks with
  | some (e, []) => some e
  | _ => none

/-! ### protobuf (proto/convert.go) -/

inductive PB where
  | bool (b : Bool) | flt (bits : Nat) | int (i : Int) | str (s : String) | undef
  | arr (vs : List PB) | hsh (es : List (PB × PB)) | bin (bs : List UInt8) | ref (n : Int)
  deriving Repr, Inhabited

/-- Data values (plus Binary, which ToPBData also carries) -/
inductive DVal where
  | undef | bool (b : Bool) | int (i : Int) | flt (bits : Nat) | str (s : String)
  | arr (vs : List DVal) | hsh (es : List (DVal × DVal)) | bin (bs : List UInt8)
  deriving Repr, Inhabited

/-- the kinds the type switches of proto/convert.go distinguish -/
inductive PKind where
  | bool | flt | int | str | undef | arr | hsh | bin | ref | other (src : String)
  deriving DecidableEq, Repr, Inhabited

/-- which kinds each type switch handles explicitly (regenerated from the source); any other kind falls to the
    switch's `default:` arm, which yields undef -/
structure PBArms where
  toPB : List PKind
  fromPB : List PKind
  consume : List PKind
  deriving Repr, Inhabited

def DVal.kind : DVal → PKind
  | .undef => .undef | .bool _ => .bool | .int _ => .int | .flt _ => .flt | .str _ => .str
  | .arr _ => .arr | .hsh _ => .hsh | .bin _ => .bin

def PB.kind : PB → PKind
  | .undef => .undef | .bool _ => .bool | .int _ => .int | .flt _ => .flt | .str _ => .str
  | .arr _ => .arr | .hsh _ => .hsh | .bin _ => .bin | .ref _ => .ref

mutual
/-- `ToPBData` -/
def toPB (a : PBArms) : DVal → PB
  | .undef => .undef
  | .bool b => if PKind.bool ∈ a.toPB then .bool b else .undef
  | .int i => if PKind.int ∈ a.toPB then .int i else .undef
  | .flt f => if PKind.flt ∈ a.toPB then .flt f else .undef
  | .str s => if PKind.str ∈ a.toPB then .str s else .undef
  | .bin bs => if PKind.bin ∈ a.toPB then .bin bs else .undef
  | .arr vs => if PKind.arr ∈ a.toPB then .arr (toPBs a vs) else .undef
  | .hsh es => if PKind.hsh ∈ a.toPB then .hsh (toPBes a es) else .undef
def toPBs (a : PBArms) : List DVal → List PB
  | [] => [] | v :: vs => toPB a v :: toPBs a vs
def toPBes (a : PBArms) : List (DVal × DVal) → List (PB × PB)
  | [] => [] | (k, v) :: es => (toPB a k, toPB a v) :: toPBes a es
end

mutual
/-- `FromPBData` (on the current tree it has no arm for binary and reference: both fall to `default`) -/
def fromPB (a : PBArms) : PB → DVal
  | .undef => .undef
  | .bool b => if PKind.bool ∈ a.fromPB then .bool b else .undef
  | .int i => if PKind.int ∈ a.fromPB then .int i else .undef
  | .flt f => if PKind.flt ∈ a.fromPB then .flt f else .undef
  | .str s => if PKind.str ∈ a.fromPB then .str s else .undef
  | .bin bs => if PKind.bin ∈ a.fromPB then .bin bs else .undef
  | .ref _ => .undef
  | .arr vs => if PKind.arr ∈ a.fromPB then .arr (fromPBs a vs) else .undef
  | .hsh es => if PKind.hsh ∈ a.fromPB then .hsh (fromPBes a es) else .undef
def fromPBs (a : PBArms) : List PB → List DVal
  | [] => [] | v :: vs => fromPB a v :: fromPBs a vs
def fromPBes (a : PBArms) : List (PB × PB) → List (DVal × DVal)
  | [] => [] | (k, v) :: es => (fromPB a k, fromPB a v) :: fromPBes a es
end

/-- events with the scalars protobuf carries -/
inductive PEv where
  | v (s : PB)            -- only scalar constructors of PB are used here
  | ref (n : Int) | arr (es : List PEv) | hsh (es : List PEv)
  deriving Repr, Inhabited

mutual
/-- `ConsumePBData`: a kind without an arm is delivered as undef -/
def consumePB (a : PBArms) : PB → PEv
  | .arr vs => if PKind.arr ∈ a.consume then .arr (consumePBs a vs) else .v .undef
  | .hsh es => if PKind.hsh ∈ a.consume then .hsh (consumePBes a es) else .v .undef
  | .ref n => if PKind.ref ∈ a.consume then .ref n else .v .undef
  | s => if s.kind ∈ a.consume ∨ s.kind = .undef then .v s else .v .undef
def consumePBs (a : PBArms) : List PB → List PEv
  | [] => [] | v :: vs => consumePB a v :: consumePBs a vs
def consumePBes (a : PBArms) : List (PB × PB) → List PEv
  | [] => [] | (k, v) :: es => consumePB a k :: consumePB a v :: consumePBes a es
end

/-- pair up the children of a hash the way `protoConsumer.AddHash` does; `none` = index out of range -/
def pairUp : List PB → Option (List (PB × PB))
  | [] => some []
  | [_] => none
  | k :: v :: rest => (pairUp rest).map ((k, v) :: ·)

mutual
/-- `protoConsumer` driven by an event tree -/
def protoConsume : PEv → Option PB
  | .v s => some s
  | .ref n => some (.ref n)
  | .arr es => (protoConsumes es).map .arr
  | .hsh es => (protoConsumes es).bind fun cs => (pairUp cs).map .hsh
def protoConsumes : List PEv → Option (List PB)
  | [] => some []
  | e :: es => (protoConsume e).bind fun c => (protoConsumes es).map (c :: ·)
end

end Pcore.Json
