/-
  C20 model, extended — EVERY value kind with a ToString of its own, and format maps over ANY system of key types.

  `Format.lean` models the ten kinds Integer … Hash under maps keyed by the 16 parameterless default types.  This file
  adds (file func → definition), the code AS IT IS NOW:
    types/semvertype.go       SemVer.ToString          → `fmtSemVer`      (`s` with the string flags, `#s` quoted; `p` = SemVer('…') with the
                                                                           string flags — after fix 5c2f826)
    types/semverrangetype.go  SemVerRange.ToString     → `fmtSemVerRange` (`p`, `s`; `#` = the normalized text; both with the string flags)
    types/uritype.go          UriValue.ToString        → `fmtUri`         (as SemVer, `URI('…')`)
    types/timespantype.go     Timespan.ToString        → `fmtTspan`       (DefaultTimespanFormats[0].format2: the context is ignored; the
                                                                           text is `Pcore.Ser.printSpan`, Model/SpanCodec.lean)
    types/timestamptype.go    Timestamp.ToString       → `fmtTstamp`      (time.Format(default layout): the context is ignored; the text of
                                                                           Go's time package is a parameter carried by the value)
    types/sensitivetype.go    Sensitive.ToString       → `fmtSensitive`   (a constant; the context is ignored)
    types/types.go            TypeToString, basicTypeToString → `fmtX (.typ …)`, `typeFinish` (name, then the parameters as an Array
                                                                           under the SAME map and `ctx.Subsequent()`; `#s` quotes; string flags)
    types/typealiastype.go    TypeAliasType.ToString   → `fmtX (.talias …)` (the name whatever the letter and the flags; `%#b`: ` = ` and the resolved
                                                                           type under the SAME context — where a type rejects the letter b)
    types/objecttype.go       objectType.ToString, basicTypeToString → `fmtX (.otype …)`, `otypeEntries`, `otypeMembers` (a named object type is
                                                                           its name; an anonymous one is `Object[{key => value, …}]` of its init hash:
                                                                           `attributes` / `functions` with unquoted key and quoted member names, their
                                                                           types under the SAME map two levels in, the other values under the container
                                                                           formats one level in; alt: one key per line)
    types/format.go           formatContext.Subsequent → `Ind.ctxSubsequent`
    types/objecttype.go       ObjectToString           → `fmtX (.obj …)` (line break, name, the init hash by Hash.ToString2 with `(`; an instance
                                                                           of an anonymous type: the line break, then the init hash as a Hash)
    types/hashtype.go         Hash.ToString2 (delim)   → `hashAssembleD` (the `(` form never takes the format's delimiter and writes no break)
    types/arraytype.go        isContainer              → `XVal.isContainer` (Array, Hash, object instances)
    px/format.go              GetFormat                → `getG` over a key system `KeySys κ`: ANY type of keys with an acceptance
                                                          relation (`px.IsAssignable(key, v.PType())`) and the 16 default types among them
  The texts of a SemVer (`Version().String()`), of a SemVerRange (`String()`, `NormalizedString()`: github.com/lyraproj/semver)
  and of a URI (net/url `URL.String()`) are carried by the value: they are the business of those libraries.
  Type values are (`Name()`, `Parameters()`): which parameters a type has is the type printer's business (C05).
  Core-only file (linked into the driver).
-/
import Pcore.Model.Format
import Pcore.Model.SpanCodec
namespace Pcore.Format

/-! ### values -/

mutual
inductive XVal where
  | undef | dflt | bool (b : Bool) | int (i : Int) | float (bits : Nat)
  | str (s : Str) | regexp (src : Str) | binary (bs : List Nat) (utf8 : Option Str)
  | semver (text : Str)
  | semverRange (text norm : Str)
  | uri (text : Str)
  | tspan (ns : Int)
  | tstamp (text : Str)
  | sensitive (v : XVal)
  | typ (name : Str) (params : List XVal)
  | talias (name : Str) (resolved : XVal)       -- a type alias used as a value
  | otype (name : Str) (ih : List OEntry)      -- an object type used as a value: its name ("" = anonymous) and its init hash
  | otypeX (isDefault : Bool) (ih : List OEntry) -- … in a context with the property `expanded`: written expanded (unless it is the
                                               -- default Object type), and a container
  | obj (name : Str) (es : List XEntry)
  | array (vs : List XVal) | hash (es : List XEntry)
inductive XEntry where
  | mk (k v : XVal)
/-- an entry of the init hash of an object type as `basicTypeToString` switches on it: `attributes` / `functions` hold members
    (name ↦ type or hash), any other key a value -/
inductive OEntry where
  | plain (key : Str) (v : XVal)
  | members (key : Str) (ms : List XEntry)
end

inductive XKind where
  | int | float | str | bool | undef | dflt | bin | regexp | arr | hash
  | semver | semverRange | uri | tspan | tstamp | sensitive | typ | obj | talias | otype
  deriving DecidableEq, Repr

def XVal.kind : XVal → XKind
  | .undef => .undef | .dflt => .dflt | .bool _ => .bool | .int _ => .int | .float _ => .float
  | .str _ => .str | .regexp _ => .regexp | .binary _ _ => .bin | .array _ => .arr | .hash _ => .hash
  | .semver _ => .semver | .semverRange _ _ => .semverRange | .uri _ => .uri | .tspan _ => .tspan | .tstamp _ => .tstamp
  | .sensitive _ => .sensitive | .typ _ _ => .typ | .obj _ _ => .obj | .talias _ _ => .talias | .otype _ _ => .otype
  | .otypeX _ _ => .otype

/-- `isContainer` (arraytype.go): Array, Hash, object instances — and, in a context with the property `expanded`, object types
    (`otypeX`; the property itself is not a parameter of the model: a value formatted in such a context has `otypeX` wherever an
    object type occurs outside the init hash of another one — inside, the property is switched off: "Avoid nested expansions") -/
def XVal.isContainer : XVal → Bool
  | .array _ | .hash _ | .obj _ _ | .otypeX _ _ => true
  | _ => false

def Kind.x : Kind → XKind
  | .int => .int | .float => .float | .str => .str | .bool => .bool | .undef => .undef | .dflt => .dflt
  | .bin => .bin | .regexp => .regexp | .arr => .arr | .hash => .hash

/-- the HashEntry as the array it is formatted as -/
def XEntry.arr : XEntry → XVal
  | .mk k v => .array [k, v]

/-- one row of the regenerated format-letter table, every kind (extract/formatletters.go, table `formatLettersX`) -/
structure XLetterRow where
  kind : XKind
  noSwitch : Bool            -- the ToString method has no switch on the letter: the letter is ignored
  handled : List Char        -- letters of the arms that format
  toFloat : List Char
  toInt : List Char
  flagsAll : Bool            -- ApplyStringFlags is called outside the switch: whatever the letter
  flagged : List Char        -- letters whose arm calls ApplyStringFlags (width, precision and `-` are honoured)
  documented : List Char     -- the literal passed to UnsupportedFormat
  unknown : List String
  deriving Repr

/-! ### the scalar kinds beyond Format.lean -/

/-- `SemVer.ToString` -/
def fmtSemVer (f : Fmt) (text : Str) : Res :=
  if f.letter = 's' then .text (applyStringFlags f text f.alt)
  else if f.letter = 'p' then .text (applyStringFlags f ("SemVer(".toList ++ puppetQuote text ++ [')']) false)
  else .reported .unsupported

/-- `SemVerRange.ToString` -/
def fmtSemVerRange (f : Fmt) (text norm : Str) : Res :=
  if f.letter = 'p' then .text (applyStringFlags f ("SemVerRange(".toList ++ puppetQuote (if f.alt then norm else text) ++ [')']) false)
  else if f.letter = 's' then .text (applyStringFlags f (if f.alt then norm else text) false)
  else .reported .unsupported

/-- `UriValue.ToString` -/
def fmtUri (f : Fmt) (text : Str) : Res :=
  if f.letter = 's' then .text (applyStringFlags f text f.alt)
  else if f.letter = 'p' then .text (applyStringFlags f ("URI(".toList ++ puppetQuote text ++ [')']) false)
  else .reported .unsupported

/-- `Timespan.ToString`: the default format `%D-%H:%M:%S.%-N`, whatever the context says -/
def fmtTspan (ns : Int) : Res := .text (Pcore.Ser.printSpan ns).toList

/-- `Timestamp.ToString`: `time.Format` with the default layout, whatever the context says -/
def fmtTstamp (text : Str) : Res := .text text

/-- `Sensitive.ToString` -/
def fmtSensitive : Res := .text "Sensitive [value redacted]".toList

def isTypeLetter (c : Char) : Bool := c = 's' || c = 'p'

/-- `TypeToString` after `basicTypeToString` has produced the name and the parameter list: `#s` quotes, and the string flags
    apply to the whole text -/
def typeFinish (f : Fmt) (name : Str) (params : Res) : Res :=
  params.bind fun ps =>
    let quoted := f.alt && f.letter = 's'
    if quoted || hasStringFlags f then .text (applyStringFlags f (name ++ ps) quoted) else .text (name ++ ps)

/-- `formatContext.Subsequent`: "never break between the type and the start array marker" -/
def Ind.ctxSubsequent (i : Ind) : Ind := if i.breaks then ⟨true, i.indenting, i.level⟩ else i

/-! ### format maps over any system of key types -/

/-- a Format with its container formats, the keys of type `κ` -/
inductive GTree (κ : Type) where
  | mk (f : Fmt) (cf : Option (List (κ × GTree κ)))

abbrev GMap (κ : Type) := List (κ × GTree κ)

def GTree.f {κ : Type} : GTree κ → Fmt | .mk f _ => f
def GTree.cf {κ : Type} : GTree κ → Option (GMap κ) | .mk _ cf => cf

/-- a system of key types: which values a key type accepts (`px.IsAssignable(key, v.PType())`), and the 16 parameterless
    default types (the keys of the default tables) among the keys -/
structure KeySys (κ : Type) where
  acc : κ → XVal → Bool
  dflt : Key → κ

def defaultTreeG {κ : Type} : GTree κ := .mk (simpleFmt 's') none

/-- `DefaultContainerFormats`, all eight entries (its container entries hold the table again — a cycle in Go; `none` renders the same) -/
def defaultCFG {κ : Type} (d : Key → κ) : GMap κ := [
  (d .obj, .mk (basicFmt 'p' (some " => ".toList) (some '(')) none), (d .typ, .mk (basicFmt 'p' (some " => ".toList) (some '(')) none),
  (d .float, .mk (simpleFmt 'p') none), (d .numeric, .mk (simpleFmt 'p') none),
  (d .arr, .mk (basicFmt 'p' (some [',']) (some '[')) none), (d .hash, .mk (basicFmt 'p' (some " => ".toList) (some '{')) none),
  (d .bin, .mk (simpleFmt 'p') none), (d .any, .mk (simpleFmt 'p') none)]

/-- `px.GetFormat` -/
def getG {κ : Type} (ks : KeySys κ) (m : GMap κ) (v : XVal) : GTree κ :=
  match m.find? (fun e => ks.acc e.1 v) with
  | some e => e.2
  | none => defaultTreeG

def cfOfG {κ : Type} (ks : KeySys κ) (t : GTree κ) : GMap κ := t.cf.getD (defaultCFG ks.dflt)

/-! ### containers -/

/-- everything Hash.ToString2 writes for the letters h s p; `paren` = called with the delimiter `(` (object instances): the
    format's own delimiter is not consulted and no line break is written in front -/
def hashAssembleD (f : Fmt) (ind0 : Ind) (paren : Bool) (parts : List (Str × Str)) : Str :=
  let ind := ind0.withIndenting (f.alt || ind0.indenting)
  let (l, r) := if paren then (['('], [')']) else delimPair f.ldelim '{'
  let sep := f.sep.getD [','] ++ (if f.alt then ['\n'] else [' '])
  let assoc := f.sep2.getD " => ".toList
  let pad := if f.alt then (ind.increase f.alt).padding else []
  (if ind.breaks && !paren then '\n' :: ind.padding else []) ++ l ++ (if f.alt then ['\n'] else []) ++
  hashEntries assoc sep pad parts ++ (if f.alt then '\n' :: ind.padding else []) ++ r

def arrayOf (f : Fmt) (ind : Ind) (r : ResL (Str × Bool)) : Res :=
  match r with
  | .ok parts => .text (arrayAssemble f ind parts)
  | .err e => e

def hashOf (f : Fmt) (ind : Ind) (paren : Bool) (r : ResL (Str × Str)) : Res :=
  match r with
  | .ok parts => .text (hashAssembleD f ind paren parts)
  | .err e => e

/-- the keys of the init hash whose value `basicTypeToString` writes as members -/
def isMemberKey (k : Str) : Bool := k = "attributes".toList || k = "functions".toList

/-- what precedes an entry of the expanded object type: `,` (and a blank unless alt) after the first, in alt mode a line break and
    the padding of the entries' level -/
def otypeLead (f : Fmt) (first : Bool) (pad : Str) : Str :=
  (if first then [] else [','] ++ (if f.alt then [] else [' '])) ++ (if f.alt then '\n' :: pad else [])

mutual
/-- `v.ToString(b, ctx, g)` with ctx = (format map `m`, indentation `ind`), every kind -/
def fmtX {κ : Type} (ks : KeySys κ) (io : FloatIO) (m : GMap κ) (ind : Ind) : XVal → Res
  | .undef => fmtUndef (getG ks m .undef).f
  | .dflt => fmtDefault (getG ks m .dflt).f
  | .bool b => fmtBool io (getG ks m (.bool b)).f b
  | .int i => fmtInt io (getG ks m (.int i)).f i
  | .float bits => fmtFloat io (getG ks m (.float bits)).f bits
  | .str s => fmtStr (getG ks m (.str s)).f s
  | .regexp src => fmtRegexp (getG ks m (.regexp src)).f src
  | .binary bs u => fmtBinary (getG ks m (.binary bs u)).f bs u
  | .semver t => fmtSemVer (getG ks m (.semver t)).f t
  | .semverRange t n => fmtSemVerRange (getG ks m (.semverRange t n)).f t n
  | .uri t => fmtUri (getG ks m (.uri t)).f t
  | .tspan ns => fmtTspan ns
  | .tstamp t => fmtTstamp t
  | .sensitive _ => fmtSensitive
  | .typ name params =>
    let t := getG ks m (.typ name params)
    if !isTypeLetter t.f.letter then .reported .unsupported
    else typeFinish t.f name
      (match params with
       | [] => .text []
       | p :: ps =>
         -- WrapValues(params).ToString(b, s.Subsequent(), g)
         let ind' := ind.ctxSubsequent
         let ta := getG ks m (.array (p :: ps))
         if !isArrayLetter ta.f.letter then .reported .unsupported
         else arrayOf ta.f ind' (fmtElemsX ks io m (cfOfG ks ta) (arrayChildInd ta.f ind') (p :: ps)))
  | .talias name resolved =>
    let t := getG ks m (.talias name resolved)
    if name = "UnresolvedAlias".toList then .text "TypeAlias".toList
    else if !(t.f.alt && t.f.letter = 'b') then .text name
    else (fmtX ks io m ind resolved).bind fun s => .text (name ++ " = ".toList ++ s)
  | .otype name ih =>
    let t := getG ks m (.otype name ih)
    if !isTypeLetter t.f.letter then .reported .unsupported
    else
      let body : Res :=
        if !name.isEmpty then .text name
        else
          -- basicTypeToString of an anonymous object type: indent2 / indent3 = Increase(alt) once / twice
          let i2 := ind.increase t.f.alt
          let i3 := i2.increase t.f.alt
          (otypeEntries ks io m (cfOfG ks t) t.f i2 i3 true ih).bind fun s =>
            .text ("Object[{".toList ++ s ++ (if t.f.alt then '\n' :: ind.padding else []) ++ "}]".toList)
      typeFinish t.f [] body
  | .otypeX isDefault ih =>
    let t := getG ks m (.otypeX isDefault ih)
    if !isTypeLetter t.f.letter then .reported .unsupported
    else
      let body : Res :=
        if isDefault then .text "Object".toList
        else
          let i2 := ind.increase t.f.alt
          let i3 := i2.increase t.f.alt
          (otypeEntries ks io m (cfOfG ks t) t.f i2 i3 true ih).bind fun s =>
            .text ("Object[{".toList ++ s ++ (if t.f.alt then '\n' :: ind.padding else []) ++ "}]".toList)
      typeFinish t.f [] body
  | .obj name es =>
    -- ObjectToString: the break of the context's indentation, the type name, InitHash().ToString2(…, '(')
    let body : Res :=
      if name.isEmpty then
        -- "Anonymous objects can't be written in constructor call form. They are instead written as a Hash": ih.ToString(b, s, g),
        -- the Hash format of the map, `{`, and the Hash's own line break after the one written above
        let t := getG ks m (.hash es)
        if t.f.letter = 'a' then
          let ta := getG ks m (.array (es.map XEntry.arr))
          if !isArrayLetter ta.f.letter then .reported .unsupported
          else arrayOf ta.f ind (fmtEntryArrsX ks io (cfOfG ks ta) (arrayChildInd ta.f ind) es)
        else if !isHashLetter t.f.letter then .reported .unsupported
        else hashOf t.f ind false (fmtPairsX ks io m (cfOfG ks t) (hashChildInd t.f ind) es)
      else
        let t := getG ks m (.obj name es)
        if t.f.letter = 'a' then
          let ta := getG ks m (.array (es.map XEntry.arr))
          if !isArrayLetter ta.f.letter then .reported .unsupported
          else arrayOf ta.f ind (fmtEntryArrsX ks io (cfOfG ks ta) (arrayChildInd ta.f ind) es)
        else if !isHashLetter t.f.letter then .reported .unsupported
        else hashOf t.f ind true (fmtPairsX ks io m (cfOfG ks t) (hashChildInd t.f ind) es)
    body.bind fun s => .text ((if ind.breaks then '\n' :: ind.padding else []) ++ name ++ s)
  | .array vs =>
    let t := getG ks m (.array vs)
    if !isArrayLetter t.f.letter then .reported .unsupported
    else arrayOf t.f ind (fmtElemsX ks io m (cfOfG ks t) (arrayChildInd t.f ind) vs)
  | .hash es =>
    let t := getG ks m (.hash es)
    if t.f.letter = 'a' then
      -- WrapArray3(hv).ToString(b, s, g): an array of entries under the same map
      let ta := getG ks m (.array (es.map XEntry.arr))
      if !isArrayLetter ta.f.letter then .reported .unsupported
      else arrayOf ta.f ind (fmtEntryArrsX ks io (cfOfG ks ta) (arrayChildInd ta.f ind) es)
    else if !isHashLetter t.f.letter then .reported .unsupported
    else hashOf t.f ind false (fmtPairsX ks io m (cfOfG ks t) (hashChildInd t.f ind) es)

/-- the entries of the init hash of an expanded object type: a value under the same map when it is a container, else under the
    container formats, one level in; the members of `attributes` / `functions` between braces -/
def otypeEntries {κ : Type} (ks : KeySys κ) (io : FloatIO) (m cf : GMap κ) (f : Fmt) (i2 i3 : Ind) (first : Bool) : List OEntry → Res
  | [] => .text []
  | .plain key v :: rest =>
    (fmtX ks io (if v.isContainer then m else cf) i2 v).bind fun sv =>
      (otypeEntries ks io m cf f i2 i3 false rest).bind fun sr =>
        .text (otypeLead f first i2.padding ++ key ++ " => ".toList ++ sv ++ sr)
  | .members key ms :: rest =>
    -- "The keys should not be quoted in this hash"
    (otypeMembers ks io m f i3 true ms).bind fun s =>
      (otypeEntries ks io m cf f i2 i3 false rest).bind fun sr =>
        .text (otypeLead f first i2.padding ++ key ++ " => ".toList ++ (['{'] ++ s ++ (if f.alt then '\n' :: i2.padding else []) ++ ['}']) ++ sr)

/-- the members of `attributes` / `functions`: quoted name, ` => `, the member's type (or hash) under the same map two levels in -/
def otypeMembers {κ : Type} (ks : KeySys κ) (io : FloatIO) (m : GMap κ) (f : Fmt) (i3 : Ind) (first : Bool) : List XEntry → Res
  | [] => .text []
  | .mk k v :: rest =>
    let name : Str := match k with | .str s => s | _ => []
    (fmtX ks io m i3 v).bind fun sv =>
      (otypeMembers ks io m f i3 false rest).bind fun sr =>
        .text (otypeLead f first i3.padding ++ puppetQuote name ++ " => ".toList ++ sv ++ sr)

/-- `childToString` for each element: a container child keeps the parent's map, any other child gets `cf` -/
def fmtElemsX {κ : Type} (ks : KeySys κ) (io : FloatIO) (m cf : GMap κ) (ci : Ind) : List XVal → ResL (Str × Bool)
  | [] => .ok []
  | v :: vs =>
    ResL.cons (fmtX ks io (if v.isContainer then m else cf) ci v) (fun s => (s, v.isContainer)) (fun _ => fmtElemsX ks io m cf ci vs)

def fmtPairsX {κ : Type} (ks : KeySys κ) (io : FloatIO) (m cf : GMap κ) (ci : Ind) : List XEntry → ResL (Str × Str)
  | [] => .ok []
  | .mk k v :: es =>
    match fmtX ks io (if k.isContainer then m else cf) ci k with
    | .text sk =>
      ResL.cons (fmtX ks io (if v.isContainer then m else cf) ci v) (fun sv => (sk, sv)) (fun _ => fmtPairsX ks io m cf ci es)
    | e => .err e

/-- the entries of a hash formatted with `a`: each HashEntry is the array [k, v] under the map `m` (the container formats of
    the enclosing array: a HashEntry is not a container) -/
def fmtEntryArrsX {κ : Type} (ks : KeySys κ) (io : FloatIO) (m : GMap κ) (ind : Ind) : List XEntry → ResL (Str × Bool)
  | [] => .ok []
  | .mk k v :: es =>
    let t := getG ks m (.array [k, v])
    let r : Res :=
      if !isArrayLetter t.f.letter then .reported .unsupported
      else
        let ci := arrayChildInd t.f ind
        match fmtX ks io (if k.isContainer then m else cfOfG ks t) ci k with
        | .text sk =>
          (match fmtX ks io (if v.isContainer then m else cfOfG ks t) ci v with
           | .text sv => .text (arrayAssemble t.f ind [(sk, k.isContainer), (sv, v.isContainer)])
           | e => e)
        | e => e
    ResL.cons r (fun s => (s, false)) (fun _ => fmtEntryArrsX ks io m ind es)
end

/-- `px.ToString2(v, px.NewFormatContext2(DefaultIndentation, m, nil))` -/
def formatX {κ : Type} (ks : KeySys κ) (io : FloatIO) (m : GMap κ) (v : XVal) : Res := fmtX ks io m Ind.default v

/-! ### the key system of the parameterless default types: the 16 keys of `Key` and the default types of the new kinds -/

inductive XKey where
  | base (k : Key)
  | semver | semverRange | uri | tspan | tstamp | sensitive
  deriving DecidableEq, Repr

/-- `px.IsAssignable(key, v.PType())` for the parameterless key types (scalartype.go: Scalar admits Timespan, Timestamp and
    SemVer beside String, Numeric, Boolean and Regexp) -/
def XKey.accepts : XKey → XKind → Bool
  | .base .any, _ => true
  | .base .scalar, k => k = .int || k = .float || k = .str || k = .bool || k = .regexp || k = .tspan || k = .tstamp || k = .semver
  | .base .numeric, k => k = .int || k = .float
  | .base .int, k => k = .int | .base .float, k => k = .float | .base .str, k => k = .str | .base .bool, k => k = .bool
  | .base .bin, k => k = .bin | .base .arr, k => k = .arr | .base .hash, k => k = .hash
  | .base .coll, k => k = .arr || k = .hash
  | .base .undef, k => k = .undef | .base .dflt, k => k = .dflt | .base .regexp, k => k = .regexp
  | .base .obj, k => k = .obj | .base .typ, k => k = .typ || k = .talias || k = .otype
  | .semver, k => k = .semver | .semverRange, k => k = .semverRange | .uri, k => k = .uri
  | .tspan, k => k = .tspan | .tstamp, k => k = .tstamp | .sensitive, k => k = .sensitive

def kindKeys : KeySys XKey := { acc := fun k v => k.accepts v.kind, dflt := .base }

/-- the exact key type of a kind -/
def XKind.key : XKind → XKey
  | .int => .base .int | .float => .base .float | .str => .base .str | .bool => .base .bool | .undef => .base .undef
  | .dflt => .base .dflt | .bin => .base .bin | .regexp => .base .regexp | .arr => .base .arr | .hash => .base .hash
  | .semver => .semver | .semverRange => .semverRange | .uri => .uri | .tspan => .tspan | .tstamp => .tstamp
  | .sensitive => .sensitive | .typ => .base .typ | .obj => .base .obj | .talias => .base .typ | .otype => .base .typ

/-- `px.ToString2(v, px.NewFormatContext(<type accepting v>, NewFormat(directive), DefaultIndentation))` -/
def formatDirectiveX (io : FloatIO) (directive : Str) (v : XVal) : Res :=
  match newFormat directive with
  | .error c => .reported c
  | .ok f => formatX kindKeys io [(.base .any, .mk f none)] v

end Pcore.Format
