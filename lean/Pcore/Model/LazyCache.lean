/-!
# The lazily built type caches of Array and Hash values (property C13, "an inferred type is never observed half-built")

| Go (types/arraytype.go, types/hashtype.go at HEAD)                         | Lean                         |
|------------------------------------------------------------------------------|------------------------------|
| `Array.privateReducedType`, `Hash.privateReducedType` (`PType()`; also the first thing `ToString` does) | `reduced`, `CPC.fillRed` |
| `Array.privateDetailedType`, `Hash.privateDetailedType` (`px.DetailedValueType`) | `.dtype` in `startOp`, `CPC.fillDet` |
| `verifhook.Point("array|hash.reduced|detailed.published")` right after the cache pointer is assigned | the steps that end in `fillRed` / `fillDet` |

A cache is `empty`, `partial` (the pointer is published, the object not yet completed), or `done`; the detailed-type cache
of an empty container and of a hash with a non-string key is the reduced type object itself (`aliasRed`).
Whether a fill function publishes the object BEFORE completing it is not written here: it is read from the table
`Generated.cacheSites`, regenerated from the sources on every run (`Cfg.ofTable`).  That table lists EVERY lazily
initialised field found (by shape: `if recv.F == nil { … recv.F = … }`) in types/arraytype.go, hashtype.go, typedname.go,
structtype.go, objecttype.go — also StructType.hashedMembers, the typedName caches, objectType.ctor / initType — and the
obligation `publishOKExcept knownPublishFirst` holds every site outside the recorded ones to "assign complete values only".
What a reader of a `part` cache gets: the half-built type (`Array[Any,n,n]`, `Hash[Any,Any,n,n]`, a Tuple / Struct with `Any`
members).  (Before fix 8774e1c the Tuple of an Array's detailed type was published with NIL element types and a reader
crashed printing it; `Obs.fault` is kept for that answer, which the model can no longer produce.)
Only flat containers of scalars are modelled (the harness generates no others): a nested container would add the
caches of its elements.  An Array may additionally hold `slow` elements — values of a harness-defined kind whose own
`PType()` is a yield point ("elem.ptype") — so that a fill can be preempted INSIDE its fold over the elements
(`CPC.fillRed _ k` / `CPC.fillDet k`: k slow elements still to be asked); the cache stays `part` throughout.
COMPLETION WRITES.  Between the publication and the return a fill function completes the published object through the
pointer it published.  `CacheWrite` is one row of the second regenerated table (`Generated.cacheWrites`): such a write with
its shape — `once` (one assignment of the final value), `perIndex` (slot i of a slice, in the loop over i), `repeated`
(anything else: a location assigned more than once, or in a loop — an in-place fold).  With `once`/`perIndex` writes a
reader of a `part` cache sees the placeholder or a final component: a type that is imprecise but still a type of the
value (`Obs.half`).  With a `repeated` write it can see an intermediate value — e.g. an element type that covers only the
elements folded so far: NOT a type of the value (`Obs.narrow`).  The test `cache == nil` and the publication are one step (two goroutines that both see nil
both fill; with publication last that is harmless, with publication first it only adds more `partial` windows).
Core Lean only.
-/
namespace Pcore.LazyCache

structure CacheSite where
  fn : String
  field : String
  publishLast : Bool
  deriving DecidableEq, Repr

/-- the discipline: the write that publishes a cache pointer is the last write to the object -/
def publishAfterInit (tbl : List CacheSite) : Bool := tbl.all (·.publishLast)

/-- the fill functions recorded as publishing before the object is complete (known finding
    C13-type-cache-published-before-init: the early publication is their recursion guard) -/
def knownPublishFirst : List String :=
  ["Array.privateReducedType", "Array.privateDetailedType", "Hash.privateReducedType", "Hash.privateDetailedType",
   "objectType.createInitType"]

/-- the discipline for everything else: every lazily initialised field the extractor FINDS in the anchored type and value
    files is only ever assigned a complete value -/
def publishOKExcept (known : List String) (tbl : List CacheSite) : Bool :=
  (tbl.filter fun s => !known.contains s.fn).all (·.publishLast)

/-- the executable converse: a site outside the recorded ones that publishes first (or was not understood) -/
def publishOffender (known : List String) (tbl : List CacheSite) : Option CacheSite :=
  (tbl.filter fun s => !known.contains s.fn).find? fun s => !s.publishLast

inductive WriteShape where
  | once | perIndex | repeated
  deriving DecidableEq, Repr

/-- a write through the published pointer, between the publication and the return of a fill function -/
structure CacheWrite where
  fn : String
  target : String
  shape : WriteShape
  deriving DecidableEq, Repr

/-- the discipline for completion writes: every location of a published object is written at most once, with its final
    value (no in-place fold) -/
def completionOK (tbl : List CacheWrite) : Bool := tbl.all (·.shape != .repeated)

def completionOffender (tbl : List CacheWrite) : Option CacheWrite := tbl.find? (·.shape == .repeated)

def fnFoldsInPlace (tbl : List CacheWrite) (fn : String) : Bool := tbl.any fun w => w.fn == fn && w.shape == .repeated

/-- every recognised publication of this function comes last (and the function was recognised at all) -/
def fnPublishesLast (tbl : List CacheSite) (fn : String) : Bool :=
  tbl.any (·.fn == fn) && (tbl.filter (·.fn == fn)).all (·.publishLast)

/-- true = the function publishes the object before it is complete -/
structure Cfg where
  arrRed : Bool
  arrDet : Bool
  hshRed : Bool
  hshDet : Bool
  -- true = the function completes the published object by an in-place fold (`repeated` completion writes)
  arrRedFold : Bool := false
  arrDetFold : Bool := false
  hshRedFold : Bool := false
  hshDetFold : Bool := false
  deriving DecidableEq, Repr

def Cfg.ofTable (tbl : List CacheSite) : Cfg :=
  { arrRed := !fnPublishesLast tbl "Array.privateReducedType", arrDet := !fnPublishesLast tbl "Array.privateDetailedType",
    hshRed := !fnPublishesLast tbl "Hash.privateReducedType", hshDet := !fnPublishesLast tbl "Hash.privateDetailedType" }

/-- the model configured from both regenerated tables -/
def Cfg.ofTables (sites : List CacheSite) (writes : List CacheWrite) : Cfg :=
  { Cfg.ofTable sites with
    arrRedFold := fnFoldsInPlace writes "Array.privateReducedType", arrDetFold := fnFoldsInPlace writes "Array.privateDetailedType",
    hshRedFold := fnFoldsInPlace writes "Hash.privateReducedType", hshDetFold := fnFoldsInPlace writes "Hash.privateDetailedType" }

inductive Kind where
  | arr | hshStr | hshMixed
  deriving DecidableEq, Repr

def Cfg.redFirst (cfg : Cfg) : Kind → Bool
  | .arr => cfg.arrRed
  | _ => cfg.hshRed

def Cfg.detFirst (cfg : Cfg) : Kind → Bool
  | .arr => cfg.arrDet
  | _ => cfg.hshDet

def Cfg.redFold (cfg : Cfg) : Kind → Bool
  | .arr => cfg.arrRedFold
  | _ => cfg.hshRedFold

def Cfg.detFold (cfg : Cfg) : Kind → Bool
  | .arr => cfg.arrDetFold
  | _ => cfg.hshDetFold

inductive CS where
  | empty | part | done | aliasRed
  deriving DecidableEq, Repr

structure Shared where
  kind : Kind
  size : Nat
  red : CS
  det : CS
  slow : Nat := 0                -- how many of the elements are slow (their own PType() is a yield point)
  deriving DecidableEq, Repr

inductive Obs where
  | full | half | fault
  | narrow                        -- a type that is not a type of the value (an intermediate value of an in-place fold)
  deriving DecidableEq, Repr

inductive COp where
  | ptype | dtype | str
  | pure          -- a read that touches no lazily built type: hash key, equality, instance-of of the shared value
  deriving DecidableEq, Repr

inductive CPC where
  | idle
  | fillRed (thenDet : Bool) (k : Nat)   -- parked at "….reduced.published" (k = slow elements still to be asked), then at "elem.ptype"
  | fillDet (k : Nat)                    -- parked at "….detailed.published", then at "elem.ptype"
  deriving DecidableEq, Repr

structure Thread where
  pc : CPC
  ops : List COp
  log : List Obs
  deriving DecidableEq, Repr

instance : Inhabited Thread := ⟨{ pc := .idle, ops := [], log := [] }⟩

structure Config where
  sh : Shared
  th : List Thread
  deriving DecidableEq, Repr

def seeRed : CS → Obs
  | .part => .half
  | _ => .full

/-- what a reader of the reduced-type cache gets -/
def seeRedC (cfg : Cfg) (k : Kind) : CS → Obs
  | .part => if cfg.redFold k then .narrow else .half
  | _ => .full

/-- … of a half-built detailed type -/
def seeDetPart (cfg : Cfg) (k : Kind) : Obs := if cfg.detFold k then .narrow else .half

/-- `privateReducedType` up to its return or its publication point (`none` = parked there) -/
def reduced (cfg : Cfg) (s : Shared) : Shared × Option Obs :=
  match s.red with
  | .empty =>
    if s.size = 0 then ({ s with red := .done }, some .full)
    else ({ s with red := if cfg.redFirst s.kind then .part else .done }, none)
  | r => (s, some (seeRedC cfg s.kind r))

def startOp (cfg : Cfg) (s : Shared) (log : List Obs) (rest : List COp) : COp → Shared × Thread
  | .ptype =>
    match reduced cfg s with
    | (s', none) => (s', { pc := .fillRed false s.slow, ops := rest, log := log })
    | (s', some o) => (s', { pc := .idle, ops := rest, log := log ++ [o] })
  | .str =>                       -- ToString asks PType() for the format; the text does not depend on the answer
    match reduced cfg s with
    | (s', none) => (s', { pc := .fillRed false s.slow, ops := rest, log := log })
    | (s', some _) => (s', { pc := .idle, ops := rest, log := log ++ [.full] })
  | .pure => (s, { pc := .idle, ops := rest, log := log ++ [.full] })
  | .dtype =>
    match s.det with
    | .done => (s, { pc := .idle, ops := rest, log := log ++ [.full] })
    | .part => (s, { pc := .idle, ops := rest, log := log ++ [seeDetPart cfg s.kind] })
    | .aliasRed => (s, { pc := .idle, ops := rest, log := log ++ [seeRedC cfg s.kind s.red] })
    | .empty =>
      if s.size = 0 ∨ s.kind = .hshMixed then      -- detailedType = privateReducedType()
        match reduced cfg s with
        | (s', none) => (s', { pc := .fillRed true s.slow, ops := rest, log := log })
        | (s', some o) => ({ s' with det := .aliasRed }, { pc := .idle, ops := rest, log := log ++ [o] })
      else ({ s with det := if cfg.detFirst s.kind then .part else .done }, { pc := .fillDet s.slow, ops := rest, log := log })

def stepThread (cfg : Cfg) (s : Shared) (t : Thread) : Shared × Thread :=
  match t.pc with
  | .idle =>
    match t.ops with
    | [] => (s, t)
    | op :: rest => startOp cfg s t.log rest op
  | .fillRed thenDet (k + 1) => (s, { pc := .fillRed thenDet k, ops := t.ops, log := t.log })      -- the next slow element is asked
  | .fillRed thenDet 0 =>
    ({ s with red := .done, det := if thenDet then .aliasRed else s.det }, { pc := .idle, ops := t.ops, log := t.log ++ [.full] })
  | .fillDet (k + 1) => (s, { pc := .fillDet k, ops := t.ops, log := t.log })
  | .fillDet 0 => ({ s with det := .done }, { pc := .idle, ops := t.ops, log := t.log ++ [.full] })

def stepAt (cfg : Cfg) (c : Config) (i : Nat) : Config :=
  match c.th[i]? with
  | none => c
  | some t => { sh := (stepThread cfg c.sh t).1, th := c.th.set i (stepThread cfg c.sh t).2 }

inductive Reachable (cfg : Cfg) (c0 : Config) : Config → Prop where
  | init : Reachable cfg c0 c0
  | step {c : Config} (i : Nat) : Reachable cfg c0 c → Reachable cfg c0 (stepAt cfg c i)

def Config.init (kind : Kind) (size : Nat) (progs : List (List COp)) (slow : Nat := 0) : Config :=
  { sh := { kind := kind, size := size, red := .empty, det := .empty, slow := slow },
    th := progs.map fun p => { pc := .idle, ops := p, log := [] } }

def Thread.finished (t : Thread) : Bool := t.pc = .idle && t.ops.isEmpty

/-- every continuation is a yield point of the scheduler: a schedule entry is one step (skipped for a finished thread) -/
def release (cfg : Cfg) (c : Config) (i : Nat) : Config :=
  match c.th[i]? with
  | none => c
  | some t => if t.finished then c else stepAt cfg c i

def runSched (cfg : Cfg) (c : Config) : List Nat → Config
  | [] => c
  | i :: rest => runSched cfg (release cfg c i) rest

def drainThread (cfg : Cfg) : Nat → Config → Nat → Config
  | 0, c, _ => c
  | fuel + 1, c, i => drainThread cfg fuel (release cfg c i) i

def execute (cfg : Cfg) (kind : Kind) (size : Nat) (progs : List (List COp)) (sched : List Nat) (slow : Nat := 0) : Config :=
  let c := runSched cfg (Config.init kind size progs slow) sched
  (List.range c.th.length).foldl (fun c i => drainThread cfg ((2 + slow) * ((c.th.getD i default).ops.length + 1) + 2) c i) c

end Pcore.LazyCache
