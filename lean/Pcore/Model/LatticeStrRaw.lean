import Pcore.Model.LatticeInfer
/-!
# `NewStringType(NewIntegerType(lo, hi), "")` with the bounds as given (types/stringtype.go)

The constructor behind `String[min, max]` and every parsed `String[Integer[min, max]]` first clamps a negative minimum to 0
("a length is never negative") and only then compares the range with `Integer[0, default]` to answer the default String type.
The order matters: `String[Integer[-3, default]]` IS the default String (seeded change C03-s7 swapped the two steps and made a
size-constrained String with the range of the default one: unequal to String, rejecting the default Enum and every Pattern).

Driver term: `(strraw LO HI)`; harness term `lat.StrRaw`, constructor-normal term `lat.CanonStr`.
-/
namespace Pcore.Lat

/-- `NewStringType(rng, "")` for any Integer range: clamp the minimum, then `mkStr` -/
def mkStrRaw (r : Rng) : Ty := mkStr ⟨max r.lo 0, r.hi⟩

/-- a non-negative minimum: the constructor is `mkStr` -/
theorem mkStrRaw_nonneg (r : Rng) (h : 0 ≤ r.lo) : mkStrRaw r = mkStr r := by
  unfold mkStrRaw
  have : max r.lo 0 = r.lo := by omega
  rw [this]

/-- every range reaching from a non-positive minimum to the greatest length is the DEFAULT String (what C03-s7 breaks) -/
theorem mkStrRaw_default (lo : Int) (h : lo ≤ 0) : mkStrRaw ⟨lo, I64.max⟩ = .str := by
  unfold mkStrRaw mkStr
  have : max lo 0 = 0 := by omega
  simp [this, Rng.pos]

/-- the result never carries a negative minimum, and never the range of the default String -/
theorem mkStrRaw_normal (r r' : Rng) (h : mkStrRaw r = .strSz r') : 0 ≤ r'.lo ∧ r' ≠ Rng.pos := by
  unfold mkStrRaw mkStr at h
  split at h
  · cases h
  · rename_i hne
    injection h with h
    subst h
    refine ⟨by simp; omega, ?_⟩
    intro he
    apply hne
    simp [he]

/-- the constructor answers a String type and nothing else -/
theorem mkStrRaw_cases (r : Rng) : mkStrRaw r = .str ∨ ∃ r', mkStrRaw r = .strSz r' := by
  unfold mkStrRaw mkStr
  split
  · exact Or.inl rfl
  · exact Or.inr ⟨_, rfl⟩

example : mkStrRaw ⟨-3, I64.max⟩ = .str := mkStrRaw_default (-3) (by omega)
example : mkStrRaw ⟨-2, 5⟩ = .strSz ⟨0, 5⟩ := by
  have : max (-2 : Int) 0 = 0 := by omega
  simp [mkStrRaw, mkStr, Rng.pos, I64.max, this]
example : mkStrRaw ⟨2, 5⟩ = .strSz ⟨2, 5⟩ := by
  have : max (2 : Int) 0 = 2 := by omega
  simp [mkStrRaw, mkStr, Rng.pos, I64.max, this]

end Pcore.Lat
