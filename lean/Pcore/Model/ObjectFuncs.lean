import Pcore.Model.Object
/-
  C17 model, fifth part — member functions and INTERFACES.

  Mirrors (file → definition):
    types/objecttype.go  InitFromHash (isInterface)        → `isInterface` (no attributes — constants are attributes —, and the
                                                             parent is an interface, or there is no parent and the type
                                                             declares a function)
                         Functions(true) / collectFunctions → `allFuncs` (the parent's first, an overriding one in place)
                         Member                             → `memberFn` (per level: an ATTRIBUTE of that name hides every
                                                             function of it; then the level's functions; then the parent)
                         Implements                         → `implements` (every function of the interface is a function
                                                             member of an EQUAL type)
                         IsAssignable / IsInstance          → `isAssignableF`, `isInstanceF` (an interface accepts what
                                                             implements it — the parent chain is NOT walked —, any other
                                                             type itself and its descendants)
  Core-only file (linked into the driver).
-/
namespace Pcore.Object

def isInterface : OType → Bool
  | [] => false
  | [l] => l.attrs.isEmpty && !l.funcs.isEmpty
  | l :: p => l.attrs.isEmpty && isInterface p

/-- Functions(true): a StringHash filled parent first, `PutAll` replacing the value of an existing key in place -/
def allFuncs : OType → List FnDecl
  | [] => []
  | l :: p =>
    (allFuncs p).map (fun f => (l.funcs.find? (fun g => g.name == f.name)).getD f) ++
      l.funcs.filter (fun g => !(allFuncs p).any (fun f => f.name == g.name))

/-- `Member(name)` as a function: the return type of the function member of that name, `none` when there is no member of
    that name or the nearest one is an attribute -/
def memberFn : OType → String → Option Ty
  | [], _ => none
  | l :: p, n =>
    if l.attrs.any (fun a => a.name == n) then none
    else match l.funcs.find? (fun f => f.name == n) with
      | some f => some f.ret
      | none => memberFn p n

/-- `o.Implements(t)` for an interface `t` -/
def implements (o t : OType) : Bool := (allFuncs t).all (fun f => memberFn o f.name == some f.ret)

/-- objectType.IsAssignable with interfaces -/
def isAssignableF (t o : OType) : Bool :=
  match o with
  | [] => false
  | _ => if isInterface t then implements o t else isAssignable t o

def isInstanceF (t : OType) (o : Obj) : Bool := isAssignableF t o.typ

end Pcore.Object
