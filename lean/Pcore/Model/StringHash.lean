import Pcore.Model.GoMap
/-!
# Model of `hash.StringHash` (hash/stringhash.go, as it is after the `fix:` commits)

| Go (hash/stringhash.go)                         | Lean                         |
|-------------------------------------------------|------------------------------|
| `stringHash{entries, index, frozen}`  :89-93    | `SH`                         |
| `EmptyStringHash`                     :100      | `SH.emptyFrozen`             |
| `NewStringHash`                       :107      | `SH.new`                     |
| `ComputeIfAbsent`                     :129-140  | `SH.computeIfAbsent`         |
| `Copy`                                :142-150  | `SH.copy`                    |
| `Delete` (incl. the re-numbering loop):152-177  | `SH.delete`                  |
| `EachPair` / `EachKey` / `EachValue`  :179-195  | `SH.pairs` (iteration order) |
| `Freeze` / `Frozen`                   :216-222  | `SH.freeze` / `.frozen`      |
| `Get` / `GetOrDefault` / `Includes`   :224-241  | `SH.get` / `SH.includes`     |
| `Keys` / `Values` / `Len`             :243-290  | `SH.keys` / `SH.values` / `SH.len` |
| `Merge`                               :251-255  | `SH.merge`                   |
| `Equals`                              :197-210  | `SH.equals`                  |
| `Empty` / `AllPair` / `AnyPair`       :111-127, 212 | `SH.empty` / `allPair` / `anyPair` |
| `Put`                                 :257-272  | `SH.put`                     |
| `PutAll`                              :274-278  | `SH.putAll`                  |

Go runtime faults are explicit: `h.entries[p]` with `p` out of range is `Out.fault` (this is what the
pre-fix `Delete` ran into: it re-numbered every later index to `p-1`).  `panic(frozenError{key})` is
`Out.rejected`.  Core Lean only.
-/
namespace Pcore.Coll
open GoMap

/-- what a call returns / how it ends -/
inductive Out (β : Type) where
  | rejected          -- panic(frozenError)
  | fault             -- Go runtime fault (index out of range)
  | none              -- nil / not found
  | val (v : β)
  | unit              -- no result
  deriving DecidableEq, Repr

/-- a boolean answer (`Includes`) as an `Out` -/
def boolOut {β : Type} : Bool → Out β
  | true => .unit
  | false => .none

structure SH (β : Type) where
  entries : List (String × β)
  index : List (String × Nat)
  frozen : Bool

namespace SH
variable {β : Type}

def new : SH β := ⟨[], [], false⟩
def emptyFrozen : SH β := ⟨[], [], true⟩

/-- `h.index[key] = len(h.entries); h.entries = append(h.entries, stringEntry{key, value})` -/
def append (h : SH β) (k : String) (v : β) : SH β :=
  { h with index := set h.index k h.entries.length, entries := h.entries ++ [(k, v)] }

def put (h : SH β) (k : String) (v : β) : SH β × Out β :=
  if h.frozen then (h, .rejected) else
  match get h.index k with
  | some p =>
    match h.entries[p]? with
    | some e => ({ h with entries := h.entries.set p (e.1, v) }, .val e.2)   -- `e.value = value`: the stored key stays
    | none => (h, .fault)
  | none => (h.append k v, .none)

def delete (h : SH β) (k : String) : SH β × Out β :=
  if h.frozen then (h, .rejected) else
  match get h.index k with
  | some p =>
    match h.entries[p]? with
    | some e =>
      ({ h with index := mapVals (fun v => if v > p then v - 1 else v) (erase h.index k),
                entries := h.entries.eraseIdx p }, .val e.2)
    | none => (h, .fault)
  | none => (h, .none)

def computeIfAbsent (h : SH β) (k : String) (dflt : β) : SH β × Out β :=
  match get h.index k with
  | some p =>
    match h.entries[p]? with
    | some e => (h, .val e.2)
    | none => (h, .fault)
  | none => if h.frozen then (h, .rejected) else (h.append k dflt, .val dflt)

def copy (h : SH β) : SH β := { h with frozen := false }

/-- `for _, e := range other.entries { h.Put(e.key, e.value) }` — the first panic ends the loop -/
def putAll (h : SH β) : List (String × β) → SH β × Out β
  | [] => (h, .unit)
  | e :: es =>
    match h.put e.1 e.2 with
    | (h', .rejected) => (h', .rejected)
    | (h', .fault) => (h', .fault)
    | (h', _) => putAll h' es

def merge (h : SH β) (other : List (String × β)) : SH β × Out β := h.copy.putAll other

def freeze (h : SH β) : SH β := { h with frozen := true }

def get (h : SH β) (k : String) : Out β :=
  match GoMap.get h.index k with
  | some p =>
    match h.entries[p]? with
    | some e => .val e.2
    | none => .fault
  | none => .none

def includes (h : SH β) (k : String) : Bool := (GoMap.get h.index k).isSome
def pairs (h : SH β) : List (String × β) := h.entries
def keys (h : SH β) : List String := h.entries.map (·.1)
def values (h : SH β) : List β := h.entries.map (·.2)
def len (h : SH β) : Nat := h.entries.length

/-- the loop of `Equals`: `oi, ok := oh.index[e.key]; if !(ok && px.Equals(e.value, oh.entries[oi].value)) { return false }`
    (`none` = index out of range) -/
def equalsLoop [DecidableEq β] (o : SH β) : List (String × β) → Option Bool
  | [] => some true
  | e :: es =>
    match GoMap.get o.index e.1 with
    | some oi =>
      match o.entries[oi]? with
      | some x => if x.2 = e.2 then equalsLoop o es else some false
      | none => none
    | none => some false

/-- `Equals`: same number of entries and every entry of the receiver found, with an equal value, through the
    other hash's index — the order of the entries does not matter -/
def equals [DecidableEq β] (h o : SH β) : Option Bool :=
  if h.entries.length ≠ o.entries.length then some false else equalsLoop o h.entries

/-- `Empty`, `EachKey`, `EachValue`, `AllPair`, `AnyPair` read the entries in order -/
def empty (h : SH β) : Bool := h.entries.isEmpty
def allPair (p : String → β → Bool) (h : SH β) : Bool := h.entries.all fun e => p e.1 e.2
def anyPair (p : String → β → Bool) (h : SH β) : Bool := h.entries.any fun e => p e.1 e.2

end SH

/-- the operations of a history (theorem level and driver level) -/
inductive SOp (β : Type) where
  | put (k : String) (v : β)
  | delete (k : String)
  | get (k : String)
  | includes (k : String)
  | cia (k : String) (v : β)
  | copy
  | merge (other : List (String × β))
  | putAll (other : List (String × β))
  | freeze

/-- one step on the current hash: the new current hash and what the call returned -/
def stepSH {β : Type} (h : SH β) : SOp β → SH β × Out β
  | .put k v => h.put k v
  | .delete k => h.delete k
  | .get k => (h, h.get k)
  | .includes k => (h, boolOut (h.includes k))
  | .cia k v => h.computeIfAbsent k v
  | .copy => (h.copy, .unit)
  | .merge o => h.merge o
  | .putAll o => h.putAll o
  | .freeze => (h.freeze, .unit)

/-- the trace of a history: after every step the result of the call, the iteration order and the freeze flag -/
def runSH {β : Type} (h : SH β) : List (SOp β) → List (Out β × List (String × β) × Bool) × SH β
  | [] => ([], h)
  | op :: ops =>
    let r := stepSH h op
    let t := runSH r.1 ops
    ((r.2, r.1.pairs, r.1.frozen) :: t.1, t.2)

end Pcore.Coll
