import Pcore.Model.LatticeAsg
set_option linter.unusedSimpArgs false
/-!
  Equality, generalisation, common type and inferred types.

  Go → Lean map:
    <X>type.go (t *XType) Equals                 → `tyEq`  (Enum / Pattern / Variant: equal length + inclusion both ways)
    types.go generalize (= px.Generalize)        → `generalize`   (Generic() if Generalizable, else Default() if parameterized)
    types.go px.GenericType                      → `genericType`  (Generic() if Generalizable, else unchanged)
    <X>type.go Generic()                         → `genericOf`
    types.go UniqueTypes (by `Equals`)           → `uniqueTy` (`keyEq`, the old by-key comparison, is kept for reference only)
    commonality.go commonType                    → `commonF` (fuel = recursion depth; `commonType` supplies enough) ; TupleType.CommonElementType → `cetF`
    arraytype.go privateReducedType/DetailedType → `ptype` / `dtype` on `.array`;  hashtype.go likewise; <value>.PType() for scalars
    structtype.go NewStructElement (string key)  → inside `dtype`: the key is Optional iff the value type accepts Undef
-/
namespace Pcore.Lat

section
variable (cfg : Cfg) (sfh : Bool)

/-! ### Equals -/
mutual
def tyEq (a b : Ty) : Bool :=
  match a with
  | .any => (match b with | .any => true | _ => false)
  | .unit => (match b with | .unit => true | _ => false)
  | .undef => (match b with | .undef => true | _ => false)
  | .dflt => (match b with | .dflt => true | _ => false)
  | .scalar => (match b with | .scalar => true | _ => false)
  | .scalarData => (match b with | .scalarData => true | _ => false)
  | .numeric => (match b with | .numeric => true | _ => false)
  | .data => (match b with | .data => true | _ => false)
  | .richData => (match b with | .richData => true | _ => false)
  | .str => (match b with | .str => true | _ => false)
  | .bin => (match b with | .bin => true | _ => false)
  | .int r => (match b with | .int r' => r == r' | _ => false)
  | .float l h => (match b with | .float l' h' => l == l' && h == h' | _ => false)
  | .bool v => (match b with | .bool v' => v == v' | _ => false)
  | .tspan r => (match b with | .tspan r' => r == r' | _ => false)
  | .tstamp r => (match b with | .tstamp r' => r == r' | _ => false)
  | .strSz r => (match b with | .strSz r' => r == r' | _ => false)
  | .strVal s => (match b with | .strVal s' => s == s' | _ => false)
  | .enum vs ci =>
      (match b with
       | .enum vs' ci' => ci == ci' && vs.length == vs'.length && subsetStr vs' vs && subsetStr vs vs'
       | _ => false)
  | .pattern rs =>
      (match b with
       | .pattern rs' => rs.length == rs'.length && subsetStr rs rs' && subsetStr rs' rs
       | _ => false)
  | .regexp s => (match b with | .regexp s' => s == s' | _ => false)
  | .runtime r n p => (match b with | .runtime r' n' p' => r == r' && n == n' && p == p' | _ => false)
  | .coll r => (match b with | .coll r' => r == r' | _ => false)
  | .array e r => (match b with | .array e' r' => r == r' && tyEq e e' | _ => false)
  | .hash k v r => (match b with | .hash k' v' r' => r == r' && tyEq k k' && tyEq v v' | _ => false)
  | .tuple ts g =>
      (match b with
       | .tuple ts' g' => ts.length == ts'.length && tupleSize ts g == tupleSize ts' g' && tyEqL ts ts'
       | _ => false)
  | .struct ms => (match b with | .struct ms' => ms.length == ms'.length && tyEqM ms ms' | _ => false)
  | .variant ts =>
      (match b with
       | .variant ts' => ts.length == ts'.length && tyEqIncl ts ts' && tyEqIncl ts' ts
       | _ => false)
  | .optional t => (match b with | .optional t' => tyEq t t' | _ => false)
  | .notUndef t => (match b with | .notUndef t' => tyEq t t' | _ => false)
  | .typ t => (match b with | .typ t' => tyEq t t' | _ => false)
  | .sensitive t => (match b with | .sensitive t' => tyEq t t' | _ => false)
  | .iterator t => (match b with | .iterator t' => tyEq t t' | _ => false)
  | .callable p r k =>
      -- CallableType.Equals (as repaired in /repo 3d635fb): the three parts pairwise, an absent part only equals an absent part
      (match b with
       | .callable p' r' k' =>
           (match p, p' with | none, none => true | some x, some y => tyEq x y | _, _ => false) &&
           (match r, r' with | none, none => true | some x, some y => tyEq x y | _, _ => false) &&
           (match k, k' with | none, none => true | some x, some y => tyEq x y | _, _ => false)
       | _ => false)
  | .iterable t => (match b with | .iterable t' => tyEq t t' | _ => false)
  | .object p => (match b with | .object q => p == q | _ => false)
termination_by a.w + b.w
decreasing_by all_goals (simp_wf; simp only [Ty.w, Ty.wl, Ty.wm, Ty.wo] at *; omega)
/-- pointwise, for lists already known to have equal length (a shorter second list ends the Go loop with a fault that the
    length test in front excludes) -/
def tyEqL (as bs : List Ty) : Bool :=
  match as, bs with
  | [], _ => true
  | _ :: _, [] => false
  | a :: as, b :: bs => tyEq a b && tyEqL as bs
termination_by Ty.wl as + Ty.wl bs
decreasing_by all_goals (simp_wf; simp only [Ty.w, Ty.wl, Ty.wm] at *; omega)
def tyEqM (as bs : List Member) : Bool :=
  match as, bs with
  | [], _ => true
  | _ :: _, [] => false
  | (n, o, t) :: as, (n', o', t') :: bs => n == n' && o == o' && tyEq t t' && tyEqM as bs
termination_by Ty.wm as + Ty.wm bs
decreasing_by all_goals (simp_wf; simp only [Ty.w, Ty.wl, Ty.wm] at *; omega)
/-- `px.IncludesAll(as, bs)`: every member of `as` is `Equals` to some member of `bs` (the member of `bs` is the receiver) -/
def tyEqIncl (as bs : List Ty) : Bool :=
  match as with
  | [] => true
  | a :: as => tyEqAny bs a && tyEqIncl as bs
termination_by Ty.wl as + Ty.wl bs
decreasing_by all_goals (simp_wf; simp only [Ty.w, Ty.wl, Ty.wm] at *; omega)
def tyEqAny (bs : List Ty) (a : Ty) : Bool :=
  match bs with
  | [] => false
  | b :: bs => tyEq b a || tyEqAny bs a
termination_by Ty.wl bs + a.w
decreasing_by all_goals (simp_wf; simp only [Ty.w, Ty.wl, Ty.wm] at *; omega)
end

/-! ### hash keys of types (only what `UniqueTypes` needs) -/
def namedStr : Ty → Option String
  | .strVal s => if s == "" then none else some s
  | _ => none

mutual
def keyEq : Ty → Ty → Bool
  | .strVal _, .strVal _ | .strVal _, .str | .str, .strVal _ => true
  | .any, .any | .unit, .unit | .undef, .undef | .dflt, .dflt | .scalar, .scalar | .scalarData, .scalarData
  | .numeric, .numeric | .data, .data | .richData, .richData | .str, .str | .bin, .bin => true
  | .int r, .int r' => r == r'
  | .float l h, .float l' h' => l == l' && h == h'
  | .bool v, .bool v' => v == v'
  | .tspan r, .tspan r' => r == r'
  | .tstamp r, .tstamp r' => r == r'
  | .strSz r, .strSz r' => r == r'
  | .enum vs ci, .enum vs' ci' => vs == vs' && ci == ci'
  | .pattern rs, .pattern rs' => rs == rs'
  | .regexp s, .regexp s' => s == s'
  | .runtime r n p, .runtime r' n' p' => r == r' && n == n' && p == p'
  | .coll r, .coll r' => r == r'
  | .array e r, .array e' r' => keyEq e e' && r == r'
  | .hash k v r, .hash k' v' r' => keyEq k k' && keyEq v v' && r == r'
  | .tuple ts g, .tuple ts' g' => keyEqL ts ts' && tupleSize ts g == tupleSize ts' g'
  | .struct ms, .struct ms' => keyEqM ms ms'
  | .variant ts, .variant ts' => keyEqL ts ts'
  | .optional t, .optional t' =>
      (match namedStr t, namedStr t' with
       | some s, some s' => s == s'
       | none, none => keyEq t t'
       | _, _ => false)
  | .notUndef t, .notUndef t' =>
      (match namedStr t, namedStr t' with
       | some s, some s' => s == s'
       | none, none => keyEq t t'
       | _, _ => false)
  | .typ t, .typ t' => keyEq t t'
  | .sensitive t, .sensitive t' => keyEq t t'
  | .iterator t, .iterator t' => keyEq t t'
  | .iterable t, .iterable t' => keyEq t t'
  | .object p, .object p' => p == p'
  | _, _ => false
def keyEqL : List Ty → List Ty → Bool
  | [], [] => true
  | a :: as, b :: bs => keyEq a b && keyEqL as bs
  | _, _ => false
def keyEqM : List Member → List Member → Bool
  | [], [] => true
  | (n, o, t) :: as, (n', o', t') :: bs => n == n' && o == o' && keyEq t t' && keyEqM as bs
  | _, _ => false
end

/-- `UniqueTypes`: first occurrence wins, compared with `Equals` (the earlier member is the receiver) -/
def uniqueTyAux (seen : List Ty) : List Ty → List Ty
  | [] => []
  | t :: ts => if seen.any (fun s => tyEq s t) then uniqueTyAux seen ts else t :: uniqueTyAux (t :: seen) ts

def uniqueTy (ts : List Ty) : List Ty :=
  if ts.length < 2 then ts else uniqueTyAux [] ts

/-- `NewVariantType(ts...)`: no member → the default Variant, one member → that member -/
def mkVariant : List Ty → Ty
  | [] => .variant []
  | [t] => t
  | ts => .variant ts

/-! ### Generic / generalize -/
mutual
/-- `types.generalize` -/
def generalize : Ty → Ty
  | .str | .strSz _ | .strVal _ => .str
  | .pattern _ => .pattern []
  | .regexp _ => .regexp ""
  | .runtime _ _ _ => .runtime "" "" none
  | .callable _ _ _ => .callable none none none
  | .tspan _ => .tspan Rng.all
  | .tstamp _ => .tstamp tstampAll
  | .object _ => .object none
  | .array e _ => if e.isAny then .array .any Rng.pos else .array (generalize e) Rng.pos
  | .bool _ => .bool none
  | .coll _ => .coll Rng.pos
  | .enum _ _ => .enum [] false
  | .float _ _ => floatAll
  | .int _ => .int Rng.all
  | .hash k v _ => .hash (genericType k) (genericType v) Rng.pos
  | .iterable t => .iterable (genericType t)
  | .notUndef t => .notUndef (genericType t)
  | .optional t => .optional (genericType t)
  | .sensitive t => .sensitive (genericType t)
  | .iterator t => .iterator (genericType t)
  | .typ t => .typ (genericType t)
  | .struct ms => .struct (genericM ms)
  | .tuple ts g => .tuple (generalizeL ts) g
  | .variant ts => mkVariant (uniqueTy (generalizeL ts))
  | t => t
/-- `px.GenericType` -/
def genericType : Ty → Ty
  | .array e _ => if e.isAny then .array .any Rng.pos else .array (generalize e) Rng.pos
  | .bool _ => .bool none
  | .coll _ => .coll Rng.pos
  | .enum _ _ => .enum [] false
  | .float _ _ => floatAll
  | .int _ => .int Rng.all
  | .hash k v _ => .hash (genericType k) (genericType v) Rng.pos
  | .iterable t => .iterable (genericType t)
  | .notUndef t => .notUndef (genericType t)
  | .optional t => .optional (genericType t)
  | .sensitive t => .sensitive (genericType t)
  | .iterator t => .iterator (genericType t)
  | .typ t => .typ (genericType t)
  | .struct ms => .struct (genericM ms)
  | .tuple ts g => .tuple (generalizeL ts) g
  | .variant ts => mkVariant (uniqueTy (generalizeL ts))
  | .runtime _ _ _ => .runtime "" "" none
  | .callable _ _ _ => .callable none none none
  | t => t
def generalizeL : List Ty → List Ty
  | [] => []
  | t :: ts => generalize t :: generalizeL ts
def genericM : List Member → List Member
  | [] => []
  | (n, o, t) :: ms => (n, o, genericType t) :: genericM ms
end

/-! ### commonType -/
/-- `NewEnumType`: values are lower-cased when case-insensitive; no values → the default Enum -/
def mkEnum (vs : List String) (ci : Bool) : Ty :=
  if vs.isEmpty then .enum [] false else .enum (if ci then vs.map cfg.lower else vs) ci
/-- `NewStringType(rng, "")` -/
def mkStr (r : Rng) : Ty := if r == Rng.pos then .str else .strSz r
/-- the tail of `commonType` -/
def commonTail (a b : Ty) : Ty :=
  if asg cfg sfh .numeric a && asg cfg sfh .numeric b then .numeric
  else if asg cfg sfh .scalarData a && asg cfg sfh .scalarData b then .scalarData
  else if asg cfg sfh .scalar a && asg cfg sfh .scalar b then .scalar
  else if asg cfg sfh .data a && asg cfg sfh .data b then .data
  else if asg cfg sfh .richData a && asg cfg sfh .richData b then .richData
  else .any

/-- `TupleType.CommonElementType` with the pairwise common type `c` -/
def foldCet (c : Ty → Ty → Ty) : List Ty → Ty
  | [] => .any
  | t :: ts => ts.foldl c t

def commonF : Nat → Ty → Ty → Ty
  | 0, _, _ => .any
  | n + 1, a, b =>
    if a.isUnit then b
    else if b.isUnit then a
    else if asg cfg sfh a b then a
    else if asg cfg sfh b a then b
    else
      match a with
      | .enum vs ci =>
          (match b with
           | .strVal s => mkEnum cfg (vs ++ [s]).eraseDups ci
           | .str | .strSz _ => .str
           | .enum vs' ci' => mkEnum cfg (vs ++ vs').eraseDups (ci || ci')
           | _ => commonTail cfg sfh a b)
      | .strSz r =>
          (match b with
           | .strSz r' => mkStr (r.hull r')
           | .str | .strVal _ | .enum _ _ => .str
           | _ => commonTail cfg sfh a b)
      | .strVal s =>
          (match b with
           | .strVal s' => .enum [s, s'] false
           | .str | .strSz _ => .str
           | .enum vs' ci' => commonF n (.enum vs' ci') (.strVal s)
           | _ => commonTail cfg sfh a b)
      | .array e r =>
          (match b with
           | .array e' r' => .array (commonF n e e') (r.hull r')
           | _ => commonTail cfg sfh a b)
      | .float l h =>
          (match b with
           | .float l' h' => .float (min l l') (max h h')
           | _ => commonTail cfg sfh a b)
      | .int r =>
          (match b with
           | .int r' => .int (r.hull r')
           | _ => commonTail cfg sfh a b)
      | .iterable x =>
          (match b with
           | .iterable y => .iterable (commonF n x y)
           | _ => commonTail cfg sfh a b)
      | .iterator x =>
          (match b with
           | .iterator y => .iterator (commonF n x y)
           | _ => commonTail cfg sfh a b)
      | .runtime rt _ _ =>
          (match b with
           | .runtime rt' _ _ => if rt == rt' then .runtime rt "" none else .runtime "" "" none
           | _ => commonTail cfg sfh a b)
      | .notUndef x =>
          (match b with
           | .notUndef y => .notUndef (commonF n x y)
           | _ => commonTail cfg sfh a b)
      | .pattern rs =>
          (match b with
           | .pattern rs' => .pattern (rs ++ rs').eraseDups
           | _ => commonTail cfg sfh a b)
      | .tuple ts g =>
          (match b with
           | .tuple ts' g' => .array (commonF n (foldCet (commonF n) ts) (foldCet (commonF n) ts')) ((tupleSize ts g).hull (tupleSize ts' g'))
           | _ => commonTail cfg sfh a b)
      | .typ x =>
          (match b with
           | .typ y => .typ (commonF n x y)
           | _ => commonTail cfg sfh a b)
      | .variant ts =>
          (match b with
           | .variant ts' => mkVariant (uniqueTy (ts ++ ts'))
           | _ => commonTail cfg sfh a b)
      | _ => commonTail cfg sfh a b

/-- `commonType` -/
def commonType (a b : Ty) : Ty := commonF cfg sfh (a.w + b.w + 2) a b


end
end Pcore.Lat
