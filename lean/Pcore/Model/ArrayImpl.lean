/-!
# Model of `types.Array` as used by property C09 (types/arraytype.go, px/collection.go, as they are after the `fix:` commits)

An `Array` is its `elements` slice.  The operations below are written the way the Go code computes them
(loops with an accumulator, index loops, the `exists` map of `Unique`, the stepping loop of `EachSlice`);
`Pcore.Model.CollSpec` states what they must compute on immutable sequences and `Props/C09.lean` proves
the two equal for every history.  That results do not share backing storage with the receiver is property
C08, so a value is a `List α` and an operation returns a new list.  `key : α → κ` is `px.ToKey`;
`Delete`/`DeleteAll` compare with `Equals`, which agrees with key equality (property C07).

| Go                                                   | Lean                      |
|------------------------------------------------------|---------------------------|
| `WrapValues`                     arraytype.go:299    | the list itself           |
| `Add`                            :339                | `Arr.add`                 |
| `AddAll` (index loop over `ov.At`) :346              | `Arr.addAll`              |
| `At`                             :370                | `Arr.atIdx` / `Arr.atInt` |
| `Delete` / `DeleteAll` → `Reject` → `px.Reject` :377-389, collection.go:82 | `Arr.rejectLoop`, `Arr.delete`, `Arr.deleteAll` |
| `Find` / `Any` / `All` → `px.Find`/`Any`/`All`       | `Arr.find` / `Arr.any` / `Arr.all` |
| `EachSlice` (`assertSliceSize`, stepping loop) :436  | `Arr.eachSlice` (`none` = reported illegal argument) |
| `Flatten` / `flattenElements`    :483-507            | `AVal.flats`              |
| `Len`                            :515                | `List.length`             |
| `Slice` (`elements[i:j]`)        :575                | `Arr.slice` (`none` = slice bounds fault; Go allows `j` up to the capacity, the model only up to the length) |
| `Sort` (`sort.Sort` on a copy)   :600                | `Arr.sort` (`List.mergeSort`: the standard library's sort is trusted to return the sorted permutation) |
| `Unique` (`exists` map)          :715                | `Arr.uniqueFrom`, `Arr.unique` |
Core Lean only.
-/
namespace Pcore.Coll.Arr
variable {α κ : Type} [DecidableEq κ]

def add (a : List α) (v : α) : List α := a ++ [v]

/-- `copy(el, av.elements); for idx := aLen; idx < sLen; idx++ { el[idx] = ov.At(idx - aLen) }` -/
def addAll (a b : List α) : List α := a ++ (List.range b.length).filterMap (fun j => b[j]?)

def atIdx (a : List α) (i : Nat) : Option α := a[i]?
/-- `At(i)` for a Go int: `undef` outside `0 ≤ i < len` -/
def atInt (a : List α) (i : Int) : Option α := if i < 0 then none else a[i.toNat]?

/-- `px.Reject`: `result = append(result, elem)` for every element the predicate rejects not -/
def rejectLoop (p : α → Bool) : List α → List α → List α
  | [], acc => acc
  | e :: es, acc => if p e then rejectLoop p es acc else rejectLoop p es (acc ++ [e])

def delete (key : α → κ) (a : List α) (v : α) : List α := rejectLoop (fun e => decide (key e = key v)) a []
def deleteAll (key : α → κ) (a b : List α) : List α := rejectLoop (fun e => b.any (fun o => decide (key e = key o))) a []

def find (p : α → Bool) (a : List α) : Option α := a.find? p
def any (p : α → Bool) (a : List α) : Bool := a.any p
def all (p : α → Bool) (a : List α) : Bool := a.all p

def slice (a : List α) (i j : Nat) : Option (List α) :=
  if i ≤ j ∧ j ≤ a.length then some ((a.drop i).take (j - i)) else none

/-- `for _, v := range av.elements { key := px.ToKey(v); if !exists[key] { exists[key] = true; result = append(result, v) } }` -/
def uniqueFrom (key : α → κ) : List α → List κ → List α
  | [], _ => []
  | v :: vs, seen => if seen.contains (key v) then uniqueFrom key vs seen else v :: uniqueFrom key vs (key v :: seen)

def unique (key : α → κ) (a : List α) : List α := uniqueFrom key a []

/-- `for i := 0; i < top; i += n { e := min(i+n, top); consumer(elements[i:e]) }` (`fuel` bounds the iterations) -/
def eachSliceLoop (n : Nat) (a : List α) : Nat → Nat → List (List α)
  | _, 0 => []
  | i, fuel + 1 =>
    if i < a.length then ((a.drop i).take (min (i + n) a.length - i)) :: eachSliceLoop n a (i + n) fuel else []

/-- `none`: `assertSliceSize` reports an illegal argument for a size below one -/
def eachSlice (n : Int) (a : List α) : Option (List (List α)) :=
  if n < 1 then none else some (eachSliceLoop n.toNat a 0 a.length)

/-- `Sort`: `sort.Sort` on a copy of the elements with the caller's comparator -/
def sort (le : α → α → Bool) (a : List α) : List α := a.mergeSort le

end Pcore.Coll.Arr

namespace Pcore.Coll

/-- values with the structure `Flatten` looks at: an array, or anything else (its canonical text) -/
inductive AVal where
  | leaf (text : String)
  | arr (vs : List AVal)

mutual
/-- `flattenElements`: arrays are replaced by their (flattened) elements, depth first -/
def AVal.flat : AVal → List AVal
  | .leaf s => [.leaf s]
  | .arr vs => AVal.flats vs
def AVal.flats : List AVal → List AVal
  | [] => []
  | v :: vs => v.flat ++ AVal.flats vs
end

mutual
def AVal.text : AVal → String
  | .leaf s => s
  | .arr vs => "(a" ++ AVal.texts vs ++ ")"
def AVal.texts : List AVal → String
  | [] => ""
  | v :: vs => " " ++ v.text ++ AVal.texts vs
end

def AVal.isArr : AVal → Bool
  | .arr _ => true
  | .leaf _ => false

end Pcore.Coll
