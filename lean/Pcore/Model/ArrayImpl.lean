/-!
# Model of `types.Array` as used by property C09 (types/arraytype.go, as it is after the `fix:` commits)

An `Array` is its `elements` slice; every operation below builds a fresh slice (that they do not share
backing storage with the receiver is property C08), so the model of a value is a `List α` and an
operation is a function returning a new list.  `key : α → κ` is `px.ToKey`; `Delete`/`DeleteAll` compare
with `Equals`, which agrees with key equality (property C07).

| Go (types/arraytype.go)            | Lean              |
|------------------------------------|-------------------|
| `WrapValues`              :299-306 | the list itself   |
| `Add`                     :339-344 | `Arr.add`         |
| `AddAll`                  :346-356 | `Arr.addAll`      |
| `At`                      :370-375 | `Arr.atIdx`       |
| `Delete` (`Reject`+`Equals`) :377  | `Arr.delete`      |
| `DeleteAll`               :383-389 | `Arr.deleteAll`   |
| `Len`                     :498     | `List.length`     |
| `Slice` (`elements[i:j]`) :558     | `Arr.slice` (`none` = slice bounds fault; Go allows `j` up to the capacity, the model only up to the length) |
| `Unique`                  :698-719 | `Arr.unique`      |
Core Lean only.
-/
namespace Pcore.Coll.Arr
variable {α κ : Type} [DecidableEq κ]

def add (a : List α) (v : α) : List α := a ++ [v]
def addAll (a b : List α) : List α := a ++ b
def atIdx (a : List α) (i : Nat) : Option α := a[i]?
def delete (key : α → κ) (a : List α) (v : α) : List α := a.filter (fun e => key e ≠ key v)
def deleteAll (key : α → κ) (a b : List α) : List α := a.filter (fun e => !(b.map key).contains (key e))
def slice (a : List α) (i j : Nat) : Option (List α) :=
  if i ≤ j ∧ j ≤ a.length then some ((a.drop i).take (j - i)) else none

/-- `for _, v := range av.elements { key := px.ToKey(v); if !exists[key] { exists[key] = true; result = append(result, v) } }` -/
def uniqueFrom (key : α → κ) : List α → List κ → List α
  | [], _ => []
  | v :: vs, seen => if seen.contains (key v) then uniqueFrom key vs seen else v :: uniqueFrom key vs (key v :: seen)

def unique (key : α → κ) (a : List α) : List α := uniqueFrom key a []

end Pcore.Coll.Arr
