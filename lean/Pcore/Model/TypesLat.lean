import Pcore.Model.Types
import Pcore.Model.LatticeInfer
/-!
  From the type fragment of the syntax model (`Pcore.Syntax.Ty`: what `Context.ParseType` makes of a type expression — the
  positional creators with all their parameter forms, C05) to the type terms of the lattice model (`Pcore.Lat.Ty`, C01–C04).
  The composition `toLat ∘ parseType` gives every lattice question asked about a type TEXT a model answer, so that a creator
  that reads a parameter form wrongly (`Enum['a', 'B', false]`, `Integer[3]`, `Tuple[String, 1]`, `Optional['x']` …) shows in
  the instance / assignability answers too, not only in the round trip.
-/
namespace Pcore.Syntax
open Pcore.Lat (Rng)

def strOfL (s : Str) : String := String.ofList s

/-- the exact value of a finite binary64, scaled by 2^1074 (the representation of float bounds in the lattice model) -/
def dyadicOfBits (b : Nat) : Int :=
  let neg := b ≥ 2 ^ 63
  let m := b % 2 ^ 63
  let e := m / 2 ^ 52
  let f := m % 2 ^ 52
  let v : Nat := if e = 0 then f else (2 ^ 52 + f) * 2 ^ (e - 1)
  if neg then -(v : Int) else (v : Int)

mutual
def Ty.toLat : Ty → Option Pcore.Lat.Ty
  | .named n =>
    match strOfL n with
    | "Any" => some .any | "Unit" => some .unit | "Undef" => some .undef | "Default" => some .dflt | "Scalar" => some .scalar
    | "ScalarData" => some .scalarData | "Numeric" => some .numeric | "Data" => some .data | "RichData" => some .richData
    | "Binary" => some .bin | "String" => some .str
    | "Timespan" => some (.tspan Pcore.Lat.Rng.all) | "Object" => some (.object none)
    | _ => none
  | .int lo hi => some (.int ⟨lo, hi⟩)
  | .float lo _ hi _ => some (.float (dyadicOfBits lo) (dyadicOfBits hi))
  | .strSz lo hi => some (.strSz ⟨lo, hi⟩)
  | .strVal s => some (.strVal (strOfL s))
  | .bool b => some (.bool b)
  | .enum vs ci => some (.enum (vs.map strOfL) ci)
  | .regexp src => some (.regexp (strOfL src))
  | .pattern srcs => some (.pattern (srcs.map strOfL))
  | .wrap k t =>
    (Ty.toLat t).bind fun u =>
      match k with
      | .optional => some (.optional u)
      | .notUndef => some (.notUndef u)
      | .type_ => some (.typ u)
      | .sensitive => some (.sensitive u)
      | .iterable => some (.iterable u)
      | .iterator => none
  | .variant ts => (Ty.toLatList ts).map .variant
  | .array t lo hi => (Ty.toLat t).map fun u => .array u ⟨lo, hi⟩
  | .hash k v lo hi => (Ty.toLat k).bind fun a => (Ty.toLat v).map fun b => .hash a b ⟨lo, hi⟩
  | .collection lo hi => some (.coll ⟨lo, hi⟩)
  | .tuple ts sz => (Ty.toLatList ts).map fun us => .tuple us (sz.map fun p => ⟨p.1, p.2⟩)
  | .struct ms => (Ty.toLatMembers ms).map .struct
  | .callable _ _ _ => none
  | .runtime _ _ _ => none
  | .typeRef _ => none
def Ty.toLatList : List Ty → Option (List Pcore.Lat.Ty)
  | [] => some []
  | t :: ts => (Ty.toLat t).bind fun u => (Ty.toLatList ts).map fun us => u :: us
def Ty.toLatMembers : List (Str × Bool × Ty) → Option (List (String × Bool × Pcore.Lat.Ty))
  | [] => some []
  | (n, o, t) :: ms => (Ty.toLat t).bind fun u => (Ty.toLatMembers ms).map fun us => (strOfL n, o, u) :: us
end

end Pcore.Syntax
