import Pcore.Model.CtorFl
/-!
# Model of function dispatch and of `new` (property C16)

Mirrors the code as it is now (after the `fix:` commits in /repo).  Core Lean only.

| Go                                                                   | Lean                              |
|----------------------------------------------------------------------|-----------------------------------|
| internal/function.go `dispatchBuilder` (fields)                      | `Builder`                         |
| `newDispatchBuilder`                                                 | `Builder.init`                    |
| `assertNotAfterRepeated`                                             | `Builder.notAfterRepeated`        |
| `Param2` / `OptionalParam2` / `RepeatedParam2` / `RequiredRepeatedParam2` | `step` arms `.param` `.optional` `.repeated` `.requiredRepeated` |
| `Block2` / `OptionalBlock2` / `Returns2`                             | `step` arms `.block` `.optionalBlock` `.returns` |
| `Function` / `Function2`                                             | `finish`                          |
| `createDispatch` (`NewTupleType(types, NewIntegerType(min,max))`, block kept only for `Function2`, optional ⇒ `Optional[…]`) | `createDispatch` |
| `buildFunction` (every creator runs at build time; a panic aborts)   | `buildAll`                        |
| types/integertype.go `NewIntegerType` (`min > max` → illegalArguments) | the `sizeError` arm of `createDispatch` |
| types/callabletype.go `CallableType.CallableWith`                    | `blockOK`, `callableWith`         |
| types/tupletype.go `TupleType.IsInstance3` (size test; `last < 0`; `tdx` stops at `last`) | `sizeOK`, `instLoop`, `tupleInst` |
| internal/function.go `goFunction.Call`                               | `callFrom`, `call`                |
| internal/function.go `goFunction` (struct: `name`, `dispatchers`) and a sequence of `Call`s on one object | `FnState`, `callStep`, `callSeq`, `runSeq` |
| types/types.go `newInstance` (type receiver: `Newable` short-cut, `Creatable.Constructor`, constructor by name, `AssertInstance(typ, r)`) | `newInstance` |
| types/inittype.go `InitType.New` (result asserted against the contained type) | `Recv.init` arm of `newInstance` |

Quirks reproduced
* `math.MaxInt64` as "repeated" marker: `max : Option Nat`, `none` = unbounded.  `Param2` tests `min < max` only after
  `assertNotAfterRepeated`, so the marker never takes part in a comparison.
* a block can be declared once (`Block2` panics on a second call; `OptionalBlock2` = `Block2` then the flag), `Function`
  panics when a block was declared and `Function2` when none was, so the flag and the block type always agree.
* `TupleType.IsInstance3`: an empty type list accepts any argument list of admissible length; otherwise position `j` is
  tested against type `min(j, last)`.
* `CallableWith`: a given block needs a declared block type (an `Optional` wrapper is removed) of which it is an
  instance (`binst`); no block needs "no declared block" or an optional one.

Parameter membership `inst : T → V → Bool` and block acceptance `binst : BT → B → Bool` are *parameters* of the model:
every definition and every theorem is for an arbitrary pair.  `Pcore.Dispatch.Alpha` instantiates them with the small
type alphabet of the correspondence driver.

Go runtime faults: `createDispatch` has the explicit outcome `sizeError` (the `NewIntegerType(min,max)` panic) and the
theorems prove it unreachable; the indexing `t.types[tdx]` of `IsInstance3` is total by construction of `instLoop`
(`tdx ≤ last` is its structural invariant).
-/
namespace Pcore.Dispatch

/-! ### the dispatch builder -/

/-- the builder calls that declare a dispatch (string and `…2` forms coincide: the string is wrapped in a type reference
    that `createDispatch` parses) -/
inductive BOp (T BT : Type) where
  | param (t : T)
  | optional (t : T)
  | repeated (t : T)
  | requiredRepeated (t : T)
  | block (b : BT)
  | optionalBlock (b : BT)
  | returns (t : T)
  deriving Repr

/-- `Function` or `Function2` (the last builder call) -/
inductive FnKind where
  | fn | fn2
  deriving Repr, DecidableEq

/-- the panics of the builder -/
inductive Panic where
  | requiredAfterOptional   -- `Required parameters must not come after optional parameters in a dispatch`
  | afterRepeated           -- `Repeated parameters can only occur last in a dispatch`
  | blockTwice              -- `Block specified more than once`
  | returnsTwice            -- `Returns specified more than once`
  | requiresBlock           -- `Dispatch requires a block. Use FunctionWithBlock`
  | noBlockExpected         -- `Dispatch does not expect a block. Use Function instead of FunctionWithBlock`
  deriving Repr, DecidableEq

/-- `dispatchBuilder`; `max = none` is `math.MaxInt64` -/
structure Builder (T BT : Type) where
  types : List T
  min : Nat
  max : Option Nat
  blockType : Option BT
  optionalBlock : Bool
  returnType : Option T
  deriving Repr

def Builder.init {T BT : Type} : Builder T BT :=
  { types := [], min := 0, max := some 0, blockType := none, optionalBlock := false, returnType := none }

/-- `db.min < db.max` with `max = MaxInt64` read as unbounded -/
def ltMax (n : Nat) : Option Nat → Bool
  | none => true
  | some m => n < m

def leMax (n : Nat) : Option Nat → Bool
  | none => true
  | some m => n ≤ m

def succMax : Option Nat → Option Nat
  | none => none
  | some m => some (m + 1)

def block2 {T BT : Type} (b : Builder T BT) (bt : BT) : Except Panic (Builder T BT) :=
  if b.blockType.isSome then .error .blockTwice else .ok { b with blockType := some bt }

/-- one builder call -/
def step {T BT : Type} (b : Builder T BT) : BOp T BT → Except Panic (Builder T BT)
  | .param t =>
    if b.max.isNone then .error .afterRepeated
    else if ltMax b.min b.max then .error .requiredAfterOptional
    else .ok { b with types := b.types ++ [t], min := b.min + 1, max := succMax b.max }
  | .optional t =>
    if b.max.isNone then .error .afterRepeated
    else .ok { b with types := b.types ++ [t], max := succMax b.max }
  | .repeated t =>
    if b.max.isNone then .error .afterRepeated
    else .ok { b with types := b.types ++ [t], max := none }
  | .requiredRepeated t =>
    if b.max.isNone then .error .afterRepeated
    else if ltMax b.min b.max then .error .requiredAfterOptional
    else .ok { b with types := b.types ++ [t], min := b.min + 1, max := none }
  | .block bt => block2 b bt
  | .optionalBlock bt => (block2 b bt).map fun b' => { b' with optionalBlock := true }
  | .returns t =>
    if b.returnType.isSome then .error .returnsTwice else .ok { b with returnType := some t }

def steps {T BT : Type} : Builder T BT → List (BOp T BT) → Except Panic (Builder T BT)
  | b, [] => .ok b
  | b, o :: os => match step b o with
    | .error p => .error p
    | .ok b' => steps b' os

/-- `Function` / `Function2` -/
def finish {T BT : Type} (b : Builder T BT) : FnKind → Except Panic (Builder T BT)
  | .fn => if b.blockType.isSome then .error .requiresBlock else .ok b
  | .fn2 => if b.blockType.isNone then .error .noBlockExpected else .ok b

/-! ### dispatches -/

inductive BlockReq (BT : Type) where
  | none
  | required (b : BT)
  | optional (b : BT)
  deriving Repr

/-- a resolved dispatch: `Callable[Tuple[types, Integer[min,max]], block]` -/
structure Dispatch (T BT : Type) where
  types : List T
  min : Nat
  max : Option Nat
  block : BlockReq BT
  deriving Repr

inductive ResolveError where
  | sizeError      -- NewIntegerType(min, max) with min > max
  deriving Repr, DecidableEq

def createDispatch {T BT : Type} (b : Builder T BT) (k : FnKind) : Except ResolveError (Dispatch T BT) :=
  if leMax b.min b.max then
    .ok { types := b.types, min := b.min, max := b.max,
          block := match k, b.blockType with
            | .fn2, some bt => if b.optionalBlock then .optional bt else .required bt
            | _, _ => .none }
  else .error .sizeError

/-- one dispatch creator: its builder calls, then `Function`/`Function2` -/
structure Creator (T BT : Type) where
  ops : List (BOp T BT)
  kind : FnKind

def buildOne {T BT : Type} (c : Creator T BT) : Except Panic (Builder T BT) :=
  match steps Builder.init c.ops with
  | .error p => .error p
  | .ok b => finish b c.kind

/-- `buildFunction`: all creators run, in order, when the function is built -/
def buildAll {T BT : Type} : List (Creator T BT) → Except Panic (List (Builder T BT × FnKind))
  | [] => .ok []
  | c :: cs => match buildOne c with
    | .error p => .error p
    | .ok b => match buildAll cs with
      | .error p => .error p
      | .ok bs => .ok ((b, c.kind) :: bs)

def resolveAll {T BT : Type} : List (Builder T BT × FnKind) → Except ResolveError (List (Dispatch T BT))
  | [] => .ok []
  | (b, k) :: bs => match createDispatch b k with
    | .error e => .error e
    | .ok d => match resolveAll bs with
      | .error e => .error e
      | .ok ds => .ok (d :: ds)

/-! ### CallableWith -/

section Call
variable {T BT V B : Type} (inst : T → V → Bool) (binst : BT → B → Bool)

/-- the block test of `CallableType.CallableWith` -/
def blockOK (r : BlockReq BT) : Option B → Bool
  | some b => match r with
    | .none => false
    | .required bt => binst bt b
    | .optional bt => binst bt b
  | none => match r with
    | .none => true
    | .required _ => false
    | .optional _ => true

/-- `givenOrActualSize.IsInstance3(len(vs))` -/
def sizeOK (min : Nat) (max : Option Nat) (n : Nat) : Bool := decide (min ≤ n) && leMax n max

/-- the loop of `IsInstance3`: `cur` is `t.types[tdx]`, `rest` the types after it (`tdx < last` iff `rest ≠ []`) -/
def instLoop : T → List T → List V → Bool
  | _, _, [] => true
  | t, [], v :: vs => inst t v && instLoop t [] vs
  | t, t' :: ts, v :: vs => inst t v && instLoop t' ts vs

/-- `TupleType.IsInstance3` -/
def tupleInst (types : List T) (min : Nat) (max : Option Nat) (args : List V) : Bool :=
  sizeOK min max args.length &&
    match types with
    | [] => true
    | t :: ts => instLoop inst t ts args

def callableWith (d : Dispatch T BT) (args : List V) (blk : Option B) : Bool :=
  blockOK binst d.block blk && tupleInst inst d.types d.min d.max args

/-- outcome of `goFunction.Call` -/
inductive Outcome where
  | ran (i : Nat)       -- the body of dispatch `i` (0-based) ran
  | reported            -- px.Error(px.IllegalArguments, …)
  deriving Repr, DecidableEq

def callFrom (i : Nat) : List (Dispatch T BT) → List V → Option B → Outcome
  | [], _, _ => .reported
  | d :: ds, args, blk => if callableWith inst binst d args blk then .ran i else callFrom (i + 1) ds args blk

def call (ds : List (Dispatch T BT)) (args : List V) (blk : Option B) : Outcome := callFrom inst binst 0 ds args blk

/-- `goFunction`: the resolved function object.  Its fields are `name` (irrelevant to dispatch) and `dispatchers`; there is no
    other field, in particular nothing that a call could write -/
structure FnState (T BT : Type) where
  dispatchers : List (Dispatch T BT)

/-- facts regenerated from internal/function.go on every run (extract family `fnfacts`): the fields of `goFunction` and
    every statement of a `*goFunction` method that assigns, increments or takes the address of a receiver field
    (method, kind, source) -/
structure FnFacts where
  fields : List String
  writes : List (String × String × String)
  deriving Repr

/-- the side condition under which `FnState` (only `dispatchers`) and a `callStep` that returns the object unchanged
    represent the code: no field beyond `name` and `dispatchers`, and no method writes the receiver -/
def FnStateless (f : FnFacts) : Bool :=
  f.fields.all (fun x => x == "name" || x == "dispatchers") && f.writes.isEmpty

/-- one `goFunction.Call` on the function object: the answer and the object afterwards.  `Call` only *reads*
    `f.dispatchers`; it assigns no field of `f` -/
def callStep (s : FnState T BT) (args : List V) (blk : Option B) : Outcome × FnState T BT :=
  (call inst binst s.dispatchers args blk, s)

/-- a sequence of calls on ONE function object, threading the object through -/
def callSeq : FnState T BT → List (List V × Option B) → List Outcome
  | _, [] => []
  | s, (args, blk) :: rest =>
    let r := callStep inst binst s args blk
    r.1 :: callSeq r.2 rest

/-- whole pipeline of the `call` op: build, resolve, call -/
inductive RunOutcome where
  | builderRejected (p : Panic)
  | resolveFailed (e : ResolveError)
  | called (o : Outcome)
  deriving Repr, DecidableEq

def run (cs : List (Creator T BT)) (args : List V) (blk : Option B) : RunOutcome :=
  match buildAll cs with
  | .error p => .builderRejected p
  | .ok bs => match resolveAll bs with
    | .error e => .resolveFailed e
    | .ok ds => .called (call inst binst ds args blk)

/-- the `calls` op: build and resolve once, then the sequence -/
inductive RunSeqOutcome where
  | builderRejected (p : Panic)
  | resolveFailed (e : ResolveError)
  | called (os : List Outcome)
  deriving Repr

def runSeq (cs : List (Creator T BT)) (calls : List (List V × Option B)) : RunSeqOutcome :=
  match buildAll cs with
  | .error p => .builderRejected p
  | .ok bs => match resolveAll bs with
    | .error e => .resolveFailed e
    | .ok ds => .called (callSeq inst binst { dispatchers := ds } calls)

end Call

/-! ### `new` -/

section New
variable {T V : Type} (inst : T → V → Bool)

/-- what a constructor call ends in: a value, a reported error (no dispatch matched, or the body raised one), or a Go
    runtime fault inside the body (failed type assertion, index out of range) -/
inductive CtorResult (V : Type) where
  | value (v : V)
  | reported (code : String)
  | fault
  deriving Repr

/-- the receiver of `new`, after resolution: a type without constructor, a type with one (`Creatable.Constructor` or the
    constructor loaded by the type's name), or `Init[T]` (the only `Newable`), whose `New` runs T's constructor (`f` is
    `InitType.create`: the way the arguments are handed to that constructor); `Init[T]` for a T without constructor
    (`Resolve` raises CTOR_NOT_FOUND) and the default `Init` (no contained type) -/
inductive Recv (T V : Type) where
  | noCtor (t : T)
  | ctor (t : T) (f : List V → CtorResult V)
  | init (contained : T) (f : List V → CtorResult V)
  | initNoCtor
  | initDefault

inductive NewOutcome (V : Type) where
  | value (v : V)
  | reported (code : String)
  | fault
  deriving Repr

/-- `px.AssertInstance("new", typ, r)` -/
def assertInstance (t : T) (r : V) : NewOutcome V :=
  if inst t r then .value r else .reported "TYPE_MISMATCH"

def newInstance : Recv T V → List V → NewOutcome V
  | .noCtor _, _ => .reported "INSTANCE_DOES_NOT_RESPOND"
  | .initNoCtor, _ => .reported "CTOR_NOT_FOUND"
  | .initDefault, _ => .reported "INSTANCE_DOES_NOT_RESPOND"
  | .ctor t f, args => match f args with
    | .value r => assertInstance inst t r
    | .reported c => .reported c
    | .fault => .fault
  | .init t f, args => match f args with
    | .value r => assertInstance inst t r
    | .reported c => .reported c
    | .fault => .fault

end New

/-! ### the concrete alphabet of the correspondence driver -/

namespace Alpha

/-- the parameter types the driver's tables are written in (aliases are expanded by the driver; an unresolved type
    reference has no instances: `never`) -/
inductive Ty where
  | int (lo hi : Option Int)
  | str (lo : Nat) (hi : Option Nat)
  | enum (vs : List String)
  | enumci (vs : List String)     -- case-insensitive Enum (values kept in lower case)
  | intPat                        -- Pattern[/IntegerPattern/]
  | floatPat                      -- Pattern[/FloatPattern/]
  | float (lo hi : Int)           -- Float[lo,hi]: the stored bounds as keys (Model/CtorFl.lean); default = ∓maxFiniteKey
  | numeric
  | binary
  | timespan (lo hi : Int)        -- Timespan[lo,hi] in nanoseconds; default = the whole int64 range
  | arr (e : Ty) (lo : Nat) (hi : Option Nat)
  | tuple (ts : List Ty)                                   -- Tuple[T1,…,Tn] without a size: exactly n elements
  | hash (k v : Ty) (lo : Nat) (hi : Option Nat)
  | struct (ms : List (String × Bool × Ty))                -- members: name, key is Optional[…], value type
  | var (ts : List Ty)
  | opt (t : Ty)
  | notUndef (t : Ty)
  | alias (t : Ty)                -- a type alias (its own `Name()`, no constructor); membership is the resolved type's
  | any | undef | bool | default | never
  deriving Repr, Inhabited

inductive Val where
  | int (n : Int)
  | str (s : String)
  | bool (b : Bool)
  | float (bits : Nat)                                     -- a float64 as its IEEE bits (Model/CtorFl.lean)
  | binary (bs : List UInt8)
  | timespan (ns : Int)                                    -- a Timespan as its int64 number of nanoseconds
  | undef
  | default
  | arr (vs : List Val)
  | hash (es : List (Val × Val))                           -- entries in order; nothing merges equal keys (WrapHash)
  deriving Repr, Inhabited

def inRange (lo hi : Option Int) (n : Int) : Bool :=
  (match lo with | none => true | some l => decide (l ≤ n)) && (match hi with | none => true | some h => decide (n ≤ h))

def lowerAscii (s : String) : String := String.ofList (s.toList.map Char.toLower)

def isDigit (c : Char) : Bool := '0' ≤ c && c ≤ '9'
def isHex (c : Char) : Bool := isDigit c || ('a' ≤ c && c ≤ 'f') || ('A' ≤ c && c ≤ 'F')
def isOct (c : Char) : Bool := '0' ≤ c && c ≤ '7'
def isBin (c : Char) : Bool := c = '0' || c = '1'
/-- RE2 `\s` -/
def isSpace (c : Char) : Bool := c = ' ' || c = '\t' || c = '\n' || c = '\x0c' || c = '\r'

/-- the alternatives after the sign prefix: `\d+ | 0[xX]hex+ | 0[bB][01]+` (leading zeroes are accepted; the digits are
    read in the radix given to the constructor) -/
def intBody : List Char → Bool
  | [] => false
  | cs =>
    cs.all isDigit ||
    (match cs with
     | '0' :: x :: rest =>
       ((x = 'x' || x = 'X') && !rest.isEmpty && rest.all isHex) ||
       ((x = 'b' || x = 'B') && !rest.isEmpty && rest.all isBin)
     | _ => false)

/-- `types.IntegerPattern` = `\A[+-]?\s*(?:…)\z` -/
def intPattern (cs : List Char) : Bool :=
  let cs := match cs with
    | c :: rest => if c = '+' || c = '-' then rest else cs
    | [] => cs
  intBody (cs.dropWhile isSpace)

/-- `(?:0|[1-9]\d*)(?:\.\d+)?(?:[eE]-?\d+)?` up to the end (`FloatDec`) -/
def floatDec (cs : List Char) : Bool :=
  let ip := cs.takeWhile isDigit
  let r1 := cs.dropWhile isDigit
  (ip == ['0'] || (match ip with | c :: _ => c != '0' | [] => false)) &&
  (let r2 : Option (List Char) := match r1 with
      | '.' :: r => let fp := r.takeWhile isDigit
                    if fp.isEmpty then none else some (r.dropWhile isDigit)
      | r => some r
   match r2 with
   | none => false
   | some [] => true
   | some (e :: r) =>
     if e = 'e' || e = 'E' then
       let ds := match r with | '-' :: q => q | q => q
       !ds.isEmpty && ds.all isDigit
     else false)

/-- the alternatives of `types.FloatPattern` after the sign prefix: `FloatDec | 0[xX]hex+ | 0[0-7]+ | 0[bB][01]+` -/
def floatBody (cs : List Char) : Bool :=
  floatDec cs ||
  (match cs with
   | '0' :: x :: rest =>
     ((x = 'x' || x = 'X') && !rest.isEmpty && rest.all isHex) ||
     ((x = 'b' || x = 'B') && !rest.isEmpty && rest.all isBin) ||
     (x :: rest).all isOct
   | _ => false)

/-- `types.FloatPattern` = `\A[+-]?\s*(?:…)\z` -/
def floatPattern (cs : List Char) : Bool :=
  let cs := match cs with
    | c :: rest => if c = '+' || c = '-' then rest else cs
    | [] => cs
  floatBody (cs.dropWhile isSpace)

/-- `Hash.Get(stringValue(name))` as far as "found or not" goes (with equal keys the found *value* may differ from Go's,
    which answers the last one; `StructType.IsInstance` is false for such a hash either way: `matched < Len()`) -/
def lookupKey (name : String) : List (Val × Val) → Option Val
  | [] => none
  | (k, x) :: es => match k with
    | .str s => if s = name then some x else lookupKey name es
    | _ => lookupKey name es

mutual
/-- `px.IsInstance` on the alphabet: IntegerType.IsInstance (bounds), scStringType.IsInstance (character count),
    FloatType.IsInstance (a float within the effective bounds; never NaN), NumericType.IsInstance (an integer or a float),
    EnumType.IsInstance (case-sensitive member; no values = any string), ArrayType (every element), VariantType (some
    member), OptionalType (undef or the contained type), NotUndefType (not undef and the contained type), TypeAliasType (the
    resolved type; aliases are not recursive here), Any, Undef, Boolean, Default, unresolved TypeReference (nothing),
    TupleType without size, HashType (size, every key and value), StructType (every member found or optional, its value an
    instance, and `matched == Len()`);
    for the constructors' own parameter types also the case-insensitive Enum and Pattern[/IntegerPattern/].
    Structural recursion on the type (so that closed instances reduce by `decide`). -/
def inst : Ty → Val → Bool
  | .int lo hi, v => match v with | .int n => inRange lo hi n | _ => false
  | .str lo hi, v => match v with | .str s => decide (lo ≤ s.length) && leMax s.length hi | _ => false
  | .enum vs, v => match v with | .str s => vs.isEmpty || vs.contains s | _ => false
  | .enumci vs, v => match v with | .str s => vs.contains (lowerAscii s) | _ => false
  | .intPat, v => match v with | .str s => intPattern s.toList | _ => false
  | .floatPat, v => match v with | .str s => floatPattern s.toList | _ => false
  | .float lo hi, v => match v with | .float b => F64.inRange lo hi b | _ => false
  | .numeric, v => match v with | .int _ => true | .float _ => true | _ => false
  | .binary, v => match v with | .binary _ => true | _ => false
  | .timespan lo hi, v => match v with | .timespan n => decide (lo ≤ n) && decide (n ≤ hi) | _ => false
  | .arr e lo hi, v => match v with
    | .arr vs => decide (lo ≤ vs.length) && leMax vs.length hi && vs.all (fun x => inst e x)
    | _ => false
  | .tuple ts, v => match v with | .arr vs => instZip ts vs | _ => false
  | .hash kt vt lo hi, v => match v with
    | .hash es => decide (lo ≤ es.length) && leMax es.length hi && es.all (fun e => inst kt e.1 && inst vt e.2)
    | _ => false
  | .struct ms, v => match v with
    | .hash es => (match instMembers ms es with | some n => n == es.length | none => false)
    | _ => false
  | .var ts, v => instAny ts v
  | .opt t, v => match v with | .undef => true | _ => inst t v
  | .notUndef t, v => match v with | .undef => false | _ => inst t v
  | .alias t, v => inst t v
  | .any, _ => true
  | .undef, v => match v with | .undef => true | _ => false
  | .bool, v => match v with | .bool _ => true | _ => false
  | .default, v => match v with | .default => true | _ => false
  | .never, _ => false
def instAny : List Ty → Val → Bool
  | [], _ => false
  | t :: ts, v => inst t v || instAny ts v
/-- `TupleType.IsInstance2` for a tuple without explicit size -/
def instZip : List Ty → List Val → Bool
  | [], vs => vs.isEmpty
  | t :: ts, vs => match vs with
    | [] => false
    | v :: vs' => inst t v && instZip ts vs'
/-- the loop of `StructType.IsInstance`: `none` = an early `return false`, `some n` = `matched` -/
def instMembers : List (String × Bool × Ty) → List (Val × Val) → Option Nat
  | [], _ => some 0
  | (name, opt, t) :: ms, es => match lookupKey name es with
    | none => if opt then instMembers ms es else none
    | some x => if inst t x then (instMembers ms es).map (· + 1) else none
end

/-- the types block parameters are written in: a small family whose assignability is evident (`Any` accepts everything,
    `Numeric` accepts `Integer`, otherwise only the type itself) -/
inductive BP where
  | any | str | int | num | bool
  deriving Repr, DecidableEq

/-- `isAssignable(a, b)`: `a` accepts every instance of `b` -/
def BP.asg : BP → BP → Bool
  | .any, _ => true
  | .num, .int => true
  | a, b => a == b

/-- declared block types: `Callable`, `Callable[min,max]` or `Callable[T1,…,Tn,min,max]` (the last type repeats up to `max`) -/
inductive BTy where
  | any
  | range (min : Nat) (max : Option Nat)
  | typed (ts : List BP) (min : Nat) (max : Option Nat)
  deriving Repr

/-- a block given by the caller: a lambda taking `min..max` arguments.  `types` are the types of its parameters in order
    (the last one is the repeated parameter when `max` is unbounded); `[]` stands for "every parameter is of type Any" (or
    there is none): the parameter comparison is vacuous for such a block either way -/
structure Blk where
  min : Nat
  max : Option Nat
  types : List BP := []
  deriving Repr

/-- the loop of `TupleType.IsAssignable`, Tuple against Tuple, as `CallableType.IsAssignable` uses it: the BLOCK's parameter tuple
    (`bts`) must accept the DECLARED one (`dts`) at every position an instance of the declared tuple can have — positions
    `0 … max(#bts, #dts) - 1` below the declared maximum, each tuple repeating its last type.  (`dts = []` does not occur: a
    `Callable[T…, min, max]` without types is `Callable[min,max]`, whose tuple is `[Unit]`, see `binst`) -/
def paramsOK (bts dts : List BP) (dmax : Option Nat) : Bool :=
  bts.isEmpty || dts.isEmpty ||
    ((List.range (Nat.max dts.length bts.length)).all fun idx =>
       (match dmax with
        | some m => decide (m ≤ idx)
        | none => false) ||
       BP.asg (bts.getD (Nat.min idx (bts.length - 1)) .any) (dts.getD (Nat.min idx (dts.length - 1)) .any))

/-- the size part: the lambda must be callable with `a` up to `b` arguments, i.e. the size range of its tuple includes `[a,b]` -/
def sizesOK (a : Nat) (b : Option Nat) (k : Blk) : Bool :=
  decide (k.min ≤ a) &&
    (match k.max, b with
     | none, _ => true
     | some _, none => false
     | some m, some b' => decide (b' ≤ m))

/-- `isAssignable(declared, block.PType())` for these shapes (`CallableType.IsAssignable` compares the parameter tuples
    in reverse: the lambda's tuple must accept the declared one): the default Callable accepts every lambda; otherwise
    `TupleType.IsAssignable`: `givenOrActualSize.IsAssignable`, then the position loop `paramsOK`.  The tuple of an untyped
    `Callable[min,max]` is `[Unit]` (types/tupletype.go `tupleFromArgs`, `callable`), and every type accepts `Unit`: only
    the sizes count -/
def binst : BTy → Blk → Bool
  | .any, _ => true
  | .range a b, k => sizesOK a b k
  | .typed ts a b, k => sizesOK a b k && paramsOK k.types ts b

end Alpha

end Pcore.Dispatch
