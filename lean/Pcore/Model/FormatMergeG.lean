/-
  C20 model — per-type format maps given by the user, over ANY system of key types: `newFormatContext3` →
  `mergeFormats(DefaultFormats, NewFormatMap(h))` (types/format.go after fix 77ca16d), generalised from the 16-key table of
  `Format.lean` (`mergeMaps`, `sortEntries` …) to keys of any type `κ` with

    px.IsAssignable(a, b)               → `KeyOrd.sub`
    a.Equals(b) / equal hash keys       → `KeyOrd.eqv`  (`Reject` compares with Equals; `Unique`, `Get` compare hash keys, which
                                            agree with Equals on types: appendKey in types/types.go)
    typeRank(a)                         → `KeyOrd.rank`
    a.String()                          → `KeyOrd.name`

  Definitions mirror `Format.lean` one for one: `normLowerOfG`, `dedupG`, `mergedKeysG`, `mergedEntriesG`, `acceptorsG`,
  `entryLessG`, `sortEntriesG`, `mergeTreeG` / `mergeMapsG`, `dcfG`, `defaultFormatsG`, `contextMapG`.
  Instances: `xkeyOrd` (the 22 parameterless default types of `XKey`), `Model/FormatLat.lean` (lattice types).
  Core-only file (linked into the driver).
-/
import Pcore.Model.FormatX
namespace Pcore.Format

structure KeyOrd (κ : Type) where
  sub : κ → κ → Bool
  eqv : κ → κ → Bool
  rank : κ → Nat
  name : κ → String

variable {κ : Type}

/-- how many of the keys accept `k` (the primary sort key of `mergeFormats`) -/
def acceptorsG (ko : KeyOrd κ) (keys : List κ) (k : κ) : Nat := (keys.filter (fun o => ko.sub o k)).length

/-- the order of the merged map: more acceptors first, then the lower rank, then the name -/
def entryLessG (ko : KeyOrd κ) (keys : List κ) (a b : κ) : Bool :=
  let na := acceptorsG ko keys a
  let nb := acceptorsG ko keys b
  if na != nb then decide (na > nb)
  else if ko.rank a != ko.rank b then decide (ko.rank a < ko.rank b)
  else decide (ko.name a < ko.name b)

/-- `Hash.Get(k)` on a format map -/
def lookupG (ko : KeyOrd κ) (m : GMap κ) (k : κ) : Option (GTree κ) := (m.find? (fun e => ko.eqv e.1 k)).map (·.2)

/-- `List.Unique()` on keys: the first occurrence stays, the order is kept -/
def dedupG (ko : KeyOrd κ) : List κ → List κ
  | [] => []
  | k :: ks => k :: (dedupG ko ks).filter (fun o => !ko.eqv o k)

/-- the default (lower) entries that stay: an entry is dropped when a DIFFERENT user key accepts its key -/
def normLowerOfG (ko : KeyOrd κ) (lo hi : GMap κ) : GMap κ :=
  lo.filter (fun e => !((hi.map (·.1)).any (fun h => !ko.eqv h e.1 && ko.sub h e.1)))

/-- the keys of the merged map in the order `mergeFormats` meets them: the remaining defaults, then the user's new keys -/
def mergedKeysG (ko : KeyOrd κ) (lo hi : GMap κ) : List κ :=
  dedupG ko ((normLowerOfG ko lo hi).map (·.1) ++ hi.map (·.1))

/-- one entry per key: both sides → merged by `mt`, one side → that side's entry -/
def mergedEntriesG (ko : KeyOrd κ) (mt : GTree κ → GTree κ → GTree κ) (lo hi : GMap κ) : GMap κ :=
  (mergedKeysG ko lo hi).filterMap (fun k =>
    match lookupG ko (normLowerOfG ko lo hi) k, lookupG ko hi k with
    | some l, some h => some (k, mt l h)
    | some l, none => some (k, l)
    | none, some h => some (k, h)
    | none, none => none)

/-- the final order of the merged map (`sort.SliceStable`; the comparison is total on keys with pairwise different names, so
    every sorting algorithm answers the same list — insertion sort here) -/
def sortEntriesG (ko : KeyOrd κ) (m : GMap κ) : GMap κ :=
  insertionSort (fun a b => entryLessG ko (m.map (·.1)) a.1 b.1) m

mutual
/-- `merge(low, high)` -/
def mergeTreeG (ko : KeyOrd κ) : Nat → GTree κ → GTree κ → GTree κ
  | 0, _, high => high
  | fuel + 1, low, high =>
    let sep := match high.f.sep with | some s => some s | none => low.f.sep
    let sep2 := match high.f.sep2 with | some s => some s | none => low.f.sep2
    .mk { high.f with sep := sep, sep2 := sep2 } (mergeMapsG ko fuel low.cf high.cf)
/-- `mergeFormats(lower, higher)`; `none` = nil -/
def mergeMapsG (ko : KeyOrd κ) : Nat → Option (GMap κ) → Option (GMap κ) → Option (GMap κ)
  | 0, _, higher => higher
  | fuel + 1, lower, higher =>
    match lower, higher with
    | none, h => h
    | some [], h => h
    | l, none => l
    | l, some [] => l
    | some lo, some hi => some (sortEntriesG ko (mergedEntriesG ko (mergeTreeG ko fuel) lo hi))
end

/-- `DefaultContainerFormats` unrolled `n` levels (cf. `dcf`) -/
def dcfG (d : Key → κ) : Nat → GMap κ
  | 0 => defaultCFG d
  | n + 1 =>
    [(d .obj, .mk (basicFmt 'p' (some " => ".toList) (some '(')) (some (dcfG d n))), (d .typ, .mk (basicFmt 'p' (some " => ".toList) (some '(')) (some (dcfG d n))),
     (d .float, .mk (simpleFmt 'p') none), (d .numeric, .mk (simpleFmt 'p') none),
     (d .arr, .mk (basicFmt 'p' (some [',']) (some '[')) (some (dcfG d n))), (d .hash, .mk (basicFmt 'p' (some " => ".toList) (some '{')) (some (dcfG d n))),
     (d .bin, .mk (simpleFmt 'p') none), (d .any, .mk (simpleFmt 'p') none)]

/-- `DefaultFormats` -/
def defaultFormatsG (d : Key → κ) (n : Nat) : GMap κ :=
  [(d .obj, .mk (basicFmt 'p' (some " => ".toList) (some '(')) (some (dcfG d n))), (d .typ, .mk (basicFmt 'p' (some " => ".toList) (some '(')) (some (dcfG d n))),
   (d .float, .mk (simpleFmt 'f') none), (d .numeric, .mk (simpleFmt 'd') none),
   (d .arr, .mk (basicFmt 'a' (some [',']) (some '[')) (some (dcfG d n))), (d .hash, .mk (basicFmt 'h' (some " => ".toList) (some '{')) (some (dcfG d n))),
   (d .bin, .mk (simpleFmt 'B') none), (d .any, .mk (simpleFmt 's') none)]

/-- `newFormatContext3(value, hash)`: the format map of the context -/
def contextMapG (ko : KeyOrd κ) (d : Key → κ) (user : GMap κ) : GMap κ :=
  (mergeMapsG ko (2 * mergeDepth + 2) (some (defaultFormatsG d mergeDepth)) (some user)).getD []

/-- how deep / wide the user's `string_formats` are (cf. `mapDepth`, `mapWidth`) -/
def mapDepthG : Nat → GMap κ → Nat
  | 0, _ => 0
  | fuel + 1, m => 1 + (m.map (fun e => match e.2.cf with | some m' => mapDepthG fuel m' | none => 0)).foldl max 0

/-- the keys of every map of the user's tree are pairwise different (a Hash never holds a key twice) -/
def keysDistinct (ko : KeyOrd κ) : Nat → GMap κ → Bool
  | 0, _ => true
  | fuel + 1, m =>
    ((dedupG ko (m.map (·.1))).length == m.length) &&
    m.all (fun e => match e.2.cf with | some m' => keysDistinct ko fuel m' | none => true)

/-! ### the 22 parameterless default types -/

/-- `px.IsAssignable(a, b)` on the default types of all kinds (tied to the implementation by the driver op `keysubx` on all pairs) -/
def XKey.sub : XKey → XKey → Bool
  | .base a, .base b => Key.sub a b
  | .base .any, _ => true
  | .base .scalar, b => b = .semver || b = .tspan || b = .tstamp
  | .base _, _ => false
  | a, b => a = b

def XKey.rank : XKey → Nat
  | .base k => k.rank
  | _ => 0

def XKey.name : XKey → String
  | .base k => k.name
  | .semver => "SemVer" | .semverRange => "SemVerRange" | .uri => "URI" | .tspan => "Timespan" | .tstamp => "Timestamp"
  | .sensitive => "Sensitive"

def xkeyOrd : KeyOrd XKey := { sub := XKey.sub, eqv := fun a b => a == b, rank := XKey.rank, name := XKey.name }

end Pcore.Format
