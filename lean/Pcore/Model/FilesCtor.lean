import Pcore.Model.Files
/-!
# `newFileBasedLoader` as a function (C15) — core Lean only

| Go                                                     | Lean                |
|--------------------------------------------------------|---------------------|
| `loader/filebased.go SmartPathFactories`               | `smartPathFactory`  |
| `loader/filebased.go newSmartPath` (panic on a miss)   | `newSmartPath`      |
| `loader/filebased.go newFileBasedLoader` (the loop)    | `newLoaderPaths`    |

The only registered `px.PathType` is `puppetDataType` (`types`, `.pp`, namespace `type`); `puppetFunction`, `plan`, `task`
(px/loader.go) have no factory: constructing a loader with one of them panics `PCORE_ILLEGAL_ARGUMENT`.  Every smart path
of one loader gets the same flag `moduleNameRelative = !(moduleName == "" || moduleName == "environment")`.
`Pcore.Files.spOf` is the single smart path of a loader built with `puppetDataType` (`spOf_is_ctor`, Proofs/FilesKinds).
-/
namespace Pcore.Files

/-- `SmartPathFactories`: path type → (relative path, extension) -/
def smartPathFactory : String → Option (String × String)
  | "puppetDataType" => some ("types", ".pp")
  | _ => none

def illegalArgument : Err := .reported "PCORE_ILLEGAL_ARGUMENT" none 0

/-- `fileBasedLoader.newSmartPath` -/
def newSmartPath (root : Path) (moduleName : String) (pathType : String) (moduleNameRelative : Bool) :
    Except Err SmartPath :=
  match smartPathFactory pathType with
  | some (rel, ext) =>
    .ok { root := root, relativePath := rel, extension := ext, moduleName := moduleName,
          moduleNameRelative := moduleNameRelative }
  | none => .error illegalArgument

/-- `newFileBasedLoader`: one smart path per path type, all with the same flag -/
def newLoaderPaths (root : Path) (moduleName : String) : List String → Except Err (List SmartPath)
  | [] => .ok []
  | pt :: rest =>
    match newSmartPath root moduleName pt (!isGlobalMod moduleName) with
    | .error e => .error e
    | .ok sp =>
      match newLoaderPaths root moduleName rest with
      | .error e => .error e
      | .ok sps => .ok (sp :: sps)

end Pcore.Files
