import Pcore.Model.Describe
/-!
  What the canonical observation keeps of the describer's TEXT (internal/typemismatchdescriber.go `text()` of each mismatch
  struct).  The wording is not modelled; the model answers only the STRUCTURAL questions the wording depends on, so that the
  harness can read them back from the printed description:

    typeMismatch.text()     which alternatives are listed as expected (`expHeads`: one level of Optional is unwrapped, a Variant
                            lists its members, an unwrapped Optional puts `Undef` in front of a Variant's members — and ONLY of a
                            Variant's —, an empty list prints the Variant itself) and the head name of the actual type
    patternMismatch.text()  whether `an undef value or` is said (expected is an Optional), the head names of the (unwrapped)
                            expected type and of the actual type
    size / count            the two ranges (rangeToS is injective on the ranges that occur)
    key mismatches          the key

  Head name = `Type.Name()` (`shortName` and `px.ToString2(t, Expanded)` both start with it); every Object type is `Object`.
-/
namespace Pcore.Desc
open Pcore.Lat

/-- `t.Name()` (Object types: `Object`) -/
def tyName : Ty → String
  | .any => "Any" | .unit => "Unit" | .undef => "Undef" | .dflt => "Default" | .scalar => "Scalar"
  | .scalarData => "ScalarData" | .numeric => "Numeric" | .data => "Data" | .richData => "RichData"
  | .str | .strSz _ | .strVal _ => "String"
  | .bin => "Binary" | .int _ => "Integer" | .float _ _ => "Float" | .bool _ => "Boolean" | .tspan _ => "Timespan" | .tstamp _ => "Timestamp"
  | .enum _ _ => "Enum" | .pattern _ => "Pattern" | .regexp _ => "Regexp" | .coll _ => "Collection"
  | .array _ _ => "Array" | .hash _ _ _ => "Hash" | .tuple _ _ => "Tuple" | .struct _ => "Struct" | .variant _ => "Variant"
  | .optional _ => "Optional" | .notUndef _ => "NotUndef" | .typ _ => "Type" | .sensitive _ => "Sensitive"
  | .iterator _ => "Iterator"
  | .callable _ _ _ => "Callable"
  | .runtime _ _ _ => "Runtime"
  | .iterable _ => "Iterable" | .object _ => "Object"

def Atom.name : Atom → String
  | .ty t => tyName t
  | .typeSet => "TypeSet"
  | .deferred => "Object"     -- the meta type `Deferred` is an Object type (printed by name or as Object[{name => …}])

/-- the alternatives `typeMismatch.text()` lists -/
def expHeads (e : Exp) : List String :=
  let (e', optional) : Exp × Bool :=
    match e with
    | .atom (.ty (.optional t)) => (Exp.ofTy t, true)
    | e => (e, false)
  match e'.split with
  | .inr ms =>
      let els := ms.map Atom.name
      let els := if optional then "Undef" :: els else els
      if els.isEmpty then ["Variant"] else els
  | .inl x => [x.name]

/-- `patternMismatch.text()`: (says "an undef value or", head of the expected type after unwrapping) -/
def patHead (e : Ty) : Bool × String :=
  match e with
  | .optional t => (true, tyName t)
  | t => (false, tyName t)

end Pcore.Desc
