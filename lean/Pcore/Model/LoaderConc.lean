import Pcore.Model.LoaderSeq
/-!
# Interleaving model of the loaders (property C13)

Every operation of `Model/LoaderSeq.lean` is split at the code's actual synchronisation boundaries into ATOMIC STEPS
over the shared state (one step = one region under `basicLoader.lock`, or a purely thread-local transition); a thread is
a program (list of operations), a continuation `PC` inside the current operation, and a log; `stepAt c i` lets thread
`i` take one step; `Reachable` is the reflexive-transitive closure over ALL choices of `i` — any number of threads, any
program lengths, any interleaving.  Core Lean only.

| Go (loader/loader.go at HEAD)                                           | Lean                                       |
|--------------------------------------------------------------------------|--------------------------------------------|
| `load`: authority test, then `l.LoadEntry`                               | start of `.load` in `stepThread`           |
| `parentedLoader.LoadEntry`: the recursion reaches the outermost ancestor first; at every level, after the parent's answer (`verifhook.Point("parented.loadentry")`): own `GetEntry` (RLock) unless the parent's entry has a value | `PC.loadWalk`, one level per step, outermost first |
| `load`: `entry == nil` → `verifhook.Point("load.miss-window")` → `SetEntry(placeholder)` (Lock); else answer by `entry.Value()` | return step of `loadWalk … []`, `PC.loadMiss` |
| `basicLoader.SetEntry` (Lock)                                            | `.define` = one step (`LoaderSeq.define`)  |
| `parentedLoader.HasEntry`: `parent.HasEntry(name) \|\| own` (one RLock region per level) | `PC.hasWalk`, one level per step           |
| `basicLoader.GetEntry` (RLock); the reader then reads `entry.Value()` with no lock — the entry is immutable since fix e398ee4 (SetEntry re-points the map slot instead of writing into the old entry) | `.get`: the step reads the slot, `PC.getHold` keeps the entry's content |
| `parentedLoader.Discover`: parent's list, `verifhook.Point("parented.discover")`, then the own iteration under the own RLock (skipping the names of the parent's list) | `PC.discWalk`, one level per step          |

The ANSWER of a concurrent discovery is not the sequential answer of any single moment (its levels are read at different
times, see the known finding C13-chain-walk-not-atomic); what is proved about it is the sandwich `C13_discover_sandwich`:
it contains every name the sequential discovery would have answered when the operation began and only names the
sequential discovery answers when it ends.  Discovery only reads, so it cannot affect the invariants proved about the
shared state (C13_writeonce, C13_agree, C13_nocrash, C13_sc_partial).

`isYield` marks the continuations at which the deterministic scheduler of harness/c13 can park a goroutine (the
`verifhook.Point` sites and the harness's own points); `release` runs a thread to its next yield point and `runSched`
executes a schedule exactly as the harness does.  The step relation used by the theorems is finer (every atomic step).

Ghost data (never printed): a log entry carries, for an answer that hands out a value, the loader level and key the value
was read from; `WalkSt` remembers which levels a lookup has already found unbound; `PC.discWalk` carries the levels a
discovery has passed and `snap`, the shared state at the moment the discovery began.
-/
namespace Pcore.LoaderConc
open Pcore.LoaderSeq

/-- progress of a chain walk: still searching (levels read as unbound so far, the last entry seen), or found -/
inductive WalkSt where
  | searching (nones : List Nat) (last : Option (Option V))
  | foundAt (nones : List Nat) (x : Nat) (v : V)
  deriving Repr, Inhabited

def WalkSt.nones : WalkSt → List Nat
  | .searching ns _ => ns
  | .foundAt ns _ _ => ns

inductive PC where
  | idle
  | loadWalk (l : Nat) (n : Name) (todo : List Nat) (st : WalkSt)
  | loadMiss (l : Nat) (n : Name)
  | hasWalk (l : Nat) (k : Key) (todo : List Nat)
  | getHold (l : Nat) (k : Key) (e : Option (Option V))
  | discWalk (l : Nat) (p : Key → Bool) (todo : List Nat) (passed : List Nat) (found : List Key) (snap : Sys)
  deriving Inhabited

/-- where a handed-out value came from (ghost) -/
abbrev Src := Option (Nat × Key × V)

structure Thread where
  pc : PC
  ops : List Op
  log : List (Ans × Src)
  deriving Inhabited

structure Config where
  sh : Sys
  th : List Thread
  deriving Inhabited

def Thread.finished (t : Thread) : Bool :=
  match t.pc, t.ops with
  | .idle, [] => true
  | _, _ => false

/-- the answer `load` gives once `LoadEntry` has returned -/
def walkAns : WalkSt → Ans
  | .searching _ _ => .notfound
  | .foundAt _ _ v => .found v

/-- one level of `parentedLoader.LoadEntry` -/
def walkLevel (s : Sys) (k : Key) (x : Nat) : WalkSt → WalkSt
  | .searching ns _ =>
    match lk k (s.ents x) with
    | some (some v) => .foundAt ns x v
    | e => .searching (ns ++ [x]) e
  | st => st                                           -- the parent's entry has a value: own map not consulted

/-- a thread starts its next operation (it was parked at the harness's "op" point) -/
def startOp (s : Sys) (log : List (Ans × Src)) (rest : List Op) : Op → Sys × Thread
  | .load l n =>
    if n.auth ≠ runtimeAuthority then (s, { pc := .idle, ops := rest, log := log ++ [(.notfound, none)] })
    else (s, { pc := .loadWalk l n (chain s.ps l).reverse (.searching [] none), ops := rest, log := log })
  | .define l n v => ((define s l n v).1, { pc := .idle, ops := rest, log := log ++ [((define s l n v).2, none)] })
  | .has l n => (s, { pc := .hasWalk l (canon n) (chain s.ps l).reverse, ops := rest, log := log })
  | .get l n => (s, { pc := .getHold l (canon n) (lk (canon n) (s.ents l)), ops := rest, log := log })
  | .discover l p => (s, { pc := .discWalk l p (chain s.ps l).reverse [] [] s, ops := rest, log := log })

/-- `load` after `LoadEntry` answered nil: `SetEntry(placeholder)` -/
def missStep (s : Sys) (l : Nat) (k : Key) : Sys × Ans :=
  match (setEntry (s.ents l) k none).2 with
  | .stored => (s.setEnts l (setEntry (s.ents l) k none).1, .notfound)
  | .kept => (s.setEnts l (setEntry (s.ents l) k none).1, .notfound)
  | _ => (s, .fault)                                                       -- a lookup must not raise

def srcOf (l : Nat) (k : Key) : Option (Option V) → Src
  | some (some v) => some (l, k, v)
  | _ => none

/-- one level of `parentedLoader.Discover`: the own iteration under the own RLock -/
def discLevel (es : List Ents) (x : Nat) (found : List Key) (p : Key → Bool) : List Key :=
  if (ownAdded es x found p).isEmpty then found else sortKeys (found ++ ownAdded es x found p)

/-- one atomic step of one thread -/
def stepThread (s : Sys) (t : Thread) : Sys × Thread :=
  match t.pc with
  | .idle =>
    match t.ops with
    | [] => (s, t)
    | op :: rest => startOp s t.log rest op
  | .loadWalk l n (x :: todo) st => (s, { pc := .loadWalk l n todo (walkLevel s (canon n) x st), ops := t.ops, log := t.log })
  | .loadWalk l n [] (.searching _ none) => (s, { pc := .loadMiss l n, ops := t.ops, log := t.log })
  | .loadWalk _ _ [] (.searching _ (some _)) => (s, { pc := .idle, ops := t.ops, log := t.log ++ [(.notfound, none)] })
  | .loadWalk _ n [] (.foundAt _ x v) => (s, { pc := .idle, ops := t.ops, log := t.log ++ [(.found v, some (x, canon n, v))] })
  | .loadMiss l n => ((missStep s l (canon n)).1, { pc := .idle, ops := t.ops, log := t.log ++ [((missStep s l (canon n)).2, none)] })
  | .hasWalk l k (x :: todo) =>
    if ownHas s.es x k then (s, { pc := .idle, ops := t.ops, log := t.log ++ [(.bool true, none)] })
    else (s, { pc := .hasWalk l k todo, ops := t.ops, log := t.log })
  | .hasWalk _ _ [] => (s, { pc := .idle, ops := t.ops, log := t.log ++ [(.bool false, none)] })
  | .getHold l k e => (s, { pc := .idle, ops := t.ops, log := t.log ++ [(.entry e, srcOf l k e)] })
  | .discWalk l p (x :: todo) passed found snap =>
    match todo with
    | [] => (s, { pc := .idle, ops := t.ops, log := t.log ++ [(.keys (discLevel s.es x found p), none)] })
    | _ :: _ => (s, { pc := .discWalk l p todo (x :: passed) (discLevel s.es x found p) snap, ops := t.ops, log := t.log })
  | .discWalk _ _ [] _ found _ => (s, { pc := .idle, ops := t.ops, log := t.log ++ [(.keys found, none)] })

/-- thread `i` takes one step (nothing happens when there is no such thread) -/
def stepAt (c : Config) (i : Nat) : Config :=
  match c.th[i]? with
  | none => c
  | some t => { sh := (stepThread c.sh t).1, th := c.th.set i (stepThread c.sh t).2 }

/-- reachability under every interleaving -/
inductive Reachable (c0 : Config) : Config → Prop where
  | init : Reachable c0 c0
  | step {c : Config} (i : Nat) : Reachable c0 c → Reachable c0 (stepAt c i)

def Config.init (ps : List (Option Nat)) (progs : List (List Op)) : Config :=
  { sh := Sys.init ps, th := progs.map fun p => { pc := .idle, ops := p, log := [] } }

/-! ### the deterministic scheduler of harness/c13 -/

/-- continuations at which a goroutine is parked: the verifhook points and the harness's own yield points -/
def isYield : PC → Bool
  | .idle => true                       -- "op" (before the next step) — or the thread has finished
  | .loadWalk _ _ (_ :: _) _ => true    -- "parented.loadentry"
  | .loadWalk _ _ [] _ => false
  | .loadMiss _ _ => true               -- "load.miss-window"
  | .hasWalk _ _ _ => false
  | .getHold _ _ _ => true              -- "get.hold"
  | .discWalk _ _ (_ :: _) _ _ _ => true  -- "parented.discover"
  | .discWalk _ _ [] _ _ _ => false

/-- keep stepping thread `i` until it is parked again (or has finished) -/
def runToYield : Nat → Config → Nat → Config
  | 0, c, _ => c
  | fuel + 1, c, i =>
    match c.th[i]? with
    | none => c
    | some t => if isYield t.pc then c else runToYield fuel (stepAt c i) i

/-- one schedule entry: release thread `i` until its next yield point; skipped when it has finished or does not exist -/
def release (c : Config) (i : Nat) : Config :=
  match c.th[i]? with
  | none => c
  | some t => if t.finished then c else runToYield (2 * c.sh.ps.length + 8) (stepAt c i) i

def runSched (c : Config) : List Nat → Config
  | [] => c
  | i :: rest => runSched (release c i) rest

/-- after the schedule: the remaining threads run to completion in id order -/
def drainThread : Nat → Config → Nat → Config
  | 0, c, _ => c
  | fuel + 1, c, i =>
    match c.th[i]? with
    | none => c
    | some t => if t.finished then c else drainThread fuel (release c i) i

def slotBound (c : Config) : Nat :=
  (c.th.map fun t => (t.ops.length + 1) * (c.sh.ps.length + 3)).foldl (· + ·) 0

def drainAll (c : Config) : Config :=
  (List.range c.th.length).foldl (fun c i => drainThread (slotBound c) c i) c

def execute (ps : List (Option Nat)) (progs : List (List Op)) (sched : List Nat) : Config :=
  drainAll (runSched (Config.init ps progs) sched)

end Pcore.LoaderConc
