import Pcore.Model.Dispatch
/-!
# The tree-array dispatch of the Hash / Struct constructor (property C16, `new`)

Core Lean only.

| Go (types/hashtype.go)                                                     | Lean                        |
|----------------------------------------------------------------------------|-----------------------------|
| the body of the first dispatch of `newGoConstructor3(["Hash","Struct"])` with two arguments | `treeBody` |
| `NewMutableHash()` and the mutable hashes the walk creates (`hv.Get3(idx, func() { x := NewMutableHash(); hv.Put(idx, x) … })`) | `Node.mut` |
| `path.Slice(0, len-1).Reduce2(result, …)` followed by `hr.Put(path.At(len-1), value)` | `putAt` |
| `Hash.mergeEntries` (`PutAll`, `Put`)                                      | `mergeEntries`, `upsert`    |
| `Hash.valueIndex` (the LAST entry with a key is the one the index knows)   | `indexOfLast`               |
| `px.ToKey` equality of keys                                                | `keyEq` (values without hashes inside: `keyOK`) |
| `IndexedFromArray`                                                         | `indexed`                   |
| `MutableHashValue.freeze`                                                  | `Node.freeze`, `freezeEs`   |

How the walk is modelled.  The result under construction is a tree whose inner nodes are the MUTABLE hashes the walk itself
creates (`Node.mut`) and whose leaves are the immutable values that entries put there (`Node.leaf`).  For one entry
`[path, value]` the Go code walks `path[0 .. n-1)` from the root: in a mutable hash it takes the value under the key or
creates (and stores) a new mutable hash; in anything else (`px.List.At` on an array, an immutable hash, a string; `undef`
otherwise) it obtains an immutable value or undef.  The final `Put` happens only `if hr, ok := r.(*MutableHashValue)`.
A mutable hash is never stored anywhere but in its parent mutable hash, so as soon as the walk meets a leaf the entry has no
effect at all (nothing was created before: creation only happens inside a fresh, empty node, where every further step
creates as well).  `putAt` therefore recurses on the path only.

Quirks reproduced
* an empty path merges an array (as `index => element`) or a hash into the root, anything else is ignored;
* with `hash_tree` an array VALUE is stored as an immutable `index => element` hash: later paths through it are ignored;
* `PutAll` looks keys up in the index of the receiver as it was BEFORE the merge: a hash argument with two equal keys leaves
  both behind when the key is new (`mergeEntries`), and replaces twice when it exists;
* key equality is `ToKey` equality: `0.0` and `-0.0` are one key, `1` and `1.0` are two.  Walking through `-0.0` into the
  sub-hash stored under `0.0` leaves the key `0.0`; PUTTING under `-0.0` replaces the entry, key included.
* NOT modelled: keys that contain a hash (their `ToKey` sorts the entries) — the body answers `UNMODELLED` (the driver
  refuses the op; the generator does not emit such paths).
-/
namespace Pcore.Dispatch.Alpha

mutual
/-- no hash inside -/
def keyOK : Val → Bool
  | .arr vs => keyOKL vs
  | .hash _ => false
  | _ => true
def keyOKL : List Val → Bool
  | [] => true
  | v :: vs => keyOK v && keyOKL vs
end

mutual
/-- `px.ToKey(a) == px.ToKey(b)` for values without hashes inside -/
def keyEq : Val → Val → Bool
  | .int a, b => (match b with | .int b' => a == b' | _ => false)
  | .str a, b => (match b with | .str b' => a == b' | _ => false)
  | .bool a, b => (match b with | .bool b' => a == b' | _ => false)
  | .float a, b => (match b with
    | .float b' => (if F64.isZero a then 0 else a) == (if F64.isZero b' then 0 else b')
    | _ => false)
  | .binary a, b => (match b with | .binary b' => a == b' | _ => false)
  | .timespan a, b => (match b with | .timespan b' => a == b' | _ => false)
  | .undef, b => (match b with | .undef => true | _ => false)
  | .default, b => (match b with | .default => true | _ => false)
  | .arr as, b => (match b with | .arr bs => keyEqL as bs | _ => false)
  | .hash _, _ => false
def keyEqL : List Val → List Val → Bool
  | [], bs => bs.isEmpty
  | a :: as, bs => (match bs with
    | [] => false
    | b :: bs' => keyEq a b && keyEqL as bs')
end

/-- a node of the hash under construction -/
inductive Node where
  | leaf (v : Val)
  | mut (es : List (Val × Node))

/-- `valueIndex()[ToKey(k)]`: the position of the LAST entry with that key -/
def indexOfLast {α : Type} (k : Val) : List (Val × α) → Option Nat
  | [] => none
  | (k', _) :: es => match indexOfLast k es with
    | some i => some (i + 1)
    | none => if keyEq k' k then some 0 else none

def getLast {α : Type} (k : Val) (es : List (Val × α)) : Option α :=
  match indexOfLast k es with
  | some i => es[i]?.map (·.2)
  | none => none

/-- `mergeEntries`: every entry of `others` replaces the entry the ORIGINAL index points at, or is appended -/
def mergeEntries {α : Type} (self others : List (Val × α)) : List (Val × α) :=
  others.foldl (fun all e => match indexOfLast e.1 self with
    | some i => all.set i e
    | none => all ++ [e]) self

/-- `Put(key, value)` -/
def upsert {α : Type} (es : List (Val × α)) (k : Val) (x : α) : List (Val × α) := mergeEntries es [(k, x)]

/-- `IndexedFromArray` -/
def indexedFrom (i : Nat) : List Val → List (Val × Val)
  | [] => []
  | v :: vs => (.int i, v) :: indexedFrom (i + 1) vs
def indexed (vs : List Val) : List (Val × Val) := indexedFrom 0 vs

/-- the node under position `i` replaced, the entry's key kept (the sub-hash is mutated in place; `Put`, in contrast,
    replaces the whole entry, key included: `upsert`) -/
def setNodeAt : Nat → Node → List (Val × Node) → List (Val × Node)
  | _, _, [] => []
  | 0, n, (k, _) :: es => (k, n) :: es
  | i + 1, n, e :: es => e :: setNodeAt i n es

/-- one entry with a non-empty path: walk, create, put (see the header) -/
def putAt : List Val → Val → List (Val × Node) → List (Val × Node)
  | [], _, es => es
  | [k], v, es => upsert es k (.leaf v)
  | k :: k2 :: rest, v, es =>
    match getLast k es with
    | none => es ++ [(k, .mut (putAt (k2 :: rest) v []))]
    | some (.mut sub) =>
      (match indexOfLast k es with
       | some i => setNodeAt i (.mut (putAt (k2 :: rest) v sub)) es
       | none => es)
    | some (.leaf _) => es

mutual
/-- `MutableHashValue.freeze` -/
def Node.freeze : Node → Val
  | .leaf v => v
  | .mut es => .hash (freezeEs es)
def freezeEs : List (Val × Node) → List (Val × Val)
  | [] => []
  | (k, n) :: es => (k, n.freeze) :: freezeEs es
end

inductive TreeStep where
  | ok (es : List (Val × Node))
  | unmodelled                    -- a key with a hash inside
  | fault                         -- `entry.(*Array)`, `tpl.At(0).(*Array)` of something else

/-- one `[path, value]` entry applied to the root -/
def treeEntry (allHashes : Bool) (root : List (Val × Node)) : Val → TreeStep
  | .arr [.arr path, value] =>
    if !keyOKL path then .unmodelled else
    match path with
    | [] =>
      (match value with
       | .arr vs => .ok (mergeEntries root ((indexed vs).map fun e => (e.1, .leaf e.2)))
       | .hash es => if es.all (fun e => keyOK e.1) then .ok (mergeEntries root (es.map fun e => (e.1, .leaf e.2))) else .unmodelled
       | _ => .ok root)
    | _ =>
      let value' := match allHashes, value with
        | true, .arr vs => .hash (indexed vs)
        | _, v => v
      .ok (putAt path value' root)
  | _ => .fault

def treeLoop (allHashes : Bool) : List (Val × Node) → List Val → CtorResult Val
  | root, [] => .value (.hash (freezeEs root))
  | root, e :: es => match treeEntry allHashes root e with
    | .ok root' => treeLoop allHashes root' es
    | .unmodelled => .reported "UNMODELLED"
    | .fault => .fault

/-- the two-argument body of the tree dispatch: `allHashes := args[1].String() == "hash_tree"` -/
def treeBody (entries : List Val) (option : Val) : CtorResult Val :=
  match option with
  | .str s => treeLoop (s == "hash_tree") [] entries
  | _ => .fault                   -- `String()` of another kind is not modelled; the dispatch admits the two strings only

end Pcore.Dispatch.Alpha
