import Pcore.Model.LoaderSeq
/-!
# Type-set loaders as leaves of the hierarchy (property C12, "including type-set loaders")

`px.NewTypeSetLoader(parent, typeSet)`: a parented loader that additionally answers for the members of a fixed type set.
Mirrors loader/loader.go at HEAD; core Lean only.

| Go                                                                | Lean                 |
|---------------------------------------------------------------------|----------------------|
| `types/typeset.go` `typeSet.GetType` (no references): namespace `type` and the type set's authority, exactly one name segment, member looked up by its lower-cased name | `tsGetType` |
| `types/typedname.go` `Parts` (lower-cased `::` segments), `RelativeTo` / `IsParent` (segments only — neither namespace nor authority are compared) | `segsOf`, the `hd = t.name` tests |
| `typeSetLoader.LoadEntry`: own type set first; then `parentedLoader.LoadEntry` (ancestors, then the own entry map); on nil retry with the name relative to the type set, else leave a placeholder in the OWN entry map under the name reached | `tsLoadEntry` |
| `typeSetLoader.HasEntry`                                            | `tsHas`              |
| `typeSetLoader.SetEntry`: `l.parent.(px.DefiningLoader).SetEntry`   | `.define` in `stepT` |
| `typeSetLoader.Discover` (after fix: member names, then what the parented part discovers outside the members, sorted) | `tsDiscover` |
| `load` through a type-set loader: `LoadEntry` never answers nil, so no miss window | `.load` in `stepT` |

The type set of a loader never changes, so the table `tss` (loader ↦ its type set, `none` for plain parented loaders) is a
parameter, not part of the state `Sys`.  Type-set loaders are LEAVES: nothing is parented on them (the harness enforces
it), so `LoaderSeq.step` stays the semantics of every other loader.
Quirks reproduced: an UNQUALIFIED member name is answered from the type set before any ancestor is asked (known finding
C12-typeset-member-before-ancestors); `My::My::Foo` resolves like `My::Foo`; the placeholder for an unknown `My::Baz` is
stored under `baz`; `GetEntry` sees the own entry map only (never a member).
-/
namespace Pcore.LoaderSeq

structure TypeSet where
  name : String                       -- lower-cased, one segment
  members : List (String × V)         -- lower-cased simple name ↦ type
  deriving DecidableEq, Repr, Inhabited

def splitColonsL : List Char → List Char → List (List Char)
  | acc, [] => [acc.reverse]
  | acc, ':' :: ':' :: r => acc.reverse :: splitColonsL [] r
  | acc, c :: r => splitColonsL (c :: acc) r

/-- `typedName.Parts()` -/
def segsOf (n : Name) : List String :=
  (splitColonsL [] (lower (stripColons n.name)).toList).map String.ofList

/-- the name with these segments -/
def withSegs (n : Name) (segs : List String) : Name := { n with name := "::".intercalate segs }

def memberOf (m : String) : List (String × V) → Option V
  | [] => none
  | (m', v) :: r => if m' = m then some v else memberOf m r

/-- `typeSet.GetType` -/
def tsGetType (t : TypeSet) (n : Name) (segs : List String) : Option V :=
  if n.ns = "type" ∧ n.auth = runtimeAuthority then
    match segs with
    | [m] => memberOf m t.members
    | _ => none
  else none

/-- `typeSetLoader.LoadEntry` -/
def tsLoadEntry (s : Sys) (l : Nat) (t : TypeSet) (n : Name) : List String → Sys × Option (Option V)
  | [] => (s, some none)                                 -- no segments: `Parts()` never answers this
  | hd :: rest =>
    match tsGetType t n (hd :: rest) with
    | some v => (s, some (some v))
    | none =>
      let k := canon (withSegs n (hd :: rest))
      match loadEntryC s.es (chain s.ps l) k with
      | some e => (s, some e)
      | none =>
        if !rest.isEmpty && hd = t.name then tsLoadEntry s l t n rest      -- `name.RelativeTo(typeSet.TypedName())`
        else (s.setEnts l (setEntry (s.ents l) k none).1, some none)

/-- `typeSetLoader.HasEntry` -/
def tsHas (s : Sys) (l : Nat) (t : TypeSet) (n : Name) : List String → Bool
  | [] => false
  | hd :: rest =>
    (tsGetType t n (hd :: rest)).isSome || hasC s.es (chain s.ps l) (canon (withSegs n (hd :: rest))) ||
    (!rest.isEmpty && hd = t.name && tsHas s l t n rest)

def memberKeys (t : TypeSet) : List Key :=
  t.members.map fun (m, _) => canon { auth := runtimeAuthority, ns := "type", name := m }

/-- `typeSetLoader.Discover` -/
def tsDiscover (s : Sys) (l : Nat) (t : TypeSet) (p : Key → Bool) : List Key :=
  let own := (memberKeys t).filter p
  sortKeys (own ++ discC s.es (fun k => !(memberKeys t).contains k && p k) (chain s.ps l))

/-- the loader an operation addresses -/
def Op.loader : Op → Nat
  | .load l _ | .define l _ _ | .has l _ | .get l _ | .discover l _ => l

def tsOf (tss : List (Option TypeSet)) (l : Nat) : Option TypeSet := (tss.getD l none)

/-- one operation on a hierarchy some of whose leaves are type-set loaders -/
def stepT (tss : List (Option TypeSet)) (s : Sys) (op : Op) : Sys × Ans :=
  match op with
  | .load l n =>
    match tsOf tss l with
    | none => step s op
    | some t =>
      if n.auth ≠ runtimeAuthority then (s, .notfound)
      else
        ((tsLoadEntry s l t n (segsOf n)).1, ansOf (tsLoadEntry s l t n (segsOf n)).2.join)
  | .define l n v =>
    match tsOf tss l, s.ps.getD l none with
    | some _, some p => define s p n v
    | some _, none => (s, .fault)                      -- the static loader is not handed out as a DefiningLoader
    | none, _ => step s op
  | .has l n =>
    match tsOf tss l with
    | none => step s op
    | some t => (s, .bool (tsHas s l t n (segsOf n)))
  | .get _ _ => step s op
  | .discover l p =>
    match tsOf tss l with
    | none => step s op
    | some t => (s, .keys (tsDiscover s l t p))

def runT (tss : List (Option TypeSet)) (s : Sys) : List Op → Sys × List Ans
  | [] => (s, [])
  | op :: ops =>
    let r := stepT tss s op
    let r2 := runT tss r.1 ops
    (r2.1, r.2 :: r2.2)

end Pcore.LoaderSeq
