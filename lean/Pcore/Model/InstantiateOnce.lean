import Pcore.Model.LoaderSeq
/-!
# File-based loading: the per-name instantiation lock (property C13, "a lazily file-loaded definition is instantiated
exactly once")

One `fileBasedLoader` whose ancestors know none of the names involved; threads `load` names through it.
Atomic steps = the lock regions of `loader/filebased.go` at HEAD; core Lean only.

| Go                                                                                   | Lean (`PC`)            |
|----------------------------------------------------------------------------------------|------------------------|
| `load` → `fileBasedLoader.LoadEntry`: `parentedLoader.LoadEntry` (ancestors miss; own `GetEntry`, RLock); non-nil → answer; nil → `verifhook.Point("filebased.loadentry")` | start of `.load`, `ldCheck` |
| `entry = l.GetEntry(name)` (RLock) — the second look                                  | step of `ldCheck`      |
| `find` → `findExistingPath` (the path index, under `l.lock`)                          | step of `ldFind`       |
| no file: `SetEntry(placeholder)`; answer not-found                                    | step of `ldCacheMiss`  |
| `instantiate`: `verifhook.Point("filebased.instantiate.enter")`; `locksLock` region — take the name's mutex from `l.locks` or make one | step of `instTable` |
| `nameLock.Lock()` — only possible while nobody holds that mutex                        | step of `instAcquire`  |
| `l.GetEntry(name) == nil` (RLock)                                                      | step of `instCheck`    |
| `l.SetEntry(name, placeholder)`; `verifhook.Point("filebased.instantiate.placeholder")` | step of `instPlace`  |
| the instantiator: `GetContent` (counted by the C15 hook), parse, `AddTypes` → `SetEntry(name, type)` | step of `instRun` |
| `return l.GetEntry(rn)` (evaluated before the deferred function)                       | step of `instRet`      |
| deferred: `nameLock.Unlock()`                                                          | step of `instUnlock`   |
| deferred: `locksLock` region — `delete(l.locks, key)`; `load` answers                  | step of `instDelete`   |

Quirks reproduced: the deferred function removes the mutex from the table AFTER unlocking it, so later arrivals make a
new mutex while earlier ones may still wait on the old one (two threads can then be inside "the" critical section at
once — harmless only because the entry is never nil again); a lookup that sees the placeholder of an instantiation in
progress answers not-found (known finding C13-placeholder-of-running-instantiation-visible).
A file whose instantiator RAISES (`Config.broken`: a parse error — PARSE_ERROR — or a file that defines another name —
PCORE_WRONG_DEFINITION): the file is read (once), the panic skips `return l.GetEntry(rn)`, the deferred function releases
the mutex and removes it from the table, `load` re-raises; the placeholder STAYS installed, so every later lookup of the
name answers not-found without reading the file again (a quirk: the error is reported to one caller only).
Not modelled: the instantiator's nested lookups (an alias file `type A = B` resolves B through the same loader from
inside A's instantiator — see the implementation-only op `@C13 nested` and work/defect-C13-nested-lookup-meets-placeholder.md),
type sets, qualified names.
-/
namespace Pcore.Instantiate
open Pcore.LoaderSeq

/-- a named mutex object -/
abbrev Mx := Nat

inductive PC where
  | idle
  | ldCheck (k : Key)                           -- parked at "filebased.loadentry"
  | ldFind (k : Key)
  | ldCacheMiss (k : Key)
  | instTable (k : Key)
  | instAcquire (k : Key) (m : Mx)              -- about to `nameLock.Lock()`
  | instCheck (k : Key) (m : Mx)                -- holds m
  | instPlace (k : Key) (m : Mx)                -- holds m, saw nil
  | instRun (k : Key) (m : Mx)                  -- holds m, placeholder installed; parked at "filebased.instantiate.placeholder"
  | instRet (k : Key) (m : Mx)                  -- holds m
  | instUnlock (k : Key) (m : Mx) (a : Ans)     -- holds m
  | instDelete (k : Key) (a : Ans)
  deriving DecidableEq, Repr, Inhabited

/-- what a thread does next: look a name up through the file-based loader, or through its PARENT (a plain parented
    loader that binds nothing here: the lookup misses and leaves a miss marker in the parent, which the file-based loader's
    `parentedLoader.LoadEntry` skips — `entry.Value() == nil` → own map) -/
inductive FOp where
  | load (k : Key)
  | loadParent (k : Key)
  deriving DecidableEq, Repr, Inhabited

structure Thread where
  pc : PC
  ops : List FOp
  log : List Ans
  deriving DecidableEq, Repr, Inhabited

structure Config where
  files : List (Key × V)                        -- what is on disk: key ↦ the definition its file holds (never changes)
  broken : List (Key × String)                  -- files whose instantiator RAISES (a parse error, a definition of another name): key ↦ issue code
  es : Ents                                     -- the loader's own entry map
  locks : List (Key × Mx)                       -- `l.locks`
  held : List (Mx × Nat)                        -- mutexes currently locked, with the thread that locked each (ghost)
  nextMx : Nat                                  -- allocation counter (`&sync.Mutex{}`)
  reads : List Key                              -- one element per run of the instantiator (what the C15 hook counts)
  th : List Thread
  deriving Repr, Inhabited

def lookupMx (k : Key) : List (Key × Mx) → Option Mx
  | [] => none
  | (k', m) :: r => if k' = k then some m else lookupMx k r

def fileOf (k : Key) : List (Key × V) → Option V
  | [] => none
  | (k', v) :: r => if k' = k then some v else fileOf k r

def brokenOf (k : Key) : List (Key × String) → Option String
  | [] => none
  | (k', c) :: r => if k' = k then some c else brokenOf k r

/-- what `load` answers for an entry it got -/
def ansOfEntry : Option (Option V) → Ans
  | some (some v) => .found v
  | _ => .notfound

structure Shared where
  es : Ents
  locks : List (Key × Mx)
  held : List (Mx × Nat)
  nextMx : Nat
  reads : List Key
  deriving Repr, Inhabited

def Config.shared (c : Config) : Shared := { es := c.es, locks := c.locks, held := c.held, nextMx := c.nextMx, reads := c.reads }

/-- one atomic step of one thread (a thread waiting for a held mutex does not move) -/
def stepThread (files : List (Key × V)) (broken : List (Key × String)) (i : Nat) (s : Shared) (t : Thread) : Shared × Thread :=
  match t.pc with
  | .idle =>
    match t.ops with
    | [] => (s, t)
    | .loadParent _ :: rest => (s, { pc := .idle, ops := rest, log := t.log ++ [.notfound] })
    | .load k :: rest =>
      match lk k s.es with
      | none => (s, { pc := .ldCheck k, ops := rest, log := t.log })
      | e => (s, { pc := .idle, ops := rest, log := t.log ++ [ansOfEntry e] })
  | .ldCheck k =>
    match lk k s.es with
    | none => (s, { t with pc := .ldFind k })
    | e => (s, { t with pc := .idle, log := t.log ++ [ansOfEntry e] })
  | .ldFind k =>
    match fileOf k files with
    | none =>
      match brokenOf k broken with
      | none => (s, { t with pc := .ldCacheMiss k })
      | some _ => (s, { t with pc := .instTable k })                  -- the file exists; that it cannot be instantiated shows later
    | some _ => (s, { t with pc := .instTable k })
  | .ldCacheMiss k =>
    ({ s with es := (setEntry s.es k none).1 }, { t with pc := .idle, log := t.log ++ [.notfound] })
  | .instTable k =>
    match lookupMx k s.locks with
    | some m => (s, { t with pc := .instAcquire k m })
    | none => ({ s with locks := (k, s.nextMx) :: s.locks, nextMx := s.nextMx + 1 }, { t with pc := .instAcquire k s.nextMx })
  | .instAcquire k m =>
    if s.held.any (fun p => p.1 == m) then (s, t)                      -- blocked
    else ({ s with held := (m, i) :: s.held }, { t with pc := .instCheck k m })
  | .instCheck k m =>
    match lk k s.es with
    | none => (s, { t with pc := .instPlace k m })
    | _ => (s, { t with pc := .instRet k m })
  | .instPlace k m => ({ s with es := (setEntry s.es k none).1 }, { t with pc := .instRun k m })
  | .instRun k m =>
    match fileOf k files with
    | some v => ({ s with es := (setEntry s.es k (some v)).1, reads := k :: s.reads }, { t with pc := .instRet k m })
    | none =>
      match brokenOf k broken with
      | some code =>
        -- the instantiator reads the file and PANICS (types.ParseFile / WrongDefinition): `return l.GetEntry(rn)` is skipped,
        -- the deferred function unlocks and deletes the mutex, `load` re-raises; the placeholder stays installed
        ({ s with reads := k :: s.reads }, { t with pc := .instUnlock k m (.reported code) })
      | none => (s, { t with pc := .instRet k m })                     -- unreachable: instantiate is entered for files only
  | .instRet k m => (s, { t with pc := .instUnlock k m (ansOfEntry (lk k s.es)) })
  | .instUnlock k m a => ({ s with held := s.held.filter (fun p => p.1 != m) }, { t with pc := .instDelete k a })
  | .instDelete k a =>
    ({ s with locks := s.locks.filter (fun p => p.1 != k) }, { t with pc := .idle, log := t.log ++ [a] })

def Config.withShared (c : Config) (s : Shared) (th : List Thread) : Config :=
  { files := c.files, broken := c.broken, es := s.es, locks := s.locks, held := s.held, nextMx := s.nextMx, reads := s.reads, th := th }

def stepAt (c : Config) (i : Nat) : Config :=
  match c.th[i]? with
  | none => c
  | some t => c.withShared (stepThread c.files c.broken i c.shared t).1 (c.th.set i (stepThread c.files c.broken i c.shared t).2)

inductive Reachable (c0 : Config) : Config → Prop where
  | init : Reachable c0 c0
  | step {c : Config} (i : Nat) : Reachable c0 c → Reachable c0 (stepAt c i)

def Config.initB (files : List (Key × V)) (broken : List (Key × String)) (progs : List (List FOp)) : Config :=
  { files := files, broken := broken, es := [], locks := [], held := [], nextMx := 0, reads := [],
    th := progs.map fun p => { pc := .idle, ops := p, log := [] } }

/-- every file can be instantiated -/
def Config.init (files : List (Key × V)) (progs : List (List FOp)) : Config := Config.initB files [] progs

/-! ### the deterministic scheduler of harness/c13 (`files` lines) -/

def isYield : PC → Bool
  | .idle => true
  | .ldCheck _ => true                 -- "filebased.loadentry"
  | .instTable _ => true               -- "filebased.instantiate.enter"
  | .instRun _ _ => true               -- "filebased.instantiate.placeholder"
  | _ => false

def Thread.finished (t : Thread) : Bool := t.pc = .idle && t.ops.isEmpty

def runToYield : Nat → Config → Nat → Config
  | 0, c, _ => c
  | fuel + 1, c, i =>
    match c.th[i]? with
    | none => c
    | some t => if isYield t.pc then c else runToYield fuel (stepAt c i) i

/-- a thread parked at the entry of `instantiate` would block in `nameLock.Lock()` while another thread is parked
    between the placeholder and the instantiator of the same name (it holds the name's mutex, which is still in the
    table): the harness does not release such a thread, and neither does this scheduler -/
def blockedAt (c : Config) (i : Nat) (t : Thread) : Bool :=
  match t.pc with
  | .instTable k =>
    (c.th.zipIdx.any fun (u, j) => j != i && (match u.pc with | .instRun k' _ => k' == k | _ => false))
  | _ => false

def release (c : Config) (i : Nat) : Config :=
  match c.th[i]? with
  | none => c
  | some t => if t.finished || blockedAt c i t then c else runToYield 16 (stepAt c i) i

def runSched (c : Config) : List Nat → Config
  | [] => c
  | i :: rest => runSched (release c i) rest

def drainThread : Nat → Config → Nat → Config
  | 0, c, _ => c
  | fuel + 1, c, i => drainThread fuel (release c i) i

/-- one pass over the threads in id order, each released until it has finished or is blocked -/
def drainPass (c : Config) : Config :=
  (List.range c.th.length).foldl (fun c i => drainThread (4 * (c.th.getD i default).ops.length + 4) c i) c

def executeB (files : List (Key × V)) (broken : List (Key × String)) (progs : List (List FOp)) (sched : List Nat) : Config :=
  let c := runSched (Config.initB files broken progs) sched
  (List.range c.th.length).foldl (fun c _ => drainPass c) c

def execute (files : List (Key × V)) (progs : List (List FOp)) (sched : List Nat) : Config := executeB files [] progs sched

end Pcore.Instantiate
