import Pcore.Model.Dispatch
import Pcore.Model.CtorHashTree
/-!
# The constructors of Integer, Boolean, Array/Tuple and Hash/Struct on the driver's alphabet (property C16, `new`)

`new` = receiver resolution + the constructor's dispatch table (built by the same builder calls as any function) + the body
of the dispatch that matched + `AssertInstance(receiver, result)`.  Modelled constructors, restricted to the alphabet
values (Integer, Float, String, Boolean, Undef, Default, Array, Hash — no Timespan, Timestamp, Binary).  The Float and Numeric
constructors are in Model/CtorNum.lean; the constructor lookup (`ctorOf`) and `newModel` in Model/CtorNew.lean:

| Go                                                        | Lean                         |
|-----------------------------------------------------------|------------------------------|
| types/integertype.go `newGoConstructor2("Integer", …)`    | `integerCtor`                |
| types/integertype.go `intFromConvertible`                 | `intFromConvertible`         |
| types/integertype.go `integerFromString`                  | `integerFromString`          |
| strconv.ParseInt(s, radix, 64) for radix ∈ {2,8,10,16}    | `parseInt` (modelled, §5)    |
| types/booleantype.go `newGoConstructor("Boolean", …)`     | `booleanCtor`                |
| types/arraytype.go `newGoConstructor3(["Array","Tuple"])` | `arrayCtor`                  |
| types/hashtype.go `newGoConstructor3(["Hash","Struct"])` (tree-array, key-value array and Iterable dispatches; the tree walk is Model/CtorHashTree.lean) | `hashCtor` |
| types/hashtype.go `WrapHashFromArray`                     | `hashFromArray`              |
| types/stringtype.go `stringValue.Elements` + `WrapValues` | `stringElements`             |
| types/inittype.go `InitType.New` / `create` (with and without init arguments) | `initCall`   |

Quirks reproduced
* `Convertible` admits a string only through `Pattern[/IntegerPattern/]` = sign, blanks, then `\d+`, `0x…` or `0b…`:
  `"ff"` is refused by the dispatch even with radix 16; `integerFromString` removes the prefix only when it denotes the
  given radix, so `"0x1F"` is 31 with radix 16 and `NOT_INTEGER` with the default radix 10, `"0b11"` is 3 with radix 2 and
  2833 with radix 16 (`b` is a hexadecimal digit); `"017"` is decimal 17 unless the radix is 8.
* a radix argument that is `default` leaves 10; `abs` of the minimum integer stays negative (`-n` wraps).
* the `NamedArgs` dispatch takes one hash `{from => Convertible, Optional[radix] => Radix, Optional[abs] => Boolean}`; its
  body reads the hash with `Get4`/`Get5`, which the model does with `lookupKey` (the Struct test has already established
  that the keys are distinct strings).
* `Integer.new(float)` is Go's `int64(f)`: truncation, and MinInt64 for NaN, the infinities and everything outside int64
  (the amd64 conversion; implementation-defined in the Go specification — `F64.toInt64`).
* a Timespan converts to its whole seconds (`Timespan.Int()`); `Timestamp` in `Convertible` has no value in the alphabet:
  it is written `never`.
* `Array.new(string)`: `Elements()` sizes the slice by bytes and fills it by rune index, so any non-ASCII character
  leaves a nil slot and `WrapValues` reports `NIL_ARRAY_ELEMENT`.
-/
namespace Pcore.Dispatch.Alpha

def minInt : Int := -9223372036854775808
def maxInt : Int := 9223372036854775807

def digitVal (c : Char) : Option Nat :=
  if '0' ≤ c && c ≤ '9' then some (c.toNat - '0'.toNat)
  else if 'a' ≤ c && c ≤ 'z' then some (c.toNat - 'a'.toNat + 10)
  else if 'A' ≤ c && c ≤ 'Z' then some (c.toNat - 'A'.toNat + 10)
  else none

def parseDigits (radix : Nat) : List Char → Nat → Option Nat
  | [], acc => some acc
  | c :: cs, acc => match digitVal c with
    | some d => if d < radix then parseDigits radix cs (acc * radix + d) else none
    | none => none

/-- `strconv.ParseInt(s, radix, 64)` for an explicit radix: optional sign, at least one digit, no prefix, no underscore,
    range error outside int64 -/
def parseInt (cs : List Char) (radix : Nat) : Option Int :=
  let (neg, ds) := match cs with
    | '+' :: r => (false, r)
    | '-' :: r => (true, r)
    | _ => (false, cs)
  if ds.isEmpty then none else
  match parseDigits radix ds 0 with
  | none => none
  | some n =>
    let v : Int := if neg then -(n : Int) else (n : Int)
    if minInt ≤ v && v ≤ maxInt then some v else none

/-- `integerFromString`: the sign is set aside, blanks after it are dropped, a `0x`/`0X` prefix is removed when the radix
    is 16 and a `0b`/`0B` prefix when it is 2 (only when something follows the prefix: `len(s) > 2`), then
    `strconv.ParseInt(sign+s, radix, 64)` -/
def integerFromString (s : String) (radix : Nat) : Option Int :=
  let cs := s.toList
  let (sign, rest) : List Char × List Char := match cs with
    | '+' :: r => (['+'], r)
    | '-' :: r => (['-'], r)
    | _ => ([], cs)
  let rest := rest.dropWhile isSpace
  let rest := match rest with
    | '0' :: x :: y :: more =>
      if (radix = 16 && (x = 'x' || x = 'X')) || (radix = 2 && (x = 'b' || x = 'B')) then y :: more else rest
    | _ => rest
  parseInt (sign ++ rest) radix

/-- `intFromConvertible` on the alphabet (the `default:` arm calls `from.String()`; among the values that reach it through
    the dispatch only strings occur — for the others the text is not modelled and the arm is marked `fault`, proved
    unreachable) -/
def intFromConvertible (from_ : Val) (radix : Nat) : CtorResult Val :=
  match from_ with
  | .int n => .value (.int n)
  | .float b => .value (.int (F64.toInt64 b))
  | .timespan ns => .value (.int (F64.spanSeconds ns))
  | .bool b => .value (.int (if b then 1 else 0))
  | .str s => match integerFromString s radix with
    | some n => .value (.int n)
    | none => .reported "NOT_INTEGER"
  | _ => .fault

/-- a constructor: its dispatch creators and the body of each -/
structure Ctor where
  creators : List (Creator Ty BTy)
  body : Nat → List Val → CtorResult Val

def anyTimespan : Ty := .timespan F64.minInt F64.maxInt
def convertible : Ty := .var [.numeric, .bool, .intPat, anyTimespan, .never]
def radixTy : Ty := .var [.default, .int (some 2) (some 2), .int (some 8) (some 8), .int (some 10) (some 10), .int (some 16) (some 16)]

/-- `args[i].(booleanValue).Bool()`: a failed type assertion is a fault -/
def asBool : Val → Option Bool
  | .bool b => some b
  | _ => none

/-- `if len(args) > 1 { if radix, ok := args[1].(integerValue); ok { r = int(radix) } … }` -/
def radixOf : List Val → Nat
  | .int n :: _ => n.toNat
  | _ => 10

/-- `if len(args) > 2 { abs = args[2].(booleanValue).Bool() }` — `none` is the failed type assertion -/
def absOf : List Val → Option Bool
  | _ :: a2 :: _ => asBool a2
  | _ => some false

/-- `if abs && n < 0 { n = -n }` on int64: the minimum integer stays negative -/
def absInt (abs : Bool) (n : Int) : Int := if abs && n < 0 && n ≠ minInt then -n else n

/-- `n := intFromConvertible(…); if abs && n < 0 { n = -n }; return integerValue(n)` on the outcome of the conversion -/
def applyAbs (abs : Bool) : CtorResult Val → CtorResult Val
  | .value (.int n) => .value (.int (absInt abs n))
  | other => other

def integerBody0 (a0 : Val) (rest : List Val) : CtorResult Val :=
  match absOf rest with
  | none => .fault
  | some abs => applyAbs abs (intFromConvertible a0 (radixOf rest))

/-- `if rx, ok := h.Get4("radix"); ok { if radix, ok := rx.(integerValue); ok { r = int(radix) } }` -/
def namedRadix (es : List (Val × Val)) : Nat :=
  match lookupKey "radix" es with
  | some (.int n) => n.toNat
  | _ => 10

def integerNamedArgs : Ty := .struct [("from", false, convertible), ("radix", true, radixTy), ("abs", true, .bool)]

/-- the `NamedArgs` body: `h.Get4("radix")` (an integer sets the radix), `h.Get4("abs")` (`.(booleanValue)`: a failed
    assertion is a fault), `h.Get5("from", undef)` -/
def integerBody1 (es : List (Val × Val)) : CtorResult Val :=
  let abs? : Option Bool := match lookupKey "abs" es with
    | some a => asBool a
    | none => some false
  match abs? with
  | none => .fault
  | some abs => applyAbs abs (intFromConvertible ((lookupKey "from" es).getD .undef) (namedRadix es))

def boolParam : Ty := .var [.int none none, .float (-F64.maxFiniteKey) F64.maxFiniteKey, .bool, .enumci ["false", "true", "yes", "no", "y", "n"]]
/-- `Variant[Array,Hash,Binary,Iterable]`; `Iterable` on the alphabet is arrays, hashes and strings (the `px.Indexed`
    values; a Binary is not) -/
def arrayParam : Ty := .var [.arr .any 0 none, .hash .any .any 0 none, .binary, .var [.arr .any 0 none, .hash .any .any 0 none, .str 0 none]]

def integerCtor : Ctor where
  creators :=
    [ { ops := [.param convertible, .optional radixTy, .optional .bool], kind := .fn },
      { ops := [.param integerNamedArgs], kind := .fn } ]
  body := fun i args =>
    match i, args with
    | 0, a0 :: rest => integerBody0 a0 rest
    | 1, .hash es :: _ => integerBody1 es
    | _, _ => .fault      -- args[0] of an empty list; args[0].(*Hash) of the NamedArgs body

def booleanCtor : Ctor where
  creators := [ { ops := [.param boolParam], kind := .fn } ]
  body := fun _ args =>
    match args with
    | .int n :: _ => .value (.bool (n ≠ 0))
    | .float f :: _ => .value (.bool (!F64.isZero f))
    | .bool b :: _ => .value (.bool b)
    | .str s :: _ => let l := lowerAscii s; .value (.bool (!(l = "false" || l = "no" || l = "n")))
    | _ => .fault         -- args[0] of an empty list; `arg.String()` of other kinds is not modelled

/-- `stringValue.Elements()` wrapped by `WrapValues` -/
def stringElements (s : String) : CtorResult Val :=
  if s.toList.all (fun c => c.toNat < 128) then .value (.arr (s.toList.map fun c => .str (String.singleton c)))
  else .reported "NIL_ARRAY_ELEMENT"

/-- `Hash.AsArray()`: the entries as `[key, value]` arrays -/
def hashAsArray (es : List (Val × Val)) : Val := .arr (es.map fun e => .arr [e.1, e.2])

def arrayCtor : Ctor where
  creators := [ { ops := [.param arrayParam, .optional .bool], kind := .fn } ]
  body := fun _ args =>
    match args with
    | .arr vs :: rest =>
      (match rest with
       | a1 :: _ => (match asBool a1 with
          | none => .fault                       -- args[1].(booleanValue)
          | some true => .value (.arr [.arr vs])
          | some false => .value (.arr vs))
       | [] => .value (.arr vs))
    | .hash es :: _ => .value (hashAsArray es)   -- arg.(px.Arrayable).AsArray(); the wrap flag only counts for an array
    | .binary bs :: _ => .value (.arr (bs.map fun b => .int b.toNat))     -- `Binary.AsArray()`
    | .str s :: _ => stringElements s
    | _ => .fault                                 -- arg.(px.Arrayable) of a value that is not; args[0] of an empty list

/-! #### Hash / Struct -/

def isArr : Val → Bool
  | .arr _ => true
  | _ => false

/-- consecutive pairs of a flat array (`EachSlice(2, …)`; the length is even) -/
def pairUp : List Val → List (Val × Val)
  | k :: v :: rest => (k, v) :: pairUp rest
  | _ => []

/-- `[key, value]` arrays; `none` = one of them does not have 2 elements -/
def pairsOf : List Val → Option (List (Val × Val))
  | [] => some []
  | .arr [k, v] :: rest => (pairsOf rest).map ((k, v) :: ·)
  | _ => none

/-- `WrapHashFromArray`: when the element type of the array is an Array type (all elements are arrays) every element must
    be a `[key, value]` pair; otherwise the array is read as `k1, v1, k2, v2, …` -/
def hashFromArray (vs : List Val) : CtorResult Val :=
  if !vs.isEmpty && vs.all isArr then
    match pairsOf vs with
    | some es => .value (.hash es)
    | none => .reported "ILLEGAL_ARGUMENTS"
  else if vs.length % 2 != 0 then .reported "ILLEGAL_ARGUMENTS"
  else .value (.hash (pairUp vs))

def treeArray : Ty := .arr (.tuple [.arr .any 0 none, .any]) 1 none
def keyValueArray : Ty := .arr (.tuple [.any, .any]) 1 none
/-- `Iterable` on the alphabet: arrays, hashes and strings are `px.Indexed` -/
def iterableTy : Ty := .var [.arr .any 0 none, .hash .any .any 0 none, .str 0 none]

/-- the constructor registered for `Hash` and `Struct`.  The first dispatch (tree arrays): with one argument
    `WrapHashFromArray` (the paths become keys), with the option the tree walk of Model/CtorHashTree.lean — which answers
    `UNMODELLED` for a key with a hash inside; `newModel` turns that into "no answer" (the driver refuses the op) -/
def hashCtor : Ctor where
  creators :=
    [ { ops := [.param treeArray, .optional (.enum ["tree", "hash_tree"])], kind := .fn },
      { ops := [.param keyValueArray], kind := .fn },
      { ops := [.param iterableTy], kind := .fn } ]
  body := fun i args =>
    match i, args with
    | 0, [.arr vs] => hashFromArray vs                    -- `if len(args) < 2 { return WrapHashFromArray(args[0].(*Array)) }`
    | 0, .arr vs :: option :: _ => treeBody vs option
    | 1, .arr vs :: _ => hashFromArray vs                 -- WrapHashFromArray(args[0].(*Array))
    | 2, .arr vs :: _ => hashFromArray vs
    | 2, .hash es :: _ => .value (.hash es)
    | 2, .str s :: _ => (match stringElements s with      -- arg.(px.Arrayable).AsArray()
        | .value (.arr vs) => hashFromArray vs
        | other => other)
    | _, _ => .fault

/-- `ctor.Call(c, nil, args...)`: first matching dispatch, then its body -/
def ctorCall (c : Ctor) (args : List Val) : CtorResult Val :=
  match run inst binst c.creators args (none : Option Blk) with
  | .called (.ran i) => c.body i args
  | .called .reported => .reported "ILLEGAL_ARGUMENTS"
  | .builderRejected _ => .fault       -- the registered constructors are accepted by the builder (proved)
  | .resolveFailed _ => .fault

def anyCallable (c : Ctor) (args : List Val) : Bool :=
  match run inst binst c.creators args (none : Option Blk) with
  | .called (.ran _) => true
  | _ => false

/-- `InitType.create`: with init arguments `ia` (`Init[T, ia…]`) the constructor is called with the given arguments followed
    by the init arguments, whatever they are; without, the arguments as given when some signature accepts them, else a
    single array argument is expanded, else the call that provokes the argument error -/
def initCall (c : Ctor) (ia : List Val) (args : List Val) : CtorResult Val :=
  if !ia.isEmpty then ctorCall c (args ++ ia)
  else if anyCallable c args then ctorCall c args
  else match args with
    | [.arr vs] => ctorCall c vs
    | _ => ctorCall c args

end Pcore.Dispatch.Alpha
