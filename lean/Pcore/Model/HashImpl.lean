import Pcore.Model.GoMap
import Pcore.Model.ArrayImpl
/-!
# Model of `types.Hash` / `types.MutableHashValue` (types/hashtype.go, as it is after the `fix:` commits)

A `Hash` is its `entries` slice plus an index `map[px.HashKey]int` that is built on first use and cached on
that value only (`valueIndex()`); derived hashes start without an index.  `key : α → κ` is `px.ToKey`.
Every operation that consults the index therefore returns the receiver too (with the index cached).

| Go (types/hashtype.go)                              | Lean                                   |
|-----------------------------------------------------|----------------------------------------|
| `Hash{entries, index}`                    :31-36    | `Hash`                                 |
| `BuildHash` / `WrapHash` / `WrapHash2`    :594-610  | `Hash.wrap` (no check for equal keys)  |
| `valueIndex`                              :1430     | `buildIndex`, `Hash.valueIndex`        |
| `Delete`                                  :813-820  | `Hash.delete`                          |
| `DeleteAll`                               :822-840  | `Hash.deleteAll`                       |
| `get` / `Get` / `Get2` / `Get4` / `Get5`  :1061-1120| `Hash.get` (`Get4`: `key (str s)` = the raw string, C07) |
| `IncludesKey` / `IncludesKey2`            :1122-1130| `Hash.includesKey`                     |
| `Keys` / `Values` / `Len` / `At` / `Each*`:1140-1150, 806, 854 | `Hash.keys` / `values` / `len` / `atIdx` / `entries` |
| `Merge` / `mergeEntries`                  :1152-1179| `Hash.merge` / `mergeEntries`          |
| `Slice` / `SelectPairs` / `RejectPairs` / `Sort` / `EachSlice` :1189, 932, 1021, 1216, 863 | `Hash.slice` / `selectPairs` / `rejectPairs` / `sort` / `eachSlice` |
| `NewMutableHash` / `PutAll` / `Put`       :1441-1470| `Hash.wrap []` / `Hash.putAll` / `Hash.putM` |
| parser `{k => v, …}` → `BasicCollector.AddHash` → `BuildHash` (types/parser.go:271, basiccollector.go:36) | `Hash.wrap` |
| parser `[k => v, …]` → `convertHashEntries` → `WrapHash` (types/parser.go:356)                           | `Hash.wrap` |

Not modelled: the cached inferred types (`reducedType`, `detailedType`; `PutAll` resets both together with the
index) and `MutableHashValue.freeze` (used by `Hash.new(tree)` only) — they do not influence any query of C09.
`none` results are Go runtime faults (slice index out of range): reachable only when the index disagrees
with the entries.  Core Lean only.
-/
namespace Pcore.Coll
open GoMap

structure Hash (α β κ : Type) where
  entries : List (α × β)
  index : Option (List (κ × Nat))

variable {α β κ : Type} [DecidableEq κ]

/-- `for idx, entry := range hv.entries { result[px.ToKey(entry.key)] = idx }` (a later equal key overwrites) -/
def buildIndexFrom (key : α → κ) : List (α × β) → Nat → List (κ × Nat) → List (κ × Nat)
  | [], _, m => m
  | e :: es, i, m => buildIndexFrom key es (i + 1) (set m (key e.1) i)

def buildIndex (key : α → κ) (es : List (α × β)) : List (κ × Nat) := buildIndexFrom key es 0 []

namespace Hash

/-- `WrapHash`, `BuildHash`: the entries as given — repeated keys are NOT detected -/
def wrap (es : List (α × β)) : Hash α β κ := ⟨es, none⟩

/-- `valueIndex()`: the receiver (index now cached) and the index -/
def valueIndex (key : α → κ) (h : Hash α β κ) : Hash α β κ × List (κ × Nat) :=
  match h.index with
  | some ix => (h, ix)
  | none => let ix := buildIndex key h.entries; ({ h with index := some ix }, ix)

/-- `Delete`: receiver, result (`none` = slice bounds fault).  A missing key returns the receiver itself. -/
def delete (key : α → κ) (h : Hash α β κ) (k : α) : Hash α β κ × Option (Hash α β κ) :=
  let r := h.valueIndex key
  match get r.2 (key k) with
  | some i =>
    if i < h.entries.length then (r.1, some (wrap (h.entries.take i ++ h.entries.drop (i + 1)))) else (r.1, none)
  | none => (r.1, some r.1)

/-- `for idx, entry := range hv.entries { if !deleted[idx] { entries = append(entries, entry) } }` -/
def dropIdx (deleted : List Nat) : List (α × β) → Nat → List (α × β)
  | [], _ => []
  | e :: es, i => if deleted.contains i then dropIdx deleted es (i + 1) else e :: dropIdx deleted es (i + 1)

def deleteAll (key : α → κ) (h : Hash α β κ) (ks : List α) : Hash α β κ × Hash α β κ :=
  let r := h.valueIndex key
  let deleted := ks.filterMap (fun k => get r.2 (key k))
  if deleted.isEmpty then (r.1, r.1) else (r.1, wrap (dropIdx deleted h.entries 0))

/-- the loop of `mergeEntries` over the other hash's entries; `ix` is the RECEIVER's index and is not updated -/
def mergeLoop (key : α → κ) (ix : List (κ × Nat)) : List (α × β) → List (α × β) → Option (List (α × β))
  | all, [] => some all
  | all, e :: es =>
    match get ix (key e.1) with
    | some i => if i < all.length then mergeLoop key ix (all.set i e) es else none
    | none => mergeLoop key ix (all ++ [e]) es

def mergeEntries (key : α → κ) (h : Hash α β κ) (other : List (α × β)) : Hash α β κ × Option (List (α × β)) :=
  let r := h.valueIndex key
  (r.1, mergeLoop key r.2 h.entries other)

def merge (key : α → κ) (h : Hash α β κ) (other : List (α × β)) : Hash α β κ × Option (Hash α β κ) :=
  let r := h.mergeEntries key other
  (r.1, r.2.map wrap)

/-- `MutableHashValue.PutAll`: `hv.entries = hv.mergeEntries(o); hv.index = nil` -/
def putAll (key : α → κ) (h : Hash α β κ) (other : List (α × β)) : Option (Hash α β κ) :=
  (h.mergeEntries key other).2.map wrap

/-- `MutableHashValue.Put` -/
def putM (key : α → κ) (h : Hash α β κ) (k : α) (v : β) : Option (Hash α β κ) := h.putAll key [(k, v)]

/-- `get(key)`: `none` = fault, `some none` = not found -/
def get (key : α → κ) (h : Hash α β κ) (k : κ) : Hash α β κ × Option (Option β) :=
  let r := h.valueIndex key
  match GoMap.get r.2 k with
  | some pos =>
    match h.entries[pos]? with
    | some e => (r.1, some (some e.2))
    | none => (r.1, none)
  | none => (r.1, some none)

def includesKey (key : α → κ) (h : Hash α β κ) (k : κ) : Hash α β κ × Bool :=
  let r := h.valueIndex key
  (r.1, (GoMap.get r.2 k).isSome)

/-- `Slice(i, j)`: `WrapHash(hv.entries[i:j])`; `none` = slice bounds fault (the model allows `j` up to the length) -/
def slice (h : Hash α β κ) (i j : Nat) : Option (Hash α β κ) :=
  if i ≤ j ∧ j ≤ h.entries.length then some (wrap ((h.entries.drop i).take (j - i))) else none

/-- `SelectPairs`: `selected = append(selected, e)` for every entry the predicate accepts -/
def selectPairs (p : α × β → Bool) (h : Hash α β κ) : Hash α β κ :=
  wrap (Arr.rejectLoop (fun e => !p e) h.entries [])

/-- `RejectPairs` -/
def rejectPairs (p : α × β → Bool) (h : Hash α β κ) : Hash α β κ := wrap (Arr.rejectLoop p h.entries [])

/-- `Sort`: `sort.Sort` on a copy of the entries, comparing keys -/
def sort (le : α → α → Bool) (h : Hash α β κ) : Hash α β κ := wrap (h.entries.mergeSort (fun a b => le a.1 b.1))

/-- `EachSlice` -/
def eachSlice (n : Int) (h : Hash α β κ) : Option (List (List (α × β))) := Arr.eachSlice n h.entries

def keys (h : Hash α β κ) : List α := h.entries.map (·.1)
def values (h : Hash α β κ) : List β := h.entries.map (·.2)
def len (h : Hash α β κ) : Nat := h.entries.length
/-- `At(i)`: the entry, or undef -/
def atIdx (h : Hash α β κ) (i : Nat) : Option (α × β) := h.entries[i]?

end Hash
end Pcore.Coll
