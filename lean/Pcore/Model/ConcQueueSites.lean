/-!
# Guarded package-level queues: the escape discipline (second tie of C13, family `queuesites`)

pcore keeps what Go `init()` functions and later callers DECLARE (resolvable types, Go↔type mappings, constructors, Go
functions) in package-level slices guarded by a package-level mutex (`types/types.go`: `resolvableTypes`,
`resolvableMappings`, `constructorsDecls` under `resolvableTypesLock`; `internal/context.go`: `resolvableFunctions` under
`resolvableFunctionsLock`).  `register…` appends under the lock; `PopDeclared…` hands the slice OUT of the critical
section — `internal.resolveResolvables` iterates it after the lock is released — and re-points the guarded variable at a
fresh array.  Every site looks fine alone (the lock is held everywhere); what makes the protocol correct is that the
slice that escaped does not share its backing array with the guarded variable afterwards.

`QueueSite` is one row of the table regenerated from the Go sources by /verif/extract (family `queuesites`): a site that
mentions a guarded package-level slice, what it does with it, the package-level mutexes syntactically held there and —
for a site that lets the slice escape the critical section — what the same critical section leaves in the guarded
variable (`Rebind`).  Core Lean only; the table lives in `Generated/QueueSites.lean`.
-/
namespace Pcore.ConcQueue

inductive SiteKind where
  | append      -- `q = append(q, x…)`
  | escape      -- `local = q`, `return q`: the slice value leaves the critical section
  | fresh       -- `q = make(…)`, `q = nil`, `q = []T{…}`: the variable is re-pointed at a new array
  | reslice     -- `q = q[a:b]`, `q = local[:0]` …: the variable keeps (part of) the array it had
  | read        -- `len(q)`, `cap(q)`, `q[i]`, `range q`, `copy(dst, q)`, `append(other, q...)`
  | write       -- `q[i] = x`
  | unknown     -- anything else (`&q`, `q` passed to a function, a slice expression of `q` used as a value …)
  deriving DecidableEq, Repr

/-- what the critical section of an `escape` site leaves in the guarded variable -/
inductive Rebind where
  | na                  -- not an escape site
  | none                -- nothing: the live slice itself was handed out
  | fresh               -- a new array, unconditionally
  | freshIfNonEmpty     -- a new array under `if len(escaped) > 0`: an EMPTY slice may keep sharing the array (nothing is ever read through it)
  | reslice             -- a re-slicing of the old array (`q = q[:0]`): the escaped slice and the variable share it
  | unknown             -- assigned under some other condition, in a loop, more than once …
  deriving DecidableEq, Repr

structure QueueSite where
  fn : String
  var : String
  kind : SiteKind
  rebind : Rebind
  held : List String                -- package-level mutexes held (Lock … Unlock, `defer Unlock`); "m:r" for RLock
  init : Bool                       -- package-level initialiser or `init()` body itself (runs before any goroutine exists)
  deriving DecidableEq, Repr

/-- the mutex that guards each declaration queue (hand-written; this is what the code is expected to follow) -/
def guardOf (var : String) : Option String :=
  if var = "types.resolvableTypes" then some "resolvableTypesLock"
  else if var = "types.resolvableMappings" then some "resolvableTypesLock"
  else if var = "types.constructorsDecls" then some "resolvableTypesLock"
  else if var = "internal.resolvableFunctions" then some "resolvableFunctionsLock"
  else none                         -- a guarded slice nobody has looked at, and every `unknown: …` row

/-- some site of the table lets `var` escape a critical section -/
def escapes (tbl : List QueueSite) (var : String) : Bool :=
  tbl.any fun s => s.var == var && s.kind == .escape

def rebindOK : Rebind → Bool
  | .fresh | .freshIfNonEmpty => true
  | _ => false

def siteOK (tbl : List QueueSite) (s : QueueSite) : Bool :=
  s.init ||
  match guardOf s.var with
  | none => false
  | some m =>
    s.held.contains m &&
    match s.kind with
    | .append | .fresh | .read | .write => s.rebind == .na
    | .escape => rebindOK s.rebind
    | .reslice => !escapes tbl s.var          -- re-slicing is harmless only while no alias of the array can be outside
    | .unknown => false

def queueSitesOK (tbl : List QueueSite) : Bool := tbl.all (siteOK tbl)

/-- the executable converse: the first site that breaks the discipline (what the `queuerace` line reports) -/
def siteOffender (tbl : List QueueSite) : Option QueueSite := tbl.find? fun s => !siteOK tbl s

/-- what `Pop…` leaves in the guarded variable -/
inductive Variant where
  | fresh       -- a new array (when the popped slice is not empty): the code as it is
  | reslice     -- `q = q[:0]`: same backing array
  | keep        -- nothing: the queue is never emptied
  deriving DecidableEq, Repr

/-- the variant of the model that the table describes for `var`: `fresh` only when EVERY escape site re-points the
    variable at a new array and no site re-slices it -/
def variantOf (tbl : List QueueSite) (var : String) : Variant :=
  let mine := tbl.filter fun s => s.var == var && !s.init
  if mine.any (fun s => s.kind == .reslice || s.rebind == .reslice) && escapes tbl var then .reslice
  else if mine.all fun s => s.kind != .escape || rebindOK s.rebind then .fresh
  else .keep

end Pcore.ConcQueue
